/-
  Executable runs of the Future model: a list of events (calls, thread actions with their hints,
  clock ticks) applied to a state.  Every successful run is a path of `Step`, so concrete runs give
  concrete reachable states (non-vacuity examples, counterexample witnesses).  Core Lean only.
-/
import Babylon.Future.Model
import Babylon.Core.Reach

namespace Babylon.Future
open Babylon.Core Babylon.Gen.Future

inductive Ev
  | set (t v : Nat)
  | down (t d : Nat)
  | get (t : Nat)
  | waitFor (t : Nat) (tau : Int)
  | reg (t id : Nat)
  | ready (t : Nat)
  | act (t : Nat) (h : Hint)
  | tick (d : Nat)

def applyEv (s : State) : Ev → Option State
  | .set t v => if s.pc t = .idle ∧ s.latch = false ∧ s.setCalled = false then some (callSet s t v) else none
  | .down t d => if s.pc t = .idle ∧ s.latch = true ∧ 1 ≤ d ∧ d ≤ s.budget then some (callDown s t d) else none
  | .get t => if s.pc t = .idle then some (callGet s t) else none
  | .waitFor t tau => if s.pc t = .idle ∧ -2 ^ 63 ≤ tau ∧ tau < 2 ^ 63 then some (callWaitFor s t tau) else none
  | .reg t id => if s.pc t = .idle ∧ s.regStarted id = false then some (callReg s t id) else none
  | .ready t => if s.pc t = .idle then some (callReady s t) else none
  | .act t h => (stepThread (fun _ => 0) s t h).map (·.1)
  | .tick d => some { s with now := s.now + d }

theorem applyEv_step {s s' : State} {e : Ev} (h : applyEv s e = some s') : Step s s' := by
  cases e with
  | set t v => simp only [applyEv] at h; split at h <;> simp at h; subst h; rename_i hc; exact Step.set s t v hc.1 hc.2.1 hc.2.2
  | down t d => simp only [applyEv] at h; split at h <;> simp at h; subst h; rename_i hc; exact Step.down s t d hc.1 hc.2.1 hc.2.2.1 hc.2.2.2
  | get t => simp only [applyEv] at h; split at h <;> simp at h; subst h; rename_i hc; exact Step.get s t hc
  | waitFor t tau => simp only [applyEv] at h; split at h <;> simp at h; subst h; rename_i hc; exact Step.waitFor s t tau hc.1 hc.2.1 hc.2.2
  | reg t id => simp only [applyEv] at h; split at h <;> simp at h; subst h; rename_i hc; exact Step.reg s t id hc.1 hc.2
  | ready t => simp only [applyEv] at h; split at h <;> simp at h; subst h; rename_i hc; exact Step.ready s t hc
  | act t hint =>
    simp only [applyEv, Option.map_eq_some_iff] at h
    obtain ⟨⟨s'', l⟩, h1, h2⟩ := h
    simp only at h2; subst h2
    exact Step.act s _ t hint s'' l h1
  | tick d => simp only [applyEv, Option.some.injEq] at h; subst h; exact Step.tick s d

def runEvs : State → List Ev → Option State
  | s, [] => some s
  | s, e :: es => (applyEv s e).bind (fun s' => runEvs s' es)

theorem runEvs_reach {s : State} (hr : Reachable Init Step s) (es : List Ev) {s' : State}
    (h : runEvs s es = some s') : Reachable Init Step s' := by
  induction es generalizing s with
  | nil => simp only [runEvs, Option.some.injEq] at h; subst h; exact hr
  | cons e es ih =>
    simp only [runEvs, Option.bind_eq_some_iff] at h
    obtain ⟨s1, h1, h2⟩ := h
    exact ih (Reachable.tail hr (applyEv_step h1)) h2

theorem init_reach (n : Option Nat) (hn : ∀ k, n = some k → k < 2 ^ 64) : Reachable Init Step (State.init n) :=
  Reachable.base ⟨n, hn, rfl⟩

end Babylon.Future
