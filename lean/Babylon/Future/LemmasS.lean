/-
  Stages of the (unique) setter: constructor, seal, READY exchange, wake, callbacks.
-/
import Babylon.Future.Lemmas

namespace Babylon.Future
open Babylon.Core Babylon.Gen.Future

structure InvS (s : State) : Prop where
  cons_le : s.constructs ≤ 1
  seals_le : s.seals ≤ s.constructs
  xchg_seal : s.xchgDone = true → s.seals = 1
  storage_none : s.constructs = 0 → s.storage = none
  storage_some : s.constructs = 1 → s.storage = s.setVal ∧ s.setVal.isSome = true
  head_none : s.head = none ↔ s.seals = 1
  none_fired : s.firer = none → s.constructs = 0
  latch_val : s.latch = true → s.setVal = some latchValue
  at_p0 : ∀ t v, s.pc t = .p0 v → s.constructs = 0 ∧ s.setVal = some v
  at_s0 : ∀ t v, s.pc t = .s0 v → s.constructs = 0 ∧ s.setVal = some v
  at_s1 : ∀ t, s.pc t = .s1 → s.constructs = 1 ∧ s.seals = 0
  at_s2 : ∀ t d, s.pc t = .s2 d → s.seals = 1 ∧ s.xchgDone = false ∧ d = s.det
  at_s3 : ∀ t d, s.pc t = .s3 d → s.xchgDone = true ∧ d = s.det
  at_s4 : ∀ t d, s.pc t = .s4 d → s.xchgDone = true ∧ d = s.det
  done : s.setDone = true → s.xchgDone = true ∧ s.firer.isSome = true ∧ s.det = [] ∧ ∀ t, inSet (s.pc t) = false
  open_det : s.seals = 0 → s.det = []

theorem InvS.init (n : Option Nat) : InvS (State.init n) := by
  constructor <;> intros <;> (cases n <;> simp_all [State.init] <;> try grind)

/-- a step of a thread outside the set path that leaves the setter's bookkeeping alone -/
theorem InvS.frame {s s' : State} (hi : InvS s) (t : Nat) (p' : Pc)
    (hpc : s'.pc = upd s.pc t p') (hp' : inSet p' = false) (_hold : inSet (s.pc t) = false)
    (h1 : s'.constructs = s.constructs) (h2 : s'.seals = s.seals) (h3 : s'.xchgDone = s.xchgDone)
    (h4 : s'.storage = s.storage) (h5 : s'.setVal = s.setVal) (h6 : s'.head = none ↔ s.head = none)
    (h7 : s'.firer = s.firer) (h8 : s'.latch = s.latch) (h9 : s'.setDone = s.setDone) (h10 : s'.det = s.det) : InvS s' := by
  obtain ⟨cons_le, seals_le, xchg_seal, storage_none, storage_some, head_none, none_fired, latch_val, at_p0, at_s0, at_s1, at_s2, at_s3, at_s4, done, open_det⟩ := hi
  constructor <;> intros <;> simp only [hpc, h1, h2, h3, h4, h5, h6, h7, h8, h9, h10] at * <;> grind [upd_apply, inSet]

set_option maxHeartbeats 2000000 in
theorem InvS.step {s s' : State} (h : Step s s') (hP : InvP s) (hi : InvS s) : InvS s' := by
  have hi' := hi
  obtain ⟨cons_le, seals_le, xchg_seal, storage_none, storage_some, head_none, none_fired, latch_val, at_p0, at_s0, at_s1, at_s2, at_s3, at_s4, done, open_det⟩ := hi
  have hP' := hP
  obtain ⟨ho, hp, noPend, c0_pend, pend_c0, pend_nodup, count_eq, count_lt, fired, zero⟩ := hP
  cases h with
  | act addr t h x l hst =>
    cases hpc : s.pc t <;> simp only [stepThread, waitLoop, hpc] at hst
    case c0 d =>
      obtain ⟨hnf, hl, hd1, hdc, hnew⟩ := hP'.c0_facts hpc
      have hc0 := none_fired hnf
      rw [hnew] at hst
      split at hst <;> simp only [Option.some.injEq, Prod.mk.injEq] at hst <;> obtain ⟨rfl, rfl⟩ := hst
      all_goals (have hot := ho t; constructor <;> intros <;> (try dsimp only at *) <;> first | assumption | grind [upd_apply, inSet])
    all_goals (try split at hst)
    all_goals (try split at hst)
    all_goals (try split at hst)
    all_goals (try simp only [Option.some.injEq, Prod.mk.injEq, reduceCtorEq] at hst)
    all_goals (try (obtain ⟨rfl, rfl⟩ := hst))
    all_goals (first
      | (refine InvS.frame hi' t _ rfl ?_ ?_ rfl rfl rfl rfl rfl ?_ rfl rfl rfl rfl <;> (simp [hpc, inSet]; done))
      | (exfalso; assumption)
      | (have hot := ho t; constructor <;> intros <;> (try dsimp only at *) <;> first | assumption | grind [upd_apply, inSet]))
  | tick d => constructor <;> intros <;> (try dsimp only at *) <;> first | assumption | grind
  | set t v hidle hl hsc =>
    have hnf := hp hl hsc
    have hc0 := none_fired hnf
    constructor <;> intros <;> (try dsimp only [callSet] at *) <;> first | assumption | grind [upd_apply, inSet]
  | down t d hidle hl h1 hb =>
    refine InvS.frame hi' t _ rfl ?_ ?_ rfl rfl rfl rfl rfl Iff.rfl rfl rfl rfl rfl <;> simp [hidle, inSet]
  | get t hidle => refine InvS.frame hi' t _ rfl ?_ ?_ rfl rfl rfl rfl rfl Iff.rfl rfl rfl rfl rfl <;> simp [hidle, inSet]
  | waitFor t tau hidle h1 h2 => refine InvS.frame hi' t _ rfl ?_ ?_ rfl rfl rfl rfl rfl Iff.rfl rfl rfl rfl rfl <;> simp [hidle, inSet]
  | reg t id hidle hs => refine InvS.frame hi' t _ rfl ?_ ?_ rfl rfl rfl rfl rfl Iff.rfl rfl rfl rfl rfl <;> simp [hidle, inSet]
  | ready t hidle => refine InvS.frame hi' t _ rfl ?_ ?_ rfl rfl rfl rfl rfl Iff.rfl rfl rfl rfl rfl <;> simp [hidle, inSet]

theorem InvS.reach {s : State} (h : Reachable Init Step s) : InvS s := by
  induction h with
  | base hi => obtain ⟨n, hn, rfl⟩ := hi; exact InvS.init n
  | tail hr hst ih => exact InvS.step hst (InvP.reach hr) ih

/-- the thread that entered the set path is still inside it, or `set_value` has returned -/
def InvL (s : State) : Prop := ∀ t, s.firer = some t → inSet (s.pc t) = true ∨ s.setDone = true

set_option maxHeartbeats 2000000 in
theorem InvL.step {s s' : State} (h : Step s s') (hP : InvP s) (hS : InvS s) (hi : InvL s) : InvL s' := by
  have hP' := hP
  obtain ⟨cons_le, seals_le, xchg_seal, storage_none, storage_some, head_none, none_fired, latch_val, at_p0, at_s0, at_s1, at_s2, at_s3, at_s4, done, open_det⟩ := hS
  obtain ⟨ho, hp, noPend, c0_pend, pend_c0, pend_nodup, count_eq, count_lt, fired, zero⟩ := hP
  cases h with
  | act addr t h x l hst =>
    cases hpc : s.pc t <;> simp only [stepThread, waitLoop, hpc] at hst
    all_goals (try split at hst)
    all_goals (try split at hst)
    all_goals (try split at hst)
    all_goals (try simp only [Option.some.injEq, Prod.mk.injEq, reduceCtorEq] at hst)
    all_goals (try (obtain ⟨rfl, rfl⟩ := hst))
    all_goals (try (exfalso; assumption))
    all_goals (have hot := ho t; have hc0f : ∀ d, s.pc t = .c0 d → s.firer = none := fun d h => (hP'.c0_facts h).1)
    all_goals (intro u hu; dsimp only at hu ⊢; have hiu := hi u; grind [upd_apply, inSet])
  | tick d => exact hi
  | set t v hidle hl hsc =>
    intro u hu; simp only [callSet] at hu ⊢; have hiu := hi u; grind [upd_apply, inSet]
  | down t d hidle hl h1 hb => intro u hu; simp only [callDown] at hu ⊢; have hiu := hi u; have hot := ho t; grind [upd_apply, inSet]
  | get t hidle => intro u hu; simp only [callGet] at hu ⊢; have hiu := hi u; have hot := ho t; grind [upd_apply, inSet]
  | waitFor t tau hidle h1 h2 => intro u hu; simp only [callWaitFor] at hu ⊢; have hiu := hi u; have hot := ho t; grind [upd_apply, inSet]
  | reg t id hidle hs => intro u hu; simp only [callReg] at hu ⊢; have hiu := hi u; have hot := ho t; grind [upd_apply, inSet]
  | ready t hidle => intro u hu; simp only [callReady] at hu ⊢; have hiu := hi u; have hot := ho t; grind [upd_apply, inSet]

theorem InvL.reach {s : State} (h : Reachable Init Step s) : InvL s := by
  induction h with
  | base hi =>
    obtain ⟨n, hn, rfl⟩ := hi
    intro t ht
    cases n with
    | none => simp [State.init] at ht
    | some k => simp only [State.init] at ht ⊢; grind [inSet]
  | tail hr hst ih => exact InvL.step hst (InvP.reach hr) (InvS.reach hr) ih

end Babylon.Future

