/-
  Invariant of the view-level publication model (`ViewModel.lean`): in every execution of the
  release/acquire view model — stale reads included — a thread that is about to read the value
  storage has a view that contains the setter's write.
-/
import Babylon.Future.ViewModel
import Babylon.Core.Reach

namespace Babylon.Future.ViewM
open Babylon.Core Babylon.Core.MemView Babylon.Gen.Future
open Babylon.Future (hasReady)

/-- thread `t`'s view contains the write of the value -/
def K (m : Mem Loc) (t : Nat) : Prop := 1 ≤ (m.tv t).cur.get .value
/-- the message carries a view that contains the write of the value -/
def Carries (mg : Msg Loc) : Prop := 1 ≤ mg.view.get .value
/-- `x` stored in `l` tells a reader "the value is there" -/
def Pub (l : Loc) (x : Nat) : Prop := (l = .head ∧ x = sealedHead) ∨ (l = .futex ∧ hasReady x = true)

theorem hasReady_or_one (x : Nat) : hasReady (x ||| 1) = hasReady x := by
  have h : readyMask = 2 ^ 31 := by decide
  simp only [hasReady, h, ← Nat.testBit_eq_decide_div_mod_eq, Nat.testBit_or]
  have : Nat.testBit 1 31 = false := by decide
  simp [this]

structure MInv (m : Mem Loc) (wrote : Bool) (setv : Option Nat) : Prop where
  val0 : wrote = false → (m.hist .value).length = 1
  val1 : wrote = true → ∃ m0 v W, setv = some v ∧ m.hist .value = [m0, ⟨v, W⟩]
  pub : ∀ (l : Loc) (ts : Nat) (mg : Msg Loc), (m.hist l)[ts]? = some mg → Pub l mg.val → Carries mg

theorem MInv.of_hist {m m' : Mem Loc} {w : Bool} {sv : Option Nat} (hi : MInv m w sv) (h : m'.hist = m.hist) :
    MInv m' w sv := ⟨by rw [h]; exact hi.val0, by rw [h]; exact hi.val1, by rw [h]; exact hi.pub⟩

/-- a load of `_head` / `_futex` -/
theorem L_read {m m' : Mem Loc} {t : Nat} {l : Loc} {o : Ord} {ts x : Nat} {w : Bool} {sv : Option Nat}
    (h : m.read t l o ts = some (m', x)) (hi : MInv m w sv) :
    MInv m' w sv ∧ (∀ t', K m t' → K m' t') ∧ (o.acquires = true → Pub l x → K m' t) := by
  obtain ⟨msg, hm, hv, _, rfl⟩ := Mem.read_spec h
  refine ⟨hi.of_hist rfl, ?_, ?_⟩
  · intro t' hk
    unfold K at hk ⊢
    by_cases e : t' = t
    · subst e
      simp only [MemView.upd_same]
      exact Nat.le_trans hk (TView.read_cur_le _ _ _ _ _ _)
    · simpa [MemView.upd_other _ _ _ _ e] using hk
  · intro ha hp
    unfold K
    simp only [MemView.upd_same]
    have hc : Carries msg := hi.pub l ts msg hm (hv ▸ hp)
    exact Nat.le_trans hc (TView.read_acquires _ _ _ _ _ ha _)

/-- an RMW on `_head` / `_futex`: if the new value says "the value is there", either the RMW is a
release by a thread that knows the value, or the message it replaces already said so -/
theorem L_rmw {m m' : Mem Loc} {t : Nat} {l : Loc} {o : Ord} {f : Nat → Nat} {old : Nat} {w : Bool} {sv : Option Nat}
    (h : m.rmw t l o f = some (m', old)) (hl : l ≠ .value) (hi : MInv m w sv)
    (hnew : Pub l (f old) → (o.releases = true ∧ K m t) ∨ Pub l old) :
    MInv m' w sv ∧ (∀ t', K m t' → K m' t') ∧ (o.acquires = true → Pub l old → K m' t) := by
  obtain ⟨msg, W, hlast, hold, hh, hho, htv, hmW, hrel, hcur, _, _, _, hmcur, _, _⟩ := Mem.rmw_facts h
  have hget : (m.hist l)[m.len l - 1]? = some msg := getLast?_getElem? _ _ hlast
  have hcm : Pub l old → Carries msg := fun hp => hi.pub l _ msg hget (hold ▸ hp)
  refine ⟨⟨?_, ?_, ?_⟩, ?_, ?_⟩
  · rw [hho .value (Ne.symm hl)]; exact hi.val0
  · rw [hho .value (Ne.symm hl)]; exact hi.val1
  · intro l' ts mg hmg hp
    by_cases e : l' = l
    · subst e
      rw [hh] at hmg
      by_cases hlt : ts < (m.hist l').length
      · rw [List.getElem?_append_left hlt] at hmg
        exact hi.pub l' ts mg hmg hp
      · have hge : (m.hist l').length ≤ ts := Nat.le_of_not_lt hlt
        rw [List.getElem?_append_right hge] at hmg
        have : ts - (m.hist l').length = 0 := by
          rcases Nat.eq_zero_or_pos (ts - (m.hist l').length) with h0 | h0
          · exact h0
          · rw [List.getElem?_eq_none (by simp; omega)] at hmg; cases hmg
        rw [this] at hmg
        simp only [List.getElem?_cons_zero, Option.some.injEq] at hmg
        subst hmg
        simp only at hp ⊢
        rw [← hold] at hp
        rcases hnew hp with ⟨hr, hk⟩ | hp'
        · exact Nat.le_trans hk (hrel hr _)
        · exact Nat.le_trans (hcm hp') (hmW _)
    · rw [hho l' e] at hmg
      exact hi.pub l' ts mg hmg hp
  · intro t' hk
    unfold K at hk ⊢
    by_cases e : t' = t
    · subst e; exact Nat.le_trans hk (hcur _)
    · rw [htv t' e]; exact hk
  · intro ha hp
    exact Nat.le_trans (hcm hp) (hmcur ha _)

/-- the plain write of the value -/
theorem L_write {m : Mem Loc} {t v : Nat} {sv : Option Nat} (hi : MInv m false sv) :
    MInv (m.write t .value .rlx v) true (some v) ∧ (∀ t', K m t' → K (m.write t .value .rlx v) t') ∧
      K (m.write t .value .rlx v) t := by
  have hlen : m.len .value = 1 := hi.val0 rfl
  refine ⟨⟨fun h => (by cases h), fun _ => ?_, ?_⟩, ?_, ?_⟩
  · rw [Mem.write_hist_same]
    match hh : m.hist .value, (show (m.hist .value).length = 1 from hlen) with
    | [m0], _ => exact ⟨m0, v, _, rfl, rfl⟩
  · intro l ts mg hmg hp
    have hl : l ≠ .value := by
      rcases hp with ⟨e, _⟩ | ⟨e, _⟩ <;> (rw [e]; decide)
    rw [Mem.write_hist_other _ _ _ _ _ _ hl] at hmg
    exact hi.pub l ts mg hmg hp
  · intro t' hk
    unfold K at hk ⊢
    by_cases e : t' = t
    · subst e
      rw [Mem.write_tv_same]
      simp only [TView.wrote, View.get_bump, if_true]
      omega
    · rw [Mem.write_tv_other _ _ _ _ _ _ e]; exact hk
  · unfold K
    rw [Mem.write_tv_same]
    simp only [TView.wrote, View.get_bump, if_true, hlen]
    omega

/-- a read of the value by a thread whose view contains the write returns the written value -/
theorem L_readv {m m' : Mem Loc} {t ts x : Nat} {w : Bool} {sv : Option Nat}
    (h : m.read t .value .rlx ts = some (m', x)) (hi : MInv m w sv) (hk : K m t) :
    sv = some x ∧ 1 ≤ ts ∧ MInv m' w sv ∧ (∀ t', K m t' → K m' t') := by
  obtain ⟨hi', hmono, _⟩ := L_read h hi
  obtain ⟨msg, hm, hv, hle, _⟩ := Mem.read_spec h
  have hts : 1 ≤ ts := Nat.le_trans hk hle
  refine ⟨?_, hts, hi', hmono⟩
  cases w with
  | false =>
    have := hi.val0 rfl
    rw [List.getElem?_eq_none (by omega)] at hm; cases hm
  | true =>
    obtain ⟨m0, v, W, hsv, hh⟩ := hi.val1 rfl
    rw [hh] at hm
    match ts, hts with
    | 1, _ => simp at hm; subst hm; rw [hsv, hv]
    | n + 2, _ => simp at hm

/-! ### the state invariant -/

theorem pc_upd_cases {α : Type} (f : Nat → α) (t : Nat) (p' : α) (t' : Nat) :
    (t' = t ∧ Babylon.Future.upd f t p' t' = p') ∨ (t' ≠ t ∧ Babylon.Future.upd f t p' t' = f t') := by
  by_cases e : t' = t
  · subst e; exact .inl ⟨rfl, by simp [Babylon.Future.upd]⟩
  · exact .inr ⟨e, by simp [Babylon.Future.upd, e]⟩


def knows : VPc → Bool
  | .s1 | .s2 | .s3 | .gR => true
  | _ => false
def setterPc : VPc → Bool
  | .s0 _ | .s1 | .s2 | .s3 => true
  | _ => false

/-- the node a registration in progress is about to push -/
def regNodeOf : VPc → Option Nat
  | .r0 n => some n
  | .r1 n _ => some n
  | _ => none

structure VInv (s : VState) : Prop where
  minv : MInv s.m s.wrote s.setv
  know : ∀ t, knows (s.pc t) = true → K s.m t
  own : ∀ t, setterPc (s.pc t) = true → s.setter = some t
  ats0 : ∀ t v, s.pc t = .s0 v → s.wrote = false ∧ s.setv = some v
  done : ∀ t x, s.pc t = .done x → s.setv = some x
  nos : s.setter = none → s.wrote = false ∧ s.setv = none
  regNode : ∀ t n, regNodeOf (s.pc t) = some n → n ≠ sealedHead

theorem VInv.init (iv : Nat) : VInv (VState.init iv) := by
  refine ⟨⟨fun _ => rfl, fun h => (by cases h), ?_⟩, fun t h => (by cases h), fun t h => (by cases h),
    fun t v h => (by cases h), fun t x h => (by cases h), fun _ => ⟨rfl, rfl⟩, fun t n h => (by cases h)⟩
  intro l ts mg hmg hp
  exfalso
  simp only [VState.init, Mem.init] at hmg
  match ts with
  | 0 =>
    simp only [List.getElem?_cons_zero, Option.some.injEq] at hmg
    subst hmg
    rcases hp with ⟨rfl, h⟩ | ⟨rfl, h⟩
    · simp only at h; revert h; decide
    · simp only at h; revert h; decide
  | n + 1 => simp at hmg

/-- bookkeeping shared by every step that leaves `wrote` / `setter` / `setv` alone -/
theorem VInv.upd_pc {s : VState} (hi : VInv s) (t : Nat) (p' : VPc) (m' : Mem Loc)
    (hm : MInv m' s.wrote s.setv) (hmono : ∀ t', K s.m t' → K m' t')
    (hk : knows p' = true → K m' t)
    (hs : setterPc p' = true → setterPc (s.pc t) = true)
    (h0 : ∀ v, p' ≠ .s0 v)
    (hd : ∀ x, p' = .done x → s.setv = some x)
    (hn : ∀ n, regNodeOf p' = some n → n ≠ sealedHead) :
    VInv { s with m := m', pc := Babylon.Future.upd s.pc t p' } := by
  obtain ⟨minv, know, own, ats0, done, nos, regNode⟩ := hi
  refine ⟨hm, ?_, ?_, ?_, ?_, nos, ?_⟩
  rotate_right
  · intro t' n h
    dsimp only at h ⊢
    rcases pc_upd_cases s.pc t p' t' with ⟨rfl, e⟩ | ⟨_, e⟩ <;> rw [e] at h
    · exact hn n h
    · exact regNode t' n h
  · intro t' h
    dsimp only at h ⊢
    rcases pc_upd_cases s.pc t p' t' with ⟨rfl, e⟩ | ⟨_, e⟩ <;> rw [e] at h
    · exact hk h
    · exact hmono t' (know t' h)
  · intro t' h
    dsimp only at h ⊢
    rcases pc_upd_cases s.pc t p' t' with ⟨rfl, e⟩ | ⟨_, e⟩ <;> rw [e] at h
    · exact own t' (hs h)
    · exact own t' h
  · intro t' v h
    dsimp only at h ⊢
    rcases pc_upd_cases s.pc t p' t' with ⟨rfl, e⟩ | ⟨_, e⟩ <;> rw [e] at h
    · exact absurd h (h0 v)
    · exact ats0 t' v h
  · intro t' x h
    dsimp only at h ⊢
    rcases pc_upd_cases s.pc t p' t' with ⟨rfl, e⟩ | ⟨_, e⟩ <;> rw [e] at h
    · exact hd x h
    · exact done t' x h

/-- a call by an idle thread (memory untouched) -/
theorem VInv.call {s : VState} (hi : VInv s) (t : Nat) (p' : VPc) (_hidle : s.pc t = .idle)
    (hk : knows p' = false) (hs : setterPc p' = false) (hd : ∀ x, p' ≠ .done x)
    (hn : ∀ n, regNodeOf p' = some n → n ≠ sealedHead) :
    VInv { s with pc := Babylon.Future.upd s.pc t p' } :=
  hi.upd_pc t p' s.m hi.minv (fun _ h => h) (fun h => by rw [hk] at h; cases h)
    (fun h => by rw [hs] at h; cases h) (fun v e => by subst e; cases hs) (fun x e => absurd e (hd x)) hn

theorem VInv.step {o : Ords} (hg : o.Good) {s s' : VState} {ev : VEv} (hi : VInv s) (h : exec o s ev = some s') :
    VInv s' := by
  obtain ⟨gSeal, gXchg, gGet, gWRmw, gWLoad, gFLoad, gFRmw, gFSlow, gReady, gReg, gFail⟩ := hg
  cases ev with
  | set t v =>
    simp only [exec] at h
    split at h
    · rename_i hc
      cases h
      obtain ⟨minv, know, own, ats0, done, nos, regNode⟩ := hi
      have hnos : ∀ t', setterPc (s.pc t') = false := fun t' => by
        cases hsp : setterPc (s.pc t')
        · rfl
        · have := own t' hsp; rw [hc.2] at this; cases this
      obtain ⟨hw, hsv⟩ := nos hc.2
      refine ⟨⟨fun _ => minv.val0 hw, fun h => ?_, minv.pub⟩, ?_, ?_, ?_, ?_, fun h => (by cases h), ?_⟩
      rotate_right
      · intro t' n h
        dsimp only at h ⊢
        rcases pc_upd_cases s.pc t (.s0 v) t' with ⟨rfl, e⟩ | ⟨_, e⟩ <;> rw [e] at h
        · cases h
        · exact regNode t' n h
      · simp only at h; rw [hw] at h; cases h
      · intro t' h
        dsimp only at h ⊢
        rcases pc_upd_cases s.pc t (.s0 v) t' with ⟨rfl, e⟩ | ⟨_, e⟩ <;> rw [e] at h
        · cases h
        · exact know t' h
      · intro t' h
        dsimp only at h ⊢
        rcases pc_upd_cases s.pc t (.s0 v) t' with ⟨rfl, e⟩ | ⟨_, e⟩
        · rfl
        · rw [e, hnos t'] at h; cases h
      · intro t' v' h
        dsimp only at h ⊢
        rcases pc_upd_cases s.pc t (.s0 v) t' with ⟨rfl, e⟩ | ⟨_, e⟩ <;> rw [e] at h
        · cases h; exact ⟨hw, rfl⟩
        · have := hnos t'; rw [h] at this; cases this
      · intro t' x h
        dsimp only at h ⊢
        rcases pc_upd_cases s.pc t (.s0 v) t' with ⟨rfl, e⟩ | ⟨_, e⟩ <;> rw [e] at h
        · cases h
        · have := done t' x h; rw [hsv] at this; cases this
    · cases h
  | get t k =>
    simp only [exec] at h
    split at h
    · rename_i hc; cases h; exact hi.call t _ hc rfl rfl (fun x e => by cases e) (fun n e => by cases e)
    · cases h
  | ready t =>
    simp only [exec] at h
    split at h
    · rename_i hc; cases h; exact hi.call t _ hc rfl rfl (fun x e => by cases e) (fun n e => by cases e)
    · cases h
  | reg t node =>
    simp only [exec] at h
    split at h
    · rename_i hc; cases h; exact hi.call t _ hc.1 rfl rfl (fun x e => by cases e) (fun n e => by cases e; exact hc.2)
    · cases h
  | act t ts =>
    have nn : ∀ n : Nat, (none : Option Nat) = some n → n ≠ sealedHead := fun n e => by cases e
    have pubF : ∀ x, hasReady x = true → Pub .futex x := fun x hx => .inr ⟨rfl, hx⟩
    have pubH : Pub .head sealedHead := .inl ⟨rfl, rfl⟩
    have firstAcq : ∀ k, (o.firstLoad k).acquires = true := fun k => by cases k <;> assumption
    have rmwAcq : ∀ k, (o.rmw k).acquires = true := fun k => by cases k <;> assumption
    have loopAcq : ∀ k, (o.loopLoad k).acquires = true := fun k => by cases k <;> assumption
    simp only [exec] at h
    cases hpc : s.pc t <;> simp only [hpc] at h
    case idle => cases h
    case done x => cases h
    case s0 v =>
      cases h
      obtain ⟨hw, hsv⟩ := hi.ats0 t v hpc
      have hm0 : MInv s.m false s.setv := hw ▸ hi.minv
      obtain ⟨hm', hmono, hkt⟩ := L_write (t := t) (v := v) hm0
      have hset : s.setter = some t := hi.own t (by simp [hpc, setterPc])
      obtain ⟨minv, know, own, ats0, done, nos, regNode⟩ := hi
      refine ⟨hsv ▸ hm', ?_, ?_, ?_, ?_, fun h => (by rw [hset] at h; cases h), ?_⟩
      · intro t' h
        dsimp only at h ⊢
        rcases pc_upd_cases s.pc t .s1 t' with ⟨rfl, e⟩ | ⟨_, e⟩ <;> rw [e] at h
        · exact hkt
        · exact hmono t' (know t' h)
      · intro t' h
        dsimp only at h ⊢
        rcases pc_upd_cases s.pc t .s1 t' with ⟨rfl, e⟩ | ⟨_, e⟩
        · exact hset
        · rw [e] at h; exact own t' h
      · intro t' v' h
        dsimp only at h ⊢
        rcases pc_upd_cases s.pc t .s1 t' with ⟨rfl, e⟩ | ⟨hne, e⟩ <;> rw [e] at h
        · cases h
        · have := own t' (by simp [h, setterPc]); rw [hset] at this; cases this; exact absurd rfl hne
      · intro t' x h
        dsimp only at h ⊢
        rcases pc_upd_cases s.pc t .s1 t' with ⟨rfl, e⟩ | ⟨_, e⟩ <;> rw [e] at h
        · cases h
        · exact done t' x h
      · intro t' n h
        dsimp only at h ⊢
        rcases pc_upd_cases s.pc t .s1 t' with ⟨rfl, e⟩ | ⟨_, e⟩ <;> rw [e] at h
        · cases h
        · exact regNode t' n h
    case s1 =>
      split at h
      · rename_i m' old hr
        cases h
        have hk := hi.know t (by simp [hpc, knows])
        obtain ⟨hm', hmono, _⟩ := L_rmw hr (by decide) hi.minv (fun _ => .inl ⟨gSeal, hk⟩)
        exact hi.upd_pc t .s2 m' hm' hmono (fun _ => hmono t hk) (fun _ => by simp [hpc, setterPc])
          (fun v e => by cases e) (fun x e => by cases e) nn
      · cases h
    case s2 =>
      split at h
      · rename_i m' old hr
        cases h
        have hk := hi.know t (by simp [hpc, knows])
        obtain ⟨hm', hmono, _⟩ := L_rmw hr (by decide) hi.minv (fun _ => .inl ⟨gXchg, hk⟩)
        exact hi.upd_pc t .s3 m' hm' hmono (fun _ => hmono t hk) (fun _ => by simp [hpc, setterPc])
          (fun v e => by cases e) (fun x e => by cases e) nn
      · cases h
    case s3 =>
      split at h
      · rename_i m' x hr
        cases h
        have hk := hi.know t (by simp [hpc, knows])
        obtain ⟨hsv, _, hm', hmono⟩ := L_readv hr hi.minv hk
        exact hi.upd_pc t (.done x) m' hm' hmono (fun h => by cases h) (fun h => by cases h)
          (fun v e => by cases e) (fun y e => by cases e; exact hsv) nn
      · cases h
    case gR =>
      split at h
      · rename_i m' x hr
        cases h
        have hk := hi.know t (by simp [hpc, knows])
        obtain ⟨hsv, _, hm', hmono⟩ := L_readv hr hi.minv hk
        exact hi.upd_pc t (.done x) m' hm' hmono (fun h => by cases h) (fun h => by cases h)
          (fun v e => by cases e) (fun y e => by cases e; exact hsv) nn
      · cases h
    case g0 k =>
      split at h
      · rename_i m' x hr
        cases h
        obtain ⟨hm', hmono, hacq⟩ := L_read hr hi.minv
        by_cases hx : hasReady x = true
        · simp only [hx, if_true]
          exact hi.upd_pc t .gR m' hm' hmono (fun _ => hacq (firstAcq k) (pubF x hx)) (fun h => by cases h)
            (fun v e => by cases e) (fun y e => by cases e) nn
        · simp only [hx, if_false]
          exact hi.upd_pc t (.gw0 k) m' hm' hmono (fun h => by cases h) (fun h => by cases h)
            (fun v e => by cases e) (fun y e => by cases e) nn
      · cases h
    case gw2 k =>
      split at h
      · rename_i m' x hr
        cases h
        obtain ⟨hm', hmono, hacq⟩ := L_read hr hi.minv
        by_cases hx : hasReady x = true
        · simp only [hx, if_true]
          exact hi.upd_pc t .gR m' hm' hmono (fun _ => hacq (loopAcq k) (pubF x hx)) (fun h => by cases h)
            (fun v e => by cases e) (fun y e => by cases e) nn
        · simp only [hx, if_false]
          exact hi.upd_pc t (.gw2 k) m' hm' hmono (fun h => by cases h) (fun h => by cases h)
            (fun v e => by cases e) (fun y e => by cases e) nn
      · cases h
    case gw0 k =>
      split at h
      · rename_i m' old hr
        cases h
        have hpo : Pub .futex (old ||| 1) → Pub .futex old := fun hp => by
          rcases hp with ⟨e, _⟩ | ⟨_, hp⟩
          · cases e
          · rw [hasReady_or_one] at hp; exact pubF old hp
        obtain ⟨hm', hmono, hacq⟩ := L_rmw hr (by decide) hi.minv (fun hp => .inr (hpo hp))
        by_cases hx : hasReady (old ||| 1) = true
        · simp only [hx, if_true]
          exact hi.upd_pc t .gR m' hm' hmono (fun _ => hacq (rmwAcq k) (hpo (pubF _ hx))) (fun h => by cases h)
            (fun v e => by cases e) (fun y e => by cases e) nn
        · simp only [hx, if_false]
          exact hi.upd_pc t (.gw2 k) m' hm' hmono (fun h => by cases h) (fun h => by cases h)
            (fun v e => by cases e) (fun y e => by cases e) nn
      · cases h
    case q0 =>
      split at h
      · rename_i m' x hr
        cases h
        obtain ⟨hm', hmono, hacq⟩ := L_read hr hi.minv
        by_cases hx : x = sealedHead
        · subst hx
          simp only [if_true]
          exact hi.upd_pc t .gR m' hm' hmono (fun _ => hacq gReady pubH) (fun h => by cases h)
            (fun v e => by cases e) (fun y e => by cases e) nn
        · simp only [hx, if_false]
          exact hi.upd_pc t .idle m' hm' hmono (fun h => by cases h) (fun h => by cases h)
            (fun v e => by cases e) (fun y e => by cases e) nn
      · cases h
    case r0 node =>
      have hnode := hi.regNode t node (by simp [hpc, regNodeOf])
      split at h
      · rename_i m' x hr
        cases h
        obtain ⟨hm', hmono, hacq⟩ := L_read hr hi.minv
        by_cases hx : x = sealedHead
        · subst hx
          simp only [if_true]
          exact hi.upd_pc t .gR m' hm' hmono (fun _ => hacq gReg pubH) (fun h => by cases h)
            (fun v e => by cases e) (fun y e => by cases e) nn
        · simp only [hx, if_false]
          exact hi.upd_pc t (.r1 node x) m' hm' hmono (fun h => by cases h) (fun h => by cases h)
            (fun v e => by cases e) (fun y e => by cases e) (fun n e => by cases e; exact hnode)
      · cases h
    case r1 node exp =>
      have hnode := hi.regNode t node (by simp [hpc, regNodeOf])
      split at h
      · rename_i m' ok obs hr
        cases h
        rcases Mem.cas_spec hr with ⟨hok, _, hrmw⟩ | ⟨hok, _, hrd⟩
        · subst hok
          have hnp : ¬ Pub .head node := fun hp => by
            rcases hp with ⟨_, e⟩ | ⟨e, _⟩
            · exact hnode e
            · cases e
          obtain ⟨hm', hmono, _⟩ := L_rmw hrmw (by decide) hi.minv (fun hp => absurd hp hnp)
          simp only [if_true]
          exact hi.upd_pc t .idle m' hm' hmono (fun h => by cases h) (fun h => by cases h)
            (fun v e => by cases e) (fun y e => by cases e) nn
        · subst hok
          obtain ⟨hm', hmono, hacq⟩ := L_read hrd hi.minv
          by_cases hx : obs = sealedHead
          · subst hx
            simp only [if_true, Bool.false_eq_true, if_false]
            exact hi.upd_pc t .gR m' hm' hmono (fun _ => hacq gFail pubH) (fun h => by cases h)
              (fun v e => by cases e) (fun y e => by cases e) nn
          · simp only [hx, if_false, Bool.false_eq_true]
            exact hi.upd_pc t (.r1 node obs) m' hm' hmono (fun h => by cases h) (fun h => by cases h)
              (fun v e => by cases e) (fun y e => by cases e) (fun n e => by cases e; exact hnode)
      · cases h

/-- every state of every execution of the view model satisfies the invariant -/
theorem VInv.reach {o : Ords} (hg : o.Good) {s : VState} (h : Reachable VInit (VStep o) s) : VInv s := by
  induction h with
  | base hi => obtain ⟨iv, rfl⟩ := hi; exact VInv.init iv
  | tail _ hst ih => obtain ⟨ev, he⟩ := hst; exact VInv.step hg ih he

theorem runV_reach {o : Ords} {s : VState} (hr : Reachable VInit (VStep o) s) (es : List VEv) {s' : VState}
    (h : runV o s es = some s') : Reachable VInit (VStep o) s' := by
  induction es generalizing s with
  | nil => simp only [runV, Option.some.injEq] at h; subst h; exact hr
  | cons e es ih =>
    simp only [runV, Option.bind_eq_some_iff] at h
    obtain ⟨s1, h1, h2⟩ := h
    exact ih (Reachable.tail hr ⟨e, h1⟩) h2

end Babylon.Future.ViewM
