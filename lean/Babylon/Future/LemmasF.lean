/-
  The futex word: "somebody waits" flag (bit 0, set with `fetch_or`) + READY (bit 31); no lost
  wake-up; READY observed ⇒ the setter has published.  The word only ever holds 0, 1, READY, READY|1
  (before the fix e39f62f the low bits were a counter that was never decremented and could carry into
  READY after 2^31 waits; the theorems then needed a NoWrap hypothesis).
-/
import Babylon.Future.LemmasS

namespace Babylon.Future
open Babylon.Core Babylon.Gen.Future

def isS3 : Pc → Bool
  | .s3 _ => true
  | _ => false

/-- program counters the futex invariant talks about -/
def fk : Pc → Bool
  | .w1 _ | .f3 .. | .f5 .. | .wS _ | .fS .. | .gR | .s3 _ | .w2 | .f4 _ => true
  | .ret (.waited true ..) => true
  | _ => false

/-- the four values the futex word takes -/
def wordOpen (x : Nat) : Prop := x = 0 ∨ x = 1
def wordReady (x : Nat) : Prop := x = readyMask ∨ x = readyMask + 1

theorem hasReady_small {v : Nat} (h : v < 2 ^ 31) : hasReady v = false := by
  unfold hasReady readyMask; exact decide_eq_false (by omega)

theorem hasReady_ready {k : Nat} (h : k < 2 ^ 31) : hasReady (readyMask + k) = true := by
  unfold hasReady readyMask; exact decide_eq_true (by omega)

theorem wordOpen_or {x : Nat} (h : wordOpen x) : x ||| 1 = 1 ∧ hasReady x = false ∧ hasReady (x ||| 1) = false := by
  rcases h with rfl | rfl <;> decide

theorem wordReady_or {x : Nat} (h : wordReady x) :
    x ||| 1 = readyMask + 1 ∧ hasReady x = true ∧ hasReady (x ||| 1) = true ∧ 0 < x := by
  rcases h with rfl | rfl <;> decide

structure InvF (s : State) : Prop where
  word0 : s.xchgDone = false → wordOpen s.futex
  word1 : s.xchgDone = true → wordReady s.futex
  w1 : ∀ t v, s.pc t = .w1 v → hasReady v = false ∧ (s.xchgDone = false → s.futex = 1)
  f3 : ∀ t w to v, s.pc t = .f3 w to v → hasReady v = false ∧ (s.xchgDone = false → s.futex = 1)
  f5 : ∀ t w v, s.pc t = .f5 w v → (s.xchgDone = false → s.futex = 1) ∧ (hasReady v = true → s.xchgDone = true)
  w2 : ∀ t, s.pc t = .w2 → (s.xchgDone = false → s.futex = 1)
  f4 : ∀ t w, s.pc t = .f4 w → (s.xchgDone = false → s.futex = 1)
  wS : ∀ t e, s.pc t = .wS e → (s.xchgDone = false → s.futex = 1) ∧ e ≤ s.wakes ∧
        (s.wakes ≤ e → s.xchgDone = true → ∀ u, s.firer = some u → isS3 (s.pc u) = true)
  fS : ∀ t w e, s.pc t = .fS w e → (s.xchgDone = false → s.futex = 1) ∧ e ≤ s.wakes ∧
        (s.wakes ≤ e → s.xchgDone = true → ∀ u, s.firer = some u → isS3 (s.pc u) = true)
  gR : ∀ t, s.pc t = .gR → s.xchgDone = true
  retT : ∀ t b st to n, s.pc t = .ret (.waited true b st to n) → s.xchgDone = true

theorem and_two_pow' (v i : Nat) : v &&& 2^i = if v.testBit i then 2^i else 0 := by
  apply Nat.eq_of_testBit_eq; intro j
  by_cases hb : v.testBit i
  · simp only [hb, if_true, Nat.testBit_and, Nat.testBit_two_pow]
    by_cases hj : i = j
    · subst hj; simp [hb]
    · simp [hj]
  · simp only [hb, Nat.testBit_and, Nat.testBit_two_pow]
    by_cases hj : i = j
    · subst hj; simp [hb]
    · simp [hj]

/-- `value & READY_MASK` really is bit 31 -/
theorem hasReady_eq_land (v : Nat) : hasReady v = (v &&& readyMask != 0) := by
  have h : readyMask = 2 ^ 31 := by decide
  rw [h, and_two_pow']
  simp only [hasReady, h, Nat.testBit_eq_decide_div_mod_eq]
  by_cases hb : v / 2 ^ 31 % 2 = 1 <;> simp [hb]

theorem InvF.init (n : Option Nat) : InvF (State.init n) := by
  constructor <;> intros <;> (cases n <;> simp_all [State.init, wordOpen] <;> try grind)

theorem InvF.frame {s s' : State} (hi : InvF s) (t : Nat) (p' : Pc)
    (hpc : s'.pc = upd s.pc t p') (hp' : fk p' = false) (hold : isS3 (s.pc t) = false)
    (h1 : s'.futex = s.futex) (h3 : s'.xchgDone = s.xchgDone)
    (h5 : s'.wakes = s.wakes) (h6 : s'.firer = s.firer) : InvF s' := by
  obtain ⟨word0, word1, w1, f3, f5, w2, f4, wS, fS, gR, retT⟩ := hi
  constructor <;> intros <;> simp only [hpc, h1, h3, h5, h6] at * <;> grind [upd_apply, fk, isS3]

set_option maxHeartbeats 4000000 in
theorem InvF.step {s s' : State} (h : Step s s') (hP : InvP s) (hS : InvS s) (hi : InvF s) : InvF s' := by
  have hi' := hi
  have hP' := hP
  obtain ⟨ho, hp, noPend, c0_pend, pend_c0, pend_nodup, count_eq, count_lt, fired, zero⟩ := hP
  obtain ⟨cons_le, seals_le, xchg_seal, storage_none, storage_some, head_none, none_fired, latch_val, at_p0, at_s0, at_s1, at_s2, at_s3, at_s4, done, open_det⟩ := hS
  have hxs : s.firer = none → s.xchgDone = false := fun hn => by
    have := none_fired hn
    cases hx : s.xchgDone
    · rfl
    · have := xchg_seal hx; omega
  have hwo := fun hx => wordOpen_or (hi.word0 hx)
  have hwr := fun hx => wordReady_or (hi.word1 hx)
  cases h with
  | act addr t h x l hst =>
    cases hpc : s.pc t <;> simp only [stepThread, waitLoop, hpc, waitOrOperand, waitOrLocalMask, waitForOrOperand, waitForOrLocalMask, wakeIfWaitersAbove] at hst
    all_goals (try split at hst)
    all_goals (try split at hst)
    all_goals (try split at hst)
    all_goals (try simp only [Option.some.injEq, Prod.mk.injEq, reduceCtorEq] at hst)
    all_goals (try (obtain ⟨rfl, rfl⟩ := hst))
    all_goals (try (exfalso; assumption))
    all_goals (have hot := ho t)
    all_goals (have hc0f : ∀ d, s.pc t = .c0 d → s.firer = none := fun d h => (hP'.c0_facts h).1)
    all_goals (first
      | (refine InvF.frame hi' t _ rfl ?_ ?_ rfl rfl rfl rfl <;> (simp [hpc, fk, isS3]; done))
      | (obtain ⟨word0, word1, w1, f3, f5, w2, f4, wS, fS, gR, retT⟩ := hi'
         cases hx : s.xchgDone <;>
         (first
           | (have hwo' := hwo hx; constructor <;> intros <;> (try dsimp only at *) <;> first | assumption | grind [upd_apply, isS3, inSet, wordOpen, wordReady, readyMask])
           | (have hwr' := hwr hx; constructor <;> intros <;> (try dsimp only at *) <;> first | assumption | grind [upd_apply, isS3, inSet, wordOpen, wordReady, readyMask]))))
  | tick d =>
    obtain ⟨word0, word1, w1, f3, f5, w2, f4, wS, fS, gR, retT⟩ := hi
    constructor <;> intros <;> (try dsimp only at *) <;> first | assumption | grind
  | set t v hidle hl hsc =>
    have hnf := hp hl hsc
    have hx := hxs hnf
    obtain ⟨word0, word1, w1, f3, f5, w2, f4, wS, fS, gR, retT⟩ := hi
    constructor <;> intros <;> (try dsimp only [callSet] at *) <;> first | assumption | grind [upd_apply, isS3]
  | down t d hidle hl h1 hb' => refine InvF.frame hi' t _ rfl ?_ ?_ rfl rfl rfl rfl <;> simp [hidle, fk, isS3]
  | get t hidle => refine InvF.frame hi' t _ rfl ?_ ?_ rfl rfl rfl rfl <;> simp [hidle, fk, isS3]
  | waitFor t tau hidle h1 h2 => refine InvF.frame hi' t _ rfl ?_ ?_ rfl rfl rfl rfl <;> simp [hidle, fk, isS3]
  | reg t id hidle hs => refine InvF.frame hi' t _ rfl ?_ ?_ rfl rfl rfl rfl <;> simp [hidle, fk, isS3]
  | ready t hidle => refine InvF.frame hi' t _ rfl ?_ ?_ rfl rfl rfl rfl <;> simp [hidle, fk, isS3]

theorem InvF.reach {s : State} (h : Reachable Init Step s) : InvF s := by
  induction h with
  | base hi => obtain ⟨n, hn, rfl⟩ := hi; exact InvF.init n
  | tail hr hst ih => exact InvF.step hst (InvP.reach hr) (InvS.reach hr) ih

end Babylon.Future
