/-
  The futex word: waiter count + READY bit; no lost wake-up; READY observed ⇒ the setter has
  published.  Everything here is under the NoWrap hypothesis `adds < 2^31` (fewer than 2^31
  slow-path waits on one future), which is necessary: see `fut_wrap_counterexample`.
-/
import Babylon.Future.LemmasS

namespace Babylon.Future
open Babylon.Core Babylon.Gen.Future

def isS3 : Pc → Bool
  | .s3 _ => true
  | _ => false

/-- program counters the futex invariant talks about -/
def fk : Pc → Bool
  | .w1 _ | .f3 .. | .f5 .. | .wS _ | .fS .. | .gR | .s3 _ | .w2 | .f4 _ => true
  | .ret (.waited true ..) => true
  | _ => false

structure InvF' (s : State) : Prop where
  word0 : s.xchgDone = false → s.futex = s.adds
  word1 : s.xchgDone = true → s.addsAtXchg ≤ s.adds ∧ s.futex = readyMask + (s.adds - s.addsAtXchg)
  w1 : ∀ t v, s.pc t = .w1 v → hasReady v = false ∧ 1 ≤ s.adds
  f3 : ∀ t w to v, s.pc t = .f3 w to v → hasReady v = false ∧ 1 ≤ s.adds
  f5 : ∀ t w v, s.pc t = .f5 w v → 1 ≤ s.adds ∧ (hasReady v = true → s.xchgDone = true)
  w2 : ∀ t, s.pc t = .w2 → 1 ≤ s.adds
  f4 : ∀ t w, s.pc t = .f4 w → 1 ≤ s.adds
  wS : ∀ t e, s.pc t = .wS e → 1 ≤ s.adds ∧ e ≤ s.wakes ∧
        (s.wakes ≤ e → s.xchgDone = true → ∀ u, s.firer = some u → isS3 (s.pc u) = true)
  fS : ∀ t w e, s.pc t = .fS w e → 1 ≤ s.adds ∧ e ≤ s.wakes ∧
        (s.wakes ≤ e → s.xchgDone = true → ∀ u, s.firer = some u → isS3 (s.pc u) = true)
  gR : ∀ t, s.pc t = .gR → s.xchgDone = true
  retT : ∀ t b st to n, s.pc t = .ret (.waited true b st to n) → s.xchgDone = true

/-- NoWrap-guarded form: the invariant holds as long as fewer than 2^31 slow-path waits happened -/
def InvF (s : State) : Prop := s.adds < 2 ^ 31 → InvF' s

theorem hasReady_small {v : Nat} (h : v < 2 ^ 31) : hasReady v = false := by
  unfold hasReady readyMask; exact decide_eq_false (by omega)

theorem hasReady_ready {k : Nat} (h : k < 2 ^ 31) : hasReady (readyMask + k) = true := by
  unfold hasReady readyMask; exact decide_eq_true (by omega)

theorem and_two_pow' (v i : Nat) : v &&& 2^i = if v.testBit i then 2^i else 0 := by
  apply Nat.eq_of_testBit_eq; intro j
  by_cases hb : v.testBit i
  · simp only [hb, if_true, Nat.testBit_and, Nat.testBit_two_pow]
    by_cases hj : i = j
    · subst hj; simp [hb]
    · simp [hj]
  · simp only [hb, Nat.testBit_and, Nat.testBit_two_pow]
    by_cases hj : i = j
    · subst hj; simp [hb]
    · simp [hj]

/-- `value & READY_MASK` really is bit 31 -/
theorem hasReady_eq_land (v : Nat) : hasReady v = (v &&& readyMask != 0) := by
  have h : readyMask = 2 ^ 31 := by decide
  rw [h, and_two_pow']
  simp only [hasReady, h, Nat.testBit_eq_decide_div_mod_eq]
  by_cases hb : v / 2 ^ 31 % 2 = 1 <;> simp [hb]

theorem InvF.init (n : Option Nat) : InvF (State.init n) := by
  intro _
  constructor <;> intros <;> (cases n <;> simp_all [State.init] <;> try grind)

theorem InvF'.frame {s s' : State} (hi : InvF' s) (t : Nat) (p' : Pc)
    (hpc : s'.pc = upd s.pc t p') (hp' : fk p' = false) (hold : isS3 (s.pc t) = false)
    (h1 : s'.futex = s.futex) (h2 : s'.adds = s.adds) (h3 : s'.xchgDone = s.xchgDone) (h4 : s'.addsAtXchg = s.addsAtXchg)
    (h5 : s'.wakes = s.wakes) (h6 : s'.firer = s.firer) : InvF' s' := by
  obtain ⟨word0, word1, w1, f3, f5, w2, f4, wS, fS, gR, retT⟩ := hi
  constructor <;> intros <;> simp only [hpc, h1, h2, h3, h4, h5, h6] at * <;> grind [upd_apply, fk, isS3]

set_option maxHeartbeats 4000000 in
theorem InvF.step {s s' : State} (h : Step s s') (hP : InvP s) (hS : InvS s) (hi : InvF s) : InvF s' := by
  intro hb
  have hP' := hP
  obtain ⟨ho, hp, noPend, c0_pend, pend_c0, pend_nodup, count_eq, count_lt, fired, zero⟩ := hP
  obtain ⟨cons_le, seals_le, xchg_seal, storage_none, storage_some, head_none, none_fired, latch_val, at_p0, at_s0, at_s1, at_s2, at_s3, at_s4, done, open_det⟩ := hS
  cases h with
  | act addr t h x l hst =>
    cases hpc : s.pc t <;> simp only [stepThread, waitLoop, hpc, waitAddOperand, waitAddLocalBump, waitForAddOperand, waitForAddLocalBump, wakeIfWaitersAbove] at hst
    all_goals (try split at hst)
    all_goals (try split at hst)
    all_goals (try split at hst)
    all_goals (try simp only [Option.some.injEq, Prod.mk.injEq, reduceCtorEq] at hst)
    all_goals (try (obtain ⟨rfl, rfl⟩ := hst))
    all_goals (try (exfalso; assumption))
    all_goals (dsimp only at hb; have hi' := hi (by omega))
    all_goals (have hot := ho t)
    all_goals (have hc0f : ∀ d, s.pc t = .c0 d → s.firer = none := fun d h => (hP'.c0_facts h).1)
    all_goals (have hxr : s.xchgDone = true → hasReady s.futex = true := fun hx => by
                 have := hi'.word1 hx; rw [this.2]; exact hasReady_ready (by omega))
    all_goals (have hxs : s.firer = none → s.xchgDone = false := fun hn => by
                 have := none_fired hn
                 cases hx : s.xchgDone
                 · rfl
                 · have := xchg_seal hx; omega)
    all_goals (first
      | (refine InvF'.frame hi' t _ rfl ?_ ?_ rfl rfl rfl rfl rfl rfl <;> (simp [hpc, fk, isS3]; done))
      | (obtain ⟨word0, word1, w1, f3, f5, w2, f4, wS, fS, gR, retT⟩ := hi'
         constructor <;> intros <;> (try dsimp only at *) <;> first | assumption | grind [upd_apply, isS3, inSet, hasReady_small, hasReady_ready, u32, readyMask]))
  | tick d =>
    obtain ⟨word0, word1, w1, f3, f5, w2, f4, wS, fS, gR, retT⟩ := hi hb
    constructor <;> intros <;> (try dsimp only at *) <;> first | assumption | grind
  | set t v hidle hl hsc =>
    have hnf := hp hl hsc
    have hx : s.xchgDone = false := by
      have := none_fired hnf
      cases hx : s.xchgDone
      · rfl
      · have := xchg_seal hx; omega
    obtain ⟨word0, word1, w1, f3, f5, w2, f4, wS, fS, gR, retT⟩ := hi hb
    constructor <;> intros <;> (try dsimp only [callSet] at *) <;> first | assumption | grind [upd_apply, isS3]
  | down t d hidle hl h1 hb' => refine InvF'.frame (hi hb) t _ rfl ?_ ?_ rfl rfl rfl rfl rfl rfl <;> simp [hidle, fk, isS3]
  | get t hidle => refine InvF'.frame (hi hb) t _ rfl ?_ ?_ rfl rfl rfl rfl rfl rfl <;> simp [hidle, fk, isS3]
  | waitFor t tau hidle h1 h2 => refine InvF'.frame (hi hb) t _ rfl ?_ ?_ rfl rfl rfl rfl rfl rfl <;> simp [hidle, fk, isS3]
  | reg t id hidle hs => refine InvF'.frame (hi hb) t _ rfl ?_ ?_ rfl rfl rfl rfl rfl rfl <;> simp [hidle, fk, isS3]
  | ready t hidle => refine InvF'.frame (hi hb) t _ rfl ?_ ?_ rfl rfl rfl rfl rfl rfl <;> simp [hidle, fk, isS3]

theorem InvF.reach {s : State} (h : Reachable Init Step s) : InvF s := by
  induction h with
  | base hi => obtain ⟨n, hn, rfl⟩ := hi; exact InvF.init n
  | tail hr hst ih => exact InvF.step hst (InvP.reach hr) (InvS.reach hr) ih

end Babylon.Future
