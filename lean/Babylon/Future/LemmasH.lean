/-
  Publication: every read of the value storage (getter, callback) and of a callback node (setter)
  is ordered by happens-before after the write it must see.  The ghost moves only along the
  memory orders the code really uses (the `ord…` constants generated from /repo), so weakening one
  of them in the source breaks `gen_orders` and these proofs.
-/
import Babylon.Future.LemmasF
import Babylon.Future.LemmasK

namespace Babylon.Future
open Babylon.Core Babylon.Gen.Future

theorem ordSeal_rel : ordSeal.releases = true := by decide
theorem ordSeal_acq : ordSeal.acquires = true := by decide
theorem ordFutexXchg_rel : ordFutexXchg.releases = true := by decide
theorem ordGetLoad_acq : ordGetLoad.acquires = true := by decide
theorem ordWaitForLoad_acq : ordWaitForLoad.acquires = true := by decide
theorem ordWaitRmw_acq : ordWaitRmw.acquires = true := by decide
theorem ordWaitLoad_acq : ordWaitLoad.acquires = true := by decide
theorem ordWaitForRmw_acq : ordWaitForRmw.acquires = true := by decide
theorem ordWaitForSlowLoad_acq : ordWaitForSlowLoad.acquires = true := by decide
theorem ordRegLoad_acq : ordRegLoad.acquires = true := by decide
theorem ordRegCasSucc_rel : ordRegCasSucc.releases = true := by decide
theorem ordRegCasFail_acq : ordRegCasFail.acquires = true := by decide
theorem ordFutureReady_acq : ordFutureReady.acquires = true := by decide

/-- program counters from which the value storage / a node is read next, or that carry the setter's clock -/
def hk : Pc → Bool
  | .s1 | .s2 _ | .s3 _ | .s4 _ | .rRun _ | .gR => true
  | _ => false

structure InvH (s : State) : Prop where
  s1 : ∀ t, s.pc t = .s1 → s.hb t = true
  s2 : ∀ t d, s.pc t = .s2 d → s.hb t = true
  s3 : ∀ t d, s.pc t = .s3 d → s.hb t = true
  s4 : ∀ t d, s.pc t = .s4 d → s.hb t = true
  sealRel : s.head = none → s.sealRel = true ∧ s.sealAcq = true
  futexRel : s.xchgDone = true → s.futexRel = true
  rrun : ∀ t id, s.pc t = .rRun id → s.hb t = true
  gR : ∀ t, s.pc t = .gR → s.hb t = true
  node : ∀ id, id ∈ lists s → s.nodeRel id = true
  unsync : s.unsync = false

theorem InvH.init (n : Option Nat) : InvH (State.init n) := by
  constructor <;> intros <;> (cases n <;> simp_all [State.init, lists] <;> try grind)

theorem InvH.frame {s s' : State} (hi : InvH s) (t : Nat) (p' : Pc)
    (hpc : s'.pc = upd s.pc t p') (hp' : hk p' = false)
    (h1 : s'.head = s.head) (h2 : s'.det = s.det) (h3 : s'.xchgDone = s.xchgDone) (h4 : s'.sealRel = s.sealRel)
    (h5 : s'.sealAcq = s.sealAcq) (h6 : s'.futexRel = s.futexRel) (h7 : ∀ u, u ≠ t → s'.hb u = s.hb u)
    (h8 : s'.nodeRel = s.nodeRel) (h9 : s'.unsync = s.unsync) : InvH s' := by
  obtain ⟨s1, s2, s3, s4, sealRel, futexRel, rrun, gR, node, unsync⟩ := hi
  have hl : lists s' = lists s := by simp [lists, h1, h2]
  constructor <;> intros <;> simp only [hpc, hl, h1, h3, h4, h5, h6, h8, h9] at * <;> grind [upd_apply, hk]

set_option maxHeartbeats 4000000 in
theorem InvH.step {s s' : State} (h : Step s s') (hP : InvP s) (hS : InvS s) (hF : InvF s) (hi : InvH s) : InvH s' := by
  have hi' := hi
  have hF' := hF
  obtain ⟨ho, hp, noPend, c0_pend, pend_c0, pend_nodup, count_eq, count_lt, fired, zero⟩ := hP
  obtain ⟨cons_le, seals_le, xchg_seal, storage_none, storage_some, head_none, none_fired, latch_val, at_p0, at_s0, at_s1, at_s2, at_s3, at_s4, done, open_det⟩ := hS
  cases h with
  | act addr t h x l hst =>
    cases hpc : s.pc t <;> simp only [stepThread, waitLoop, hpc, waitOrOperand, waitOrLocalMask, waitForOrOperand, waitForOrLocalMask,
      ordSeal_rel, ordSeal_acq, ordFutexXchg_rel, ordGetLoad_acq, ordWaitForLoad_acq, ordWaitRmw_acq, ordWaitLoad_acq, ordWaitForRmw_acq,
      ordWaitForSlowLoad_acq, ordRegLoad_acq, ordRegCasSucc_rel, ordRegCasFail_acq, ordFutureReady_acq, Bool.and_true] at hst
    all_goals (try split at hst)
    all_goals (try split at hst)
    all_goals (try split at hst)
    all_goals (try simp only [Option.some.injEq, Prod.mk.injEq, reduceCtorEq] at hst)
    all_goals (try (obtain ⟨rfl, rfl⟩ := hst))
    all_goals (try (exfalso; assumption))
    all_goals (first
      | (refine InvH.frame hi' t _ rfl ?_ rfl rfl rfl rfl rfl rfl ?_ rfl rfl <;> (first | (simp [hk]; done) | (intro u hu; simp [upd_apply, hu]; done)))
      | (have hxr : s.xchgDone = true → hasReady s.futex = true ∧ hasReady (s.futex ||| 1) = true := fun hx => by
           have := wordReady_or (hF'.word1 hx); exact ⟨this.2.1, this.2.2.1⟩
         have hrx : hasReady s.futex = true → s.xchgDone = true := fun hr => by
           cases hx : s.xchgDone
           · rw [(wordOpen_or (hF'.word0 hx)).2.1] at hr; cases hr
           · rfl
         have hrx1 : hasReady (s.futex ||| 1) = true → s.xchgDone = true := fun hr => by
           cases hx : s.xchgDone
           · rw [(wordOpen_or (hF'.word0 hx)).2.2] at hr; cases hr
           · rfl
         obtain ⟨s1, s2, s3, s4, sealRel, futexRel, rrun, gR, node, unsync⟩ := hi'
         have hot := ho t
         constructor <;> intros <;> (try dsimp only at *) <;> first | assumption | grind [upd_apply, lists]))
  | tick d =>
    obtain ⟨s1, s2, s3, s4, sealRel, futexRel, rrun, gR, node, unsync⟩ := hi
    constructor <;> intros <;> (try dsimp only at *) <;> first | assumption | grind [lists]
  | set t v hidle hl hsc => refine InvH.frame hi t _ rfl ?_ rfl rfl rfl rfl rfl rfl ?_ rfl rfl <;> (first | (simp [hk]; done) | (intro u hu; rfl))
  | down t d hidle hl h1 hb' => refine InvH.frame hi t _ rfl ?_ rfl rfl rfl rfl rfl rfl ?_ rfl rfl <;> (first | (simp [hk]; done) | (intro u hu; rfl))
  | get t hidle => refine InvH.frame hi t _ rfl ?_ rfl rfl rfl rfl rfl rfl ?_ rfl rfl <;> (first | (simp [hk]; done) | (intro u hu; rfl))
  | waitFor t tau hidle h1 h2 => refine InvH.frame hi t _ rfl ?_ rfl rfl rfl rfl rfl rfl ?_ rfl rfl <;> (first | (simp [hk]; done) | (intro u hu; rfl))
  | reg t id hidle hs => refine InvH.frame hi t _ rfl ?_ rfl rfl rfl rfl rfl rfl ?_ rfl rfl <;> (first | (simp [hk]; done) | (intro u hu; rfl))
  | ready t hidle => refine InvH.frame hi t _ rfl ?_ rfl rfl rfl rfl rfl rfl ?_ rfl rfl <;> (first | (simp [hk]; done) | (intro u hu; rfl))

theorem InvH.reach {s : State} (h : Reachable Init Step s) : InvH s := by
  induction h with
  | base hi => obtain ⟨n, hn, rfl⟩ := hi; exact InvH.init n
  | tail hr hst ih => exact InvH.step hst (InvP.reach hr) (InvS.reach hr) (InvF.reach hr) ih

end Babylon.Future
