/-
  What the calls return: results recorded at the moment a call returns stay correct.
-/
import Babylon.Future.LemmasF
import Babylon.Future.LemmasW

namespace Babylon.Future
open Babylon.Core Babylon.Gen.Future

structure InvR (s : State) : Prop where
  retReady : ∀ t, s.pc t = .ret (.ready true) → s.head = none
  noRetGot : ∀ t x, s.pc t ≠ .ret (.got x)
  resG : ∀ t x, s.result t = some (.got x) → x = s.storage ∧ s.storage.isSome = true ∧ s.xchgDone = true
  resT : ∀ t b st to n, s.result t = some (.waited true b st to n) → s.xchgDone = true
  resF : ∀ t b st to n, s.result t = some (.waited false b st to n) → b = true ∧ n ≤ s.now ∧ st ≤ n ∧ (n < 2 ^ 63 → st + to ≤ n)
  resReady : ∀ t, s.result t = some (.ready true) → s.head = none

theorem InvR.init (n : Option Nat) : InvR (State.init n) := by
  constructor <;> intros <;> (cases n <;> simp_all [State.init] <;> try grind)

theorem InvR.frame {s s' : State} (hi : InvR s) (t : Nat) (p' : Pc)
    (hpc : s'.pc = upd s.pc t p') (hp' : p' ≠ .ret (.ready true)) (hp2 : ∀ x, p' ≠ .ret (.got x))
    (h1 : s.head = none → s'.head = none) (h2 : s'.storage = s.storage) (h3 : s.xchgDone = true → s'.xchgDone = true)
    (h4 : s.now ≤ s'.now) (h5 : s'.result = s.result) : InvR s' := by
  obtain ⟨retReady, noRetGot, resG, resT, resF, resReady⟩ := hi
  constructor <;> intros <;> simp only [hpc, h2, h5] at * <;> grind [upd_apply]

set_option maxHeartbeats 4000000 in
theorem InvR.step {s s' : State} (h : Step s s') (hS : InvS s) (hF : InvF s) (hW : InvW s) (hi : InvR s) : InvR s' := by
  have hi' := hi
  have hF' := hF
  obtain ⟨cons_le, seals_le, xchg_seal, storage_none, storage_some, head_none, none_fired, latch_val, at_p0, at_s0, at_s1, at_s2, at_s3, at_s4, done, open_det⟩ := hS
  obtain ⟨_, _, _, _, _, _, _, retF⟩ := hW
  cases h with
  | act addr t h x l hst =>
    cases hpc : s.pc t <;> simp only [stepThread, waitLoop, hpc] at hst
    case q0 =>
      simp only [Option.some.injEq, Prod.mk.injEq] at hst
      obtain ⟨rfl, rfl⟩ := hst
      obtain ⟨retReady, noRetGot, resG, resT, resF, resReady⟩ := hi
      cases hh : s.head <;>
        (constructor <;> intros <;> (try dsimp only at *) <;> first | assumption | grind [upd_apply])
    all_goals (try split at hst)
    all_goals (try split at hst)
    all_goals (try split at hst)
    all_goals (try simp only [Option.some.injEq, Prod.mk.injEq, reduceCtorEq] at hst)
    all_goals (try (obtain ⟨rfl, rfl⟩ := hst))
    all_goals (try (exfalso; assumption))
    all_goals (first
      | (refine InvR.frame hi' t _ rfl ?_ ?_ ?_ rfl ?_ (Nat.le_refl _) rfl <;> (simp; done))
      | (obtain ⟨_, _, _, _, _, _, _, _, _, gR, retT⟩ := hF'
         obtain ⟨retReady, noRetGot, resG, resT, resF, resReady⟩ := hi'
         constructor <;> intros <;> (try dsimp only at *) <;> first | assumption | grind [upd_apply, setRet]))
  | tick d =>
    obtain ⟨retReady, noRetGot, resG, resT, resF, resReady⟩ := hi
    constructor <;> intros <;> (try dsimp only at *) <;> first | assumption | grind
  | set t v hidle hl hsc => refine InvR.frame hi t _ rfl ?_ ?_ (fun h => h) rfl (fun h => h) (Nat.le_refl _) rfl <;> simp
  | down t d hidle hl h1 hb' => refine InvR.frame hi t _ rfl ?_ ?_ (fun h => h) rfl (fun h => h) (Nat.le_refl _) rfl <;> simp
  | get t hidle => refine InvR.frame hi t _ rfl ?_ ?_ (fun h => h) rfl (fun h => h) (Nat.le_refl _) rfl <;> simp
  | waitFor t tau hidle h1 h2 => refine InvR.frame hi t _ rfl ?_ ?_ (fun h => h) rfl (fun h => h) (Nat.le_refl _) rfl <;> simp
  | reg t id hidle hs => refine InvR.frame hi t _ rfl ?_ ?_ (fun h => h) rfl (fun h => h) (Nat.le_refl _) rfl <;> simp
  | ready t hidle => refine InvR.frame hi t _ rfl ?_ ?_ (fun h => h) rfl (fun h => h) (Nat.le_refl _) rfl <;> simp

theorem InvR.reach {s : State} (h : Reachable Init Step s) : InvR s := by
  induction h with
  | base hi => obtain ⟨n, hn, rfl⟩ := hi; exact InvR.init n
  | tail hr hst ih => exact InvR.step hst (InvS.reach hr) (InvF.reach hr) (InvW.reach hr) ih

/-- `wait_for` returning `false` does not depend on the futex word at all: the code re-reads the clock itself -/
def InvRF (s : State) : Prop :=
  ∀ t b st to n, s.result t = some (.waited false b st to n) → b = true ∧ n ≤ s.now ∧ st ≤ n ∧ (n < 2 ^ 63 → st + to ≤ n)

theorem InvRF.frame {s s' : State} (hi : InvRF s) (h4 : s.now ≤ s'.now) (h5 : s'.result = s.result) : InvRF s' := by
  intro t b st to n h
  rw [h5] at h
  obtain ⟨h1, h2, h3, h6⟩ := hi t b st to n h
  exact ⟨h1, by omega, h3, h6⟩

set_option maxHeartbeats 4000000 in
theorem InvRF.step {s s' : State} (h : Step s s') (hW : InvW s) (hi : InvRF s) : InvRF s' := by
  obtain ⟨_, _, _, _, _, _, _, retF⟩ := hW
  cases h with
  | act addr t h x l hst =>
    cases hpc : s.pc t <;> simp only [stepThread, waitLoop, hpc] at hst
    all_goals (try split at hst)
    all_goals (try split at hst)
    all_goals (try split at hst)
    all_goals (try simp only [Option.some.injEq, Prod.mk.injEq, reduceCtorEq] at hst)
    all_goals (try (obtain ⟨rfl, rfl⟩ := hst))
    all_goals (try (exfalso; assumption))
    all_goals (first
      | exact InvRF.frame hi (Nat.le_refl _) rfl
      | (intro u b st to n hu; dsimp only at hu ⊢; have hiu := hi u b st to n; grind [upd_apply, setRet]))
  | tick d => intro u b st to n hu; obtain ⟨h1, h2, h3, h6⟩ := hi u b st to n hu; exact ⟨h1, by dsimp only; omega, h3, h6⟩
  | set t v hidle hl hsc => exact InvRF.frame hi (Nat.le_refl _) rfl
  | down t d hidle hl h1 hb' => exact InvRF.frame hi (Nat.le_refl _) rfl
  | get t hidle => exact InvRF.frame hi (Nat.le_refl _) rfl
  | waitFor t tau hidle h1 h2 => exact InvRF.frame hi (Nat.le_refl _) rfl
  | reg t id hidle hs => exact InvRF.frame hi (Nat.le_refl _) rfl
  | ready t hidle => exact InvRF.frame hi (Nat.le_refl _) rfl

theorem InvRF.reach {s : State} (h : Reachable Init Step s) : InvRF s := by
  induction h with
  | base hi => obtain ⟨n, hn, rfl⟩ := hi; intro t b st to n h; cases n <;> simp [State.init] at h
  | tail hr hst ih => exact InvRF.step hst (InvW.reach hr) ih

end Babylon.Future
