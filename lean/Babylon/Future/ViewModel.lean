/-
  Publication of the future's value under the release/acquire *view* memory model of
  `Babylon/Core/MemView.lean` (stale reads allowed): the publication skeleton of
  `FutureContext::set_value` / `get` / `wait_for` / `ready` / `on_finish`, one step per memory
  operation, every load free to read ANY message its thread view admits.

  Locations: `_head`, `_futex`, and the value storage (a plain object: modelled as a location that
  is written once with a relaxed store and read with relaxed loads — "the reader sees the fully
  written value" = the reader's view of that location already contains the write, so no admissible
  read can return the initial, unconstructed content, i.e. the plain read is ordered after the plain
  write by happens-before).

  The memory orders are a parameter `Ords`; `genOrds` takes them from the constants that
  `gen/future.py` extracts from /repo, so weakening an order in the source changes `genOrds` and
  breaks `genOrds_good` (Properties/C08).  Executable (`exec`), so concrete runs — in particular the
  negative controls with a relaxed publishing operation — are evaluated by `decide`.
  Core Lean only.
-/
import Babylon.Gen.Future
import Babylon.Core.MemView
import Babylon.Future.Model

namespace Babylon.Future.ViewM
open Babylon.Core Babylon.Core.MemView Babylon.Gen.Future
open Babylon.Future (hasReady)

inductive Loc | head | futex | value
  deriving DecidableEq, Repr

structure Ords where
  sealO : Ord           -- `_head.exchange(SEALED, …)`
  xchg : Ord            -- `_futex.exchange(READY_MASK, …)`
  getLoad : Ord         -- get: first load of the futex word
  waitRmw : Ord         -- wait_slow: `fetch_or`
  waitLoad : Ord        -- wait_slow: re-load in the loop
  wfLoad : Ord          -- wait_for: first load
  wfRmw : Ord           -- wait_for_slow: `fetch_or`
  wfSlowLoad : Ord      -- wait_for_slow: re-load in the loop
  ready : Ord           -- Future::ready(): `_head.load`
  regLoad : Ord         -- on_finish: `_head.load`
  casSucc : Ord         -- on_finish: CAS success order
  casFail : Ord         -- on_finish: CAS failure order
  deriving DecidableEq, Repr

/-- the orders the current source uses -/
def genOrds : Ords :=
  { sealO := ordSeal, xchg := ordFutexXchg, getLoad := ordGetLoad, waitRmw := ordWaitRmw, waitLoad := ordWaitLoad,
    wfLoad := ordWaitForLoad, wfRmw := ordWaitForRmw, wfSlowLoad := ordWaitForSlowLoad, ready := ordFutureReady,
    regLoad := ordRegLoad, casSucc := ordRegCasSucc, casFail := ordRegCasFail }

/-- what publication of the value needs from the orders -/
def Ords.Good (o : Ords) : Prop :=
  o.sealO.releases = true ∧ o.xchg.releases = true ∧
  o.getLoad.acquires = true ∧ o.waitRmw.acquires = true ∧ o.waitLoad.acquires = true ∧
  o.wfLoad.acquires = true ∧ o.wfRmw.acquires = true ∧ o.wfSlowLoad.acquires = true ∧
  o.ready.acquires = true ∧ o.regLoad.acquires = true ∧ o.casFail.acquires = true

instance (o : Ords) : Decidable o.Good := by unfold Ords.Good; infer_instance

/-- `get` and `wait_for` share their shape; the kind selects the orders -/
inductive RK | get | wf
  deriving DecidableEq, Repr

def Ords.firstLoad (o : Ords) : RK → Ord | .get => o.getLoad | .wf => o.wfLoad
def Ords.rmw (o : Ords) : RK → Ord | .get => o.waitRmw | .wf => o.wfRmw
def Ords.loopLoad (o : Ords) : RK → Ord | .get => o.waitLoad | .wf => o.wfSlowLoad

inductive VPc
  | idle
  | s0 (v : Nat)        -- `new (pointer()) ValueType(v)`: the plain write of the value
  | s1                  -- `seal()`
  | s2                  -- `_futex.exchange(READY_MASK)`
  | s3                  -- run the detached callbacks: they read the value
  | g0 (k : RK)         -- first load of the futex word
  | gw0 (k : RK)        -- slow path: `fetch_or(1) | 1`
  | gw2 (k : RK)        -- (futex_wait has no memory effect) re-load
  | gR                  -- READY observed: the caller reads the value
  | q0                  -- `ready()`: `_head.load`
  | r0 (node : Nat)     -- on_finish: `_head.load`
  | r1 (node exp : Nat) -- on_finish: `compare_exchange(head, node)`
  | done (seen : Nat)   -- has read the value and found `seen`
  deriving DecidableEq, Repr

structure VState where
  m : Mem Loc
  pc : Nat → VPc
  setter : Option Nat       -- ghost: the thread that called set_value (client contract: once)
  setv : Option Nat         -- ghost: its argument
  wrote : Bool              -- ghost: the value has been constructed

/-- `iv` = whatever the unconstructed storage happens to contain -/
def VState.init (iv : Nat) : VState :=
  { m := Mem.init (fun l => match l with | .value => iv | _ => 0), pc := fun _ => .idle,
    setter := none, setv := none, wrote := false }

inductive VEv
  | set (t v : Nat)
  | get (t : Nat) (k : RK)
  | ready (t : Nat)
  | reg (t node : Nat)
  | act (t ts : Nat)        -- thread `t` performs its next memory operation; a load / CAS reads timestamp `ts`
  deriving Repr

def exec (o : Ords) (s : VState) : VEv → Option VState
  | .set t v =>
    if s.pc t = .idle ∧ s.setter = none then
      some { s with pc := upd s.pc t (.s0 v), setter := some t, setv := some v } else none
  | .get t k => if s.pc t = .idle then some { s with pc := upd s.pc t (.g0 k) } else none
  | .ready t => if s.pc t = .idle then some { s with pc := upd s.pc t .q0 } else none
  | .reg t node =>
    if s.pc t = .idle ∧ node ≠ sealedHead then some { s with pc := upd s.pc t (.r0 node) } else none
  | .act t ts =>
    match s.pc t with
    | .idle => none
    | .done _ => none
    | .s0 v => some { s with m := s.m.write t .value .rlx v, wrote := true, pc := upd s.pc t .s1 }
    | .s1 =>
      match s.m.rmw t .head o.sealO (fun _ => sealedHead) with
      | some (m', _) => some { s with m := m', pc := upd s.pc t .s2 }
      | none => none
    | .s2 =>
      match s.m.rmw t .futex o.xchg (fun _ => readyMask) with
      | some (m', _) => some { s with m := m', pc := upd s.pc t .s3 }
      | none => none
    | .s3 =>
      match s.m.read t .value .rlx ts with
      | some (m', x) => some { s with m := m', pc := upd s.pc t (.done x) }
      | none => none
    | .g0 k =>
      match s.m.read t .futex (o.firstLoad k) ts with
      | some (m', x) => some { s with m := m', pc := upd s.pc t (if hasReady x then .gR else .gw0 k) }
      | none => none
    | .gw0 k =>
      match s.m.rmw t .futex (o.rmw k) (fun x => x ||| 1) with
      | some (m', old) => some { s with m := m', pc := upd s.pc t (if hasReady (old ||| 1) then .gR else .gw2 k) }
      | none => none
    | .gw2 k =>
      match s.m.read t .futex (o.loopLoad k) ts with
      | some (m', x) => some { s with m := m', pc := upd s.pc t (if hasReady x then .gR else .gw2 k) }
      | none => none
    | .gR =>
      match s.m.read t .value .rlx ts with
      | some (m', x) => some { s with m := m', pc := upd s.pc t (.done x) }
      | none => none
    | .q0 =>
      match s.m.read t .head o.ready ts with
      | some (m', x) => some { s with m := m', pc := upd s.pc t (if x = sealedHead then .gR else .idle) }
      | none => none
    | .r0 node =>
      match s.m.read t .head o.regLoad ts with
      | some (m', x) => some { s with m := m', pc := upd s.pc t (if x = sealedHead then .gR else .r1 node x) }
      | none => none
    | .r1 node exp =>
      match s.m.cas t .head o.casSucc o.casFail exp node ts with
      | some (m', ok, obs) =>
        some { s with m := m', pc := upd s.pc t (if ok then .idle else if obs = sealedHead then .gR else .r1 node obs) }
      | none => none

/-- one step of the view-level system: some thread performs some admissible operation -/
def VStep (o : Ords) (s s' : VState) : Prop := ∃ ev, exec o s ev = some s'

def VInit (s : VState) : Prop := ∃ iv, s = VState.init iv

def runV (o : Ords) : VState → List VEv → Option VState
  | s, [] => some s
  | s, e :: es => (exec o s e).bind (fun s' => runV o s' es)

end Babylon.Future.ViewM
