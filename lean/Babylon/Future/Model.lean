/-
  Atomic-granularity model of `FutureContext<T, M>` / `Promise` / `Future` / `CountDownLatch`
  (src/babylon/future.h, future.hpp; futex calls of concurrent/sched_interface.hpp).

  One model step = one action of the real code that VRT observes: an atomic operation on `_head`,
  `_futex` or the latch's `_count`, a futex wait / wake, a clock read, or one of the harness-visible
  events (value constructor, callback invocation, return of a call).  The same `stepThread` serves
  the theorems (any interleaving = any sequence of `Step`s, `Babylon/Future/Lemmas.lean`,
  `Properties/C08.lean`) and the lock-step replay of real executions (`Drivers/C08.lean`).

  Representation choices (each one an invariant of the real code that the lock-step replay checks
  through the pointer values in the trace and the order of callback events):
   * `_head` is kept as `Option (List cbId)`: `none` = SEALED_HEAD_VALUE, `some l` = the linked list of
     callback nodes, most recently pushed first.  The pointer the code compares in its CAS is
     `Head.ptr`; `node->next = head` (a plain write to a still private node) is folded into the CAS.
   * `_futex` is the 32-bit word: `READY_MASK` (bit 31) and a "somebody waits" flag (bit 0, set by `fetch_or`).
   * `int64_t` deadline arithmetic of `wait_for_slow` is two's-complement wrap-around (`wrap64`).
  Ghost fields (`runs`, `regDone`, `adds`, `hb`, …) record what happened; they never influence a step.
  Core Lean only.
-/
import Babylon.Gen.Future
import Babylon.Core.Trace

namespace Babylon.Future
open Babylon.Core Babylon.Gen.Future

/-- value of `_head` (a `CallbackNode*`) as the code sees it -/
inductive HPtr
  | null
  | node (id : Nat)
  | seal
  deriving DecidableEq, Repr, Inhabited

abbrev Head := Option (List Nat)

def Head.ptr : Head → HPtr
  | none => .seal
  | some [] => .null
  | some (id :: _) => .node id

/-- concrete pointer value; `addr id` = address of callback node `id` (learnt from the trace by the
driver, arbitrary for the theorems: it only decorates labels) -/
def HPtr.enc (addr : Nat → Nat) : HPtr → Nat
  | .null => 0
  | .node id => addr id
  | .seal => sealedHead

def u64 (x : Nat) : Nat := x % 2 ^ 64
/-- `int64_t` wrap-around -/
def wrap64 (x : Int) : Int := (x + 2 ^ 63) % 2 ^ 64 - 2 ^ 63
/-- `value & READY_MASK` -/
def hasReady (v : Nat) : Bool := decide (v / readyMask % 2 = 1)

/-- locals of one `wait_for_slow` activation -/
structure WF where
  start : Nat          -- clock read at entry
  until_ : Int         -- `until_ns` (wrapped)
  to0 : Nat            -- the clamped timeout the caller passed
  deriving DecidableEq, Repr, Inhabited

inductive Res
  | set | down
  | reg (id : Nat)
  | got (seen : Option Nat)
  | waited (ok : Bool) (slow : Bool) (start to0 now : Nat)   -- `slow = false`: fast path, no clock read
  | ready (b : Bool)
  deriving DecidableEq, Repr, Inhabited

inductive Pc
  | idle
  -- Promise::set_value(v)  (also reached from count_down / the latch constructor)
  | p0 (v : Nat)                 -- `!_context->ready(relaxed)`
  | s0 (v : Nat)                 -- `new (pointer()) ValueType(v)`
  | s1                           -- `seal()`: `_head.exchange(SEALED, acq_rel)`
  | s2 (det : List Nat)          -- `_futex.value().exchange(READY_MASK, release)`
  | s3 (det : List Nat)          -- `_futex.wake_all()`
  | s4 (det : List Nat)          -- run the detached list; `[]`: return
  -- CountDownLatch::count_down(d)
  | c0 (d : Nat)                 -- `_count.fetch_sub(d, acq_rel)`
  -- Future::get()
  | g0                           -- `_futex.value().load(acquire)`
  | gR                           -- `return value()`; the caller reads the value
  | w0                           -- wait_slow: `fetch_or(1, acquire) | 1`
  | w1 (value : Nat)             -- `_futex.wait(value, nullptr)`
  | wS (e : Nat)                 -- inside futex_wait, asleep since wake epoch `e` (woken once `wakes > e`)
  | w2                           -- `value = _futex.value().load(acquire)`
  -- Future::wait_for(τ)
  | f0 (tau : Int)               -- `_futex.value().load(acquire)`
  | f1 (to0 : Nat)               -- wait_for_slow: `clock_gettime`, `until_ns = now + timeout_ns`
  | f2 (w : WF)                  -- `fetch_or(1, acquire) | 1`
  | f3 (w : WF) (to value : Nat) -- `_futex.wait(value, &spec)` with `spec = to`
  | fS (w : WF) (e : Nat)        -- inside the timed futex_wait, asleep since wake epoch `e`
  | f4 (w : WF)                  -- `value = _futex.value().load(acquire)`
  | f5 (w : WF) (value : Nat)    -- `clock_gettime`; `timeout_ns = until_ns - now_ns`; `<= 0` → false
  -- FutureContext::on_finish(callback id)   (`then` = on_finish of a wrapping callback)
  | r0 (id : Nat)                -- `_head.load(acquire)`
  | r1 (id : Nat) (exp : HPtr)   -- `node->next = head; _head.compare_exchange_weak(head, node, acq_rel)`
  | rRun (id : Nat)              -- sealed observed: run the callback inline
  -- Future::ready()
  | q0                           -- `_head.load(acquire)`
  | ret (r : Res)                -- the call returns (harness event)
  deriving DecidableEq, Repr, Inhabited

structure State where
  head : Head
  futex : Nat
  storage : Option Nat
  count : Nat
  now : Nat
  wakes : Nat                       -- number of `futex_wake(all)` calls executed (wake epoch)
  pc : Nat → Pc
  -- configuration
  latch : Bool
  -- ghosts
  budget : Nat                      -- latch: initial count minus the sum of all `count_down` arguments called so far
  pending : List (Nat × Nat)        -- latch: (thread, d) of the `count_down` calls that have not executed their `fetch_sub`
  setCalled : Bool                  -- promise: `set_value` has been called (client contract: at most once)
  setVal : Option Nat               -- the argument of that call
  firer : Option Nat                -- the thread that entered `Promise::set_value` (call, latch reaching zero, latch(0) constructor)
  setEntries : Nat                  -- activations of `FutureContext::set_value`
  constructs : Nat                  -- executions of the value constructor
  seals : Nat                       -- executions of `seal()`
  setDone : Bool                    -- `FutureContext::set_value` has returned
  adds : Nat                        -- slow-path waits so far (`fetch_or`s performed on the futex word); statistic only
  xchgDone : Bool                   -- the setter has swapped READY into the futex word
  regOwner : Nat → Option Nat       -- callback id ↦ thread that passed it to on_finish
  det : List Nat                    -- the setter's detached list (the `det` of its program counter)
  regStarted : Nat → Bool           -- callback id has been passed to on_finish
  regDone : Nat → Bool              -- that on_finish call has returned
  runs : Nat → List (Option Nat)    -- what each invocation of callback `id` found in the value storage
  result : Nat → Option Res         -- last result returned to a thread
  -- happens-before ghost (moves only along the orders the code really uses, taken from `Gen`)
  sealRel : Bool                    -- SEALED was written by a releasing operation after the constructor
  futexRel : Bool                   -- READY was written by a releasing operation after the constructor
  hb : Nat → Bool                   -- thread has synchronised with a release the setter made after constructing
  nodeRel : Nat → Bool              -- node `id` was pushed by a releasing CAS
  sealAcq : Bool                    -- the sealing exchange was acquiring (the setter sees the pushed nodes)
  unsync : Bool                     -- some read of the value / of a callback node was not ordered by happens-before

def upd {α : Type} (f : Nat → α) (i : Nat) (v : α) : Nat → α := fun j => if j = i then v else f j

def State.init (latchCount : Option Nat) : State :=
  { head := some [], futex := 0, storage := none, count := latchCount.getD 0, now := 0, wakes := 0,
    pc := fun t => if t = 0 ∧ latchCount = some 0 then .p0 latchValue else .idle,
    latch := latchCount.isSome, budget := latchCount.getD 0, pending := [],
    setCalled := false, setVal := if latchCount.isSome then some latchValue else none,
    firer := if latchCount = some 0 then some 0 else none,
    setEntries := 0, constructs := 0, seals := 0, setDone := false, adds := 0, xchgDone := false,
    regOwner := fun _ => none, det := [],
    regStarted := fun _ => false, regDone := fun _ => false, runs := fun _ => [], result := fun _ => none,
    sealRel := false, futexRel := false, hb := fun _ => false, nodeRel := fun _ => false, sealAcq := false,
    unsync := false }

/-- what the trace line cannot be derived from the model state: scheduler / kernel choices -/
structure Hint where
  spurious : Bool := false    -- a weak CAS whose comparison succeeds fails anyway
  timeout : Bool := false     -- futex_wait of a woken timed waiter reports ETIMEDOUT (return value is ignored by the code)
  spuriousWake : Bool := false -- the kernel lets an untimed futex_wait return although nobody woke it
  woken : Nat := 0            -- number of sleepers futex_wake reports (ignored by the code)
  deriving Repr, Inhabited

def showOpt : Option Nat → String
  | some v => toString v
  | none => "uninit"

def Res.words : Res → List String
  | .set => ["ret", "set"]
  | .down => ["ret", "down"]
  | .reg _ => ["ret", "reg"]
  | .got seen => ["ret", "get", showOpt seen]
  | .waited ok _ _ _ _ => ["ret", "waitfor", if ok then "1" else "0"]
  | .ready b => ["ret", "ready", if b then "1" else "0"]

/-- the thread is inside futex_wait and no wake_all has happened since it fell asleep -/
def asleepIn (s : State) (t : Nat) : Bool :=
  match s.pc t with
  | .wS e => decide (s.wakes ≤ e)
  | .fS _ e => decide (s.wakes ≤ e)
  | _ => false

/-- loop head `while (!(value & READY_MASK))` of wait_slow -/
def waitLoop (value : Nat) : Pc := if hasReady value then .gR else .w1 value

/-- pc after `set_value` has nothing more to run -/
def setRet (s : State) : Res := if s.latch then .down else .set

/-- One action of thread `t`. -/
def stepThread (addr : Nat → Nat) (s : State) (t : Nat) (h : Hint) : Option (State × Act) :=
  match s.pc t with
  | .idle => none
  | .p0 v =>
    match s.head with
    | none =>      -- already ready: `assert(false)` in a debug build, nothing in a release build
      some ({ s with pc := upd s.pc t (.ret (setRet s)) }, .ld "head" 0 ordPromiseReadyCheck sealedHead)
    | some l =>
      some ({ s with pc := upd s.pc t (.s0 v), setEntries := s.setEntries + 1 },
            .ld "head" 0 ordPromiseReadyCheck ((Head.ptr (some l)).enc addr))
  | .s0 v =>
    some ({ s with storage := some v, constructs := s.constructs + 1, hb := upd s.hb t true, pc := upd s.pc t .s1 },
          .ev ["construct", toString v])
  | .s1 =>
    some ({ s with head := none, det := s.head.getD [], seals := s.seals + 1, sealRel := ordSeal.releases, sealAcq := ordSeal.acquires,
                   pc := upd s.pc t (.s2 (s.head.getD [])) },
          .xchg "head" 0 ordSeal (s.head.ptr.enc addr) sealedHead)
  | .s2 det =>
    some ({ s with futex := readyMask, futexRel := ordFutexXchg.releases, xchgDone := true,
                   pc := upd s.pc t (if s.futex > wakeIfWaitersAbove then .s3 det else .s4 det) },
          .xchg "futex" 0 ordFutexXchg s.futex readyMask)
  | .s3 det =>
    some ({ s with wakes := s.wakes + 1, pc := upd s.pc t (.s4 det) }, .fwake "futex" 0 99 h.woken)
  | .s4 det =>
    match det with
    | id :: rest =>
      some ({ s with runs := upd s.runs id (s.runs id ++ [s.storage]), det := rest,
                     unsync := s.unsync || !(s.hb t && s.nodeRel id && s.sealAcq),
                     pc := upd s.pc t (.s4 rest) },
            .ev ["cb", toString id, showOpt s.storage])
    | [] =>
      some ({ s with setDone := true, result := upd s.result t (some (setRet s)), pc := upd s.pc t .idle },
            .ev (setRet s).words)
  | .c0 d =>
    let new := u64 (s.count + 2 ^ 64 - d % 2 ^ 64)
    some ({ s with count := new, pending := s.pending.erase (t, d),
                   firer := if new = latchFireAt then some t else s.firer,
                   pc := upd s.pc t (if new = latchFireAt then .p0 latchValue else .ret .down) },
          .rmw "sub" "count" 0 ordCountSub s.count d)
  | .g0 =>
    some ({ s with hb := upd s.hb t (s.hb t || (hasReady s.futex && s.futexRel && ordGetLoad.acquires)),
                   pc := upd s.pc t (if hasReady s.futex then .gR else .w0) },
          .ld "futex" 0 ordGetLoad s.futex)
  | .gR =>
    some ({ s with result := upd s.result t (some (.got s.storage)), unsync := s.unsync || !s.hb t,
                   pc := upd s.pc t .idle },
          .ev (Res.got s.storage).words)
  | .w0 =>
    some ({ s with futex := s.futex ||| waitOrOperand, adds := s.adds + 1,
                   hb := upd s.hb t (s.hb t || (hasReady s.futex && s.futexRel && ordWaitRmw.acquires)),
                   pc := upd s.pc t (waitLoop (s.futex ||| waitOrLocalMask)) },
          .rmw "or" "futex" 0 ordWaitRmw s.futex waitOrOperand)
  | .w1 value =>
    if s.futex = value then
      some ({ s with pc := upd s.pc t (.wS s.wakes) }, .fwait "futex" 0 value true)
    else
      some ({ s with pc := upd s.pc t .w2 }, .fwait "futex" 0 value false)
  | .wS e =>      -- blocked until a wake_all happens (or the kernel returns spuriously)
    if e < s.wakes ∨ h.spuriousWake then some ({ s with pc := upd s.pc t .w2 }, .fwoke "futex" 0 false) else none
  | .w2 =>
    some ({ s with hb := upd s.hb t (s.hb t || (hasReady s.futex && s.futexRel && ordWaitLoad.acquires)),
                   pc := upd s.pc t (waitLoop s.futex) },
          .ld "futex" 0 ordWaitLoad s.futex)
  | .f0 tau =>
    some ({ s with hb := upd s.hb t (s.hb t || (hasReady s.futex && s.futexRel && ordWaitForLoad.acquires)),
                   pc := upd s.pc t (if hasReady s.futex then .ret (.waited waitForFast false 0 0 0)
                                     else .f1 (max timeoutClampLow tau).toNat) },
          .ld "futex" 0 ordWaitForLoad s.futex)
  | .f1 to0 =>
    some ({ s with pc := upd s.pc t (.f2 { start := s.now, until_ := wrap64 (s.now + to0), to0 := to0 }) },
          .ev ["clock", toString s.now])
  | .f2 w =>
    let value := s.futex ||| waitForOrLocalMask
    some ({ s with futex := s.futex ||| waitForOrOperand, adds := s.adds + 1,
                   hb := upd s.hb t (s.hb t || (hasReady s.futex && s.futexRel && ordWaitForRmw.acquires)),
                   pc := upd s.pc t (if hasReady value then .ret (.waited waitForSlowFinal true w.start w.to0 w.start)
                                     else .f3 w w.to0 value) },
          .rmw "or" "futex" 0 ordWaitForRmw s.futex waitForOrOperand)
  | .f3 w _ value =>
    if s.futex = value then
      some ({ s with pc := upd s.pc t (.fS w s.wakes) }, .fwait "futex" 0 value true)
    else
      some ({ s with pc := upd s.pc t (.f4 w) }, .fwait "futex" 0 value false)
  | .fS w e =>    -- woken: the kernel may still report a timeout; not woken: the timeout expires (any time: the code re-reads the clock)
    some ({ s with pc := upd s.pc t (.f4 w) }, .fwoke "futex" 0 (if e < s.wakes then h.timeout else true))
  | .f4 w =>
    some ({ s with hb := upd s.hb t (s.hb t || (hasReady s.futex && s.futexRel && ordWaitForSlowLoad.acquires)),
                   pc := upd s.pc t (.f5 w s.futex) },
          .ld "futex" 0 ordWaitForSlowLoad s.futex)
  | .f5 w value =>
    let timeout := wrap64 (w.until_ - s.now)
    some ({ s with pc := upd s.pc t (if timeout ≤ timeoutExpiredAtMost then .ret (.waited false true w.start w.to0 s.now)
                                     else if hasReady value then .ret (.waited waitForSlowFinal true w.start w.to0 s.now)
                                     else .f3 w timeout.toNat value) },
          .ev ["clock", toString s.now])
  | .r0 id =>
    match s.head with
    | none =>
      some ({ s with hb := upd s.hb t (s.hb t || (s.sealRel && ordRegLoad.acquires)), pc := upd s.pc t (.rRun id) },
            .ld "head" 0 ordRegLoad sealedHead)
    | some l =>
      some ({ s with pc := upd s.pc t (.r1 id (Head.ptr (some l))) }, .ld "head" 0 ordRegLoad ((Head.ptr (some l)).enc addr))
  | .r1 id exp =>
    match s.head with
    | none =>     -- lost against the sealing exchange
      some ({ s with hb := upd s.hb t (s.hb t || (s.sealRel && ordRegCasFail.acquires)), pc := upd s.pc t (.rRun id) },
            .cas "head" 0 true ordRegCasSucc ordRegCasFail (exp.enc addr) (addr id) false sealedHead)
    | some l =>
      if Head.ptr (some l) = exp ∧ ¬ h.spurious then
        some ({ s with head := some (id :: l), nodeRel := upd s.nodeRel id ordRegCasSucc.releases,
                       pc := upd s.pc t (.ret (.reg id)) },
              .cas "head" 0 true ordRegCasSucc ordRegCasFail (exp.enc addr) (addr id) true (exp.enc addr))
      else
        some ({ s with pc := upd s.pc t (.r1 id (Head.ptr (some l))) },
              .cas "head" 0 true ordRegCasSucc ordRegCasFail (exp.enc addr) (addr id) false ((Head.ptr (some l)).enc addr))
  | .rRun id =>
    some ({ s with runs := upd s.runs id (s.runs id ++ [s.storage]), unsync := s.unsync || !s.hb t,
                   pc := upd s.pc t (.ret (.reg id)) },
          .ev ["cb", toString id, showOpt s.storage])
  | .q0 =>
    some ({ s with hb := upd s.hb t (s.hb t || (s.head.isNone && s.sealRel && ordFutureReady.acquires)),
                   pc := upd s.pc t (.ret (.ready s.head.isNone)) },
          .ld "head" 0 ordFutureReady (s.head.ptr.enc addr))
  | .ret r =>
    some ({ s with result := upd s.result t (some r), pc := upd s.pc t .idle,
                   regDone := match r with | .reg id => upd s.regDone id true | _ => s.regDone },
          .ev r.words)

/-! calls an idle thread may start -/
def callSet (s : State) (t v : Nat) : State :=
  { s with pc := upd s.pc t (.p0 v), setCalled := true, setVal := some v, firer := some t }
def callDown (s : State) (t d : Nat) : State :=
  { s with pc := upd s.pc t (.c0 d), budget := s.budget - d, pending := (t, d) :: s.pending }
def callGet (s : State) (t : Nat) : State := { s with pc := upd s.pc t .g0 }
def callWaitFor (s : State) (t : Nat) (tau : Int) : State := { s with pc := upd s.pc t (.f0 tau) }
def callReg (s : State) (t id : Nat) : State :=
  { s with pc := upd s.pc t (.r0 id), regStarted := upd s.regStarted id true, regOwner := upd s.regOwner id (some t) }
def callReady (s : State) (t : Nat) : State := { s with pc := upd s.pc t .q0 }

/-- The transition relation: a thread performs its next action (spurious kernel wake-ups and spurious
weak-CAS failures are `Hint` choices); the clock advances; an idle thread starts a call the client contract allows
(`set_value` once per promise; `count_down` arguments ≥ 1 summing to at most the initial count;
each callback object registered once). -/
inductive Step : State → State → Prop
  | act (s : State) (addr : Nat → Nat) (t : Nat) (h : Hint) (s' : State) (l : Act) :
      stepThread addr s t h = some (s', l) → Step s s'
  | tick (s : State) (d : Nat) : Step s { s with now := s.now + d }
  | set (s : State) (t v : Nat) : s.pc t = .idle → s.latch = false → s.setCalled = false → Step s (callSet s t v)
  | down (s : State) (t d : Nat) : s.pc t = .idle → s.latch = true → 1 ≤ d → d ≤ s.budget → Step s (callDown s t d)
  | get (s : State) (t : Nat) : s.pc t = .idle → Step s (callGet s t)
  | waitFor (s : State) (t : Nat) (tau : Int) : s.pc t = .idle → -2 ^ 63 ≤ tau → tau < 2 ^ 63 → Step s (callWaitFor s t tau)
  | reg (s : State) (t id : Nat) : s.pc t = .idle → s.regStarted id = false → Step s (callReg s t id)
  | ready (s : State) (t : Nat) : s.pc t = .idle → Step s (callReady s t)

/-- initial states: a fresh promise (`none`) or a latch constructed with count `n` (a `size_t`) -/
def Init (s : State) : Prop := ∃ n : Option Nat, (∀ k, n = some k → k < 2 ^ 64) ∧ s = State.init n

/-- skeletons this model was written against (compared with the generated ones in Properties/C08) -/
def Skel.set_value : List Site := [
  .call "new", .call "seal", .xchg "_futex.value()" .rel, .call "_futex.wake_all", .call "head->function"]
def Skel.seal : List Site := [.xchg "_head" .acqrel]
def Skel.get : List Site := [.load "_futex.value()" .acq, .call "wait_slow"]
def Skel.wait_for : List Site := [.load "_futex.value()" .acq, .call "wait_for_slow"]
def Skel.on_finish : List Site := [
  .load "_head" .acq, .call "run_callback", .call "run_callback", .cas "_head" false .acqrel .acq, .call "node->function"]
def Skel.wait_slow : List Site := [
  .rmw "fetch_or" "_futex.value()" .acq, .call "_futex.wait", .load "_futex.value()" .acq]
def Skel.wait_for_slow : List Site := [
  .call "clock_gettime", .rmw "fetch_or" "_futex.value()" .acq, .call "_futex.wait",
  .load "_futex.value()" .acq, .call "clock_gettime"]
def Skel.promise_set_value : List Site := [.call "ready", .call "set_value"]
def Skel.future_ready : List Site := [.call "ready"]
def Skel.count_down : List Site := [.rmw "fetch_sub" "_count" .acqrel, .call "_promise.set_value"]
def Skel.latch_ctor : List Site := [.call "_promise.set_value"]

end Babylon.Future
