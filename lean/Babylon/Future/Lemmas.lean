/-
  Invariants of the Future / Promise / CountDownLatch model (all interleavings, thread counts,
  timeouts, call histories): helper lemmas for Properties/C08.lean.
-/
import Babylon.Future.Model
import Babylon.Core.Reach

namespace Babylon.Future
open Babylon.Core Babylon.Gen.Future

@[simp] theorem upd_same {α : Type} (f : Nat → α) (i : Nat) (v : α) : upd f i v i = v := by simp [upd]
theorem upd_ne {α : Type} (f : Nat → α) {i j : Nat} (v : α) (h : j ≠ i) : upd f i v j = f j := by simp [upd, h]
theorem upd_apply {α : Type} (f : Nat → α) (i j : Nat) (v : α) : upd f i v j = if j = i then v else f j := rfl

/-- the thread is inside `Promise::set_value` / `FutureContext::set_value` -/
def inSet : Pc → Bool
  | .p0 _ | .s0 _ | .s1 | .s2 _ | .s3 _ | .s4 _ => true
  | _ => false

/-! ### list helpers for the latch's pending `count_down` calls -/
theorem snd_le_sum {l : List (Nat × Nat)} {a : Nat × Nat} (h : a ∈ l) : a.2 ≤ (l.map Prod.snd).sum := by
  induction l with
  | nil => cases h
  | cons b l ih =>
    simp only [List.map_cons, List.sum_cons]
    rcases List.mem_cons.mp h with rfl | h
    · omega
    · have := ih h; omega

theorem sum_erase {l : List (Nat × Nat)} {a : Nat × Nat} (h : a ∈ l) :
    ((l.erase a).map Prod.snd).sum + a.2 = (l.map Prod.snd).sum := by
  induction l with
  | nil => cases h
  | cons b l ih =>
    by_cases hb : b = a
    · subst hb; simp [List.erase_cons_head]; omega
    · have hm : a ∈ l := by
        rcases List.mem_cons.mp h with rfl | h
        · exact absurd rfl hb
        · exact h
      have := ih hm
      rw [List.erase_cons_tail (by simpa using hb)]
      simp only [List.map_cons, List.sum_cons]; omega

theorem sum_pos_of_mem {l : List (Nat × Nat)} (hd : ∀ a ∈ l, 1 ≤ a.2) (hne : l ≠ []) : 1 ≤ (l.map Prod.snd).sum := by
  cases l with
  | nil => exact absurd rfl hne
  | cons b l => have := hd b (List.mem_cons_self ..); simp only [List.map_cons, List.sum_cons]; omega

/-- Who is inside the set path; the latch's arithmetic. -/
structure InvP (s : State) : Prop where
  owner : ∀ t, inSet (s.pc t) = true → s.firer = some t
  promise : s.latch = false → s.setCalled = false → s.firer = none
  noPend : s.latch = false → s.pending = []
  c0_pend : ∀ t d, s.pc t = .c0 d → (t, d) ∈ s.pending
  pend_c0 : ∀ t d, (t, d) ∈ s.pending → s.pc t = .c0 d ∧ 1 ≤ d
  pend_nodup : s.pending.Nodup
  count_eq : s.latch = true → s.count = s.budget + (s.pending.map Prod.snd).sum
  count_lt : s.count < 2 ^ 64
  fired : s.latch = true → s.firer.isSome = true → s.count = 0
  zero : s.latch = true → s.count = 0 → s.firer.isSome = true

theorem InvP.init (n : Option Nat) (hn : ∀ k, n = some k → k < 2 ^ 64) : InvP (State.init n) := by
  constructor
  · intro t h
    simp only [State.init] at h ⊢
    split at h <;> simp_all [inSet]
  · intro h1 h2
    cases n <;> simp_all [State.init]
  all_goals (cases n <;> simp_all [State.init] <;> try grind)

theorem u64_sub {c d : Nat} (hc : c < 2 ^ 64) (hd : d ≤ c) : u64 (c + 2 ^ 64 - d % 2 ^ 64) = c - d := by
  unfold u64
  have : d % 2 ^ 64 = d := Nat.mod_eq_of_lt (by omega)
  rw [this]; omega

/-- a step of thread `t` that leaves the set path / latch bookkeeping alone preserves `InvP` -/
theorem InvP.frame {s s' : State} (hi : InvP s) (t : Nat) (p' : Pc)
    (hpc : s'.pc = upd s.pc t p') (hp' : inSet p' = true → inSet (s.pc t) = true)
    (hc0 : ∀ d, p' ≠ .c0 d) (hold : ∀ d, s.pc t ≠ .c0 d)
    (h1 : s'.firer = s.firer) (h2 : s'.latch = s.latch) (h3 : s'.setCalled = false → s.setCalled = false)
    (h4 : s'.pending = s.pending) (h5 : s'.count = s.count) (h6 : s'.budget = s.budget) : InvP s' := by
  obtain ⟨ho, hp, noPend, c0_pend, pend_c0, pend_nodup, count_eq, count_lt, fired, zero⟩ := hi
  have hot := ho t
  constructor <;> intros <;> simp only [hpc, h1, h2, h4, h5, h6] at * <;> grind [upd_apply]

set_option maxHeartbeats 1000000 in
theorem InvP.step {s s' : State} (h : Step s s') (hi : InvP s) : InvP s' := by
  have hi' := hi
  obtain ⟨ho, hp, noPend, c0_pend, pend_c0, pend_nodup, count_eq, count_lt, fired, zero⟩ := hi
  cases h with
  | act addr t h x l hst =>
    cases hpc : s.pc t <;> simp only [stepThread, waitLoop, hpc] at hst
    case c0 d =>
      simp only [Option.some.injEq, Prod.mk.injEq] at hst
      obtain ⟨rfl, rfl⟩ := hst
      have hm := c0_pend t d hpc
      have hd := (pend_c0 t d hm).2
      have hl : s.latch = true := by
        cases hl : s.latch
        · rw [noPend hl] at hm; cases hm
        · rfl
      have hsum := sum_erase hm
      have hle := snd_le_sum hm
      have hc := count_eq hl
      have hnew := u64_sub count_lt (show d ≤ s.count by simp only at hle; omega)
      have hnd := pend_nodup.erase (t, d)
      have hmem : ∀ a, a ∈ s.pending.erase (t, d) ↔ a ≠ (t, d) ∧ a ∈ s.pending := fun a => pend_nodup.mem_erase_iff
      have hnf : s.firer = none := by
        cases hf : s.firer with
        | none => rfl
        | some u => have := fired hl (by simp [hf]); simp only at hle; omega
      simp only at hsum hle
      constructor
      · intro u hu
        simp only [upd_apply] at hu ⊢
        by_cases hut : u = t
        · subst hut; simp only [if_true] at hu
          split at hu
          · simp_all
          · simp [inSet] at hu
        · simp only [hut, if_false] at hu
          have := ho u hu; simp [hnf] at this
      · intro h1; simp [hl] at h1
      · intro h1; simp [hl] at h1
      · intro u e hu
        simp only [upd_apply] at hu
        by_cases hut : u = t
        · subst hut; simp only [if_true] at hu; split at hu <;> simp at hu
        · simp only [hut, if_false] at hu
          rw [hmem]; exact ⟨by simp [hut], c0_pend u e hu⟩
      · intro u e hu
        rw [hmem] at hu
        obtain ⟨hne, hu⟩ := hu
        have hut : u ≠ t := by
          intro hut; subst hut
          have := (pend_c0 u e hu).1; rw [hpc] at this; injection this with this; subst this; exact hne rfl
        simp only [upd_apply, hut, if_false]
        exact pend_c0 u e hu
      · exact hnd
      · intro _; simp only [hnew]; omega
      · simp only [hnew]; omega
      · intro _ _
        simp only [hnew, latchFireAt] at *
        split at * <;> simp_all
      · intro _ h0
        simp only [hnew, latchFireAt] at *
        simp [h0]
    all_goals (try split at hst)
    all_goals (try split at hst)
    all_goals (try split at hst)
    all_goals (try simp only [Option.some.injEq, Prod.mk.injEq, reduceCtorEq] at hst)
    all_goals (try (obtain ⟨rfl, rfl⟩ := hst))
    all_goals (first
      | (refine InvP.frame hi' t _ rfl ?_ ?_ ?_ rfl rfl (fun h => h) rfl rfl rfl <;> (simp [hpc, inSet]; done))
      | (exfalso; assumption)
      | (have hot := ho t; constructor <;> intros <;> (try dsimp only at *) <;> first | assumption | grind [upd_apply, inSet, waitLoop]))
  | tick d => constructor <;> intros <;> (try dsimp only at *) <;> first | assumption | grind
  | set t v hidle hl hsc =>
    have hnf := hp hl hsc
    constructor <;> intros <;> (try dsimp only [callSet] at *) <;> first | assumption | grind [upd_apply, inSet]
  | down t d hidle hl h1 hb =>
    have hot := ho t
    have hnm : (t, d) ∉ s.pending := fun hm => by have := (pend_c0 t d hm).1; rw [hidle] at this; cases this
    constructor <;> intros <;> (try dsimp only [callDown] at *) <;> first | assumption | grind [upd_apply, inSet]
  | get t hidle => refine InvP.frame hi' t _ rfl ?_ ?_ ?_ rfl rfl (fun h => h) rfl rfl rfl <;> simp [hidle, inSet]
  | waitFor t tau hidle h1 h2 => refine InvP.frame hi' t _ rfl ?_ ?_ ?_ rfl rfl (fun h => h) rfl rfl rfl <;> simp [hidle, inSet]
  | reg t id hidle hs => refine InvP.frame hi' t _ rfl ?_ ?_ ?_ rfl rfl (fun h => h) rfl rfl rfl <;> simp [hidle, inSet]
  | ready t hidle => refine InvP.frame hi' t _ rfl ?_ ?_ ?_ rfl rfl (fun h => h) rfl rfl rfl <;> simp [hidle, inSet]

/-- what `InvP` says about a thread about to execute the latch's `fetch_sub` -/
theorem InvP.c0_facts {s : State} (hP : InvP s) {t d : Nat} (hpc : s.pc t = .c0 d) :
    s.firer = none ∧ s.latch = true ∧ 1 ≤ d ∧ d ≤ s.count ∧ u64 (s.count + 2 ^ 64 - d % 2 ^ 64) = s.count - d := by
  obtain ⟨ho, hp, noPend, c0_pend, pend_c0, pend_nodup, count_eq, count_lt, fired, zero⟩ := hP
  have hm := c0_pend t d hpc
  have hd := (pend_c0 t d hm).2
  have hl : s.latch = true := by
    cases hl : s.latch
    · rw [noPend hl] at hm; cases hm
    · rfl
  have hle := snd_le_sum hm
  have hc := count_eq hl
  simp only at hle
  have hdc : d ≤ s.count := by omega
  refine ⟨?_, hl, hd, hdc, u64_sub count_lt hdc⟩
  cases hf : s.firer with
  | none => rfl
  | some u => have := fired hl (by simp [hf]); omega

theorem InvP.reach {s : State} (h : Reachable Init Step s) : InvP s := by
  induction h with
  | base hi => obtain ⟨n, hn, rfl⟩ := hi; exact InvP.init n hn
  | tail _ hst ih => exact InvP.step hst ih

end Babylon.Future
