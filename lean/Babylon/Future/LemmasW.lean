/-
  `wait_for`: the deadline arithmetic of `wait_for_slow` in wrap-around `int64_t`.
  `until_ns = now + timeout_ns` may overflow (τ near INT64_MAX) but `until_ns - now_ns` wraps back:
  with a monotone clock below 2^63 ns and 0 ≤ timeout < 2^63 the computed remaining time is exact.
-/
import Babylon.Future.Lemmas

namespace Babylon.Future
open Babylon.Core Babylon.Gen.Future

theorem wrap64_id {x : Int} (h1 : -2 ^ 63 ≤ x) (h2 : x < 2 ^ 63) : wrap64 x = x := by
  unfold wrap64; omega

/-- the remaining time `until_ns - now_ns` is exact although `until_ns` may have wrapped -/
theorem wrap64_deadline {a b c : Nat} (hac : a ≤ c) (hc : c < 2 ^ 63) (hb : b < 2 ^ 63) :
    wrap64 (wrap64 ((a : Int) + b) - c) = (a : Int) + b - c := by
  unfold wrap64; omega

def wfOk (s : State) (w : WF) : Prop :=
  w.until_ = wrap64 ((w.start : Int) + w.to0) ∧ w.start ≤ s.now ∧ w.to0 < 2 ^ 63

/-- program counters of `wait_for` -/
def wk : Pc → Bool
  | .f0 _ | .f1 _ | .f2 _ | .f3 .. | .fS .. | .f4 _ | .f5 .. => true
  | .ret (.waited false ..) => true
  | _ => false

structure InvW (s : State) : Prop where
  f0 : ∀ t tau, s.pc t = .f0 tau → -2 ^ 63 ≤ tau ∧ tau < 2 ^ 63
  f1 : ∀ t to0, s.pc t = .f1 to0 → to0 < 2 ^ 63
  f2 : ∀ t w, s.pc t = .f2 w → wfOk s w
  f3 : ∀ t w to v, s.pc t = .f3 w to v → wfOk s w
  fS : ∀ t w e, s.pc t = .fS w e → wfOk s w
  f4 : ∀ t w, s.pc t = .f4 w → wfOk s w
  f5 : ∀ t w v, s.pc t = .f5 w v → wfOk s w
  retF : ∀ t b st to n, s.pc t = .ret (.waited false b st to n) → b = true ∧ n ≤ s.now ∧ st ≤ n ∧ (n < 2 ^ 63 → st + to ≤ n)

theorem InvW.init (n : Option Nat) : InvW (State.init n) := by
  constructor <;> intros <;> (cases n <;> simp_all [State.init] <;> try grind)

theorem InvW.frame {s s' : State} (hi : InvW s) (t : Nat) (p' : Pc)
    (hpc : s'.pc = upd s.pc t p') (hp' : wk p' = false) (h1 : s.now ≤ s'.now) : InvW s' := by
  obtain ⟨f0, f1, f2, f3, fS, f4, f5, retF⟩ := hi
  constructor <;> intros <;> simp only [hpc, wfOk] at * <;> grind [upd_apply, wk]

set_option maxHeartbeats 2000000 in
theorem InvW.step {s s' : State} (h : Step s s') (hi : InvW s) : InvW s' := by
  have hi' := hi
  obtain ⟨f0, f1, f2, f3, fS, f4, f5, retF⟩ := hi
  cases h with
  | act addr t h x l hst =>
    cases hpc : s.pc t <;> simp only [stepThread, waitLoop, hpc, timeoutExpiredAtMost, timeoutClampLow, waitForFast, waitForSlowFinal] at hst
    case f5 w v =>
      simp only [Option.some.injEq, Prod.mk.injEq] at hst
      obtain ⟨rfl, rfl⟩ := hst
      obtain ⟨hu, hle, hlt⟩ := f5 t w v hpc
      have hd : s.now < 2 ^ 63 → wrap64 (w.until_ - (s.now : Int)) = (w.start : Int) + w.to0 - s.now := fun hc => by
        rw [hu]; exact wrap64_deadline hle hc hlt
      constructor <;> intros <;> simp only [wfOk] at * <;> (try dsimp only at *) <;> first | assumption | grind [upd_apply]
    all_goals (try split at hst)
    all_goals (try split at hst)
    all_goals (try split at hst)
    all_goals (try simp only [Option.some.injEq, Prod.mk.injEq, reduceCtorEq] at hst)
    all_goals (try (obtain ⟨rfl, rfl⟩ := hst))
    all_goals (try (exfalso; assumption))
    all_goals (first
      | (refine InvW.frame hi' t _ rfl ?_ (Nat.le_refl _) <;> (simp [hpc, wk]; done))
      | (refine InvW.frame hi' t _ rfl ?_ (Nat.le_refl _) <;> (simp only [setRet]; split <;> simp [wk]; done))
      | (constructor <;> intros <;> simp only [wfOk] at * <;> (try dsimp only at *) <;> first | assumption | grind [upd_apply]))
  | tick d => constructor <;> intros <;> simp only [wfOk] at * <;> (try dsimp only at *) <;> first | assumption | grind
  | set t v hidle hl hsc => refine InvW.frame hi' t _ rfl ?_ (Nat.le_refl _) <;> simp [wk]
  | down t d hidle hl h1 hb' => refine InvW.frame hi' t _ rfl ?_ (Nat.le_refl _) <;> simp [wk]
  | get t hidle => refine InvW.frame hi' t _ rfl ?_ (Nat.le_refl _) <;> simp [wk]
  | waitFor t tau hidle h1 h2 =>
    constructor <;> intros <;> simp only [wfOk] at * <;> (try dsimp only [callWaitFor] at *) <;> first | assumption | grind [upd_apply]
  | reg t id hidle hs => refine InvW.frame hi' t _ rfl ?_ (Nat.le_refl _) <;> simp [wk]
  | ready t hidle => refine InvW.frame hi' t _ rfl ?_ (Nat.le_refl _) <;> simp [wk]

theorem InvW.reach {s : State} (h : Reachable Init Step s) : InvW s := by
  induction h with
  | base hi => obtain ⟨n, hn, rfl⟩ := hi; exact InvW.init n
  | tail hr hst ih => exact InvW.step hst ih

end Babylon.Future
