/-
  Case analysis of `stepThread`, done once: `TStep c s t s'` lists every way thread `t` can move
  from `s` to `s'`, with the guard of the branch, forgetting the labels.
-/
import Babylon.CVec.Model

namespace Babylon.CVec
open Babylon.Core

/-- where retire goes after its clock read -/
def rClockNext (c : Cfg) (x lts ln v nt : Nat) (k : Kont) : Pc :=
  if expired lts (unitOf v) then Pc.rCasX x lts ln v nt k
  else if c.reread then .rClock2 x lts ln nt k else .rCasW x lts ln v nt k

inductive TStep (c : Cfg) (s : State) (t : Nat) : State → Prop
  | gqFast (need : Nat) (k : Kont) : s.pc t = .gq need k → need ≤ (s.tbl s.cur).length → TStep c s t (finish c s t k s.cur)
  | gqSlow (need : Nat) (k : Kont) : s.pc t = .gq need k → (s.tbl s.cur).length < need → TStep c s t (gqSlow s t need k)
  | casWin (nt old need : Nat) (made : List Nat) (k : Kont) : s.pc t = .casT nt old need made k → s.cur = old →
      TStep c s t (casWin s t nt old made k)
  | casLoseDone (nt old need : Nat) (made : List Nat) (k : Kont) : s.pc t = .casT nt old need made k → s.cur ≠ old →
      need ≤ (s.tbl s.cur).length → TStep c s t (casLoseDone c s t nt made k)
  | casLoseRetry (nt old need : Nat) (made : List Nat) (k : Kont) : s.pc t = .casT nt old need made k → s.cur ≠ old →
      (s.tbl s.cur).length < need → TStep c s t (casLoseRetry s t nt need made k)
  | rLoad (x nt : Nat) (k : Kont) : s.pc t = .rLoad x nt k →
      TStep c s t { s with pc := upd s.pc t (.rClock x s.hts s.hnode nt k) }
  | rClock (x lts ln nt : Nat) (k : Kont) (v : Nat) : s.pc t = .rClock x lts ln nt k → s.now ≤ v →
      TStep c s t { s with now := v, pc := upd s.pc t (rClockNext c x lts ln v nt k) }
  | rCasXWin (x lts ln v nt : Nat) (k : Kont) : s.pc t = .rCasX x lts ln v nt k → headMatches s lts ln = true →
      TStep c s t (rCasXWin c s t x ln v nt k)
  | rCasXFail (x lts ln v nt : Nat) (k : Kont) : s.pc t = .rCasX x lts ln v nt k → headMatches s lts ln = false →
      TStep c s t (rRetry c s t x v nt k)
  | rClock2 (x lts ln nt : Nat) (k : Kont) (v : Nat) : s.pc t = .rClock2 x lts ln nt k → s.now ≤ v →
      TStep c s t { s with now := v, pc := upd s.pc t (.rCasW x lts ln v nt k) }
  | rCasWWin (x lts ln v nt : Nat) (k : Kont) : s.pc t = .rCasW x lts ln v nt k → headMatches s lts ln = true →
      TStep c s t (rCasWWin c s t x ln v nt k)
  | rCasWFail (x lts ln v nt : Nat) (k : Kont) : s.pc t = .rCasW x lts ln v nt k →
      TStep c s t (rRetry c s t x v nt k)
  | gLoad : s.pc t = .gLoad → TStep c s t { s with pc := upd s.pc t (.gClock s.hts s.hnode) }
  | gClockGo (lts ln v : Nat) : s.pc t = .gClock lts ln → s.now ≤ v → expired lts (unitOf v) = true →
      TStep c s t { s with now := v, pc := upd s.pc t (.gCas lts ln v) }
  | gClockRet (lts ln v : Nat) : s.pc t = .gClock lts ln → s.now ≤ v → TStep c s t (retUnit { s with now := v } t)
  | gCasWin (lts ln v : Nat) : s.pc t = .gCas lts ln v → headMatches s lts ln = true → TStep c s t (gCasWin s t ln v)
  | gCasFail (lts ln v : Nat) : s.pc t = .gCas lts ln v → TStep c s t (retUnit s t)
  | sLoad (k : SKont) : s.pc t = .sLoad k → TStep c s t (finishS c s t k s.cur)
  | xLoad : s.pc t = .xLoad → TStep c s t (xLoadSt s t)
  | xXchg : s.pc t = .xXchg → TStep c s t (xXchgSt s t)
  | xLoad2 : s.pc t = .xLoad2 → TStep c s t (xLoad2St s t)

theorem stepThread_TStep {c : Cfg} {s s' : State} {t : Nat} {inp : Inp} {ls : List Act}
    (hst : stepThread c s t inp = some (s', ls)) : TStep c s t s' := by
  unfold stepThread at hst
  split at hst
  · cases hst
  · rename_i need k hpc
    split at hst
    all_goals (rename_i hc; simp only [Option.some.injEq, Prod.mk.injEq] at hst; obtain ⟨rfl, -⟩ := hst)
    · exact .gqFast need k hpc hc
    · exact .gqSlow need k hpc (Nat.lt_of_not_le hc)
  · rename_i nt old need made k hpc
    split at hst
    · rename_i hc; simp only [Option.some.injEq, Prod.mk.injEq] at hst; obtain ⟨rfl, -⟩ := hst
      exact .casWin nt old need made k hpc hc
    · rename_i hc
      split at hst
      all_goals (rename_i hl; simp only [Option.some.injEq, Prod.mk.injEq] at hst; obtain ⟨rfl, -⟩ := hst)
      · exact .casLoseDone nt old need made k hpc hc hl
      · exact .casLoseRetry nt old need made k hpc hc (Nat.lt_of_not_le hl)
  · rename_i x nt k hpc
    simp only [Option.some.injEq, Prod.mk.injEq] at hst; obtain ⟨rfl, -⟩ := hst
    exact .rLoad x nt k hpc
  · rename_i x lts ln nt k hpc
    split at hst
    · cases hst
    · rename_i hclk
      simp only [Option.some.injEq, Prod.mk.injEq] at hst; obtain ⟨rfl, -⟩ := hst
      exact .rClock x lts ln nt k inp.clock hpc (Nat.le_of_not_lt hclk)
  · rename_i x lts ln v nt k hpc
    split at hst
    all_goals (rename_i hm; simp only [Option.some.injEq, Prod.mk.injEq] at hst; obtain ⟨rfl, -⟩ := hst)
    · exact .rCasXWin x lts ln v nt k hpc hm
    · exact .rCasXFail x lts ln v nt k hpc (by simpa using hm)
  · rename_i x lts ln nt k hpc
    split at hst
    · cases hst
    · rename_i hclk
      simp only [Option.some.injEq, Prod.mk.injEq] at hst; obtain ⟨rfl, -⟩ := hst
      exact .rClock2 x lts ln nt k inp.clock hpc (Nat.le_of_not_lt hclk)
  · rename_i x lts ln v nt k hpc
    split at hst
    all_goals (rename_i hm; simp only [Option.some.injEq, Prod.mk.injEq] at hst; obtain ⟨rfl, -⟩ := hst)
    · exact .rCasWWin x lts ln v nt k hpc hm.1
    · exact .rCasWFail x lts ln v nt k hpc
  · rename_i hpc
    simp only [Option.some.injEq, Prod.mk.injEq] at hst; obtain ⟨rfl, -⟩ := hst
    exact .gLoad hpc
  · rename_i lts ln hpc
    split at hst
    · cases hst
    · rename_i hclk
      dsimp only at hst
      split at hst
      all_goals (rename_i he; simp only [Option.some.injEq, Prod.mk.injEq] at hst; obtain ⟨rfl, -⟩ := hst)
      · exact .gClockGo lts ln inp.clock hpc (Nat.le_of_not_lt hclk) he
      · exact .gClockRet lts ln inp.clock hpc (Nat.le_of_not_lt hclk)
  · rename_i lts ln v hpc
    split at hst
    all_goals (rename_i hm; simp only [Option.some.injEq, Prod.mk.injEq] at hst; obtain ⟨rfl, -⟩ := hst)
    · exact .gCasWin lts ln v hpc hm
    · exact .gCasFail lts ln v hpc
  · rename_i k hpc
    simp only [Option.some.injEq, Prod.mk.injEq] at hst; obtain ⟨rfl, -⟩ := hst
    exact .sLoad k hpc
  · rename_i hpc
    simp only [Option.some.injEq, Prod.mk.injEq] at hst; obtain ⟨rfl, -⟩ := hst
    exact .xLoad hpc
  · rename_i hpc
    simp only [Option.some.injEq, Prod.mk.injEq] at hst; obtain ⟨rfl, -⟩ := hst
    exact .xXchg hpc
  · rename_i hpc
    simp only [Option.some.injEq, Prod.mk.injEq] at hst; obtain ⟨rfl, -⟩ := hst
    exact .xLoad2 hpc

end Babylon.CVec
