/-
  What threads hold (snapshots, returned elements) and the combined invariant of every reachable state.
-/
import Babylon.CVec.LemmasRetire
import Babylon.CVec.LemmasIndex
import Babylon.Core.Reach

namespace Babylon.CVec
open Babylon.Core

/-- the table `get_qualified_block_table_slow` returns once its retire call is over -/
def Pc.retTable : Pc → Option Nat
  | .rLoad _ nt _ | .rClock _ _ _ nt _ | .rCasX _ _ _ _ nt _ | .rClock2 _ _ _ nt _ | .rCasW _ _ _ _ nt _ => some nt
  | _ => none

theorem Pc.retTable_of_notR {p : Pc} (h : p.isR = false) : p.retTable = none := by
  cases p <;> simp_all [Pc.isR, Pc.retTable]

theorem elemAt_prefix {c : Cfg} {l l' : List Nat} {i : Nat} {a : Nat × Nat} (hp : l <+: l')
    (h : elemAt c l i = some a) : elemAt c l' i = some a := by
  obtain ⟨r, rfl⟩ := hp
  simp only [elemAt, Option.map_eq_some_iff] at h ⊢
  obtain ⟨b, hb, rfl⟩ := h
  refine ⟨b, ?_, rfl⟩
  have hlt : blockIndex c i < l.length := by
    rcases Nat.lt_or_ge (blockIndex c i) l.length with h | h
    · exact h
    · rw [List.getElem?_eq_none h] at hb; cases hb
  rw [List.getElem?_append_left hlt]; exact hb

structure InvS (c : Cfg) (s : State) : Prop where
  snapPub : ∀ t T, s.snap t = some T → s.pub T = true
  retPub : ∀ t nt, (s.pc t).retTable = some nt → s.pub nt = true
  resCur : ∀ t i b o, s.result t = .elem i b o → elemAt c (s.tbl s.cur) i = some (b, o)

theorem InvS.init (c : Cfg) (now : Nat) : InvS c (State.init now) := by
  constructor <;> simp [State.init, Pc.retTable]

/-- nothing a thread holds changes, the acting thread keeps or drops its pending return table -/
theorem InvS.same {c : Cfg} {s s' : State} (h : InvS c s) (t : Nat) (p' : Pc)
    (hcur : s'.cur = s.cur) (htbl : s'.tbl = s.tbl) (hpub : s'.pub = s.pub) (hsnap : s'.snap = s.snap)
    (hres : s'.result = s.result ∨ s'.result = upd s.result t .unit) (hpc : s'.pc = upd s.pc t p')
    (hret : p'.retTable = (s.pc t).retTable ∨ p'.retTable = none) : InvS c s' := by
  constructor
  · intro u T hu; rw [hsnap] at hu; rw [hpub]; exact h.snapPub u T hu
  · intro u nt hu
    rw [hpc] at hu; rw [hpub]
    by_cases hut : u = t
    · subst hut; simp only [upd_same] at hu
      rcases hret with e | e
      · rw [e] at hu; exact h.retPub u nt hu
      · rw [e] at hu; cases hu
    · rw [upd_other _ _ hut] at hu; exact h.retPub u nt hu
  · intro u i b o hu
    rw [htbl, hcur]
    rcases hres with e | e
    · rw [e] at hu; exact h.resCur u i b o hu
    · rw [e] at hu
      by_cases hut : u = t
      · subst hut; simp at hu
      · rw [upd_other _ _ hut] at hu; exact h.resCur u i b o hu

/-- `get_qualified_block_table` returns published table `T` to its caller -/
theorem InvS.fin {c : Cfg} {s s' : State} (h : InvS c s) (ha : InvA s) (t T : Nat) (k : Kont) (hT : s.pub T = true)
    (hcur : s'.cur = s.cur) (htbl : s'.tbl = s.tbl) (hpub : s'.pub = s.pub) (hsnap : s'.snap = s.snap)
    (hres : s'.result = upd s.result t (resOf c (s.tbl T) k)) (hpc : s'.pc = upd s.pc t .idle) : InvS c s' := by
  constructor
  · intro u T' hu; rw [hsnap] at hu; rw [hpub]; exact h.snapPub u T' hu
  · intro u nt hu
    rw [hpc] at hu; rw [hpub]
    by_cases hut : u = t
    · subst hut; simp [Pc.retTable] at hu
    · rw [upd_other _ _ hut] at hu; exact h.retPub u nt hu
  · intro u i b o hu
    rw [htbl, hcur]
    rw [hres] at hu
    by_cases hut : u = t
    · subst hut
      simp only [upd_same] at hu
      cases k with
      | ensure j =>
        simp only [resOf] at hu
        split at hu
        · rename_i b' o' he
          simp only [Res.elem.injEq] at hu
          obtain ⟨rfl, rfl, rfl⟩ := hu
          exact elemAt_prefix (ha.pre T hT) he
        · cases hu
      | reserve => cases hu
      | range b' e' => cases hu
    · rw [upd_other _ _ hut] at hu; exact h.resCur u i b o hu

theorem InvS.step {c : Cfg} {s s' : State} (h : InvS c s) (ha : InvA s) (hs : Step c s s') : InvS c s' := by
  cases hs
  case act t inp ls hst =>
    have hts := stepThread_TStep hst
    cases hts
    case gqFast need k hpc hc => exact h.fin ha t s.cur k ha.pubCur rfl rfl rfl rfl rfl rfl
    case gqSlow need k hpc hc => exact h.same t _ rfl rfl rfl rfl (Or.inl rfl) rfl (Or.inr rfl)
    case casWin nt old need made k hpc hc =>
      subst hc
      have hspec : (s.pc t).spec = some (nt, made) := by rw [hpc]; rfl
      have hunpub := ha.specUnpub t nt made hspec
      have hne : ∀ T, s.pub T = true → T ≠ nt := fun T hT e => by rw [e, hunpub] at hT; cases hT
      constructor
      · intro u T hu
        simp only [casWin] at hu ⊢
        have := h.snapPub u T hu
        rw [upd_other _ _ (hne T this)]; exact this
      · intro u nt' hu
        simp only [casWin] at hu ⊢
        by_cases hut : u = t
        · subst hut; simp only [upd_same, Pc.retTable, Option.some.injEq] at hu; subst hu; simp
        · rw [upd_other _ _ hut] at hu
          have := h.retPub u nt' hu
          rw [upd_other _ _ (hne nt' this)]; exact this
      · intro u i b o hu
        simp only [casWin] at hu ⊢
        simp only [upd_same]
        exact elemAt_prefix (List.prefix_append _ _) (h.resCur u i b o hu)
    case casLoseDone nt old need made k hpc hc hl => exact h.fin ha t s.cur k ha.pubCur rfl rfl rfl rfl rfl rfl
    case casLoseRetry nt old need made k hpc hc hl => exact h.same t _ rfl rfl rfl rfl (Or.inl rfl) rfl (Or.inr rfl)
    case rLoad x nt k hpc => exact h.same t _ rfl rfl rfl rfl (Or.inl rfl) rfl (Or.inl (by rw [hpc]; rfl))
    case rClock x lts ln nt k v hpc hv =>
      refine h.same t _ rfl rfl rfl rfl (Or.inl rfl) rfl (Or.inl ?_)
      rw [hpc]; unfold rClockNext; split
      · rfl
      · split <;> rfl
    case rCasXWin x lts ln v nt k hpc hm =>
      exact h.fin ha t nt k (h.retPub t nt (by rw [hpc]; rfl)) rfl rfl rfl rfl rfl rfl
    case rCasXFail x lts ln v nt k hpc hm =>
      refine h.same t _ rfl rfl rfl rfl (Or.inl rfl) rfl (Or.inl ?_)
      rw [hpc]; split <;> rfl
    case rClock2 x lts ln nt k v hpc hv => exact h.same t _ rfl rfl rfl rfl (Or.inl rfl) rfl (Or.inl (by rw [hpc]; rfl))
    case rCasWWin x lts ln v nt k hpc hm =>
      exact h.fin ha t nt k (h.retPub t nt (by rw [hpc]; rfl)) rfl rfl rfl rfl rfl rfl
    case rCasWFail x lts ln v nt k hpc =>
      refine h.same t _ rfl rfl rfl rfl (Or.inl rfl) rfl (Or.inl ?_)
      rw [hpc]; split <;> rfl
    case gLoad hpc => exact h.same t _ rfl rfl rfl rfl (Or.inl rfl) rfl (Or.inr rfl)
    case gClockGo lts ln v hpc hv he => exact h.same t _ rfl rfl rfl rfl (Or.inl rfl) rfl (Or.inr rfl)
    case gClockRet lts ln v hpc hv => exact h.same t .idle rfl rfl rfl rfl (Or.inr rfl) rfl (Or.inr rfl)
    case gCasWin lts ln v hpc hm => exact h.same t .idle rfl rfl rfl rfl (Or.inr rfl) rfl (Or.inr rfl)
    case gCasFail lts ln v hpc => exact h.same t .idle rfl rfl rfl rfl (Or.inr rfl) rfl (Or.inr rfl)
    case sLoad k hpc =>
      cases k with
      | snap =>
        constructor
        · intro u T hu
          simp only [finishS] at hu ⊢
          by_cases hut : u = t
          · subst hut; simp only [upd_same, Option.some.injEq] at hu; subst hu; exact ha.pubCur
          · rw [upd_other _ _ hut] at hu; exact h.snapPub u T hu
        · intro u nt hu
          simp only [finishS] at hu ⊢
          by_cases hut : u = t
          · subst hut; simp [Pc.retTable] at hu
          · rw [upd_other _ _ hut] at hu; exact h.retPub u nt hu
        · intro u i b o hu
          simp only [finishS] at hu ⊢
          by_cases hut : u = t
          · subst hut; simp at hu
          · rw [upd_other _ _ hut] at hu; exact h.resCur u i b o hu
      | get i => exact h.fin ha t s.cur (.ensure i) ha.pubCur rfl rfl rfl rfl rfl rfl
    case xLoad hpc => exact h.same t _ rfl rfl rfl rfl (Or.inl rfl) rfl (Or.inr rfl)
    case xXchg hpc => exact h.same t _ rfl rfl rfl rfl (Or.inl rfl) rfl (Or.inr rfl)
    case xLoad2 hpc => exact h.same t .idle rfl rfl rfl rfl (Or.inr rfl) rfl (Or.inr rfl)
  case ensure t i hi hd hx => exact h.same t _ rfl rfl rfl rfl (Or.inl rfl) rfl (Or.inr rfl)
  case reserve t n hi hd hx => exact h.same t _ rfl rfl rfl rfl (Or.inl rfl) rfl (Or.inr rfl)
  case range t b e hi hd hx hbe => exact h.same t _ rfl rfl rfl rfl (Or.inl rfl) rfl (Or.inr rfl)
  case snap t k hi hd hx => exact h.same t _ rfl rfl rfl rfl (Or.inl rfl) rfl (Or.inr rfl)
  case gc t hi hd hx => exact h.same t _ rfl rfl rfl rfl (Or.inl rfl) rfl (Or.inr rfl)
  case destroy t hi hd => exact h.same t _ rfl rfl rfl rfl (Or.inl rfl) rfl (Or.inr rfl)
  case tick d =>
    exact ⟨h.snapPub, h.retPub, h.resCur⟩

/-! ### tables freed without a clock observation: losers' private tables and the destructor only -/

structure InvF (s : State) : Prop where
  f1 : ∀ T, s.freedT T = some none → s.destroyed = true ∨ s.pub T = false
  f2 : ∀ t nt made, (s.pc t).spec = some (nt, made) → s.freedT nt = none
  f3 : ∀ a, s.nalloc < a → s.freedT a = none

theorem InvF.init (now : Nat) : InvF (State.init now) := by
  constructor <;> simp [State.init, Pc.spec]

theorem InvF.frame {s s' : State} (h : InvF s) (hf : s'.freedT = s.freedT) (hpub : s'.pub = s.pub)
    (hd : s'.destroyed = s.destroyed) (hn : s.nalloc ≤ s'.nalloc)
    (hspec : ∀ u, (s'.pc u).spec = (s.pc u).spec ∨ (s'.pc u).spec = none) : InvF s' := by
  constructor
  · intro T hT; rw [hf] at hT; rw [hd, hpub]; exact h.f1 T hT
  · intro u nt made hu
    rw [hf]
    rcases hspec u with e | e
    · rw [e] at hu; exact h.f2 u nt made hu
    · rw [e] at hu; cases hu
  · intro a ha; rw [hf]; exact h.f3 a (Nat.lt_of_le_of_lt hn ha)

/-- the retire list is detached and freed: only published tables are touched -/
theorem InvF.detach {c : Cfg} {s s' : State} (h : InvF s) (hr : InvR c s) (ha : InvA s) (by_ : Option Nat)
    (hby : by_ = none → s.destroyed = true)
    (hf : s'.freedT = fun T => if T ≠ 0 ∧ T ∈ s.rl then some by_ else s.freedT T) (hpub : s'.pub = s.pub)
    (hd : s'.destroyed = s.destroyed) (hn : s'.nalloc = s.nalloc)
    (hspec : ∀ u, (s'.pc u).spec = (s.pc u).spec ∨ (s'.pc u).spec = none) : InvF s' := by
  have hrlPub : ∀ T ∈ s.rl, s.pub T = true := fun T hT => hr.pushedPub T (hr.rlPushed T hT)
  constructor
  · intro T hT
    rw [hf] at hT; rw [hd, hpub]
    dsimp only at hT
    split at hT
    · simp only [Option.some.injEq] at hT
      exact Or.inl (hby hT)
    · exact h.f1 T hT
  · intro u nt made hu
    rw [hf]; dsimp only
    rcases hspec u with e | e
    · rw [e] at hu
      have hunpub := ha.specUnpub u nt made hu
      have hnot : ¬ (nt ≠ 0 ∧ nt ∈ s.rl) := fun hx => by rw [hrlPub nt hx.2] at hunpub; cases hunpub
      rw [if_neg hnot]; exact h.f2 u nt made hu
    · rw [e] at hu; cases hu
  · intro a haa
    rw [hf]; dsimp only
    rw [hn] at haa
    have hnot : ¬ (a ≠ 0 ∧ a ∈ s.rl) := fun hx => by have := ha.pubLe a (hrlPub a hx.2); omega
    rw [if_neg hnot]; exact h.f3 a haa

theorem xLoad2St_eq {c : Cfg} {s : State} (h : InvR c s) (ha : InvA s) (t : Nat) :
    xLoad2St s t = { freedTables s s.rl none with pc := upd s.pc t .idle, result := upd s.result t .unit } := by
  have hitems : walk s.next (s.nalloc + 2) s.hnode = s.rl := h.items ha _ _ _ rfl rfl h.chain
  simp [xLoad2St, freedTables, listItems, hitems]

theorem InvF.step {c : Cfg} {s s' : State} (h : InvF s) (ha : InvA s) (hq : InvQ s) (hr : InvR c s)
    (hs : Step c s s') : InvF s' := by
  cases hs
  case act t inp ls hst =>
    have hts := stepThread_TStep hst
    cases hts
    case gqFast need k hpc hc => exact h.frame rfl rfl rfl (Nat.le_refl _) (spec_upd_none _ _ _ rfl)
    case gqSlow need k hpc hc =>
      constructor
      · exact h.f1
      · intro u nt made hu
        simp only [gqSlow] at hu
        show s.freedT nt = none
        by_cases hut : u = t
        · subst hut; simp only [upd_same, Pc.spec, Option.some.injEq, Prod.mk.injEq] at hu
          rw [← hu.1]; exact h.f3 _ (Nat.lt_succ_self _)
        · rw [upd_other _ _ hut] at hu; exact h.f2 u nt made hu
      · intro a haa
        simp only [gqSlow, created] at haa
        exact h.f3 a (by omega)
    case casWin nt old need made k hpc hc =>
      have hspec : (s.pc t).spec = some (nt, made) := by rw [hpc]; rfl
      constructor
      · intro T hT
        simp only [casWin] at hT ⊢
        by_cases hTn : T = nt
        · subst hTn; rw [h.f2 t T made hspec] at hT; cases hT
        · rw [upd_other _ _ hTn]; exact h.f1 T hT
      · intro u nt' made' hu
        simp only [casWin] at hu ⊢
        by_cases hut : u = t
        · subst hut; simp [Pc.spec] at hu
        · rw [upd_other _ _ hut] at hu; exact h.f2 u nt' made' hu
      · exact h.f3
    case casLoseDone nt old need made k hpc hc hl =>
      have hspec : (s.pc t).spec = some (nt, made) := by rw [hpc]; rfl
      have hfre : (casLoseDone c s t nt made k).freedT = fun T => if T ≠ 0 ∧ T ∈ [nt] then some none else s.freedT T := rfl
      constructor
      · intro T hT
        rw [hfre] at hT; dsimp only at hT
        show s.destroyed = true ∨ s.pub T = false
        split at hT
        · rename_i hx
          have : T = nt := by simpa using hx.2
          subst this; exact Or.inr (ha.specUnpub t T made hspec)
        · exact h.f1 T hT
      · intro u nt' made' hu
        rw [hfre]; dsimp only
        simp only [casLoseDone, finish] at hu
        by_cases hut : u = t
        · subst hut; simp [Pc.spec] at hu
        · rw [upd_other _ _ hut] at hu
          have hne := ha.specDistinct u t nt' made' nt made hut hu hspec
          have hnot : ¬ (nt' ≠ 0 ∧ nt' ∈ [nt]) := fun hx => hne (by simpa using hx.2)
          rw [if_neg hnot]; exact h.f2 u nt' made' hu
      · intro a haa
        rw [hfre]; dsimp only
        have haa' : s.nalloc < a := haa
        have hle := ha.specLe t nt made hspec
        have hnot : ¬ (a ≠ 0 ∧ a ∈ [nt]) := fun hx => by
          have : a = nt := by simpa using hx.2
          omega
        rw [if_neg hnot]; exact h.f3 a haa'
    case casLoseRetry nt old need made k hpc hc hl =>
      have hspec : (s.pc t).spec = some (nt, made) := by rw [hpc]; rfl
      constructor
      · exact h.f1
      · intro u nt' made' hu
        simp only [casLoseRetry] at hu
        show s.freedT nt' = none
        by_cases hut : u = t
        · subst hut; simp only [upd_same, Pc.spec, Option.some.injEq, Prod.mk.injEq] at hu
          rw [← hu.1]; exact h.f2 u nt made hspec
        · rw [upd_other _ _ hut] at hu; exact h.f2 u nt' made' hu
      · intro a haa
        simp only [casLoseRetry, created, deleted] at haa
        exact h.f3 a (by omega)
    case rLoad x nt k hpc => exact h.frame rfl rfl rfl (Nat.le_refl _) (spec_upd_none _ _ _ rfl)
    case rClock x lts ln nt k v hpc hv =>
      exact h.frame rfl rfl rfl (Nat.le_refl _) (spec_upd_none _ _ _ (rClockNext_spec _ _ _ _ _ _ _))
    case rCasXWin x lts ln v nt k hpc hm =>
      have hhold : (s.pc t).holds = some x := by rw [hpc]; rfl
      obtain ⟨hmn, _⟩ := (headMatches_iff s lts ln).mp hm
      rw [rCasXWin_eq hr ha t x ln v nt k hhold hmn.symm]
      exact h.detach hr ha (some v) (fun e => by cases e) rfl rfl rfl rfl (spec_upd_none _ _ _ rfl)
    case rCasXFail x lts ln v nt k hpc hm =>
      refine h.frame rfl rfl rfl (Nat.le_refl _) (spec_upd_none _ _ _ ?_)
      split <;> rfl
    case rClock2 x lts ln nt k v hpc hv => exact h.frame rfl rfl rfl (Nat.le_refl _) (spec_upd_none _ _ _ rfl)
    case rCasWWin x lts ln v nt k hpc hm => exact h.frame rfl rfl rfl (Nat.le_refl _) (spec_upd_none _ _ _ rfl)
    case rCasWFail x lts ln v nt k hpc =>
      refine h.frame rfl rfl rfl (Nat.le_refl _) (spec_upd_none _ _ _ ?_)
      split <;> rfl
    case gLoad hpc => exact h.frame rfl rfl rfl (Nat.le_refl _) (spec_upd_none _ _ _ rfl)
    case gClockGo lts ln v hpc hv he => exact h.frame rfl rfl rfl (Nat.le_refl _) (spec_upd_none _ _ _ rfl)
    case gClockRet lts ln v hpc hv => exact h.frame rfl rfl rfl (Nat.le_refl _) (spec_upd_none _ _ _ rfl)
    case gCasWin lts ln v hpc hm =>
      obtain ⟨hmn, _⟩ := (headMatches_iff s lts ln).mp hm
      rw [gCasWin_eq hr ha t ln v hmn.symm]
      exact h.detach hr ha (some v) (fun e => by cases e) rfl rfl rfl rfl (spec_upd_none _ _ _ rfl)
    case gCasFail lts ln v hpc => exact h.frame rfl rfl rfl (Nat.le_refl _) (spec_upd_none _ _ _ rfl)
    case sLoad k hpc => cases k <;> exact h.frame rfl rfl rfl (Nat.le_refl _) (spec_upd_none _ _ _ rfl)
    case xLoad hpc =>
      have hidle := hq.xAlone t hpc
      have hfre : (xLoadSt s t).freedT = fun T => if T ≠ 0 ∧ T ∈ [s.cur] then some none else s.freedT T := rfl
      constructor
      · intro T _; left; rfl
      · intro u nt made hu
        simp only [xLoadSt] at hu
        by_cases hut : u = t
        · subst hut; simp [Pc.spec] at hu
        · rw [upd_other _ _ hut, hidle u hut] at hu; cases hu
      · intro a haa
        rw [hfre]; dsimp only
        have haa' : s.nalloc < a := haa
        have hnot : ¬ (a ≠ 0 ∧ a ∈ [s.cur]) := fun hx => by
          have : a = s.cur := by simpa using hx.2
          have := ha.pubLe s.cur ha.pubCur
          omega
        rw [if_neg hnot]; exact h.f3 a haa'
    case xXchg hpc =>
      rw [xXchgSt_eq hr ha t]
      exact h.detach hr ha none (fun _ => hq.xDone t (Or.inl hpc)) rfl rfl rfl rfl (spec_upd_none _ _ _ rfl)
    case xLoad2 hpc =>
      rw [xLoad2St_eq hr ha t]
      exact h.detach hr ha none (fun _ => hq.xDone t (Or.inr hpc)) rfl rfl rfl rfl (spec_upd_none _ _ _ rfl)
  case ensure t i hi hd hx => exact h.frame rfl rfl rfl (Nat.le_refl _) (spec_upd_none _ _ _ rfl)
  case reserve t n hi hd hx => exact h.frame rfl rfl rfl (Nat.le_refl _) (spec_upd_none _ _ _ rfl)
  case range t b e hi hd hx hbe => exact h.frame rfl rfl rfl (Nat.le_refl _) (spec_upd_none _ _ _ rfl)
  case snap t k hi hd hx => exact h.frame rfl rfl rfl (Nat.le_refl _) (spec_upd_none _ _ _ rfl)
  case gc t hi hd hx => exact h.frame rfl rfl rfl (Nat.le_refl _) (spec_upd_none _ _ _ rfl)
  case destroy t hi hd => exact h.frame rfl rfl rfl (Nat.le_refl _) (spec_upd_none _ _ _ rfl)
  case tick d => exact h.frame rfl rfl rfl (Nat.le_refl _) (fun _ => Or.inl rfl)

/-- every reachable state satisfies all the invariants -/
structure Inv (c : Cfg) (s : State) : Prop where
  a : InvA s
  q : InvQ s
  b : InvB s
  r : InvR c s
  sn : InvS c s
  f : InvF s

def Init (s : State) : Prop := ∃ now, s = State.init now

theorem Inv.of_reachable {c : Cfg} {s : State} (h : Reachable Init (Step c) s) : Inv c s := by
  refine Reachable.invariant (Inv c) ?_ ?_ s h
  · rintro s ⟨now, rfl⟩
    exact ⟨InvA.init now, InvQ.init now, InvB.init now, InvR.init c now, InvS.init c now, InvF.init now⟩
  · intro s t hi hst
    exact ⟨hi.a.step hst, hi.q.step hst, hi.b.step hi.q hst, hi.r.step hi.a hst, hi.sn.step hi.a hst, hi.f.step hi.a hi.q hi.r hst⟩

end Babylon.CVec
