/-
  Property C04, weak-memory part: publication of a new block (its constructed elements) and of the new
  block table under the release/acquire VIEW model `Babylon.Core.MemView` (stale reads included), with
  the memory orders the translator extracts from vector.hpp (`Babylon.Gen.CVec.ordTbl*`).

  What the code does.  Grower `a` (get_qualified_block_table_slow): plain writes — `_constructor(block + i)`
  for every element of every new block, `new_block_table->blocks[i] = …`, `size` — then
  `_block_table.compare_exchange_strong(old, new, ordTblCasSucc, ordTblCasFail)`.  Reader `b`:
  `_block_table.load(ordTblLoad)` (ensure / reserve / for_each / fill_n / copy_n) or
  `_block_table.load(ordSnapshotLoad)` (snapshot / operator[] / size), or — the loser of the growth race —
  the failed CAS, which hands back the winner's table through `ordTblCasFail`; then plain reads of
  `table->size`, `table->blocks[i]` and of the element.

  Inside the thread-safe API `_block_table` is modified only by that CAS (`gen_tblWrites` in
  Properties/C04: the three plain stores are in the constructor and in swap()), so every later message
  of the cell belongs to the release sequence of every earlier one: a reader that obtains a LATER
  table (published by somebody else who copied the block pointers) still synchronises with the thread
  that constructed the block.  `RelSeq` + `relseq_*` establish that along an execution.

  A plain (non-atomic) access is modelled as an access of arbitrary order (in particular relaxed):
  "the reader sees the fully constructed element in every execution" = the message its read may return
  is not older than the constructing write, and is exactly that write when the cell was written once
  (elements of a block are constructed once: `cvec_construct_once`).  Apply the theorems to each cell
  (each element word, each table entry).  Steps of other threads and of the two threads in between
  are arbitrary (`Mem.Ext`).  The generic lemmas follow the pattern of Swiss/ConcView.lean and
  Topic/View.lean.  Core Lean only.
-/
import Babylon.Core.MemView
import Babylon.Gen.CVec

namespace Babylon.CVec.View
open Babylon.Core Babylon.Core.MemView Babylon.Gen.CVec

variable {L : Type} [DecidableEq L]

/-! ### generic lemmas -/

/-- after its own write a thread's view of the cell points at that write -/
theorem write_cur_ts (m : Mem L) (t : Nat) (l : L) (o : Core.Ord) (v : Nat) :
    m.len l ≤ ((m.write t l o v).tv t).cur.get l := by
  simp [Mem.write, TView.wrote]; omega

/-- the message a write appends -/
theorem write_msg (m : Mem L) (t : Nat) (l : L) (o : Core.Ord) (v : Nat) :
    ∃ W, ((m.write t l o v).hist l)[m.len l]? = some ⟨v, W⟩ := by
  refine ⟨((m.tv t).wrote l (m.len l)).relView l (m.len l) o, ?_⟩
  rw [Mem.write_hist_same]; simp [Mem.len]

/-- the message appended by a successful CAS -/
theorem cas_msg {m m1 : Mem L} {a : Nat} {l : L} {so fo : Core.Ord} {e d ts obs : Nat}
    (hc : m.cas a l so fo e d ts = some (m1, true, obs)) :
    ∃ W, m1.hist l = m.hist l ++ [⟨d, W⟩] ∧ (so.releases = true → (m.tv a).cur ≤ W) ∧ m.Ext m1 := by
  have hext := Mem.cas_ext hc
  rcases Mem.cas_spec hc with ⟨_, _, hr⟩ | ⟨hf, _⟩
  · obtain ⟨msg, W, _, _, hh, _, _, _, hrel, _⟩ := Mem.rmw_facts hr
    exact ⟨W, hh, hrel, hext⟩
  · cases hf

/-- every message of `l` from timestamp `ts0` on carries at least the view `W` -/
def RelSeq (m : Mem L) (l : L) (ts0 : Nat) (W : View L) : Prop :=
  ∀ ts msg, ts0 ≤ ts → (m.hist l)[ts]? = some msg → W ≤ msg.view

/-- a successful CAS with a releasing success order starts a release sequence carrying the view the
thread had before the CAS -/
theorem relseq_cas {m m1 : Mem L} {a : Nat} {l : L} {so fo : Core.Ord} {e d ts obs : Nat}
    (hrel : so.releases = true) (hc : m.cas a l so fo e d ts = some (m1, true, obs)) :
    RelSeq m1 l (m.len l) (m.tv a).cur := by
  obtain ⟨W, hh, hW, _⟩ := cas_msg hc
  intro ts' msg hts hm
  rw [hh] at hm
  by_cases he : ts' = (m.hist l).length
  · subst he; simp at hm; subst hm; exact hW hrel
  · have : (m.hist l ++ [(⟨d, W⟩ : Msg L)]).length ≤ ts' := by
      simp only [List.length_append, List.length_singleton, Mem.len] at hts ⊢; omega
    rw [List.getElem?_eq_none this] at hm; cases hm

/-- an RMW of any order by any thread continues the release sequence -/
theorem relseq_rmw {m m' : Mem L} {l : L} {ts0 : Nat} {W : View L} {t : Nat} {o : Core.Ord} {f : Nat → Nat} {old : Nat}
    (R : RelSeq m l ts0 W) (hlt : ts0 < m.len l) (h : m.rmw t l o f = some (m', old)) : RelSeq m' l ts0 W := by
  obtain ⟨msg, W', hlast, _, hh, _, _, hmW, _⟩ := Mem.rmw_facts h
  intro ts mg hts hm
  rw [hh] at hm
  by_cases hin : ts < (m.hist l).length
  · rw [List.getElem?_append_left hin] at hm
    exact R ts mg hts hm
  · have hl : (m.hist l)[m.len l - 1]? = some msg := getLast?_getElem? _ _ hlast
    have hWm : W ≤ msg.view := R (m.len l - 1) msg (by omega) hl
    by_cases he : ts = (m.hist l).length
    · subst he; simp at hm; subst hm; exact View.le_trans hWm hmW
    · rw [List.getElem?_eq_none (by simp; omega)] at hm; cases hm

/-- steps that do not write `l` keep the release sequence -/
theorem relseq_hist_eq {m m' : Mem L} {l : L} {ts0 : Nat} {W : View L} (R : RelSeq m l ts0 W)
    (h : m'.hist l = m.hist l) : RelSeq m' l ts0 W := by
  intro ts mg hts hm; rw [h] at hm; exact R ts mg hts hm

/-- any later CAS on the cell — by anybody, with any orders, successful or not — keeps the release
sequence: this is every modification `_block_table` sees inside the thread-safe API -/
theorem relseq_cas_step {m m' : Mem L} {l : L} {ts0 : Nat} {W : View L} {t : Nat} {so fo : Core.Ord}
    {e d ts : Nat} {ok : Bool} {obs : Nat}
    (R : RelSeq m l ts0 W) (hlt : ts0 < m.len l) (h : m.cas t l so fo e d ts = some (m', ok, obs)) :
    RelSeq m' l ts0 W := by
  rcases Mem.cas_spec h with ⟨_, _, hr⟩ | ⟨_, _, hr⟩
  · exact relseq_rmw R hlt hr
  · exact relseq_hist_eq R (congrFun (Mem.read_hist hr) l)

/-- message passing along a release sequence: an acquiring load of any message of the sequence brings
its view into the reader's current view -/
theorem mp_relseq_load {m2 m3 : Mem L} {b : Nat} {l : L} {ol : Core.Ord} {ts0 tsT v : Nat} {W : View L}
    (R : RelSeq m2 l ts0 W) (hts : ts0 ≤ tsT) (hacq : ol.acquires = true)
    (h : m2.read b l ol tsT = some (m3, v)) : W ≤ (m3.tv b).cur := by
  obtain ⟨msg, hm, _, _, rfl⟩ := Mem.read_spec h
  simp only [upd_same]
  exact View.le_trans (R tsT msg hts hm) (TView.read_acquires (m2.tv b) msg l tsT ol hacq)

/-- the reader side of every publication theorem: a thread whose current view includes the view the
constructing thread had right after its plain write of cell `le` cannot read an older message of
`le`, and reads exactly the constructed value if the cell was written once -/
theorem read_constructed (m : Mem L) (a b : Nat) (le : L) (ov ov' : Core.Ord) (x : Nat)
    {m4 m5 m6 : Mem L} {ts' v' : Nat}
    (hall : (m.write a le ov x).Ext m5)
    (hview : ((m.write a le ov x).tv a).cur ≤ (m4.tv b).cur) (h45 : m4.Ext m5)
    (hrd : m5.read b le ov' ts' = some (m6, v')) :
    m.len le ≤ ts' ∧ (m5.len le = m.len le + 1 → v' = x) := by
  have k1 := write_cur_ts m a le ov x
  have k3 := hview le
  have k4 := h45.cur b le
  have k5 := read_respects_view hrd
  have hts : m.len le ≤ ts' := by omega
  refine ⟨hts, fun hlen => ?_⟩
  have hlt := Mem.read_ts_lt hrd
  have hte : ts' = m.len le := by omega
  subst hte
  obtain ⟨W, hmsg⟩ := write_msg m a le ov x
  have e5 := hall.get? le _ _ hmsg
  obtain ⟨msg, hm, hvv, _, _⟩ := Mem.read_spec hrd
  rw [e5] at hm
  cases hm
  exact hvv

/-! ### the orders of the source have the needed strength (these stop checking when one is weakened) -/

theorem ordTblCasSucc_releases : Core.Ord.releases ordTblCasSucc = true := by decide
theorem ordTblLoad_acquires : Core.Ord.acquires ordTblLoad = true := by decide
theorem ordSnapshotLoad_acquires : Core.Ord.acquires ordSnapshotLoad = true := by decide
theorem ordTblCasFail_acquires : Core.Ord.acquires ordTblCasFail = true := by decide

/-! ### publication -/

/-- **`cvec_publication_view`.**  Grower `a` constructs cell `le` of a new block (plain write of `x`; the
same for a table entry), does anything else, then wins the CAS on the table pointer `lt` with the
orders of the source.  `m2` is any later memory in which `lt` has only been modified by CASes since
(`R`: use `relseq_cas` for `a`'s CAS, then `relseq_cas_step` / `relseq_hist_eq`).  Reader `b` loads
`lt` with order `ol` — `ordTblLoad` or `ordSnapshotLoad`, see the two corollaries — obtaining `a`'s
table or ANY LATER one (`tsT` ≥ the timestamp of `a`'s CAS; stale loads of `lt` included), and later
reads `le` with any order at any admissible timestamp `ts'`.  Then `ts'` is not older than the
constructing write — reading the unconstructed cell is not a behaviour — and the value read is `x`
if the cell was written once. -/
theorem cvec_publication_view_ord (m : Mem L) (a b : Nat) (le lt : L) (ov ov' ol : Core.Ord) (x e d ts : Nat)
    {m1 m2 m3 m4 m5 m6 : Mem L} {obs v tsT ts' v' : Nat}
    (hacq : ol.acquires = true)
    (h1 : (m.write a le ov x).Ext m1)
    (h2 : m1.cas a lt ordTblCasSucc ordTblCasFail e d ts = some (m2, true, obs))
    (h3 : m2.Ext m3) (R : RelSeq m3 lt (m1.len lt) (m1.tv a).cur) (hts : m1.len lt ≤ tsT)
    (h4 : m3.read b lt ol tsT = some (m4, v))
    (h5 : m4.Ext m5)
    (h6 : m5.read b le ov' ts' = some (m6, v')) :
    m.len le ≤ ts' ∧ (m5.len le = m.len le + 1 → v' = x) := by
  have hW := mp_relseq_load R hts hacq h4
  have hview : ((m.write a le ov x).tv a).cur ≤ (m4.tv b).cur := View.le_trans (h1.cur a) hW
  have hall : (m.write a le ov x).Ext m5 :=
    (((h1.trans (Mem.cas_ext h2)).trans h3).trans (Mem.read_ext h4)).trans h5
  exact read_constructed m a b le ov ov' x hall hview h5 h6

/-- ensure / reserve / for_each / fill_n / copy_n: `get_qualified_block_table` loads with `ordTblLoad` -/
theorem cvec_publication_view (m : Mem L) (a b : Nat) (le lt : L) (ov ov' : Core.Ord) (x e d ts : Nat)
    {m1 m2 m3 m4 m5 m6 : Mem L} {obs v tsT ts' v' : Nat}
    (h1 : (m.write a le ov x).Ext m1)
    (h2 : m1.cas a lt ordTblCasSucc ordTblCasFail e d ts = some (m2, true, obs))
    (h3 : m2.Ext m3) (R : RelSeq m3 lt (m1.len lt) (m1.tv a).cur) (hts : m1.len lt ≤ tsT)
    (h4 : m3.read b lt ordTblLoad tsT = some (m4, v))
    (h5 : m4.Ext m5)
    (h6 : m5.read b le ov' ts' = some (m6, v')) :
    m.len le ≤ ts' ∧ (m5.len le = m.len le + 1 → v' = x) :=
  cvec_publication_view_ord m a b le lt ov ov' ordTblLoad x e d ts ordTblLoad_acquires h1 h2 h3 R hts h4 h5 h6

/-- snapshot() / operator[] / size(): load with `ordSnapshotLoad` -/
theorem cvec_publication_view_snapshot (m : Mem L) (a b : Nat) (le lt : L) (ov ov' : Core.Ord) (x e d ts : Nat)
    {m1 m2 m3 m4 m5 m6 : Mem L} {obs v tsT ts' v' : Nat}
    (h1 : (m.write a le ov x).Ext m1)
    (h2 : m1.cas a lt ordTblCasSucc ordTblCasFail e d ts = some (m2, true, obs))
    (h3 : m2.Ext m3) (R : RelSeq m3 lt (m1.len lt) (m1.tv a).cur) (hts : m1.len lt ≤ tsT)
    (h4 : m3.read b lt ordSnapshotLoad tsT = some (m4, v))
    (h5 : m4.Ext m5)
    (h6 : m5.read b le ov' ts' = some (m6, v')) :
    m.len le ≤ ts' ∧ (m5.len le = m.len le + 1 → v' = x) :=
  cvec_publication_view_ord m a b le lt ov ov' ordSnapshotLoad x e d ts ordSnapshotLoad_acquires h1 h2 h3 R hts h4 h5 h6

/-- **`cvec_publication_view_loser`.**  The reader is the loser of the growth race: its own CAS on `lt`
(orders of the source) FAILS reading `a`'s table or a later one, which is handed back through the
failure order `ordTblCasFail`; it then copies the winner's block pointers / returns the winner's
table, i.e. reads cells the winner (or an earlier grower) constructed. -/
theorem cvec_publication_view_loser (m : Mem L) (a b : Nat) (le lt : L) (ov ov' : Core.Ord) (x e d ts e' d' : Nat)
    {m1 m2 m3 m4 m5 m6 : Mem L} {obs obs' tsT ts' v' : Nat}
    (h1 : (m.write a le ov x).Ext m1)
    (h2 : m1.cas a lt ordTblCasSucc ordTblCasFail e d ts = some (m2, true, obs))
    (h3 : m2.Ext m3) (R : RelSeq m3 lt (m1.len lt) (m1.tv a).cur) (hts : m1.len lt ≤ tsT)
    (h4 : m3.cas b lt ordTblCasSucc ordTblCasFail e' d' tsT = some (m4, false, obs'))
    (h5 : m4.Ext m5)
    (h6 : m5.read b le ov' ts' = some (m6, v')) :
    m.len le ≤ ts' ∧ (m5.len le = m.len le + 1 → v' = x) := by
  rcases Mem.cas_spec h4 with ⟨ht, _⟩ | ⟨_, _, hr⟩
  · cases ht
  · exact cvec_publication_view_ord m a b le lt ov ov' ordTblCasFail x e d ts ordTblCasFail_acquires h1 h2 h3 R hts hr h5 h6

/-- the hypothesis `R` of the theorems above holds right after `a`'s CAS … -/
theorem cvec_publication_relseq {m1 m2 : Mem L} {a : Nat} {lt : L} {e d ts obs : Nat}
    (h2 : m1.cas a lt ordTblCasSucc ordTblCasFail e d ts = some (m2, true, obs)) :
    RelSeq m2 lt (m1.len lt) (m1.tv a).cur := relseq_cas ordTblCasSucc_releases h2

/-- … and is kept by every later CAS on the table pointer (another growth, won or lost, by anybody) -/
theorem cvec_publication_relseq_step {m m' : Mem L} {lt : L} {ts0 : Nat} {W : View L} {t : Nat}
    {e d ts : Nat} {ok : Bool} {obs : Nat} (R : RelSeq m lt ts0 W) (hlt : ts0 < m.len lt)
    (h : m.cas t lt ordTblCasSucc ordTblCasFail e d ts = some (m', ok, obs)) : RelSeq m' lt ts0 W :=
  relseq_cas_step R hlt h

/-! ### litmus tests: positive results and negative controls (all by `decide`) -/

inductive Loc | elem | tbl
  deriving DecidableEq, Repr

def mem0 : Mem Loc := Mem.init (fun _ => 0)

/-- thread 0 constructs the element (plain write of 7) and publishes table 1 with a CAS of success order
`so`; thread 2 (another grower) replaces table 1 by table 2 with the source's CAS (release sequence);
thread 1 loads the table pointer with order `ol` reading timestamp `tsT`, then reads the element at
timestamp `tsE`.  Result: `table * 100 + element`, `none` if a read is not admissible. -/
def pubRun (so ol : Core.Ord) (second : Bool) (tsT tsE : Nat) : Option Nat :=
  let m1 := mem0.write 0 .elem .rlx 7
  match m1.cas 0 .tbl so ordTblCasFail 0 1 0 with
  | some (m2, true, _) =>
    let m3 := if second then
        match m2.cas 2 .tbl .rlx .rlx 1 2 1 with
        | some (m', true, _) => m'
        | _ => m2
      else m2
    match m3.read 1 .tbl ol tsT with
    | none => none
    | some (m4, t) =>
      match m4.read 1 .elem .rlx tsE with
      | none => none
      | some (_, x) => some (t * 100 + x)
  | _ => none

/-- the loser variant: thread 1's own CAS (expecting the empty table 0) fails reading timestamp `tsT` with
failure order `fo` -/
def loserRun (so fo : Core.Ord) (tsT tsE : Nat) : Option Nat :=
  let m1 := mem0.write 0 .elem .rlx 7
  match m1.cas 0 .tbl so ordTblCasFail 0 1 0 with
  | some (m2, true, _) =>
    match m2.cas 1 .tbl ordTblCasSucc fo 0 9 tsT with
    | some (m4, false, t) =>
      match m4.read 1 .elem .rlx tsE with
      | none => none
      | some (_, x) => some (t * 100 + x)
    | _ => none
  | _ => none

/-- with the orders of the source: seeing table 1 and then the unconstructed element is NOT a behaviour … -/
example : pubRun ordTblCasSucc ordTblLoad false 1 0 = none := by decide
example : pubRun ordTblCasSucc ordSnapshotLoad false 1 0 = none := by decide
/-- … the constructed element is … -/
example : pubRun ordTblCasSucc ordTblLoad false 1 1 = some 107 := by decide
/-- … a reader that still sees the old (empty) table pointer may of course see the old cell … -/
example : pubRun ordTblCasSucc ordTblLoad false 0 0 = some 0 := by decide
/-- … and through a LATER table, installed by a third thread with a fully relaxed CAS, the unconstructed
element is still not a behaviour (release sequence) -/
example : pubRun ordTblCasSucc ordTblLoad true 2 0 = none := by decide
example : pubRun ordTblCasSucc ordTblLoad true 2 1 = some 207 := by decide
/-- NEGATIVE CONTROL: publishing CAS relaxed — the reader obtains table 1 and reads the unconstructed
element (the seeded change `race:element-published-without-happens-before`) -/
example : pubRun .rlx ordTblLoad false 1 0 = some 100 := by decide
/-- NEGATIVE CONTROL: the reading load relaxed -/
example : pubRun ordTblCasSucc .rlx false 1 0 = some 100 := by decide
/-- NEGATIVE CONTROL: release only on the failure path is not enough either (acquire-only success order) -/
example : pubRun .acq ordTblLoad false 1 0 = some 100 := by decide
/-- the loser of the race: with the source's failure order the winner's element is constructed … -/
example : loserRun ordTblCasSucc ordTblCasFail 1 0 = none := by decide
example : loserRun ordTblCasSucc ordTblCasFail 1 1 = some 107 := by decide
/-- NEGATIVE CONTROL: … with a relaxed failure order it need not be -/
example : loserRun ordTblCasSucc .rlx 1 0 = some 100 := by decide

end Babylon.CVec.View
