/-
  Executable schedules: a list of events (calls, thread steps with their inputs, clock ticks) run
  through the model; every state reached this way is `Reachable`.  Used for the concrete witness of
  the stale-timestamp defect (the code before the fix, `reread = false`) and for non-vacuity
  examples.
-/
import Babylon.CVec.LemmasAll

namespace Babylon.CVec
open Babylon.Core

inductive Ev
  | ensure (t i : Nat)
  | reserve (t n : Nat)
  | snap (t : Nat)
  | gc (t : Nat)
  | act (t : Nat) (clock : Nat := 0) (spurious : Bool := false)
  | tick (d : Nat)
  deriving Repr

def applyEv (c : Cfg) (s : State) : Ev → Option State
  | .ensure t i => if s.pc t = .idle ∧ s.destroyed = false then some (callEnsure c s t i) else none
  | .reserve t n => if s.pc t = .idle ∧ s.destroyed = false then some (callReserve c s t n) else none
  | .snap t => if s.pc t = .idle ∧ s.destroyed = false then some (callSnap s t .snap) else none
  | .gc t => if s.pc t = .idle ∧ s.destroyed = false then some (callGc s t) else none
  | .act t clock sp => (stepThread c s t { spurious := sp, clock := clock }).map (·.1)
  | .tick d => some (tick s d)

def run (c : Cfg) : State → List Ev → Option State
  | s, [] => some s
  | s, e :: es => match applyEv c s e with
    | some s' => run c s' es
    | none => none

def NoX (s : State) : Prop := ∀ u, s.pc u ≠ .xLoad

theorem applyEv_reach {c : Cfg} {s s' : State} {e : Ev} (hr : Reachable Init (Step c) s) (hx : NoX s)
    (h : applyEv c s e = some s') : Reachable Init (Step c) s' ∧ NoX s' := by
  have hq := (Inv.of_reachable hr).q
  have hcall : ∀ (t : Nat) (p : Pc), p ≠ .xLoad → NoX { s with pc := upd s.pc t p } := by
    intro t p hp u
    show upd s.pc t p u ≠ .xLoad
    by_cases hu : u = t
    · subst hu; simpa using hp
    · rw [upd_other _ _ hu]; exact hx u
  cases e with
  | ensure t i =>
    simp only [applyEv] at h
    split at h
    · rename_i hc; simp only [Option.some.injEq] at h; subst h
      exact ⟨.tail hr (.ensure s t i hc.1 hc.2 hx), hcall t _ (by simp)⟩
    · cases h
  | reserve t n =>
    simp only [applyEv] at h
    split at h
    · rename_i hc; simp only [Option.some.injEq] at h; subst h
      exact ⟨.tail hr (.reserve s t n hc.1 hc.2 hx), hcall t _ (by simp)⟩
    · cases h
  | snap t =>
    simp only [applyEv] at h
    split at h
    · rename_i hc; simp only [Option.some.injEq] at h; subst h
      exact ⟨.tail hr (.snap s t .snap hc.1 hc.2 hx), hcall t _ (by simp)⟩
    · cases h
  | gc t =>
    simp only [applyEv] at h
    split at h
    · rename_i hc; simp only [Option.some.injEq] at h; subst h
      exact ⟨.tail hr (.gc s t hc.1 hc.2 hx), hcall t _ (by simp)⟩
    · cases h
  | act t clock sp =>
    simp only [applyEv, Option.map_eq_some_iff] at h
    obtain ⟨⟨s1, ls⟩, hst, rfl⟩ := h
    exact ⟨.tail hr (.act s t _ s1 ls hst), (stepThread_TStep hst).noX_after hq⟩
  | tick d =>
    simp only [applyEv, Option.some.injEq] at h; subst h
    exact ⟨.tail hr (.tick s d), hx⟩

theorem run_reach {c : Cfg} : ∀ {es : List Ev} {s s' : State}, Reachable Init (Step c) s → NoX s →
    run c s es = some s' → Reachable Init (Step c) s' ∧ NoX s'
  | [], s, s', hr, hx, h => by simp only [run, Option.some.injEq] at h; subst h; exact ⟨hr, hx⟩
  | e :: es, s, s', hr, hx, h => by
    simp only [run] at h
    split at h
    · rename_i s1 he
      obtain ⟨hr1, hx1⟩ := applyEv_reach hr hx he
      exact run_reach hr1 hx1 h
    · cases h

theorem run_reach_init {c : Cfg} {es : List Ev} {now : Nat} {s' : State}
    (h : run c (State.init now) es = some s') : Reachable Init (Step c) s' :=
  (run_reach (.base ⟨now, rfl⟩) (fun _ => by simp [State.init]) h).1

/-- the schedule of corpus/C04/stale_timestamp_witness.txt (block size 1).  Thread 0 grows the vector
to one block.  Thread 1 publishes table 3 and reads the clock inside `retire(1)` at 1 s (stamp unit 0);
125 s pass.  Thread 2 supersedes table 3 at 126 s and retires it with stamp unit 1.  At 127 s thread
1's CAS fails against the new head; without re-reading the clock its retry succeeds with stamp 0.
Thread 2's `gc()` at 128.5 s (unit 2) sees `2 - 0 > 1` and frees the whole list, table 3 included. -/
def staleSchedule : List Ev := [
  .ensure 0 0, .act 0, .act 0, .act 0, .act 0 1000001000, .act 0,
  .ensure 1 1, .act 1, .act 1, .act 1, .act 1 1000002000,
  .tick 125000000000,
  .ensure 2 2, .act 2, .act 2, .act 2, .act 2 126000003000, .act 2,
  .tick 1000000000,
  .act 1, .act 1,
  .tick 1500000000,
  .gc 2, .act 2, .act 2 128500004000, .act 2 ]

end Babylon.CVec
