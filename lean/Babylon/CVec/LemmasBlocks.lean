/-
  Blocks of ConcurrentVector: every block is allocated with a fresh id, its elements are constructed
  once before the CAS that may publish it, a loser of that CAS destroys and frees exactly the blocks
  it created (never published), published blocks stay intact until the destructor, which destroys
  each of them once.
-/
import Babylon.CVec.LemmasStep
import Babylon.CVec.LemmasTable

namespace Babylon.CVec
open Babylon.Core

/-! ### shape of a thread step: how the program counter moves -/

def Pc.isX : Pc → Bool
  | .xLoad | .xXchg | .xLoad2 => true
  | _ => false

/-- allowed successor of a program counter -/
def nextOk : Pc → Pc → Prop
  | .idle, _ => False
  | .xLoad, p => p = .xXchg
  | .xXchg, p => p = .xLoad2
  | .xLoad2, p => p = .idle
  | _, p => p.isX = false

theorem rClockNext_isX (c : Cfg) (x lts ln v nt : Nat) (k : Kont) : (rClockNext c x lts ln v nt k).isX = false := by
  unfold rClockNext; split
  · rfl
  · split <;> rfl

theorem rClockNext_spec (c : Cfg) (x lts ln v nt : Nat) (k : Kont) : (rClockNext c x lts ln v nt k).spec = none := by
  unfold rClockNext; split
  · rfl
  · split <;> rfl

theorem TStep.shape {c : Cfg} {s s' : State} {t : Nat} (h : TStep c s t s') :
    ∃ p', s'.pc = upd s.pc t p' ∧ nextOk (s.pc t) p' ∧ s'.destroyed = (s.destroyed || s.pc t == .xLoad) := by
  cases h
  case gqFast need k hpc hc => exact ⟨.idle, rfl, by rw [hpc]; rfl, by rw [hpc]; exact (Bool.or_false _).symm⟩
  case gqSlow need k hpc hc => exact ⟨_, rfl, by rw [hpc]; rfl, by rw [hpc]; exact (Bool.or_false _).symm⟩
  case casWin nt old need made k hpc hc => exact ⟨_, rfl, by rw [hpc]; rfl, by rw [hpc]; exact (Bool.or_false _).symm⟩
  case casLoseDone nt old need made k hpc hc hl =>
    exact ⟨.idle, rfl, by rw [hpc]; rfl, by rw [hpc]; exact (Bool.or_false _).symm⟩
  case casLoseRetry nt old need made k hpc hc hl =>
    exact ⟨_, rfl, by rw [hpc]; rfl, by rw [hpc]; exact (Bool.or_false _).symm⟩
  case rLoad x nt k hpc => exact ⟨_, rfl, by rw [hpc]; rfl, by rw [hpc]; exact (Bool.or_false _).symm⟩
  case rClock x lts ln nt k v hpc hv =>
    exact ⟨_, rfl, by rw [hpc]; exact rClockNext_isX _ _ _ _ _ _ _, by rw [hpc]; exact (Bool.or_false _).symm⟩
  case rCasXWin x lts ln v nt k hpc hm =>
    exact ⟨.idle, rfl, by rw [hpc]; rfl, by rw [hpc]; exact (Bool.or_false _).symm⟩
  case rCasXFail x lts ln v nt k hpc hm =>
    refine ⟨_, rfl, ?_, by rw [hpc]; exact (Bool.or_false _).symm⟩
    rw [hpc]; simp only [nextOk]; split <;> rfl
  case rClock2 x lts ln nt k v hpc hv => exact ⟨_, rfl, by rw [hpc]; rfl, by rw [hpc]; exact (Bool.or_false _).symm⟩
  case rCasWWin x lts ln v nt k hpc hm => exact ⟨.idle, rfl, by rw [hpc]; rfl, by rw [hpc]; exact (Bool.or_false _).symm⟩
  case rCasWFail x lts ln v nt k hpc =>
    refine ⟨_, rfl, ?_, by rw [hpc]; exact (Bool.or_false _).symm⟩
    rw [hpc]; simp only [nextOk]; split <;> rfl
  case gLoad hpc => exact ⟨_, rfl, by rw [hpc]; rfl, by rw [hpc]; exact (Bool.or_false _).symm⟩
  case gClockGo lts ln v hpc hv he => exact ⟨_, rfl, by rw [hpc]; rfl, by rw [hpc]; exact (Bool.or_false _).symm⟩
  case gClockRet lts ln v hpc hv => exact ⟨.idle, rfl, by rw [hpc]; rfl, by rw [hpc]; exact (Bool.or_false _).symm⟩
  case gCasWin lts ln v hpc hm => exact ⟨.idle, rfl, by rw [hpc]; rfl, by rw [hpc]; exact (Bool.or_false _).symm⟩
  case gCasFail lts ln v hpc => exact ⟨.idle, rfl, by rw [hpc]; rfl, by rw [hpc]; exact (Bool.or_false _).symm⟩
  case sLoad k hpc => cases k <;> exact ⟨.idle, rfl, by rw [hpc]; rfl, by rw [hpc]; exact (Bool.or_false _).symm⟩
  case xLoad hpc => exact ⟨_, rfl, by rw [hpc]; rfl, by rw [hpc]; exact (Bool.or_true _).symm⟩
  case xXchg hpc => exact ⟨_, rfl, by rw [hpc]; rfl, by rw [hpc]; exact (Bool.or_false _).symm⟩
  case xLoad2 hpc => exact ⟨.idle, rfl, by rw [hpc]; rfl, by rw [hpc]; exact (Bool.or_false _).symm⟩

/-! ### quiescence around the destructor -/

structure InvQ (s : State) : Prop where
  xAlone : ∀ t, s.pc t = .xLoad → ∀ u, u ≠ t → s.pc u = .idle
  xLive : ∀ t, s.pc t = .xLoad → s.destroyed = false
  dPc : s.destroyed = true → ∀ t, s.pc t = .idle ∨ s.pc t = .xXchg ∨ s.pc t = .xLoad2
  dOne : s.destroyed = true → ∀ t u, s.pc t ≠ .idle → u ≠ t → s.pc u = .idle
  xDone : ∀ t, s.pc t = .xXchg ∨ s.pc t = .xLoad2 → s.destroyed = true

theorem InvQ.init (now : Nat) : InvQ (State.init now) := by
  constructor <;> simp [State.init]

theorem nextOk_ne_idle {p p' : Pc} (h : nextOk p p') : p ≠ .idle := by
  intro e; subst e; exact h

theorem nextOk_ne_xLoad {p p' : Pc} (h : nextOk p p') : p' ≠ .xLoad := by
  intro e; subst e
  cases p <;> simp [nextOk, Pc.isX] at h

theorem nextOk_xXchg {p : Pc} (h : nextOk p .xXchg) : p = .xLoad := by
  cases p <;> simp [nextOk, Pc.isX] at h ⊢

theorem nextOk_xLoad2 {p : Pc} (h : nextOk p .xLoad2) : p = .xXchg := by
  cases p <;> simp [nextOk, Pc.isX] at h ⊢

/-- after any step of a thread nobody is about to start the destructor's first step -/
theorem TStep.noX_after {c : Cfg} {s s' : State} {t : Nat} (h : InvQ s) (hs : TStep c s t s') :
    ∀ u, s'.pc u ≠ .xLoad := by
  obtain ⟨p', hpc, hok, _⟩ := hs.shape
  have hne := nextOk_ne_idle hok
  have hnx := nextOk_ne_xLoad hok
  intro u; rw [hpc]
  by_cases hu : u = t
  · subst hu; simpa using hnx
  · rw [upd_other _ _ hu]
    exact fun hx => hne (h.xAlone u hx t (Ne.symm hu))

theorem InvQ.act {c : Cfg} {s s' : State} {t : Nat} (h : InvQ s) (hs : TStep c s t s') : InvQ s' := by
  obtain ⟨p', hpc, hok, hd⟩ := hs.shape
  have hne := nextOk_ne_idle hok
  have hnx := nextOk_ne_xLoad hok
  -- nobody else is at xLoad (the acting thread is not idle)
  have hothers : ∀ u, u ≠ t → s.pc u ≠ .xLoad := fun u hu hx => hne (h.xAlone u hx t (Ne.symm hu))
  have hnox : ∀ u, s'.pc u ≠ .xLoad := by
    intro u; rw [hpc]
    by_cases hu : u = t
    · subst hu; simpa using hnx
    · rw [upd_other _ _ hu]; exact hothers u hu
  constructor
  · intro u hx; exact absurd hx (hnox u)
  · intro u hx; exact absurd hx (hnox u)
  · intro hd' u
    rw [hd] at hd'
    rw [hpc]
    by_cases hx : s.pc t = .xLoad
    · -- the destructor's first step
      have hall := h.xAlone t hx
      by_cases hu : u = t
      · subst hu; rw [hx] at hok; simp only [nextOk] at hok; simp [hok]
      · rw [upd_other _ _ hu]; exact Or.inl (hall u hu)
    · have hds : s.destroyed = true := by
        cases hq : s.destroyed with
        | true => rfl
        | false => rw [hq] at hd'; simp at hd'; exact absurd hd' hx
      by_cases hu : u = t
      · subst hu
        rcases h.dPc hds u with hq | hq | hq
        · exact absurd hq hne
        · rw [hq] at hok; simp only [nextOk] at hok; simp [hok]
        · rw [hq] at hok; simp only [nextOk] at hok; simp [hok]
      · rw [upd_other _ _ hu]; exact h.dPc hds u
  · intro hd' a b ha hab
    rw [hd] at hd'
    rw [hpc] at ha ⊢
    have hall : ∀ u, u ≠ t → s.pc u = .idle := by
      by_cases hx : s.pc t = .xLoad
      · exact h.xAlone t hx
      · have hds : s.destroyed = true := by
          cases hq : s.destroyed with
          | true => rfl
          | false => rw [hq] at hd'; simp at hd'; exact absurd hd' hx
        intro u hu; exact h.dOne hds t u hne hu
    by_cases hat : a = t
    · subst hat; rw [upd_other _ _ hab]; exact hall b hab
    · rw [upd_other _ _ hat] at ha; exact absurd (hall a hat) ha
  · intro u hu
    rw [hd]
    rw [hpc] at hu
    by_cases hut : u = t
    · subst hut
      simp only [upd_same] at hu
      rcases hu with hu | hu
      · subst hu; rw [nextOk_xXchg hok]; simp
      · subst hu; rw [h.xDone u (Or.inl (nextOk_xLoad2 hok))]; rfl
    · rw [upd_other _ _ hut] at hu
      rw [h.xDone u hu]; rfl

/-- a call by an idle thread while the vector is alive and nobody is destroying it -/
theorem InvQ.call {s s' : State} {t : Nat} (h : InvQ s) (p : Pc) (hp : p ≠ .xLoad) (hp1 : p ≠ .xXchg) (hp2 : p ≠ .xLoad2) (hpc : s'.pc = upd s.pc t p)
    (hd : s'.destroyed = s.destroyed) (hlive : s.destroyed = false) (hnox : ∀ u, s.pc u ≠ .xLoad) : InvQ s' := by
  have hnox' : ∀ u, s'.pc u ≠ .xLoad := by
    intro u; rw [hpc]
    by_cases hu : u = t
    · subst hu; simpa using hp
    · rw [upd_other _ _ hu]; exact hnox u
  constructor
  · intro u hx; exact absurd hx (hnox' u)
  · intro u hx; exact absurd hx (hnox' u)
  · intro hd'; rw [hd, hlive] at hd'; cases hd'
  · intro hd'; rw [hd, hlive] at hd'; cases hd'
  · intro u hu
    rw [hpc] at hu
    by_cases hut : u = t
    · subst hut; simp only [upd_same] at hu
      rcases hu with hu | hu
      · exact absurd hu hp1
      · exact absurd hu hp2
    · rw [upd_other _ _ hut] at hu; rw [hd]; exact h.xDone u hu

theorem InvQ.step {c : Cfg} {s s' : State} (h : InvQ s) (hs : Step c s s') : InvQ s' := by
  cases hs
  case act t inp ls hst => exact h.act (stepThread_TStep hst)
  case ensure t i hi hd hx => exact h.call _ (by simp) (by simp) (by simp) rfl rfl hd hx
  case reserve t n hi hd hx => exact h.call _ (by simp) (by simp) (by simp) rfl rfl hd hx
  case range t b e hi hd hx hbe => exact h.call _ (by simp) (by simp) (by simp) rfl rfl hd hx
  case snap t k hi hd hx => exact h.call _ (by simp) (by simp) (by simp) rfl rfl hd hx
  case gc t hi hd hx => exact h.call _ (by simp) (by simp) (by simp) rfl rfl hd hx
  case destroy t hi hd =>
    constructor
    · intro u hx w hw
      simp only [callDestroy] at hx ⊢
      by_cases hwt : w = t
      · subst hwt
        rw [upd_other _ _ (Ne.symm hw)] at hx
        rw [hi u] at hx; cases hx
      · rw [upd_other _ _ hwt]; exact hi w
    · intro u _; exact hd
    · intro hd'; simp only [callDestroy] at hd'; rw [hd] at hd'; cases hd'
    · intro hd'; simp only [callDestroy] at hd'; rw [hd] at hd'; cases hd'
    · intro u hu
      simp only [callDestroy] at hu
      by_cases hut : u = t
      · subst hut; simp at hu
      · rw [upd_other _ _ hut, hi u] at hu; simp at hu
  case tick d => exact ⟨h.xAlone, h.xLive, h.dPc, h.dOne, h.xDone⟩


/-! ### blocks -/

theorem count_nodup {l : List Nat} (h : l.Nodup) (a : Nat) : l.count a = if a ∈ l then 1 else 0 := by
  induction l with
  | nil => simp
  | cons b l ih =>
    rw [List.nodup_cons] at h
    rw [List.count_cons, ih h.2]
    by_cases hab : b = a
    · subst hab; simp [h.1]
    · have : ¬ a = b := fun e => hab e.symm
      simp [hab, this]

theorem mem_madeIds (s : State) (n b : Nat) : b ∈ madeIds s n ↔ s.nalloc < b ∧ b ≤ s.nalloc + n := by
  simp only [madeIds, List.mem_range'_1]; omega

theorem madeIds_nodup (s : State) (n : Nat) : (madeIds s n).Nodup := List.nodup_range'

structure InvB (s : State) : Prop where
  curLe : ∀ b ∈ s.tbl s.cur, b ≤ s.nalloc
  curNodup : (s.tbl s.cur).Nodup
  madeLe : ∀ t nt made, (s.pc t).spec = some (nt, made) → ∀ b ∈ made, b ≤ s.nalloc
  madeNodup : ∀ t nt made, (s.pc t).spec = some (nt, made) → made.Nodup
  madeNotCur : ∀ t nt made, (s.pc t).spec = some (nt, made) → ∀ b ∈ made, b ∉ s.tbl s.cur
  madeDisj : ∀ t u nt made nt' made', t ≠ u → (s.pc t).spec = some (nt, made) → (s.pc u).spec = some (nt', made') →
      ∀ b ∈ made, b ∉ made'
  fresh : ∀ a, s.nalloc < a → s.ctorN a = 0 ∧ s.dtorN a = 0 ∧ s.freeN a = 0
  liveCur : s.destroyed = false → ∀ b ∈ s.tbl s.cur, s.ctorN b = 1 ∧ s.dtorN b = 0
  liveMade : ∀ t nt made, (s.pc t).spec = some (nt, made) → ∀ b ∈ made, s.ctorN b = 1 ∧ s.dtorN b = 0
  global : ∀ a, s.ctorN a ≤ 1 ∧ s.dtorN a ≤ s.ctorN a ∧ s.freeN a = s.dtorN a
  classify : s.destroyed = false → ∀ a, s.ctorN a = 1 →
      s.dtorN a = 1 ∨ a ∈ s.tbl s.cur ∨ ∃ t nt made, (s.pc t).spec = some (nt, made) ∧ a ∈ made
  doneAll : s.destroyed = true → ∀ a, s.dtorN a = s.ctorN a

theorem InvB.init (now : Nat) : InvB (State.init now) := by
  constructor <;> simp [State.init, Pc.spec]

theorem spec_upd_same (s : State) (t : Nat) (p : Pc) (h0 : (s.pc t).spec = none) (hp : p.spec = none) (u : Nat) :
    ((upd s.pc t p) u).spec = (s.pc u).spec := by
  by_cases hu : u = t
  · subst hu; simp [hp, h0]
  · rw [upd_other _ _ hu]

theorem InvB.frame {s s' : State} (h : InvB s) (hcur : s'.cur = s.cur) (htbl : s'.tbl = s.tbl)
    (hn : s.nalloc ≤ s'.nalloc) (hc : s'.ctorN = s.ctorN) (hd : s'.dtorN = s.dtorN) (hf : s'.freeN = s.freeN)
    (hdes : s'.destroyed = s.destroyed) (hspec : ∀ u, (s'.pc u).spec = (s.pc u).spec) : InvB s' := by
  constructor
  · intro b hb; rw [htbl, hcur] at hb; exact Nat.le_trans (h.curLe b hb) hn
  · rw [htbl, hcur]; exact h.curNodup
  · intro t nt made hs b hb; rw [hspec] at hs; exact Nat.le_trans (h.madeLe t nt made hs b hb) hn
  · intro t nt made hs; rw [hspec] at hs; exact h.madeNodup t nt made hs
  · intro t nt made hs b hb; rw [hspec] at hs; rw [htbl, hcur]; exact h.madeNotCur t nt made hs b hb
  · intro t u nt made nt' made' htu hs hs'; rw [hspec] at hs hs'; exact h.madeDisj t u nt made nt' made' htu hs hs'
  · intro a ha; rw [hc, hd, hf]; exact h.fresh a (Nat.lt_of_le_of_lt hn ha)
  · intro hl b hb; rw [hdes] at hl; rw [htbl, hcur] at hb; rw [hc, hd]; exact h.liveCur hl b hb
  · intro t nt made hs b hb; rw [hspec] at hs; rw [hc, hd]; exact h.liveMade t nt made hs b hb
  · intro a; rw [hc, hd, hf]; exact h.global a
  · intro hl a ha
    rw [hdes] at hl; rw [hc] at ha; rw [hd, htbl, hcur]
    rcases h.classify hl a ha with h1 | h1 | ⟨t, nt, made, hs, hm⟩
    · exact Or.inl h1
    · exact Or.inr (Or.inl h1)
    · exact Or.inr (Or.inr ⟨t, nt, made, by rw [hspec]; exact hs, hm⟩)
  · intro hl a; rw [hdes] at hl; rw [hc, hd]; exact h.doneAll hl a

/-- a thread (re)starts the block-creation round: `n` fresh blocks after `base` allocations -/
theorem InvB.create {s s' : State} (h : InvB s) (t nt n : Nat) (p : Pc) (base : State)
    (hnoSpec : (s.pc t).spec = none) (hdes0 : s.destroyed = false)
    (hbase : s.nalloc ≤ base.nalloc) (hp : p.spec = some (nt, madeIds base n))
    (hcur : s'.cur = s.cur) (htbl : s'.tbl = s.tbl) (hn : s'.nalloc = base.nalloc + n)
    (hc : s'.ctorN = fun b => if b ∈ madeIds base n then s.ctorN b + 1 else s.ctorN b)
    (hd : s'.dtorN = s.dtorN) (hf : s'.freeN = s.freeN) (hdes : s'.destroyed = s.destroyed)
    (hpc : s'.pc = upd s.pc t p) : InvB s' := by
  have hmem : ∀ b, b ∈ madeIds base n → s.nalloc < b := fun b hb => Nat.lt_of_le_of_lt hbase ((mem_madeIds base n b).mp hb).1
  have hold : ∀ b, b ≤ s.nalloc → b ∉ madeIds base n := fun b hb hm => by have := hmem b hm; omega
  have hspecOther : ∀ u, u ≠ t → (s'.pc u).spec = (s.pc u).spec := fun u hu => by rw [hpc, upd_other _ _ hu]
  have hspecT : (s'.pc t).spec = some (nt, madeIds base n) := by rw [hpc]; simpa using hp
  constructor
  · intro b hb; rw [htbl, hcur] at hb; have := h.curLe b hb; omega
  · rw [htbl, hcur]; exact h.curNodup
  · intro u a ma hs b hb
    by_cases hu : u = t
    · subst hu; rw [hspecT] at hs; simp only [Option.some.injEq, Prod.mk.injEq] at hs
      rw [← hs.2] at hb; have := ((mem_madeIds base n b).mp hb).2; omega
    · rw [hspecOther u hu] at hs; have := h.madeLe u a ma hs b hb; omega
  · intro u a ma hs
    by_cases hu : u = t
    · subst hu; rw [hspecT] at hs; simp only [Option.some.injEq, Prod.mk.injEq] at hs
      rw [← hs.2]; exact madeIds_nodup base n
    · rw [hspecOther u hu] at hs; exact h.madeNodup u a ma hs
  · intro u a ma hs b hb
    rw [htbl, hcur]
    by_cases hu : u = t
    · subst hu; rw [hspecT] at hs; simp only [Option.some.injEq, Prod.mk.injEq] at hs
      rw [← hs.2] at hb
      intro hcur'; have := h.curLe b hcur'; have := hmem b hb; omega
    · rw [hspecOther u hu] at hs; exact h.madeNotCur u a ma hs b hb
  · intro u w a ma a' ma' huw hs hs' b hb
    by_cases hu : u = t
    · subst hu
      have hw : w ≠ u := Ne.symm huw
      rw [hspecT] at hs; simp only [Option.some.injEq, Prod.mk.injEq] at hs
      rw [hspecOther w hw] at hs'
      rw [← hs.2] at hb
      intro hb'; have := h.madeLe w a' ma' hs' b hb'; have := hmem b hb; omega
    · rw [hspecOther u hu] at hs
      by_cases hw : w = t
      · subst hw
        rw [hspecT] at hs'; simp only [Option.some.injEq, Prod.mk.injEq] at hs'
        rw [← hs'.2]
        exact hold b (h.madeLe u a ma hs b hb)
      · rw [hspecOther w hw] at hs'
        exact h.madeDisj u w a ma a' ma' huw hs hs' b hb
  · intro a ha
    rw [hn] at ha
    have hnot : a ∉ madeIds base n := by rw [mem_madeIds]; omega
    rw [hc, hd, hf]; simp only [hnot, if_false]
    exact h.fresh a (by omega)
  · intro hl b hb
    rw [htbl, hcur] at hb
    rw [hc, hd]; simp only [hold b (h.curLe b hb), if_false]
    exact h.liveCur hdes0 b hb
  · intro u a ma hs b hb
    rw [hc, hd]
    by_cases hu : u = t
    · subst hu; rw [hspecT] at hs; simp only [Option.some.injEq, Prod.mk.injEq] at hs
      rw [← hs.2] at hb
      have hfr := h.fresh b (hmem b hb)
      simp only [hb, if_true]
      omega
    · rw [hspecOther u hu] at hs
      simp only [hold b (h.madeLe u a ma hs b hb), if_false]
      exact h.liveMade u a ma hs b hb
  · intro a
    rw [hc, hd, hf]
    by_cases ha : a ∈ madeIds base n
    · have hfr := h.fresh a (hmem a ha)
      simp only [ha, if_true]; omega
    · simp only [ha, if_false]; exact h.global a
  · intro hl a ha
    rw [hc] at ha; rw [hd, htbl, hcur]
    by_cases ham : a ∈ madeIds base n
    · exact Or.inr (Or.inr ⟨t, nt, madeIds base n, hspecT, ham⟩)
    · simp only [ham, if_false] at ha
      rcases h.classify hdes0 a ha with h1 | h1 | ⟨u, a', ma, hs, hm⟩
      · exact Or.inl h1
      · exact Or.inr (Or.inl h1)
      · have hu : u ≠ t := by intro e; subst e; rw [hnoSpec] at hs; cases hs
        exact Or.inr (Or.inr ⟨u, a', ma, by rw [hspecOther u hu]; exact hs, hm⟩)
  · intro hl; rw [hdes, hdes0] at hl; cases hl


/-- the vector is alive while some thread is inside `ensure` / `reserve` / … -/
theorem InvQ.alive {s : State} (hq : InvQ s) (t : Nat) (h : (s.pc t).isX = false) (hne : s.pc t ≠ .idle) :
    s.destroyed = false := by
  cases hd : s.destroyed with
  | false => rfl
  | true =>
    rcases hq.dPc hd t with e | e | e
    · exact absurd e hne
    · rw [e] at h; cases h
    · rw [e] at h; cases h

/-- a loser of the table CAS destroys and frees the blocks it made -/
theorem InvB.loserDelete {s s' : State} (h : InvB s) (t nt : Nat) (made : List Nat) (p : Pc)
    (hspec : (s.pc t).spec = some (nt, made)) (hdes0 : s.destroyed = false) (hp : p.spec = none)
    (hcur : s'.cur = s.cur) (htbl : s'.tbl = s.tbl) (hn : s'.nalloc = s.nalloc) (hc : s'.ctorN = s.ctorN)
    (hd : s'.dtorN = fun b => s.dtorN b + made.count b) (hf : s'.freeN = fun b => s.freeN b + made.count b)
    (hdes : s'.destroyed = s.destroyed) (hpc : s'.pc = upd s.pc t p) : InvB s' := by
  have hnd := h.madeNodup t nt made hspec
  have hcnt : ∀ a, made.count a = if a ∈ made then 1 else 0 := count_nodup hnd
  have hspecOther : ∀ u, u ≠ t → (s'.pc u).spec = (s.pc u).spec := fun u hu => by rw [hpc, upd_other _ _ hu]
  have hspecT : (s'.pc t).spec = none := by rw [hpc]; simpa using hp
  constructor
  · intro b hb; rw [htbl, hcur] at hb; rw [hn]; exact h.curLe b hb
  · rw [htbl, hcur]; exact h.curNodup
  · intro u a ma hs b hb
    by_cases hu : u = t
    · subst hu; rw [hspecT] at hs; cases hs
    · rw [hspecOther u hu] at hs; rw [hn]; exact h.madeLe u a ma hs b hb
  · intro u a ma hs
    by_cases hu : u = t
    · subst hu; rw [hspecT] at hs; cases hs
    · rw [hspecOther u hu] at hs; exact h.madeNodup u a ma hs
  · intro u a ma hs b hb
    by_cases hu : u = t
    · subst hu; rw [hspecT] at hs; cases hs
    · rw [hspecOther u hu] at hs; rw [htbl, hcur]; exact h.madeNotCur u a ma hs b hb
  · intro u w a ma a' ma' huw hs hs' b hb
    by_cases hu : u = t
    · subst hu; rw [hspecT] at hs; cases hs
    · by_cases hw : w = t
      · subst hw; rw [hspecT] at hs'; cases hs'
      · rw [hspecOther u hu] at hs; rw [hspecOther w hw] at hs'
        exact h.madeDisj u w a ma a' ma' huw hs hs' b hb
  · intro a ha
    rw [hn] at ha
    have hnot : a ∉ made := fun hm => by have := h.madeLe t nt made hspec a hm; omega
    rw [hc, hd, hf]; simp only [hcnt, hnot, if_false, Nat.add_zero]
    exact h.fresh a ha
  · intro hl b hb
    rw [htbl, hcur] at hb
    have hnot : b ∉ made := fun hm => h.madeNotCur t nt made hspec b hm hb
    rw [hc, hd]; simp only [hcnt, hnot, if_false, Nat.add_zero]
    exact h.liveCur hdes0 b hb
  · intro u a ma hs b hb
    by_cases hu : u = t
    · subst hu; rw [hspecT] at hs; cases hs
    · rw [hspecOther u hu] at hs
      have hnot : b ∉ made := fun hm => h.madeDisj t u nt made a ma (Ne.symm hu) hspec hs b hm hb
      rw [hc, hd]; simp only [hcnt, hnot, if_false, Nat.add_zero]
      exact h.liveMade u a ma hs b hb
  · intro a
    rw [hc, hd, hf]; simp only [hcnt]
    have hg := h.global a
    by_cases ha : a ∈ made
    · have hl := h.liveMade t nt made hspec a ha
      simp only [ha, if_true]; omega
    · simp only [ha, if_false, Nat.add_zero]; exact hg
  · intro hl a ha
    rw [hc] at ha; rw [hd, htbl, hcur]; simp only [hcnt]
    by_cases ham : a ∈ made
    · have hlm := h.liveMade t nt made hspec a ham
      left; simp only [ham, if_true]; omega
    · simp only [ham, if_false, Nat.add_zero]
      rcases h.classify hdes0 a ha with h1 | h1 | ⟨u, a', ma, hs, hm⟩
      · exact Or.inl h1
      · exact Or.inr (Or.inl h1)
      · have hu : u ≠ t := by
          intro e; subst e; rw [hspec] at hs
          simp only [Option.some.injEq, Prod.mk.injEq] at hs
          rw [hs.2] at ham; exact ham hm
        exact Or.inr (Or.inr ⟨u, a', ma, by rw [hspecOther u hu]; exact hs, hm⟩)
  · intro hl; rw [hdes, hdes0] at hl; cases hl

/-- the publishing CAS hands the thread's blocks over to the current table -/
theorem InvB.casWin {s : State} (h : InvB s) (t nt old need : Nat) (made : List Nat) (k : Kont)
    (hpc : s.pc t = .casT nt old need made k) (hcur : s.cur = old) : InvB (casWin s t nt old made k) := by
  have hspec : (s.pc t).spec = some (nt, made) := by rw [hpc]; rfl
  subst hcur
  have hspecOther : ∀ u, u ≠ t → ((Babylon.CVec.casWin s t nt s.cur made k).pc u).spec = (s.pc u).spec := fun u hu => by
    simp only [Babylon.CVec.casWin]; rw [upd_other _ _ hu]
  have hspecT : ((Babylon.CVec.casWin s t nt s.cur made k).pc t).spec = none := by simp [Babylon.CVec.casWin, Pc.spec]
  have htblNew : (Babylon.CVec.casWin s t nt s.cur made k).tbl (Babylon.CVec.casWin s t nt s.cur made k).cur = s.tbl s.cur ++ made := by
    simp [Babylon.CVec.casWin]
  constructor
  · intro b hb; rw [htblNew, List.mem_append] at hb
    rcases hb with hb | hb
    · exact h.curLe b hb
    · exact h.madeLe t nt made hspec b hb
  · rw [htblNew, List.nodup_append]
    refine ⟨h.curNodup, h.madeNodup t nt made hspec, ?_⟩
    intro a ha b hb hab; subst hab
    exact h.madeNotCur t nt made hspec a hb ha
  · intro u a ma hs b hb
    by_cases hu : u = t
    · subst hu; rw [hspecT] at hs; cases hs
    · rw [hspecOther u hu] at hs; exact h.madeLe u a ma hs b hb
  · intro u a ma hs
    by_cases hu : u = t
    · subst hu; rw [hspecT] at hs; cases hs
    · rw [hspecOther u hu] at hs; exact h.madeNodup u a ma hs
  · intro u a ma hs b hb
    by_cases hu : u = t
    · subst hu; rw [hspecT] at hs; cases hs
    · rw [hspecOther u hu] at hs
      rw [htblNew, List.mem_append]
      intro hor
      rcases hor with hor | hor
      · exact h.madeNotCur u a ma hs b hb hor
      · exact h.madeDisj u t a ma nt made hu hs hspec b hb hor
  · intro u w a ma a' ma' huw hs hs' b hb
    by_cases hu : u = t
    · subst hu; rw [hspecT] at hs; cases hs
    · by_cases hw : w = t
      · subst hw; rw [hspecT] at hs'; cases hs'
      · rw [hspecOther u hu] at hs; rw [hspecOther w hw] at hs'
        exact h.madeDisj u w a ma a' ma' huw hs hs' b hb
  · exact h.fresh
  · intro hl b hb
    rw [htblNew, List.mem_append] at hb
    rcases hb with hb | hb
    · exact h.liveCur hl b hb
    · exact h.liveMade t nt made hspec b hb
  · intro u a ma hs b hb
    by_cases hu : u = t
    · subst hu; rw [hspecT] at hs; cases hs
    · rw [hspecOther u hu] at hs; exact h.liveMade u a ma hs b hb
  · exact h.global
  · intro hl a ha
    rw [htblNew]
    rcases h.classify hl a ha with h1 | h1 | ⟨u, a', ma, hs, hm⟩
    · exact Or.inl h1
    · exact Or.inr (Or.inl (List.mem_append_left _ h1))
    · by_cases hu : u = t
      · subst hu; rw [hspec] at hs
        simp only [Option.some.injEq, Prod.mk.injEq] at hs
        rw [← hs.2] at hm
        exact Or.inr (Or.inl (List.mem_append_right _ hm))
      · exact Or.inr (Or.inr ⟨u, a', ma, by rw [hspecOther u hu]; exact hs, hm⟩)
  · exact h.doneAll

/-- the destructor destroys and frees every block of the current table -/
theorem InvB.xLoad {s : State} (h : InvB s) (hq : InvQ s) (t : Nat) (hpc : s.pc t = .xLoad) : InvB (xLoadSt s t) := by
  have hdes0 := hq.xLive t hpc
  have hidle := hq.xAlone t hpc
  have hnospec : ∀ u, (s.pc u).spec = none := by
    intro u
    by_cases hu : u = t
    · subst hu; rw [hpc]; rfl
    · rw [hidle u hu]; rfl
  have hnospec' : ∀ u, ((xLoadSt s t).pc u).spec = none := by
    intro u
    simp only [xLoadSt]
    by_cases hu : u = t
    · subst hu; simp [Pc.spec]
    · rw [upd_other _ _ hu]; exact hnospec u
  have hcnt : ∀ a, (s.tbl s.cur).count a = if a ∈ s.tbl s.cur then 1 else 0 := count_nodup h.curNodup
  constructor
  · exact h.curLe
  · exact h.curNodup
  · intro u a ma hs; rw [hnospec' u] at hs; cases hs
  · intro u a ma hs; rw [hnospec' u] at hs; cases hs
  · intro u a ma hs; rw [hnospec' u] at hs; cases hs
  · intro u w a ma a' ma' _ hs; rw [hnospec' u] at hs; cases hs
  · intro a ha
    have hnot : a ∉ s.tbl s.cur := fun hm => by have := h.curLe a hm; simp only [xLoadSt, freedTables, deleted] at ha; omega
    simp only [xLoadSt, freedTables, deleted, hcnt, hnot, if_false, Nat.add_zero]
    exact h.fresh a ha
  · intro hl; simp [xLoadSt] at hl
  · intro u a ma hs; rw [hnospec' u] at hs; cases hs
  · intro a
    simp only [xLoadSt, freedTables, deleted, hcnt]
    have hg := h.global a
    by_cases ha : a ∈ s.tbl s.cur
    · have hl := h.liveCur hdes0 a ha
      simp only [ha, if_true]; omega
    · simp only [ha, if_false, Nat.add_zero]; exact hg
  · intro hl; simp [xLoadSt] at hl
  · intro _ a
    simp only [xLoadSt, freedTables, deleted, hcnt]
    have hg := h.global a
    by_cases ha : a ∈ s.tbl s.cur
    · have hl := h.liveCur hdes0 a ha
      simp only [ha, if_true]; omega
    · simp only [ha, if_false, Nat.add_zero]
      by_cases hc1 : s.ctorN a = 1
      · rcases h.classify hdes0 a hc1 with h1 | h1 | ⟨u, a', ma, hs, _⟩
        · omega
        · exact absurd h1 ha
        · rw [hnospec u] at hs; cases hs
      · omega

theorem InvB.step {c : Cfg} {s s' : State} (h : InvB s) (hq : InvQ s) (hs : Step c s s') : InvB s' := by
  cases hs
  case act t inp ls hst =>
    have hts := stepThread_TStep hst
    cases hts
    case gqFast need k hpc hc =>
      exact h.frame rfl rfl (Nat.le_refl _) rfl rfl rfl rfl (spec_upd_same s t _ (by rw [hpc]; rfl) rfl)
    case gqSlow need k hpc hc =>
      have hdes0 := hq.alive t (by rw [hpc]; rfl) (by rw [hpc]; simp)
      exact h.create t (s.nalloc + 1) _ _ { s with nalloc := s.nalloc + 1 } (by rw [hpc]; rfl) hdes0
        (Nat.le_succ _) rfl rfl rfl rfl rfl rfl rfl rfl rfl
    case casWin nt old need made k hpc hc => exact h.casWin t nt old need made k hpc hc
    case casLoseDone nt old need made k hpc hc hl =>
      have hdes0 := hq.alive t (by rw [hpc]; rfl) (by rw [hpc]; simp)
      exact h.loserDelete t nt made .idle (by rw [hpc]; rfl) hdes0 rfl rfl rfl rfl rfl rfl rfl rfl rfl
    case casLoseRetry nt old need made k hpc hc hl =>
      have hdes0 := hq.alive t (by rw [hpc]; rfl) (by rw [hpc]; simp)
      -- first the deletion of the old blocks (intermediate state: the thread is back at the slow-path start)
      let s1 : State := { deleted s made with pc := upd s.pc t (.gq need k) }
      have h1 : InvB s1 := h.loserDelete t nt made (.gq need k) (by rw [hpc]; rfl) hdes0 rfl rfl rfl rfl rfl rfl rfl rfl rfl
      have hs' : casLoseRetry s t nt need made k =
          { created (deleted s made) (need - (s.tbl s.cur).length) with
            pc := upd s1.pc t (.casT nt s.cur need (madeIds (deleted s made) (need - (s.tbl s.cur).length)) k) } := by
        simp only [casLoseRetry, s1]
        congr 1
        funext u
        by_cases hu : u = t
        · subst hu; simp
        · simp [upd_other _ _ hu]
      rw [hs']
      exact h1.create t nt _ _ (deleted s made) (by simp [s1, Pc.spec]) hdes0 (Nat.le_refl _) rfl rfl rfl rfl rfl rfl rfl rfl rfl
    case rLoad x nt k hpc =>
      exact h.frame rfl rfl (Nat.le_refl _) rfl rfl rfl rfl (spec_upd_same s t _ (by rw [hpc]; rfl) rfl)
    case rClock x lts ln nt k v hpc hv =>
      exact h.frame rfl rfl (Nat.le_refl _) rfl rfl rfl rfl (spec_upd_same s t _ (by rw [hpc]; rfl) (rClockNext_spec _ _ _ _ _ _ _))
    case rCasXWin x lts ln v nt k hpc hm =>
      exact h.frame rfl rfl (Nat.le_refl _) rfl rfl rfl rfl (spec_upd_same s t _ (by rw [hpc]; rfl) rfl)
    case rCasXFail x lts ln v nt k hpc hm =>
      refine h.frame rfl rfl (Nat.le_refl _) rfl rfl rfl rfl (spec_upd_same s t _ (by rw [hpc]; rfl) ?_)
      split <;> rfl
    case rClock2 x lts ln nt k v hpc hv =>
      exact h.frame rfl rfl (Nat.le_refl _) rfl rfl rfl rfl (spec_upd_same s t _ (by rw [hpc]; rfl) rfl)
    case rCasWWin x lts ln v nt k hpc hm =>
      exact h.frame rfl rfl (Nat.le_refl _) rfl rfl rfl rfl (spec_upd_same s t _ (by rw [hpc]; rfl) rfl)
    case rCasWFail x lts ln v nt k hpc =>
      refine h.frame rfl rfl (Nat.le_refl _) rfl rfl rfl rfl (spec_upd_same s t _ (by rw [hpc]; rfl) ?_)
      split <;> rfl
    case gLoad hpc =>
      exact h.frame rfl rfl (Nat.le_refl _) rfl rfl rfl rfl (spec_upd_same s t _ (by rw [hpc]; rfl) rfl)
    case gClockGo lts ln v hpc hv he =>
      exact h.frame rfl rfl (Nat.le_refl _) rfl rfl rfl rfl (spec_upd_same s t _ (by rw [hpc]; rfl) rfl)
    case gClockRet lts ln v hpc hv =>
      exact h.frame rfl rfl (Nat.le_refl _) rfl rfl rfl rfl (spec_upd_same s t _ (by rw [hpc]; rfl) rfl)
    case gCasWin lts ln v hpc hm =>
      exact h.frame rfl rfl (Nat.le_refl _) rfl rfl rfl rfl (spec_upd_same s t _ (by rw [hpc]; rfl) rfl)
    case gCasFail lts ln v hpc =>
      exact h.frame rfl rfl (Nat.le_refl _) rfl rfl rfl rfl (spec_upd_same s t _ (by rw [hpc]; rfl) rfl)
    case sLoad k hpc =>
      cases k <;> exact h.frame rfl rfl (Nat.le_refl _) rfl rfl rfl rfl (spec_upd_same s t _ (by rw [hpc]; rfl) rfl)
    case xLoad hpc => exact h.xLoad hq t hpc
    case xXchg hpc =>
      exact h.frame rfl rfl (Nat.le_refl _) rfl rfl rfl rfl (spec_upd_same s t _ (by rw [hpc]; rfl) rfl)
    case xLoad2 hpc =>
      exact h.frame rfl rfl (Nat.le_refl _) rfl rfl rfl rfl (spec_upd_same s t _ (by rw [hpc]; rfl) rfl)
  case ensure t i hi hd hx => exact h.frame rfl rfl (Nat.le_refl _) rfl rfl rfl rfl (spec_upd_same s t _ (by rw [hi]; rfl) rfl)
  case reserve t n hi hd hx => exact h.frame rfl rfl (Nat.le_refl _) rfl rfl rfl rfl (spec_upd_same s t _ (by rw [hi]; rfl) rfl)
  case range t b e hi hd hx hbe => exact h.frame rfl rfl (Nat.le_refl _) rfl rfl rfl rfl (spec_upd_same s t _ (by rw [hi]; rfl) rfl)
  case snap t k hi hd hx => exact h.frame rfl rfl (Nat.le_refl _) rfl rfl rfl rfl (spec_upd_same s t _ (by rw [hi]; rfl) rfl)
  case gc t hi hd hx => exact h.frame rfl rfl (Nat.le_refl _) rfl rfl rfl rfl (spec_upd_same s t _ (by rw [hi]; rfl) rfl)
  case destroy t hi hd => exact h.frame rfl rfl (Nat.le_refl _) rfl rfl rfl rfl (spec_upd_same s t _ (by rw [hi t]; rfl) rfl)
  case tick d => exact h.frame rfl rfl (Nat.le_refl _) rfl rfl rfl rfl (fun _ => rfl)

end Babylon.CVec
