/-
  Model of `ConcurrentVector<T, BLOCK_SIZE>` and its `RetireList`
  (src/babylon/concurrent/vector.h, vector.hpp).

  * `Index`   — pure index arithmetic: `set_block_size`, `block_index`, `block_offset`, the block
    counts asked for by `ensure` / `reserve` / `reserved_snapshot`, the segment walk of `for_each`.
  * `State` / `stepThread` — transition system.  One step = one shared action of the real code
    (an atomic operation on `_block_table` or on `RetireList::_head`, or a `clock_gettime`)
    *followed by the thread-local work up to the next shared action* (operator new / delete of
    blocks and tables, element construction / destruction, walking a detached retire list).  The
    step returns the labels of everything VRT observes for it, in order, so the same function
    serves the theorems (any interleaving = any sequence of `Step`s) and the lock-step replay of
    real executions (`Drivers/C04.lean`).

  Ids.  Aligned allocations (tables and blocks) are numbered 1, 2, … in allocation order
  (`nalloc`); table id 0 is `EMPTY_BLOCK_TABLE`.  The retire-list node that carries table `x` is
  `x + 1` (0 = null); node addresses are never reused in the model (see Residual in Properties/C04).
  Time.  `now` is the virtual clock in ns; a clock read yields any value `≥ now`; the stamp of a
  clock value is `unitOf c = c / 10^9 / 2^tsShift` truncated to `stampBits` bits.  The state keeps
  the *untruncated* stamp of the head word (`hts`) as a ghost; labels and all decisions of the code
  use `hts % 2^16`.  Ghost fields (`pub`, `supAt`, `freedT`, `ctorN`, `dtorN`, `freeN`, `pushed`,
  `stampOf`, `stale`, `kindT`) never influence a label or a non-ghost field.
  Core Lean only.
-/
import Babylon.Gen.CVec
import Babylon.Core.Trace

namespace Babylon.CVec
open Babylon.Core Babylon.Gen.CVec

/-! ## Index arithmetic -/

/-- `DynamicMeta::set_block_size`: `block_mask_bits` = number of doublings of 1 needed to reach the
hint (`while (block_size < hint) block_size <<= 1`); `fuel` bounds the loop (32 suffices below 2^31). -/
def setBits (hint : Nat) : Nat :=
  let rec go (fuel bits size : Nat) : Nat :=
    match fuel with
    | 0 => bits
    | fuel + 1 => if size < hint then go fuel (bits + 1) (size * 2) else bits
  go 32 0 1

structure Cfg where
  bits : Nat                     -- `block_mask_bits()`
  reread : Bool := retireRereads -- retire takes a fresh stamp for every CAS attempt of its retry loop
  esz : Nat := 8                 -- sizeof(T) of the harness element type (allocation sizes only)
  deriving DecidableEq, Repr

def Cfg.bs (c : Cfg) : Nat := 2 ^ c.bits                      -- `block_size()`
def Cfg.mask (c : Cfg) : Nat := 2 ^ c.bits - 1                -- `block_mask()`
/-- `block_index`: `index >> bits`, returned as `uint32_t` -/
def blockIndex (c : Cfg) (i : Nat) : Nat := (i >>> c.bits) % 2 ^ indexBits
/-- `block_offset`: `index & mask` -/
def blockOffset (c : Cfg) (i : Nat) : Nat := i &&& c.mask
def needEnsure (c : Cfg) (i : Nat) : Nat := blockIndex c i + 1
def needReserve (c : Cfg) (n : Nat) : Nat := blockIndex c (n + c.mask)

/-- element `i` through a table with blocks `bl`: `blocks[block_index(i)][block_offset(i)]` -/
def elemAt (c : Cfg) (bl : List Nat) (i : Nat) : Option (Nat × Nat) :=
  (bl[blockIndex c i]?).map (fun b => (b, blockOffset c i))

/-- `Snapshot::for_each(begin, end, cb)`: `(block, offset, length)` of every callback, in order -/
def forEachSegs (c : Cfg) (bl : List Nat) (b e : Nat) : List (Nat × Nat × Nat) :=
  let ebi := blockIndex c e
  let ebo := blockOffset c e
  let rec loop (fuel bi bo : Nat) : List (Nat × Nat × Nat) :=
    match fuel with
    | 0 => if bo ≠ ebo then [(bl.getD bi 0, bo, ebo - bo)] else []
    | fuel + 1 => (bl.getD bi 0, bo, c.bs - bo) :: loop fuel (bi + 1) 0
  loop (ebi - blockIndex c b) (blockIndex c b) (blockOffset c b)

def alignUp (n a : Nat) : Nat := (n + a - 1) / a * a
/-- `calculate_block_table_allocation_size(num)` -/
def tableBytes (num : Nat) : Nat := alignUp (sizeofBlockTable + ptrSize * num) cacheline
/-- `calculate_block_allocation_size()` -/
def blockBytes (c : Cfg) : Nat := alignUp (c.esz * c.bs) cacheline

/-! ## Time stamps -/

def nsPerSec : Nat := 1000000000
/-- `spec.tv_sec >> tsShift`, untruncated -/
def unitOf (ns : Nat) : Nat := ns / nsPerSec / 2 ^ tsShift
/-- ns in one stamp unit (64 s) -/
def unitNs : Nat := nsPerSec * 2 ^ tsShift
def stampMod : Nat := 2 ^ stampBits
/-- `expire(head, current_timestamp)`: `uint16_t(current - stamp(head)) > expireAfter` on truncated stamps -/
def expired (h c : Nat) : Bool := decide (((c % stampMod) + stampMod - (h % stampMod)) % stampMod > expireAfter)
/-- `make_head(node, timestamp)` -/
def headWord (ts node : Nat) : Nat := (ts % stampMod) * 2 ^ makeHeadShift + node

/-! ## Transition system -/

inductive Kont
  | ensure (i : Nat)          -- `ensure(i)`: return `blocks[block_index(i)][block_offset(i)]`
  | reserve                   -- `reserve(n)`
  | range (b e : Nat)         -- `for_each / fill_n / copy_n` through `reserved_snapshot(e)`
  deriving DecidableEq, Repr, Inhabited

inductive SKont
  | snap | get (i : Nat)
  deriving DecidableEq, Repr, Inhabited

inductive Res
  | none
  | elem (i b off : Nat)
  | table (T : Nat)
  | segs (l : List (Nat × Nat × Nat))
  | unit
  deriving DecidableEq, Repr, Inhabited

inductive Pc
  | idle
  | gq (need : Nat) (k : Kont)                          -- `_block_table.load(acquire)` (+ slow-path preparation)
  | casT (nt old need : Nat) (made : List Nat) (k : Kont)   -- `_block_table.compare_exchange_strong(old, nt)`
  | rLoad (x nt : Nat) (k : Kont)                       -- retire(x): `_head.load(acquire)`
  | rClock (x lts ln nt : Nat) (k : Kont)               -- `get_current_timestamp()`
  | rCasX (x lts ln c nt : Nat) (k : Kont)              -- expire branch: `compare_exchange_strong(head, new_head)`
  | rClock2 (x lts ln nt : Nat) (k : Kont)              -- (only when `reread`) stamp for this attempt
  | rCasW (x lts ln c nt : Nat) (k : Kont)              -- `compare_exchange_weak(head, new_head)`
  | gLoad                                               -- gc(): `_head.load(acquire)`
  | gClock (lts ln : Nat)
  | gCas (lts ln c : Nat)                               -- `compare_exchange_strong(head, 0)`
  | sLoad (k : SKont)                                   -- snapshot(): `_block_table.load(acquire)`
  | xLoad                                               -- ~ConcurrentVector: `_block_table.load(relaxed)` + deletes
  | xXchg                                               -- unsafe_gc(): `_head.exchange(0, relaxed)`
  | xLoad2                                              -- ~RetireList: `_head.load(relaxed)`
  deriving DecidableEq, Repr, Inhabited

structure State where
  cur : Nat                        -- `_block_table`
  tbl : Nat → List Nat             -- blocks of a table (written when the table is published)
  nalloc : Nat                     -- aligned allocations so far
  hts : Nat                        -- head stamp (ghost: untruncated)
  hnode : Nat                      -- head node
  next : Nat → Nat                 -- `node->next` of published nodes
  now : Nat
  pc : Nat → Pc
  result : Nat → Res
  snap : Nat → Option Nat          -- table held by the thread's snapshot
  -- ghost
  pub : Nat → Bool                 -- the table has been the value of `_block_table`
  supAt : Nat → Option Nat         -- time of the CAS that superseded the table
  freedT : Nat → Option (Option Nat)   -- freed table: `some (some c)` by retire/gc that observed clock `c`, `some none` otherwise
  ctorN : Nat → Nat                -- per block: times its elements were constructed
  dtorN : Nat → Nat
  freeN : Nat → Nat                -- per allocation: times passed to operator delete
  pushed : Nat → Bool              -- the node of this table has been linked into the retire list
  stampOf : Nat → Nat              -- untruncated stamp a node was pushed with
  stale : Bool                     -- some push installed a stamp older than the one it replaced
  destroyed : Bool

def upd {α : Type} (f : Nat → α) (i : Nat) (v : α) : Nat → α := fun j => if j = i then v else f j

def State.init (now : Nat) : State :=
  { cur := 0, tbl := fun _ => [], nalloc := 0, hts := 0, hnode := 0, next := fun _ => 0, now := now,
    pc := fun _ => .idle, result := fun _ => .none, snap := fun _ => none,
    pub := fun T => T == 0, supAt := fun _ => none, freedT := fun _ => none,
    ctorN := fun _ => 0, dtorN := fun _ => 0, freeN := fun _ => 0,
    pushed := fun _ => false, stampOf := fun _ => 0, stale := false, destroyed := false }

/-- inputs of a step that the model does not determine -/
structure Inp where
  spurious : Bool := false      -- a weak CAS that would succeed fails instead
  clock : Nat := 0              -- value returned by `clock_gettime` (ns)
  deriving Repr

def evNew (id size : Nat) : Act := .ev ["new", toString id, toString size]
def evDel (id size : Nat) : Act := .ev ["del", toString id, toString size]
def evCtor (c : Cfg) (id : Nat) : Act := .ev ["ctor", toString id, toString c.bs]
def evDtor (c : Cfg) (id : Nat) : Act := .ev ["dtor", toString id, toString c.bs]
def evClock (v : Nat) : Act := .ev ["clock", toString v]

/-- `create_block()` × n: ids `nalloc+1 …`; labels `new, ctor` per block -/
def createBlocks (c : Cfg) (s : State) : Nat → State × List Nat × List Act
  | 0 => (s, [], [])
  | n + 1 =>
    let b := s.nalloc + 1
    let s1 := { s with nalloc := b, ctorN := upd s.ctorN b (s.ctorN b + 1) }
    let (s2, bs, ls) := createBlocks c s1 n
    (s2, b :: bs, evNew b (blockBytes c) :: evCtor c b :: ls)

/-- `delete_block(b)` for each block of the list: labels `dtor, del` -/
def deleteBlocks (c : Cfg) (s : State) : List Nat → State × List Act
  | [] => (s, [])
  | b :: bs =>
    let s1 := { s with dtorN := upd s.dtorN b (s.dtorN b + 1), freeN := upd s.freeN b (s.freeN b + 1) }
    let (s2, ls) := deleteBlocks c s1 bs
    (s2, evDtor c b :: evDel b (blockBytes c) :: ls)

/-- `delete_block_table(T)`: nothing for `EMPTY_BLOCK_TABLE` -/
def deleteTable (s : State) (T : Nat) (by_ : Option Nat) : State × List Act :=
  if T = 0 then (s, [])
  else ({ s with freeN := upd s.freeN T (s.freeN T + 1), freedT := upd s.freedT T (some by_) },
        [evDel T (tableBytes (s.tbl T).length)])

/-- items of the list starting at node `n`, following `next` (at most `fuel` nodes) -/
def walk (next : Nat → Nat) : Nat → Nat → List Nat
  | 0, _ => []
  | fuel + 1, n => if n = 0 then [] else (n - 1) :: walk next fuel (next n)

/-- `delete_list(head)`: `D()(node->data); delete node` along the list -/
def deleteList (s : State) (n : Nat) (by_ : Option Nat) : State × List Act :=
  (walk s.next (s.nalloc + 2) n).foldl
    (fun (acc : State × List Act) x => let (s', l) := deleteTable acc.1 x by_; (s', acc.2 ++ l)) (s, [])

/-- blocks of the table a thread is about to publish: the blocks of the table it copied + its own -/
def newContent (s : State) (old : Nat) (made : List Nat) : List Nat := s.tbl old ++ made

/-- the continuation of `get_qualified_block_table` once table `T` qualifies -/
def finish (c : Cfg) (s : State) (t : Nat) (k : Kont) (T : Nat) : State :=
  match k with
  | .ensure i =>
    { s with pc := upd s.pc t .idle,
             result := upd s.result t (match elemAt c (s.tbl T) i with | some (b, o) => .elem i b o | none => .none) }
  | .reserve => { s with pc := upd s.pc t .idle, result := upd s.result t .unit }
  | .range b e => { s with pc := upd s.pc t .idle, result := upd s.result t (.segs (forEachSegs c (s.tbl T) b e)) }

def finishS (c : Cfg) (s : State) (t : Nat) (k : SKont) (T : Nat) : State :=
  match k with
  | .snap => { s with pc := upd s.pc t .idle, snap := upd s.snap t (some T), result := upd s.result t (.table T) }
  | .get i =>
    { s with pc := upd s.pc t .idle,
             result := upd s.result t (match elemAt c (s.tbl T) i with | some (b, o) => .elem i b o | none => .none) }

/-- `get_qualified_block_table_slow`, from `create_block` loop to just before the CAS -/
def prepare (c : Cfg) (s : State) (t : Nat) (nt old need : Nat) (k : Kont) : State × List Act :=
  let (s1, made, ls) := createBlocks c s (need - (s.tbl old).length)
  ({ s1 with pc := upd s1.pc t (.casT nt old need made k) }, ls)

def headMatches (s : State) (lts ln : Nat) : Bool := s.hnode == ln && s.hts % stampMod == lts % stampMod

/-- The next step of thread `t`: new state and the labels VRT shows for it. -/
def stepThread (c : Cfg) (s : State) (t : Nat) (inp : Inp) : Option (State × List Act) :=
  match s.pc t with
  | .idle => none
  | .gq need k =>
    let l := Act.ld "tbl" 0 .acq s.cur
    if (s.tbl s.cur).length ≥ need then some (finish c s t k s.cur, [l])
    else
      -- create_block_table(need), then the first round of block creation
      let nt := s.nalloc + 1
      let s1 := { s with nalloc := nt }
      let (s2, ls) := prepare c s1 t nt s.cur need k
      some (s2, l :: evNew nt (tableBytes need) :: ls)
  | .casT nt old need made k =>
    if s.cur = old then
      let s1 := { s with cur := nt, tbl := upd s.tbl nt (newContent s old made), pub := upd s.pub nt true,
                         supAt := upd s.supAt old (some s.now), pc := upd s.pc t (.rLoad old nt k) }
      some (s1, [.cas "tbl" 0 false .acqrel .acq old nt true s.cur])
    else
      let l := Act.cas "tbl" 0 false .acqrel .acq old nt false s.cur
      let (s1, ld) := deleteBlocks c s made
      if (s1.tbl s1.cur).length ≥ need then
        -- somebody else grew the vector far enough: drop the speculative table (its `size` field is `need`)
        let s2 := { s1 with freeN := upd s1.freeN nt (s1.freeN nt + 1), freedT := upd s1.freedT nt (some none) }
        some (finish c s2 t k s1.cur, l :: ld ++ [evDel nt (tableBytes need)])
      else
        let (s2, ls) := prepare c s1 t nt s1.cur need k
        some (s2, l :: ld ++ ls)
  | .rLoad x nt k =>
    some ({ s with pc := upd s.pc t (.rClock x s.hts s.hnode nt k) }, [.ld "head" 0 .acq (headWord s.hts s.hnode)])
  | .rClock x lts ln nt k =>
    if inp.clock < s.now then none else
    let v := inp.clock
    let nxt := if expired lts (unitOf v) then Pc.rCasX x lts ln v nt k
               else if c.reread then .rClock2 x lts ln nt k else .rCasW x lts ln v nt k
    some ({ s with now := v, pc := upd s.pc t nxt }, [evClock v])
  | .rCasX x lts ln v nt k =>
    let exp := headWord lts ln
    let des := headWord (unitOf v) (x + 1)
    let obs := headWord s.hts s.hnode
    if headMatches s lts ln then
      -- node->next = nullptr; the replaced list is deleted
      let s1 := { s with hts := unitOf v, hnode := x + 1, next := upd s.next (x + 1) 0, pushed := upd s.pushed x true,
                         stampOf := upd s.stampOf (x + 1) (unitOf v) }
      let (s2, ls) := deleteList s1 ln (some v)
      some (finish c s2 t k nt, .cas "head" 0 false .acqrel .acq exp des true obs :: ls)
    else
      let nxt := if c.reread then Pc.rClock2 x s.hts s.hnode nt k else .rCasW x s.hts s.hnode v nt k
      some ({ s with pc := upd s.pc t nxt }, [.cas "head" 0 false .acqrel .acq exp des false obs])
  | .rClock2 x lts ln nt k =>
    if inp.clock < s.now then none else
    some ({ s with now := inp.clock, pc := upd s.pc t (.rCasW x lts ln inp.clock nt k) }, [evClock inp.clock])
  | .rCasW x lts ln v nt k =>
    let exp := headWord lts ln
    let des := headWord (unitOf v) (x + 1)
    let obs := headWord s.hts s.hnode
    if headMatches s lts ln ∧ ¬ inp.spurious then
      let s1 := { s with hts := unitOf v, hnode := x + 1, next := upd s.next (x + 1) ln, pushed := upd s.pushed x true,
                         stampOf := upd s.stampOf (x + 1) (unitOf v),
                         stale := s.stale || (s.hnode != 0 && decide (unitOf v < s.hts)) }
      some (finish c s1 t k nt, [.cas "head" 0 true .acqrel .acq exp des true obs])
    else
      let nxt := if c.reread then Pc.rClock2 x s.hts s.hnode nt k else .rCasW x s.hts s.hnode v nt k
      some ({ s with pc := upd s.pc t nxt }, [.cas "head" 0 true .acqrel .acq exp des false obs])
  | .gLoad =>
    some ({ s with pc := upd s.pc t (.gClock s.hts s.hnode) }, [.ld "head" 0 .acq (headWord s.hts s.hnode)])
  | .gClock lts ln =>
    if inp.clock < s.now then none else
    let v := inp.clock
    if expired lts (unitOf v) then some ({ s with now := v, pc := upd s.pc t (.gCas lts ln v) }, [evClock v])
    else some ({ s with now := v, pc := upd s.pc t .idle, result := upd s.result t .unit }, [evClock v])
  | .gCas lts ln v =>
    let exp := headWord lts ln
    let obs := headWord s.hts s.hnode
    if headMatches s lts ln then
      let s1 := { s with hts := 0, hnode := 0 }
      let (s2, ls) := deleteList s1 ln (some v)
      some ({ s2 with pc := upd s2.pc t .idle, result := upd s2.result t .unit },
            .cas "head" 0 false .acqrel .acq exp 0 true obs :: ls)
    else
      some ({ s with pc := upd s.pc t .idle, result := upd s.result t .unit },
            [.cas "head" 0 false .acqrel .acq exp 0 false obs])
  | .sLoad k => some (finishS c s t k s.cur, [.ld "tbl" 0 .acq s.cur])
  | .xLoad =>
    let (s1, ld) := deleteBlocks c s (s.tbl s.cur)
    let (s2, lt) := deleteTable s1 s1.cur none
    some ({ s2 with pc := upd s2.pc t .xXchg, destroyed := true }, .ld "tbl" 0 .rlx s.cur :: ld ++ lt)
  | .xXchg =>
    let s1 := { s with hts := 0, hnode := 0 }
    let (s2, ls) := deleteList s1 s.hnode none
    some ({ s2 with pc := upd s2.pc t .xLoad2 }, .xchg "head" 0 .rlx (headWord s.hts s.hnode) 0 :: ls)
  | .xLoad2 =>
    let (s2, ls) := deleteList s s.hnode none
    some ({ s2 with pc := upd s2.pc t .idle, result := upd s2.result t .unit }, .ld "head" 0 .rlx (headWord s.hts s.hnode) :: ls)

/-! ### calls (client contract) -/

def callEnsure (c : Cfg) (s : State) (t i : Nat) : State := { s with pc := upd s.pc t (.gq (needEnsure c i) (.ensure i)) }
def callReserve (c : Cfg) (s : State) (t n : Nat) : State := { s with pc := upd s.pc t (.gq (needReserve c n) .reserve) }
def callRange (c : Cfg) (s : State) (t b e : Nat) : State := { s with pc := upd s.pc t (.gq (needReserve c e) (.range b e)) }
def callSnap (s : State) (t : Nat) (k : SKont) : State := { s with pc := upd s.pc t (.sLoad k) }
def callGc (s : State) (t : Nat) : State := { s with pc := upd s.pc t .gLoad }
def callDestroy (s : State) (t : Nat) : State := { s with pc := upd s.pc t .xLoad }
def tick (s : State) (d : Nat) : State := { s with now := s.now + d }

/-- Any thread performs its next step, an idle thread starts a call, or time passes.  The
destructor runs only when no call is in progress and nothing is called afterwards. -/
inductive Step (c : Cfg) : State → State → Prop
  | act (s : State) (t : Nat) (inp : Inp) (s' : State) (ls : List Act) :
      stepThread c s t inp = some (s', ls) → Step c s s'
  | ensure (s : State) (t i : Nat) : s.pc t = .idle → s.destroyed = false → (∀ u, s.pc u ≠ .xLoad) → Step c s (callEnsure c s t i)
  | reserve (s : State) (t n : Nat) : s.pc t = .idle → s.destroyed = false → (∀ u, s.pc u ≠ .xLoad) → Step c s (callReserve c s t n)
  | range (s : State) (t b e : Nat) : s.pc t = .idle → s.destroyed = false → (∀ u, s.pc u ≠ .xLoad) → b ≤ e → Step c s (callRange c s t b e)
  | snap (s : State) (t : Nat) (k : SKont) : s.pc t = .idle → s.destroyed = false → (∀ u, s.pc u ≠ .xLoad) → Step c s (callSnap s t k)
  | gc (s : State) (t : Nat) : s.pc t = .idle → s.destroyed = false → (∀ u, s.pc u ≠ .xLoad) → Step c s (callGc s t)
  | destroy (s : State) (t : Nat) : (∀ u, s.pc u = .idle) → s.destroyed = false → Step c s (callDestroy s t)
  | tick (s : State) (d : Nat) : Step c s (tick s d)

/-- skeletons this model was written against (compared with the generated ones in Properties/C04) -/
def Skel.retire (reread : Bool) : List Site :=
  [ .load "_head" .acq,
    .call "get_current_timestamp",
    .call "expire",
    .cas "_head" true .acqrel .acq,
    .call "delete_list" ] ++
  (if reread then [.call "get_current_timestamp"] else []) ++
  [ .cas "_head" false .acqrel .acq ]
def Skel.gc : List Site := [
  .load "_head" .acq,
  .call "get_current_timestamp",
  .call "expire",
  .cas "_head" true .acqrel .acq,
  .call "delete_list"]
def Skel.unsafe_gc : List Site := [ .xchg "_head" .rlx, .call "delete_list" ]
def Skel.retire_dtor : List Site := [ .load "delete_list(_head" .rlx, .call "delete_list" ]
def Skel.get_qualified : List Site := [ .load "_block_table" .acq, .call "get_qualified_block_table_slow" ]
def Skel.slow : List Site := [
  .call "create_block_table",
  .call "__builtin_memcpy",
  .call "create_block",
  .cas "_block_table" true .acqrel .acq,
  .call "_retire_list.retire",
  .call "delete_block",
  .call "delete_block_table"]
def Skel.snapshot : List Site := [ .load "_block_table" .acq ]
def Skel.dtor : List Site := [
  .load "_block_table" .rlx,
  .call "delete_block",
  .call "delete_block_table",
  .call "_retire_list.unsafe_gc"]
def Skel.create_block : List Site := [ .call "operator new", .call "_constructor", .call "__builtin_memset" ]
def Skel.delete_block : List Site := [ .call "~T", .call "operator delete" ]

end Babylon.CVec
