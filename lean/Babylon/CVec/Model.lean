/-
  Model of `ConcurrentVector<T, BLOCK_SIZE>` and its `RetireList`
  (src/babylon/concurrent/vector.h, vector.hpp).

  * `Index`   — pure index arithmetic: `set_block_size`, `block_index`, `block_offset`, the block
    counts asked for by `ensure` / `reserve` / `reserved_snapshot`, the segment walk of `for_each`.
  * `State` / `stepThread` — transition system.  One step = one shared action of the real code
    (an atomic operation on `_block_table` or on `RetireList::_head`, or a `clock_gettime`)
    *followed by the thread-local work up to the next shared action* (operator new / delete of
    blocks and tables, element construction / destruction, walking a detached retire list).  The
    step returns the labels of everything VRT observes for it, in order, so the same function
    serves the theorems (any interleaving = any sequence of `Step`s) and the lock-step replay of
    real executions (`Drivers/C04.lean`).

  Ids.  Aligned allocations (tables and blocks) are numbered 1, 2, … in allocation order
  (`nalloc`); table id 0 is `EMPTY_BLOCK_TABLE`.  The retire-list node that carries table `x` is
  `x + 1` (0 = null); node addresses are never reused in the model (see Residual in Properties/C04).
  Time.  `now` is the virtual clock in ns; a clock read yields any value `≥ now`; the stamp of a
  clock value is `unitOf c = c / 10^9 / 2^tsShift` truncated to `stampBits` bits.  The state keeps
  the *untruncated* stamp of the head word (`hts`) as a ghost; labels and all decisions of the code
  use `hts % 2^16`.  Ghost fields (`pub`, `supAt`, `freedT`, `ctorN`, `dtorN`, `freeN`, `tfreeN`, `rl`,
  `pushed`, `stampOf`, `stale`) never influence a label or a non-ghost field.
  Core Lean only.
-/
import Babylon.Gen.CVec
import Babylon.Core.Trace

namespace Babylon.CVec
open Babylon.Core Babylon.Gen.CVec

/-! ## Index arithmetic -/

/-- `DynamicMeta::set_block_size`: `block_mask_bits` = number of doublings of 1 needed to reach the
hint (`while (block_size < hint) block_size <<= 1`); `fuel` bounds the loop (32 suffices below 2^31). -/
def setBits (hint : Nat) : Nat :=
  let rec go (fuel bits size : Nat) : Nat :=
    match fuel with
    | 0 => bits
    | fuel + 1 => if size < hint then go fuel (bits + 1) (size * 2) else bits
  go 32 0 1

structure Cfg where
  bits : Nat                     -- `block_mask_bits()`
  reread : Bool := retireRereads -- retire takes a fresh stamp for every CAS attempt of its retry loop
  esz : Nat := 8                 -- sizeof(T) of the harness element type (allocation sizes only)
  deriving DecidableEq, Repr

def Cfg.bs (c : Cfg) : Nat := 2 ^ c.bits                      -- `block_size()`
def Cfg.mask (c : Cfg) : Nat := 2 ^ c.bits - 1                -- `block_mask()`
/-- `block_index`: `index >> bits`, returned as `uint32_t` -/
def blockIndex (c : Cfg) (i : Nat) : Nat := (i >>> c.bits) % 2 ^ indexBits
/-- `block_offset`: `index & mask` -/
def blockOffset (c : Cfg) (i : Nat) : Nat := i &&& c.mask
def needEnsure (c : Cfg) (i : Nat) : Nat := blockIndex c i + 1
def needReserve (c : Cfg) (n : Nat) : Nat := blockIndex c (n + c.mask)

/-- element `i` through a table with blocks `bl`: `blocks[block_index(i)][block_offset(i)]` -/
def elemAt (c : Cfg) (bl : List Nat) (i : Nat) : Option (Nat × Nat) :=
  (bl[blockIndex c i]?).map (fun b => (b, blockOffset c i))

/-- `Snapshot::for_each(begin, end, cb)`: `(block, offset, length)` of every callback, in order -/
def forEachSegs (c : Cfg) (bl : List Nat) (b e : Nat) : List (Nat × Nat × Nat) :=
  let ebi := blockIndex c e
  let ebo := blockOffset c e
  let rec loop (fuel bi bo : Nat) : List (Nat × Nat × Nat) :=
    match fuel with
    | 0 => if bo ≠ ebo then [(bl.getD bi 0, bo, ebo - bo)] else []
    | fuel + 1 => (bl.getD bi 0, bo, c.bs - bo) :: loop fuel (bi + 1) 0
  loop (ebi - blockIndex c b) (blockIndex c b) (blockOffset c b)

def alignUp (n a : Nat) : Nat := (n + a - 1) / a * a
/-- `calculate_block_table_allocation_size(num)` -/
def tableBytes (num : Nat) : Nat := alignUp (sizeofBlockTable + ptrSize * num) cacheline
/-- `calculate_block_allocation_size()` -/
def blockBytes (c : Cfg) : Nat := alignUp (c.esz * c.bs) cacheline

/-! ## Time stamps -/

def nsPerSec : Nat := 1000000000
/-- `spec.tv_sec >> tsShift`, untruncated -/
def unitOf (ns : Nat) : Nat := ns / nsPerSec / 2 ^ tsShift
/-- ns in one stamp unit (64 s) -/
def unitNs : Nat := nsPerSec * 2 ^ tsShift
def stampMod : Nat := 2 ^ stampBits
/-- `expire(head, current_timestamp)`: `uint16_t(current - stamp(head)) > expireAfter` on truncated stamps -/
def expired (h c : Nat) : Bool := decide (((c % stampMod) + stampMod - (h % stampMod)) % stampMod > expireAfter)
/-- `make_head(node, timestamp)` -/
def headWord (ts node : Nat) : Nat := (ts % stampMod) * 2 ^ makeHeadShift + node

/-! ## Transition system -/

inductive Kont
  | ensure (i : Nat)          -- `ensure(i)`: return `blocks[block_index(i)][block_offset(i)]`
  | reserve                   -- `reserve(n)`
  | range (b e : Nat)         -- `for_each / fill_n / copy_n` through `reserved_snapshot(e)`
  deriving DecidableEq, Repr, Inhabited

inductive SKont
  | snap | get (i : Nat)
  deriving DecidableEq, Repr, Inhabited

inductive Res
  | none
  | elem (i b off : Nat)
  | table (T : Nat)
  | segs (l : List (Nat × Nat × Nat))
  | unit
  deriving DecidableEq, Repr, Inhabited

inductive Pc
  | idle
  | gq (need : Nat) (k : Kont)                          -- `_block_table.load(acquire)` (+ slow-path preparation)
  | casT (nt old need : Nat) (made : List Nat) (k : Kont)   -- `_block_table.compare_exchange_strong(old, nt)`
  | rLoad (x nt : Nat) (k : Kont)                       -- retire(x): `_head.load(acquire)`
  | rClock (x lts ln nt : Nat) (k : Kont)               -- `get_current_timestamp()`
  | rCasX (x lts ln c nt : Nat) (k : Kont)              -- expire branch: `compare_exchange_strong(head, new_head)`
  | rClock2 (x lts ln nt : Nat) (k : Kont)              -- (only when `reread`) stamp for this attempt
  | rCasW (x lts ln c nt : Nat) (k : Kont)              -- `compare_exchange_weak(head, new_head)`
  | gLoad                                               -- gc(): `_head.load(acquire)`
  | gClock (lts ln : Nat)
  | gCas (lts ln c : Nat)                               -- `compare_exchange_strong(head, 0)`
  | sLoad (k : SKont)                                   -- snapshot(): `_block_table.load(acquire)`
  | xLoad                                               -- ~ConcurrentVector: `_block_table.load(relaxed)` + deletes
  | xXchg                                               -- unsafe_gc(): `_head.exchange(0, relaxed)`
  | xLoad2                                              -- ~RetireList: `_head.load(relaxed)`
  deriving DecidableEq, Repr, Inhabited

structure State where
  cur : Nat                        -- `_block_table`
  tbl : Nat → List Nat             -- blocks of a table (written when the table is published)
  nalloc : Nat                     -- aligned allocations so far
  hts : Nat                        -- head stamp (ghost: untruncated)
  hnode : Nat                      -- head node
  next : Nat → Nat                 -- `node->next` of published nodes
  now : Nat
  pc : Nat → Pc
  result : Nat → Res
  snap : Nat → Option Nat          -- table held by the thread's snapshot
  -- ghost
  pub : Nat → Bool                 -- the table has been the value of `_block_table`
  supAt : Nat → Option Nat         -- time of the CAS that superseded the table
  freedT : Nat → Option (Option Nat)   -- freed table: `some (some c)` by retire/gc that observed clock `c`, `some none` otherwise
  ctorN : Nat → Nat                -- per block: times its elements were constructed
  dtorN : Nat → Nat
  freeN : Nat → Nat                -- per block: times passed to operator delete
  tfreeN : Nat → Nat               -- per table: times passed to delete_block_table
  rl : List Nat                    -- tables linked in the retire list, head first
  pushed : Nat → Bool              -- the node of this table has been linked into the retire list
  stampOf : Nat → Nat              -- untruncated stamp a node was pushed with
  stale : Bool                     -- some push installed a stamp older than the one it replaced
  destroyed : Bool

def upd {α : Type} (f : Nat → α) (i : Nat) (v : α) : Nat → α := fun j => if j = i then v else f j

def State.init (now : Nat) : State :=
  { cur := 0, tbl := fun _ => [], nalloc := 0, hts := 0, hnode := 0, next := fun _ => 0, now := now,
    pc := fun _ => .idle, result := fun _ => .none, snap := fun _ => none,
    pub := fun T => T == 0, supAt := fun _ => none, freedT := fun _ => none,
    ctorN := fun _ => 0, dtorN := fun _ => 0, freeN := fun _ => 0, tfreeN := fun _ => 0, rl := [],
    pushed := fun _ => false, stampOf := fun _ => 0, stale := false, destroyed := false }

/-- inputs of a step that the model does not determine -/
structure Inp where
  spurious : Bool := false      -- a weak CAS that would succeed fails instead
  clock : Nat := 0              -- value returned by `clock_gettime` (ns)
  deriving Repr

def evNew (id size : Nat) : Act := .ev ["new", toString id, toString size]
def evDel (id size : Nat) : Act := .ev ["del", toString id, toString size]
def evCtor (c : Cfg) (id : Nat) : Act := .ev ["ctor", toString id, toString c.bs]
def evDtor (c : Cfg) (id : Nat) : Act := .ev ["dtor", toString id, toString c.bs]
def evClock (v : Nat) : Act := .ev ["clock", toString v]

/-! #### thread-local work: what it does to the state, and what VRT shows of it -/

/-- ids of the next `n` allocations -/
def madeIds (s : State) (n : Nat) : List Nat := List.range' (s.nalloc + 1) n

/-- `create_block()` × n: n fresh allocations, the elements of each constructed once -/
def created (s : State) (n : Nat) : State :=
  { s with nalloc := s.nalloc + n, ctorN := fun b => if b ∈ madeIds s n then s.ctorN b + 1 else s.ctorN b }
def createLabels (c : Cfg) (l : List Nat) : List Act := l.flatMap (fun b => [evNew b (blockBytes c), evCtor c b])

/-- `delete_block(b)` for each block of the list: elements destroyed, memory freed -/
def deleted (s : State) (l : List Nat) : State :=
  { s with dtorN := fun b => s.dtorN b + l.count b, freeN := fun b => s.freeN b + l.count b }
def deleteLabels (c : Cfg) (l : List Nat) : List Act := l.flatMap (fun b => [evDtor c b, evDel b (blockBytes c)])

/-- `delete_block_table(T)` for each table of the list (nothing for `EMPTY_BLOCK_TABLE` = 0) -/
def freedTables (s : State) (l : List Nat) (by_ : Option Nat) : State :=
  { s with tfreeN := fun T => s.tfreeN T + (l.filter (· ≠ 0)).count T,
           freedT := fun T => if T ≠ 0 ∧ T ∈ l then some by_ else s.freedT T }
def freeLabels (s : State) (l : List Nat) : List Act :=
  (l.filter (· ≠ 0)).map (fun T => evDel T (tableBytes (s.tbl T).length))

/-- items of the list starting at node `n`, following `next` (at most `fuel` nodes) -/
def walk (next : Nat → Nat) : Nat → Nat → List Nat
  | 0, _ => []
  | fuel + 1, n => if n = 0 then [] else (n - 1) :: walk next fuel (next n)

/-- the tables `delete_list(head)` frees, in order: `D()(node->data); delete node` along the list -/
def listItems (s : State) (n : Nat) : List Nat := walk s.next (s.nalloc + 2) n

def resOf (c : Cfg) (bl : List Nat) : Kont → Res
  | .ensure i => match elemAt c bl i with | some (b, o) => .elem i b o | none => .none
  | .reserve => .unit
  | .range b e => .segs (forEachSegs c bl b e)

/-- the continuation of `get_qualified_block_table` once table `T` qualifies -/
def finish (c : Cfg) (s : State) (t : Nat) (k : Kont) (T : Nat) : State :=
  { s with pc := upd s.pc t .idle, result := upd s.result t (resOf c (s.tbl T) k) }

def finishS (c : Cfg) (s : State) (t : Nat) (k : SKont) (T : Nat) : State :=
  match k with
  | .snap => { s with pc := upd s.pc t .idle, snap := upd s.snap t (some T), result := upd s.result t (.table T) }
  | .get i => { s with pc := upd s.pc t .idle, result := upd s.result t (resOf c (s.tbl T) (.ensure i)) }

def headMatches (s : State) (lts ln : Nat) : Bool := s.hnode == ln && s.hts % stampMod == lts % stampMod

/-! #### the state after each kind of step -/

/-- slow path up to the CAS: `create_block_table(need)` (id `nalloc + 1`), copy, create the missing blocks -/
def gqSlow (s : State) (t need : Nat) (k : Kont) : State :=
  let nt := s.nalloc + 1
  let s1 := { s with nalloc := nt }
  let n := need - (s.tbl s.cur).length
  { created s1 n with pc := upd s.pc t (.casT nt s.cur need (madeIds s1 n) k) }

/-- successful `_block_table.compare_exchange_strong(old, nt)`: `nt` = blocks of `old` + own blocks -/
def casWin (s : State) (t nt old : Nat) (made : List Nat) (k : Kont) : State :=
  { s with cur := nt, tbl := upd s.tbl nt (s.tbl old ++ made), pub := upd s.pub nt true,
           supAt := upd s.supAt old (some s.now), pc := upd s.pc t (.rLoad old nt k) }

/-- failed CAS, the winner's table is large enough: delete own blocks and the speculative table -/
def casLoseDone (c : Cfg) (s : State) (t nt : Nat) (made : List Nat) (k : Kont) : State :=
  finish c (freedTables (deleted s made) [nt] none) t k s.cur

/-- failed CAS, still too small: delete own blocks, copy the winner's table, create blocks again -/
def casLoseRetry (s : State) (t nt need : Nat) (made : List Nat) (k : Kont) : State :=
  let s1 := deleted s made
  let n := need - (s.tbl s.cur).length
  { created s1 n with pc := upd s.pc t (.casT nt s.cur need (madeIds s1 n) k) }

/-- retire's successful CAS in the expire branch: the new node replaces the whole list, which is freed -/
def rCasXWin (c : Cfg) (s : State) (t x ln v nt : Nat) (k : Kont) : State :=
  let s1 := { s with hts := unitOf v, hnode := x + 1, next := upd s.next (x + 1) 0, pushed := upd s.pushed x true,
                     stampOf := upd s.stampOf (x + 1) (unitOf v), rl := [x] }
  finish c (freedTables s1 (listItems s1 ln) (some v)) t k nt

/-- retire's successful CAS in the retry loop: the new node is linked in front of the observed head -/
def rCasWWin (c : Cfg) (s : State) (t x ln v nt : Nat) (k : Kont) : State :=
  finish c { s with hts := unitOf v, hnode := x + 1, next := upd s.next (x + 1) ln, pushed := upd s.pushed x true,
                    stampOf := upd s.stampOf (x + 1) (unitOf v), rl := x :: s.rl,
                    stale := s.stale || (s.hnode != 0 && decide (unitOf v < s.hts)) } t k nt

/-- after a failed CAS on the head: `head` now holds the observed value; next attempt -/
def rRetry (c : Cfg) (s : State) (t x v nt : Nat) (k : Kont) : State :=
  { s with pc := upd s.pc t (if c.reread then Pc.rClock2 x s.hts s.hnode nt k else .rCasW x s.hts s.hnode v nt k) }

def gCasWin (s : State) (t ln v : Nat) : State :=
  let s1 := { s with hts := 0, hnode := 0, rl := [] }
  let s2 := freedTables s1 (listItems s1 ln) (some v)
  { s2 with pc := upd s.pc t .idle, result := upd s.result t .unit }

def retUnit (s : State) (t : Nat) : State := { s with pc := upd s.pc t .idle, result := upd s.result t .unit }

/-- `~ConcurrentVector` up to `unsafe_gc`: delete every block of the current table, then the table -/
def xLoadSt (s : State) (t : Nat) : State :=
  { freedTables (deleted s (s.tbl s.cur)) [s.cur] none with pc := upd s.pc t .xXchg, destroyed := true }

def xXchgSt (s : State) (t : Nat) : State :=
  let s1 := { s with hts := 0, hnode := 0, rl := [] }
  { freedTables s1 (listItems s1 s.hnode) none with pc := upd s.pc t .xLoad2 }

def xLoad2St (s : State) (t : Nat) : State :=
  { freedTables s (listItems s s.hnode) none with pc := upd s.pc t .idle, result := upd s.result t .unit }

/-- The next step of thread `t`: new state and the labels VRT shows for it. -/
def stepThread (c : Cfg) (s : State) (t : Nat) (inp : Inp) : Option (State × List Act) :=
  match s.pc t with
  | .idle => none
  | .gq need k =>
    let l := Act.ld "tbl" 0 .acq s.cur
    if (s.tbl s.cur).length ≥ need then some (finish c s t k s.cur, [l])
    else
      some (gqSlow s t need k,
            l :: evNew (s.nalloc + 1) (tableBytes need) ::
              createLabels c (madeIds { s with nalloc := s.nalloc + 1 } (need - (s.tbl s.cur).length)))
  | .casT nt old need made k =>
    if s.cur = old then
      some (casWin s t nt old made k, [.cas "tbl" 0 false .acqrel .acq old nt true s.cur])
    else
      let l := Act.cas "tbl" 0 false .acqrel .acq old nt false s.cur
      if (s.tbl s.cur).length ≥ need then
        -- the speculative table's `size` field is `need`
        some (casLoseDone c s t nt made k, l :: deleteLabels c made ++ [evDel nt (tableBytes need)])
      else
        some (casLoseRetry s t nt need made k,
              l :: deleteLabels c made ++ createLabels c (madeIds s (need - (s.tbl s.cur).length)))
  | .rLoad x nt k =>
    some ({ s with pc := upd s.pc t (.rClock x s.hts s.hnode nt k) }, [.ld "head" 0 .acq (headWord s.hts s.hnode)])
  | .rClock x lts ln nt k =>
    if inp.clock < s.now then none else
    let v := inp.clock
    let nxt := if expired lts (unitOf v) then Pc.rCasX x lts ln v nt k
               else if c.reread then .rClock2 x lts ln nt k else .rCasW x lts ln v nt k
    some ({ s with now := v, pc := upd s.pc t nxt }, [evClock v])
  | .rCasX x lts ln v nt k =>
    let exp := headWord lts ln
    let des := headWord (unitOf v) (x + 1)
    let obs := headWord s.hts s.hnode
    if headMatches s lts ln then
      -- node->next = nullptr; the replaced list is deleted
      some (rCasXWin c s t x ln v nt k,
            .cas "head" 0 false .acqrel .acq exp des true obs ::
              freeLabels s (listItems { s with next := upd s.next (x + 1) 0 } ln))
    else
      some (rRetry c s t x v nt k, [.cas "head" 0 false .acqrel .acq exp des false obs])
  | .rClock2 x lts ln nt k =>
    if inp.clock < s.now then none else
    some ({ s with now := inp.clock, pc := upd s.pc t (.rCasW x lts ln inp.clock nt k) }, [evClock inp.clock])
  | .rCasW x lts ln v nt k =>
    let exp := headWord lts ln
    let des := headWord (unitOf v) (x + 1)
    let obs := headWord s.hts s.hnode
    if headMatches s lts ln ∧ ¬ inp.spurious then
      some (rCasWWin c s t x ln v nt k, [.cas "head" 0 true .acqrel .acq exp des true obs])
    else
      some (rRetry c s t x v nt k, [.cas "head" 0 true .acqrel .acq exp des false obs])
  | .gLoad =>
    some ({ s with pc := upd s.pc t (.gClock s.hts s.hnode) }, [.ld "head" 0 .acq (headWord s.hts s.hnode)])
  | .gClock lts ln =>
    if inp.clock < s.now then none else
    let v := inp.clock
    if expired lts (unitOf v) then some ({ s with now := v, pc := upd s.pc t (.gCas lts ln v) }, [evClock v])
    else some (retUnit { s with now := v } t, [evClock v])
  | .gCas lts ln v =>
    let exp := headWord lts ln
    let obs := headWord s.hts s.hnode
    if headMatches s lts ln then
      some (gCasWin s t ln v, .cas "head" 0 false .acqrel .acq exp 0 true obs :: freeLabels s (listItems s ln))
    else
      some (retUnit s t, [.cas "head" 0 false .acqrel .acq exp 0 false obs])
  | .sLoad k => some (finishS c s t k s.cur, [.ld "tbl" 0 .acq s.cur])
  | .xLoad =>
    some (xLoadSt s t, .ld "tbl" 0 .rlx s.cur :: deleteLabels c (s.tbl s.cur) ++ freeLabels s [s.cur])
  | .xXchg =>
    some (xXchgSt s t, .xchg "head" 0 .rlx (headWord s.hts s.hnode) 0 :: freeLabels s (listItems s s.hnode))
  | .xLoad2 =>
    some (xLoad2St s t, .ld "head" 0 .rlx (headWord s.hts s.hnode) :: freeLabels s (listItems s s.hnode))

/-! ### calls (client contract) -/

def callEnsure (c : Cfg) (s : State) (t i : Nat) : State := { s with pc := upd s.pc t (.gq (needEnsure c i) (.ensure i)) }
def callReserve (c : Cfg) (s : State) (t n : Nat) : State := { s with pc := upd s.pc t (.gq (needReserve c n) .reserve) }
def callRange (c : Cfg) (s : State) (t b e : Nat) : State := { s with pc := upd s.pc t (.gq (needReserve c e) (.range b e)) }
def callSnap (s : State) (t : Nat) (k : SKont) : State := { s with pc := upd s.pc t (.sLoad k) }
def callGc (s : State) (t : Nat) : State := { s with pc := upd s.pc t .gLoad }
def callDestroy (s : State) (t : Nat) : State := { s with pc := upd s.pc t .xLoad }
def tick (s : State) (d : Nat) : State := { s with now := s.now + d }

/-- Any thread performs its next step, an idle thread starts a call, or time passes.  The
destructor runs only when no call is in progress and nothing is called afterwards. -/
inductive Step (c : Cfg) : State → State → Prop
  | act (s : State) (t : Nat) (inp : Inp) (s' : State) (ls : List Act) :
      stepThread c s t inp = some (s', ls) → Step c s s'
  | ensure (s : State) (t i : Nat) : s.pc t = .idle → s.destroyed = false → (∀ u, s.pc u ≠ .xLoad) → Step c s (callEnsure c s t i)
  | reserve (s : State) (t n : Nat) : s.pc t = .idle → s.destroyed = false → (∀ u, s.pc u ≠ .xLoad) → Step c s (callReserve c s t n)
  | range (s : State) (t b e : Nat) : s.pc t = .idle → s.destroyed = false → (∀ u, s.pc u ≠ .xLoad) → b ≤ e → Step c s (callRange c s t b e)
  | snap (s : State) (t : Nat) (k : SKont) : s.pc t = .idle → s.destroyed = false → (∀ u, s.pc u ≠ .xLoad) → Step c s (callSnap s t k)
  | gc (s : State) (t : Nat) : s.pc t = .idle → s.destroyed = false → (∀ u, s.pc u ≠ .xLoad) → Step c s (callGc s t)
  | destroy (s : State) (t : Nat) : (∀ u, s.pc u = .idle) → s.destroyed = false → Step c s (callDestroy s t)
  | tick (s : State) (d : Nat) : Step c s (tick s d)

/-- skeletons this model was written against (compared with the generated ones in Properties/C04) -/
def Skel.retire (reread : Bool) : List Site :=
  [ .load "_head" .acq,
    .call "get_current_timestamp",
    .call "expire",
    .cas "_head" true .acqrel .acq,
    .call "delete_list" ] ++
  (if reread then [.call "get_current_timestamp"] else []) ++
  [ .cas "_head" false .acqrel .acq ]
def Skel.gc : List Site := [
  .load "_head" .acq,
  .call "get_current_timestamp",
  .call "expire",
  .cas "_head" true .acqrel .acq,
  .call "delete_list"]
def Skel.unsafe_gc : List Site := [ .xchg "_head" .rlx, .call "delete_list" ]
def Skel.retire_dtor : List Site := [ .load "delete_list(_head" .rlx, .call "delete_list" ]
def Skel.get_qualified : List Site := [ .load "_block_table" .acq, .call "get_qualified_block_table_slow" ]
def Skel.slow : List Site := [
  .call "create_block_table",
  .call "__builtin_memcpy",
  .call "create_block",
  .cas "_block_table" true .acqrel .acq,
  .call "_retire_list.retire",
  .call "delete_block",
  .call "delete_block_table"]
def Skel.snapshot : List Site := [ .load "_block_table" .acq ]
def Skel.dtor : List Site := [
  .load "_block_table" .rlx,
  .call "delete_block",
  .call "delete_block_table",
  .call "_retire_list.unsafe_gc"]
def Skel.create_block : List Site := [ .call "operator new", .call "_constructor", .call "__builtin_memset" ]
def Skel.delete_block : List Site := [ .call "~T", .call "operator delete" ]

end Babylon.CVec
