/-
  Arithmetic core of the time-based retire list: soundness of the truncated 16-bit expiry test
  against untruncated stamps, and what a distance of two stamp units means in seconds.
-/
import Babylon.CVec.Model

namespace Babylon.CVec
open Babylon.Gen.CVec

theorem stampMod_eq : stampMod = 65536 := rfl
theorem unitNs_eq : unitNs = 64000000000 := rfl
theorem unitOf_eq (ns : Nat) : unitOf ns = ns / 64000000000 := by
  simp only [unitOf, nsPerSec, tsShift]
  rw [Nat.div_div_eq_div_mul]

/-- `expire_sound`: the code compares stamps truncated to 16 bits; if the head stamp `h` was taken no
later than the current stamp `c` (true, untruncated units) and the truncated test
`uint16_t(c - h) > 1` fires, then really `c ≥ h + 2`, however often the 16-bit stamp has wrapped. -/
theorem expired_sound (h c : Nat) (hle : h ≤ c) (he : expired h c = true) : h + expireAfter + 1 ≤ c := by
  have hA : expireAfter = 1 := rfl
  simp only [expired, stampMod_eq, hA, decide_eq_true_eq] at he
  omega

/-- the only price of the truncation: a list idle for a multiple of 2^16 units (± 1) is not recognised as
expired ("漏报" in the source comment) — never the other way round -/
theorem expired_of_gap (h c : Nat) (h2 : h + 2 ≤ c) (hw : (c - h) % 65536 > 1) : expired h c = true := by
  have hA : expireAfter = 1 := rfl
  simp only [expired, stampMod_eq, hA, decide_eq_true_eq]
  omega

theorem not_expired_of_close (h c : Nat) (hle : h ≤ c) (h2 : c ≤ h + 1) : expired h c = false := by
  have hA : expireAfter = 1 := rfl
  simp only [expired, stampMod_eq, hA, decide_eq_false_iff_not]
  omega

/-- two stamp units apart means more than 64 s apart -/
theorem unit_gap (g c : Nat) (h : unitOf g + 2 ≤ unitOf c) : g + unitNs < c := by
  rw [unitOf_eq, unitOf_eq] at h
  rw [unitNs_eq]
  omega

theorem unitOf_mono {a b : Nat} (h : a ≤ b) : unitOf a ≤ unitOf b := by
  rw [unitOf_eq, unitOf_eq]; exact Nat.div_le_div_right h

end Babylon.CVec
