/-
  Table side of ConcurrentVector: every table ever installed in `_block_table` is a prefix of the
  current one (so an index designates the same (block, offset) through every table / snapshot that
  covers it), and the table a thread is preparing stays private until its CAS.
-/
import Babylon.CVec.Model

namespace Babylon.CVec
open Babylon.Core

@[simp] theorem upd_same {α : Type} (f : Nat → α) (i : Nat) (v : α) : upd f i v i = v := by simp [upd]
theorem upd_other {α : Type} (f : Nat → α) {i j : Nat} (v : α) (h : j ≠ i) : upd f i v j = f j := by simp [upd, h]

/-- the table a thread is about to publish and the blocks it created for it -/
def Pc.spec : Pc → Option (Nat × List Nat)
  | .casT nt _ _ made _ => some (nt, made)
  | _ => none

structure InvA (s : State) : Prop where
  pub0 : s.pub 0 = true
  pubCur : s.pub s.cur = true
  pubLe : ∀ T, s.pub T = true → T ≤ s.nalloc
  pre : ∀ T, s.pub T = true → s.tbl T <+: s.tbl s.cur
  supCur : s.supAt s.cur = none
  supPub : ∀ T g, s.supAt T = some g → s.pub T = true
  supNow : ∀ T g, s.supAt T = some g → g ≤ s.now
  specLe : ∀ t nt made, (s.pc t).spec = some (nt, made) → nt ≤ s.nalloc
  specUnpub : ∀ t nt made, (s.pc t).spec = some (nt, made) → s.pub nt = false
  specDistinct : ∀ t u nt made nt' made', t ≠ u → (s.pc t).spec = some (nt, made) →
      (s.pc u).spec = some (nt', made') → nt ≠ nt'

theorem InvA.init (now : Nat) : InvA (State.init now) := by
  constructor <;> simp [State.init, Pc.spec]

/-- steps that leave the table fields alone and do not create a speculative table -/
theorem InvA.frame {s s' : State} (h : InvA s)
    (hcur : s'.cur = s.cur) (htbl : s'.tbl = s.tbl) (hn : s.nalloc ≤ s'.nalloc) (hpub : s'.pub = s.pub)
    (hsup : s'.supAt = s.supAt) (hnow : s.now ≤ s'.now)
    (hspec : ∀ u, (s'.pc u).spec = (s.pc u).spec ∨ (s'.pc u).spec = none) : InvA s' := by
  constructor
  · rw [hpub]; exact h.pub0
  · rw [hpub, hcur]; exact h.pubCur
  · intro T hT; rw [hpub] at hT; exact Nat.le_trans (h.pubLe T hT) hn
  · intro T hT; rw [hpub] at hT; rw [htbl, hcur]; exact h.pre T hT
  · rw [hsup, hcur]; exact h.supCur
  · intro T g hg; rw [hsup] at hg; rw [hpub]; exact h.supPub T g hg
  · intro T g hg; rw [hsup] at hg; exact Nat.le_trans (h.supNow T g hg) hnow
  · intro t nt made hs
    rcases hspec t with he | he
    · rw [he] at hs; exact Nat.le_trans (h.specLe t nt made hs) hn
    · rw [he] at hs; cases hs
  · intro t nt made hs
    rcases hspec t with he | he
    · rw [he] at hs; rw [hpub]; exact h.specUnpub t nt made hs
    · rw [he] at hs; cases hs
  · intro t u nt made nt' made' htu hs hs'
    rcases hspec t with he | he
    · rcases hspec u with he' | he'
      · rw [he] at hs; rw [he'] at hs'; exact h.specDistinct t u nt made nt' made' htu hs hs'
      · rw [he'] at hs'; cases hs'
    · rw [he] at hs; cases hs

/-- `pc t := p` with `p` not a `casT` -/
theorem spec_upd_none (s : State) (t : Nat) (p : Pc) (hp : p.spec = none) (u : Nat) :
    ((upd s.pc t p) u).spec = (s.pc u).spec ∨ ((upd s.pc t p) u).spec = none := by
  by_cases hu : u = t
  · subst hu; right; simp [hp]
  · left; rw [upd_other _ _ hu]

/-- a new speculative table `nt = nalloc + 1` (slow path entered, or a loser starting over with the
table it already owns) -/
theorem InvA.newSpec {s s' : State} (h : InvA s) (t nt : Nat) (made : List Nat) (p : Pc)
    (hp : p.spec = some (nt, made))
    (hown : nt = s.nalloc + 1 ∨ ∃ m, (s.pc t).spec = some (nt, m))
    (hcur : s'.cur = s.cur) (htbl : s'.tbl = s.tbl) (hn : s.nalloc ≤ s'.nalloc) (hnt : nt ≤ s'.nalloc)
    (hpub : s'.pub = s.pub) (hsup : s'.supAt = s.supAt) (hnow : s.now ≤ s'.now)
    (hpc : s'.pc = upd s.pc t p) : InvA s' := by
  have hunpub : s.pub nt = false := by
    rcases hown with rfl | ⟨m, hm⟩
    · cases hq : s.pub (s.nalloc + 1) with
      | false => rfl
      | true => have := h.pubLe _ hq; omega
    · exact h.specUnpub t nt m hm
  have hother : ∀ u nt' made', u ≠ t → (s.pc u).spec = some (nt', made') → nt ≠ nt' := by
    intro u nt' made' hu hs
    rcases hown with rfl | ⟨m, hm⟩
    · have := h.specLe u nt' made' hs; omega
    · exact h.specDistinct t u nt m nt' made' (Ne.symm hu) hm hs
  constructor
  · rw [hpub]; exact h.pub0
  · rw [hpub, hcur]; exact h.pubCur
  · intro T hT; rw [hpub] at hT; exact Nat.le_trans (h.pubLe T hT) hn
  · intro T hT; rw [hpub] at hT; rw [htbl, hcur]; exact h.pre T hT
  · rw [hsup, hcur]; exact h.supCur
  · intro T g hg; rw [hsup] at hg; rw [hpub]; exact h.supPub T g hg
  · intro T g hg; rw [hsup] at hg; exact Nat.le_trans (h.supNow T g hg) hnow
  · intro u nt' made' hs
    rw [hpc] at hs
    by_cases hu : u = t
    · subst hu; simp [hp] at hs; omega
    · rw [upd_other _ _ hu] at hs; exact Nat.le_trans (h.specLe u nt' made' hs) hn
  · intro u nt' made' hs
    rw [hpc] at hs
    rw [hpub]
    by_cases hu : u = t
    · subst hu; simp [hp] at hs; rw [← hs.1]; exact hunpub
    · rw [upd_other _ _ hu] at hs; exact h.specUnpub u nt' made' hs
  · intro u w a ma b mb huw hs hs'
    rw [hpc] at hs hs'
    by_cases hu : u = t
    · subst hu
      have hw : w ≠ u := Ne.symm huw
      rw [upd_other _ _ hw] at hs'
      simp [hp] at hs
      rw [← hs.1]; exact hother w b mb hw hs'
    · rw [upd_other _ _ hu] at hs
      by_cases hw : w = t
      · subst hw
        simp [hp] at hs'
        rw [← hs'.1]; exact Ne.symm (hother u a ma hu hs)
      · rw [upd_other _ _ hw] at hs'
        exact h.specDistinct u w a ma b mb huw hs hs'

/-- the publishing CAS -/
theorem InvA.casWin {s : State} (h : InvA s) (t nt old need : Nat) (made : List Nat) (k : Kont)
    (hpc : s.pc t = .casT nt old need made k) (hcur : s.cur = old) : InvA (casWin s t nt old made k) := by
  have hspec : (s.pc t).spec = some (nt, made) := by rw [hpc]; rfl
  have hunpub := h.specUnpub t nt made hspec
  have hne : nt ≠ s.cur := by intro he; rw [he, h.pubCur] at hunpub; cases hunpub
  subst hcur
  constructor
  · simp only [Babylon.CVec.casWin]
    by_cases h0 : (0 : Nat) = nt
    · subst h0; simp
    · rw [upd_other _ _ h0]; exact h.pub0
  · simp [Babylon.CVec.casWin]
  · intro T hT
    simp only [Babylon.CVec.casWin] at hT ⊢
    by_cases hT' : T = nt
    · subst hT'; exact h.specLe t T made hspec
    · rw [upd_other _ _ hT'] at hT; exact h.pubLe T hT
  · intro T hT
    simp only [Babylon.CVec.casWin] at hT ⊢
    by_cases hT' : T = nt
    · subst hT'; simp
    · rw [upd_other _ _ hT'] at hT
      rw [upd_other _ _ hT', upd_same]
      exact List.IsPrefix.trans (h.pre T hT) (List.prefix_append _ _)
  · simp only [Babylon.CVec.casWin]
    rw [upd_other _ _ hne]
    cases hq : s.supAt nt with
    | none => rfl
    | some g => have := h.supPub nt g hq; rw [hunpub] at this; cases this
  · intro T g hg
    simp only [Babylon.CVec.casWin] at hg ⊢
    by_cases hT : T = s.cur
    · subst hT; rw [upd_other _ _ (Ne.symm hne)]; exact h.pubCur
    · rw [upd_other _ _ hT] at hg
      have := h.supPub T g hg
      by_cases hT' : T = nt
      · subst hT'; simp
      · rw [upd_other _ _ hT']; exact this
  · intro T g hg
    simp only [Babylon.CVec.casWin] at hg ⊢
    by_cases hT : T = s.cur
    · subst hT; simp at hg; omega
    · rw [upd_other _ _ hT] at hg; exact h.supNow T g hg
  · intro u a ma hs
    simp only [Babylon.CVec.casWin] at hs ⊢
    by_cases hu : u = t
    · subst hu; simp [Pc.spec] at hs
    · rw [upd_other _ _ hu] at hs; exact h.specLe u a ma hs
  · intro u a ma hs
    simp only [Babylon.CVec.casWin] at hs ⊢
    by_cases hu : u = t
    · subst hu; simp [Pc.spec] at hs
    · rw [upd_other _ _ hu] at hs
      have hd := h.specDistinct u t a ma nt made hu hs hspec
      rw [upd_other _ _ hd]; exact h.specUnpub u a ma hs
  · intro u w a ma b mb huw hs hs'
    simp only [Babylon.CVec.casWin] at hs hs'
    by_cases hu : u = t
    · subst hu; simp [Pc.spec] at hs
    · by_cases hw : w = t
      · subst hw; simp [Pc.spec] at hs'
      · rw [upd_other _ _ hu] at hs; rw [upd_other _ _ hw] at hs'
        exact h.specDistinct u w a ma b mb huw hs hs'


theorem createdNalloc (s : State) (n : Nat) : (created s n).nalloc = s.nalloc + n := rfl

theorem InvA.step {c : Cfg} {s s' : State} (h : InvA s) (hs : Step c s s') : InvA s' := by
  cases hs
  case act t inp ls hst =>
    unfold stepThread at hst
    split at hst
    · cases hst
    · -- gq
      rename_i need k hpc
      split at hst
      all_goals (simp only [Option.some.injEq, Prod.mk.injEq] at hst; obtain ⟨rfl, -⟩ := hst)
      · exact h.frame rfl rfl (Nat.le_refl _) rfl rfl (Nat.le_refl _) (spec_upd_none _ _ _ rfl)
      · refine h.newSpec t (s.nalloc + 1) _ _ rfl (Or.inl rfl) rfl rfl ?_ ?_ rfl rfl (Nat.le_refl _) rfl
        · simp only [gqSlow, createdNalloc]; omega
        · simp only [gqSlow, createdNalloc]; omega
    · -- casT
      rename_i nt old need made k hpc
      split at hst
      · simp only [Option.some.injEq, Prod.mk.injEq] at hst; obtain ⟨rfl, -⟩ := hst
        rename_i hcur
        exact h.casWin t nt old need made k hpc hcur
      · split at hst
        all_goals (simp only [Option.some.injEq, Prod.mk.injEq] at hst; obtain ⟨rfl, -⟩ := hst)
        · exact h.frame rfl rfl (Nat.le_refl _) rfl rfl (Nat.le_refl _) (spec_upd_none _ _ _ rfl)
        · have hspec : (s.pc t).spec = some (nt, made) := by rw [hpc]; rfl
          refine h.newSpec t nt _ _ rfl (Or.inr ⟨made, hspec⟩) rfl rfl ?_ ?_ rfl rfl (Nat.le_refl _) rfl
          · simp only [casLoseRetry, createdNalloc]; exact Nat.le_add_right _ _
          · simp only [casLoseRetry, createdNalloc]
            exact Nat.le_trans (h.specLe t nt made hspec) (Nat.le_add_right _ _)
    · -- rLoad
      simp only [Option.some.injEq, Prod.mk.injEq] at hst; obtain ⟨rfl, -⟩ := hst
      exact h.frame rfl rfl (Nat.le_refl _) rfl rfl (Nat.le_refl _) (spec_upd_none _ _ _ rfl)
    · -- rClock
      split at hst
      · cases hst
      · rename_i hclk
        simp only [Option.some.injEq, Prod.mk.injEq] at hst; obtain ⟨rfl, -⟩ := hst
        refine h.frame rfl rfl (Nat.le_refl _) rfl rfl (Nat.le_of_not_lt hclk) (spec_upd_none _ _ _ ?_)
        split
        · rfl
        · split <;> rfl
    · -- rCasX
      split at hst
      all_goals (simp only [Option.some.injEq, Prod.mk.injEq] at hst; obtain ⟨rfl, -⟩ := hst)
      · exact h.frame rfl rfl (Nat.le_refl _) rfl rfl (Nat.le_refl _) (spec_upd_none _ _ _ rfl)
      · refine h.frame rfl rfl (Nat.le_refl _) rfl rfl (Nat.le_refl _) (spec_upd_none _ _ _ ?_)
        split <;> rfl
    · -- rClock2
      split at hst
      · cases hst
      · rename_i hclk
        simp only [Option.some.injEq, Prod.mk.injEq] at hst; obtain ⟨rfl, -⟩ := hst
        exact h.frame rfl rfl (Nat.le_refl _) rfl rfl (Nat.le_of_not_lt hclk) (spec_upd_none _ _ _ rfl)
    · -- rCasW
      split at hst
      all_goals (simp only [Option.some.injEq, Prod.mk.injEq] at hst; obtain ⟨rfl, -⟩ := hst)
      · exact h.frame rfl rfl (Nat.le_refl _) rfl rfl (Nat.le_refl _) (spec_upd_none _ _ _ rfl)
      · refine h.frame rfl rfl (Nat.le_refl _) rfl rfl (Nat.le_refl _) (spec_upd_none _ _ _ ?_)
        split <;> rfl
    · -- gLoad
      simp only [Option.some.injEq, Prod.mk.injEq] at hst; obtain ⟨rfl, -⟩ := hst
      exact h.frame rfl rfl (Nat.le_refl _) rfl rfl (Nat.le_refl _) (spec_upd_none _ _ _ rfl)
    · -- gClock
      split at hst
      · cases hst
      · rename_i hclk
        dsimp only at hst
        split at hst
        all_goals (simp only [Option.some.injEq, Prod.mk.injEq] at hst; obtain ⟨rfl, -⟩ := hst)
        all_goals exact h.frame rfl rfl (Nat.le_refl _) rfl rfl (Nat.le_of_not_lt hclk) (spec_upd_none _ _ _ rfl)
    · -- gCas
      split at hst
      all_goals (simp only [Option.some.injEq, Prod.mk.injEq] at hst; obtain ⟨rfl, -⟩ := hst)
      all_goals exact h.frame rfl rfl (Nat.le_refl _) rfl rfl (Nat.le_refl _) (spec_upd_none _ _ _ rfl)
    · -- sLoad
      rename_i k hpc
      simp only [Option.some.injEq, Prod.mk.injEq] at hst; obtain ⟨rfl, -⟩ := hst
      cases k <;> exact h.frame rfl rfl (Nat.le_refl _) rfl rfl (Nat.le_refl _) (spec_upd_none _ _ _ rfl)
    · -- xLoad
      simp only [Option.some.injEq, Prod.mk.injEq] at hst; obtain ⟨rfl, -⟩ := hst
      exact h.frame rfl rfl (Nat.le_refl _) rfl rfl (Nat.le_refl _) (spec_upd_none _ _ _ rfl)
    · -- xXchg
      simp only [Option.some.injEq, Prod.mk.injEq] at hst; obtain ⟨rfl, -⟩ := hst
      exact h.frame rfl rfl (Nat.le_refl _) rfl rfl (Nat.le_refl _) (spec_upd_none _ _ _ rfl)
    · -- xLoad2
      simp only [Option.some.injEq, Prod.mk.injEq] at hst; obtain ⟨rfl, -⟩ := hst
      exact h.frame rfl rfl (Nat.le_refl _) rfl rfl (Nat.le_refl _) (spec_upd_none _ _ _ rfl)
  case ensure t i => exact h.frame rfl rfl (Nat.le_refl _) rfl rfl (Nat.le_refl _) (spec_upd_none _ _ _ rfl)
  case reserve t n => exact h.frame rfl rfl (Nat.le_refl _) rfl rfl (Nat.le_refl _) (spec_upd_none _ _ _ rfl)
  case range t b e => exact h.frame rfl rfl (Nat.le_refl _) rfl rfl (Nat.le_refl _) (spec_upd_none _ _ _ rfl)
  case snap t k => exact h.frame rfl rfl (Nat.le_refl _) rfl rfl (Nat.le_refl _) (spec_upd_none _ _ _ rfl)
  case gc t => exact h.frame rfl rfl (Nat.le_refl _) rfl rfl (Nat.le_refl _) (spec_upd_none _ _ _ rfl)
  case destroy t => exact h.frame rfl rfl (Nat.le_refl _) rfl rfl (Nat.le_refl _) (spec_upd_none _ _ _ rfl)
  case tick d => exact h.frame rfl rfl (Nat.le_refl _) rfl rfl (Nat.le_add_right _ _) (fun u => Or.inl rfl)

end Babylon.CVec
