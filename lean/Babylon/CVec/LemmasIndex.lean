/-
  Index arithmetic of ConcurrentVector: `block_index` / `block_offset` split an index into
  (quotient, remainder) by the block size, `ensure` / `reserve` ask for exactly enough blocks, the
  `for_each` walk visits exactly `[b, e)` in order with every segment inside one block, and
  `set_block_size` rounds the hint up to the next power of two.
-/
import Babylon.CVec.Model

namespace Babylon.CVec
open Babylon.Gen.CVec

theorem bs_pos (c : Cfg) : 0 < c.bs := Nat.pow_pos (by decide)

theorem blockOffset_eq_mod (c : Cfg) (i : Nat) : blockOffset c i = i % c.bs := by
  simp [blockOffset, Cfg.mask, Cfg.bs]

/-- `block_index` returns `uint32_t`: exact as long as the quotient fits 32 bits -/
theorem blockIndex_eq_div (c : Cfg) (i : Nat) (h : i / c.bs < 2 ^ 32) : blockIndex c i = i / c.bs := by
  have : indexBits = 32 := rfl
  simp only [blockIndex, Nat.shiftRight_eq_div_pow, this]
  exact Nat.mod_eq_of_lt h

theorem blockOffset_lt (c : Cfg) (i : Nat) : blockOffset c i < c.bs := by
  rw [blockOffset_eq_mod]; exact Nat.mod_lt _ (bs_pos c)

theorem index_split (c : Cfg) (i : Nat) (h : i / c.bs < 2 ^ 32) :
    blockIndex c i * c.bs + blockOffset c i = i := by
  rw [blockIndex_eq_div c i h, blockOffset_eq_mod, Nat.mul_comm]; exact Nat.div_add_mod i c.bs

/-- two indices with the same (block, offset) are the same index -/
theorem index_inj (c : Cfg) (i j : Nat) (hi : i / c.bs < 2 ^ 32) (hj : j / c.bs < 2 ^ 32)
    (hb : blockIndex c i = blockIndex c j) (ho : blockOffset c i = blockOffset c j) : i = j := by
  rw [← index_split c i hi, ← index_split c j hj, hb, ho]

/-- `ensure(i)` asks for enough blocks to cover index `i`, and not one more -/
theorem needEnsure_covers (c : Cfg) (i : Nat) (h : i / c.bs < 2 ^ 32) :
    i < needEnsure c i * c.bs ∧ (needEnsure c i - 1) * c.bs ≤ i := by
  have hp := bs_pos c
  simp only [needEnsure, blockIndex_eq_div c i h, Nat.add_sub_cancel]
  constructor
  · rw [Nat.add_mul, Nat.one_mul]; exact Nat.lt_div_mul_add hp
  · exact Nat.div_mul_le_self i c.bs

/-- `reserve(n)` / `reserved_snapshot(n)` ask for `ceil(n / block_size)` blocks -/
theorem needReserve_covers (c : Cfg) (n : Nat) (h : (n + c.mask) / c.bs < 2 ^ 32) :
    n ≤ needReserve c n * c.bs ∧ needReserve c n * c.bs < n + c.bs := by
  have hp := bs_pos c
  have hm : c.mask = c.bs - 1 := rfl
  have hidx : blockIndex c (n + c.mask) = (n + c.mask) / c.bs := blockIndex_eq_div c _ h
  simp only [needReserve]
  rw [hidx, hm]
  have h1 := Nat.div_add_mod (n + (c.bs - 1)) c.bs
  have h2 := Nat.mod_lt (n + (c.bs - 1)) hp
  have h3 : (n + (c.bs - 1)) / c.bs * c.bs = c.bs * ((n + (c.bs - 1)) / c.bs) := Nat.mul_comm _ _
  omega

/-- element `i` through a table is block `i / bs`, offset `i % bs` -/
theorem elemAt_eq (c : Cfg) (bl : List Nat) (i : Nat) (h : i / c.bs < 2 ^ 32) :
    elemAt c bl i = (bl[i / c.bs]?).map (fun b => (b, i % c.bs)) := by
  simp [elemAt, blockIndex_eq_div c i h, blockOffset_eq_mod]

/-! ### `set_block_size` -/

theorem setBits_go_spec (hint : Nat) : ∀ fuel bits size, size = 2 ^ bits → bits + fuel = 32 → hint ≤ 2 ^ 31 →
    (bits = 0 ∨ 2 ^ (bits - 1) < hint) →
    hint ≤ 2 ^ (setBits.go hint fuel bits size) ∧
      (setBits.go hint fuel bits size = 0 ∨ 2 ^ (setBits.go hint fuel bits size - 1) < hint) := by
  intro fuel
  induction fuel with
  | zero =>
    intro bits size hs hb hh hprev
    simp only [setBits.go]
    have : bits = 32 := by omega
    subst this
    refine ⟨by omega, hprev⟩
  | succ fuel ih =>
    intro bits size hs hb hh hprev
    simp only [setBits.go]
    split
    · rename_i hlt
      apply ih (bits + 1) (size * 2) (by rw [hs, Nat.pow_succ]) (by omega) hh
      right; simpa [hs] using hlt
    · rename_i hge
      exact ⟨by rw [← hs]; omega, hprev⟩

/-- the block size is the least power of two `≥ hint` (for hints the `uint32_t` loop can reach) -/
theorem setBits_spec (hint : Nat) (h : hint ≤ 2 ^ 31) :
    hint ≤ 2 ^ setBits hint ∧ (setBits hint = 0 ∨ 2 ^ (setBits hint - 1) < hint) :=
  setBits_go_spec hint 32 0 1 rfl rfl h (Or.inl rfl)

/-! ### `for_each` -/

/-- the elements a list of segments stands for: `(block, offset)` pairs in visiting order -/
def expandSegs (l : List (Nat × Nat × Nat)) : List (Nat × Nat) :=
  l.flatMap (fun s => (List.range s.2.2).map (fun k => (s.1, s.2.1 + k)))

/-- the elements `[b, e)` designate through a table -/
def rangeElems (c : Cfg) (bl : List Nat) (b e : Nat) : List (Nat × Nat) :=
  (List.range' b (e - b)).map (fun i => (bl.getD (i / c.bs) 0, i % c.bs))

theorem range'_map_block (c : Cfg) (bl : List Nat) (bi bo len : Nat) (h : bo + len ≤ c.bs) :
    (List.range' (bi * c.bs + bo) len).map (fun i => (bl.getD (i / c.bs) 0, i % c.bs)) =
      (List.range len).map (fun k => (bl.getD bi 0, bo + k)) := by
  have hp := bs_pos c
  rw [List.range_eq_range', List.range'_eq_map_range, List.map_map, List.range_eq_range']
  apply List.map_congr_left
  intro k hk
  have hk' : k < len := by simpa using (List.mem_range'_1.mp hk).2
  have hlt : bo + k < c.bs := by omega
  have h1 : (bi * c.bs + bo + k) / c.bs = bi := by
    rw [Nat.add_assoc, Nat.mul_comm, Nat.mul_add_div hp, Nat.div_eq_of_lt hlt, Nat.add_zero]
  have h2 : (bi * c.bs + bo + k) % c.bs = bo + k := by
    rw [Nat.add_assoc, Nat.mul_comm, Nat.mul_add_mod, Nat.mod_eq_of_lt hlt]
  simp [h1, h2]

theorem forEach_loop_spec (c : Cfg) (bl : List Nat) (ebi ebo : Nat) (hebo : ebo < c.bs) :
    ∀ fuel bi bo, bo < c.bs → bi + fuel = ebi → (fuel = 0 → bo ≤ ebo) →
      expandSegs (forEachSegs.loop c bl ebo fuel bi bo) = rangeElems c bl (bi * c.bs + bo) (ebi * c.bs + ebo) ∧
      ∀ s ∈ forEachSegs.loop c bl ebo fuel bi bo, 0 < s.2.2 ∧ s.2.1 + s.2.2 ≤ c.bs := by
  intro fuel
  induction fuel with
  | zero =>
    intro bi bo hbo hbi hle
    have hle := hle rfl
    have : bi = ebi := by omega
    subst this
    simp only [forEachSegs.loop]
    split
    · rename_i hne
      have hlen : bi * c.bs + ebo - (bi * c.bs + bo) = ebo - bo := by omega
      refine ⟨?_, ?_⟩
      · simp only [expandSegs, rangeElems, List.flatMap_cons, List.flatMap_nil, List.append_nil, hlen]
        exact (range'_map_block c bl bi bo (ebo - bo) (by omega)).symm
      · intro s hs
        simp only [List.mem_singleton] at hs
        subst hs
        simp only
        omega
    · rename_i heq
      have heq : bo = ebo := by simpa using heq
      subst heq
      simp [expandSegs, rangeElems]
  | succ fuel ih =>
    intro bi bo hbo hbi _
    have hp := bs_pos c
    simp only [forEachSegs.loop]
    obtain ⟨ih1, ih2⟩ := ih (bi + 1) 0 hp (by omega) (by intro; omega)
    refine ⟨?_, ?_⟩
    · simp only [expandSegs, List.flatMap_cons] at ih1 ⊢
      rw [ih1]
      simp only [rangeElems]
      have hge : (bi + 1) * c.bs ≤ ebi * c.bs := Nat.mul_le_mul_right _ (by omega)
      have hsplit : ebi * c.bs + ebo - (bi * c.bs + bo) = (c.bs - bo) + (ebi * c.bs + ebo - ((bi + 1) * c.bs + 0)) := by
        rw [Nat.add_mul, Nat.one_mul] at hge ⊢
        omega
      rw [hsplit, ← List.range'_append_1, List.map_append]
      congr 1
      · exact (range'_map_block c bl bi bo (c.bs - bo) (by omega)).symm
      · have : bi * c.bs + bo + (c.bs - bo) = (bi + 1) * c.bs + 0 := by rw [Nat.add_mul, Nat.one_mul]; omega
        rw [this]
    · intro s hs
      simp only [List.mem_cons] at hs
      rcases hs with hs | hs
      · subst hs; simp only; omega
      · exact ih2 s hs

/-- `for_each(b, e)` (`b ≤ e`): the callbacks cover exactly the elements of `[b, e)`, in order, and
every callback range is non-empty and stays inside one block. -/
theorem forEachSegs_spec (c : Cfg) (bl : List Nat) (b e : Nat) (hbe : b ≤ e) (he : e / c.bs < 2 ^ 32) :
    expandSegs (forEachSegs c bl b e) = rangeElems c bl b e ∧
    ∀ s ∈ forEachSegs c bl b e, 0 < s.2.2 ∧ s.2.1 + s.2.2 ≤ c.bs := by
  have hp := bs_pos c
  have hb : b / c.bs < 2 ^ 32 := Nat.lt_of_le_of_lt (Nat.div_le_div_right hbe) he
  have hdiv : b / c.bs ≤ e / c.bs := Nat.div_le_div_right hbe
  have hsb := index_split c b hb
  have hse := index_split c e he
  simp only [forEachSegs, blockIndex_eq_div c b hb, blockIndex_eq_div c e he, blockOffset_eq_mod] at hsb hse ⊢
  have key := forEach_loop_spec c bl (e / c.bs) (e % c.bs) (Nat.mod_lt _ hp) (e / c.bs - b / c.bs) (b / c.bs) (b % c.bs)
    (Nat.mod_lt _ hp) (by omega) (by
      intro h0
      have : b / c.bs = e / c.bs := by omega
      rw [← hsb, ← hse, this] at hbe
      omega)
  rw [hsb, hse] at key
  exact key

end Babylon.CVec
