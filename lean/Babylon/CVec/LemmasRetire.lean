/-
  Retire list of ConcurrentVector: the nodes reachable from the head word are exactly the ghost list
  `rl`; as long as no push installed a stamp older than the one it replaced (`stale = false`, always
  the case when retire re-reads the clock for every attempt) the head stamp is not older than the
  supersession of any table behind it, so a detach that observes `expired` frees only tables
  superseded at least two stamp units earlier.
-/
import Babylon.CVec.LemmasStep
import Babylon.CVec.LemmasTable
import Babylon.CVec.LemmasBlocks
import Babylon.CVec.LemmasTime

namespace Babylon.CVec
open Babylon.Core

/-! ### lists -/

/-- the nodes starting at `n` carry exactly the tables `l` -/
def Chain (next : Nat → Nat) : Nat → List Nat → Prop
  | n, [] => n = 0
  | n, x :: xs => n = x + 1 ∧ Chain next (next n) xs

theorem Chain.walk {next : Nat → Nat} : ∀ {l : List Nat} {n fuel : Nat}, Chain next n l → l.length < fuel →
    walk next fuel n = l
  | [], n, fuel, h, hf => by
    simp only [Chain] at h; subst h
    cases fuel with
    | zero => rfl
    | succ f => simp [Babylon.CVec.walk]
  | x :: xs, n, fuel, h, hf => by
    simp only [Chain] at h
    obtain ⟨hn, hc⟩ := h
    cases fuel with
    | zero => simp at hf
    | succ f =>
      simp only [List.length_cons, Nat.add_lt_add_iff_right] at hf
      simp only [Babylon.CVec.walk, hn, Nat.add_one_ne_zero, if_false, Nat.add_sub_cancel]
      rw [hn] at hc
      rw [Chain.walk hc hf]

theorem Chain.upd_notMem {next : Nat → Nat} {m v : Nat} : ∀ {l : List Nat} {n : Nat}, Chain next n l →
    (∀ x ∈ l, x + 1 ≠ m) → Chain (upd next m v) n l
  | [], _, h, _ => h
  | x :: xs, n, h, hm => by
    simp only [Chain] at h ⊢
    obtain ⟨hn, hc⟩ := h
    refine ⟨hn, ?_⟩
    have hne : n ≠ m := by rw [hn]; exact hm x (List.mem_cons_self ..)
    rw [upd_other _ _ hne]
    exact Chain.upd_notMem hc (fun y hy => hm y (List.mem_cons_of_mem _ hy))

theorem Chain.head_zero {next : Nat → Nat} {l : List Nat} (h : Chain next 0 l) : l = [] := by
  cases l with
  | nil => rfl
  | cons x xs => simp [Chain] at h

theorem Chain.head_mem {next : Nat → Nat} {l : List Nat} {n : Nat} (h : Chain next n l) (hn : n ≠ 0) : n - 1 ∈ l := by
  cases l with
  | nil => exact absurd h hn
  | cons x xs => simp only [Chain] at h; rw [h.1]; simp

/-- pigeonhole: a duplicate-free list of numbers `≤ n` has at most `n + 1` entries -/
theorem nodup_bound : ∀ (n : Nat) (l : List Nat), l.Nodup → (∀ x ∈ l, x ≤ n) → l.length ≤ n + 1 := by
  intro n
  induction n with
  | zero =>
    intro l hnd hle
    match l with
    | [] => simp
    | [a] => simp
    | a :: b :: r =>
      have ha := hle a (by simp)
      have hb := hle b (by simp)
      rw [List.nodup_cons] at hnd
      have : a ≠ b := fun e => hnd.1 (by rw [e]; simp)
      omega
  | succ n ih =>
    intro l hnd hle
    have hsplit : l.length = (l.filter (fun x => decide (x ≤ n))).length + (l.filter (fun x => decide (n < x))).length := by
      have := List.length_eq_countP_add_countP (fun x => decide (x ≤ n)) (l := l)
      simpa [List.countP_eq_length_filter] using this
    have h1 : (l.filter (fun x => decide (x ≤ n))).length ≤ n + 1 := by
      apply ih
      · exact hnd.filter _
      · intro x hx; simpa using (List.mem_filter.mp hx).2
    have h2 : (l.filter (fun x => decide (n < x))).length ≤ 1 := by
      have hsub : ∀ x ∈ l.filter (fun x => decide (n < x)), x = n + 1 := by
        intro x hx
        have hm := List.mem_filter.mp hx
        have := hle x hm.1
        have : n < x := by simpa using hm.2
        omega
      have hnd' : (l.filter (fun x => decide (n < x))).Nodup := hnd.filter _
      match hq : l.filter (fun x => decide (n < x)), hnd', hsub with
      | [], _, _ => simp
      | [a], _, _ => simp
      | a :: b :: r, hnd', hsub =>
        have ha := hsub a (by simp)
        have hb := hsub b (by simp)
        rw [List.nodup_cons] at hnd'
        exact absurd (by rw [ha, hb]; simp) hnd'.1
    omega

/-! ### what a program counter says about the retire list -/

def Pc.isR : Pc → Bool
  | .rLoad .. | .rClock .. | .rCasX .. | .rClock2 .. | .rCasW .. | .gClock .. | .gCas .. => true
  | _ => false

/-- the table the thread is retiring -/
def Pc.holds : Pc → Option Nat
  | .rLoad x _ _ | .rClock x _ _ _ _ | .rCasX x _ _ _ _ _ | .rClock2 x _ _ _ _ | .rCasW x _ _ _ _ _ => some x
  | _ => none
/-- the thread's copy of the head word (untruncated stamp, node) -/
def Pc.lhead : Pc → Option (Nat × Nat)
  | .rClock _ lts ln _ _ | .rCasX _ lts ln _ _ _ | .rClock2 _ lts ln _ _ | .rCasW _ lts ln _ _ _
  | .gClock lts ln | .gCas lts ln _ => some (lts, ln)
  | _ => none
def Pc.lclock : Pc → Option Nat
  | .rCasX _ _ _ v _ _ | .rCasW _ _ _ v _ _ | .gCas _ _ v => some v
  | _ => none
/-- program counters whose clock value was read after the local head value was obtained -/
def Pc.freshClock (c : Cfg) : Pc → Option (Nat × Nat)
  | .rCasX _ _ ln v _ _ | .gCas _ ln v => some (ln, v)
  | .rCasW _ _ ln v _ _ => if c.reread then some (ln, v) else none
  | _ => none
/-- program counters reached only through a positive expiry test -/
def Pc.expiring : Pc → Option (Nat × Nat)
  | .rCasX _ lts _ v _ _ | .gCas lts _ v => some (lts, v)
  | _ => none

theorem Pc.holds_of_notR {p : Pc} (h : p.isR = false) : p.holds = none := by cases p <;> simp_all [Pc.isR, Pc.holds]
theorem Pc.lhead_of_notR {p : Pc} (h : p.isR = false) : p.lhead = none := by cases p <;> simp_all [Pc.isR, Pc.lhead]
theorem Pc.lclock_of_notR {p : Pc} (h : p.isR = false) : p.lclock = none := by cases p <;> simp_all [Pc.isR, Pc.lclock]
theorem Pc.freshClock_of_notR {c : Cfg} {p : Pc} (h : p.isR = false) : p.freshClock c = none := by
  cases p <;> simp_all [Pc.isR, Pc.freshClock]
theorem Pc.expiring_of_notR {p : Pc} (h : p.isR = false) : p.expiring = none := by cases p <;> simp_all [Pc.isR, Pc.expiring]

structure InvR (c : Cfg) (s : State) : Prop where
  chain : Chain s.next s.hnode s.rl
  rlNodup : s.rl.Nodup
  rlPushed : ∀ x ∈ s.rl, s.pushed x = true
  pushedPub : ∀ x, s.pushed x = true → s.pub x = true
  holdsFresh : ∀ t x, (s.pc t).holds = some x → s.pushed x = false ∧ s.pub x = true ∧ ∃ g, s.supAt x = some g
  holdsDistinct : ∀ t u x, t ≠ u → (s.pc t).holds = some x → (s.pc u).holds ≠ some x
  headStamp : s.hnode ≠ 0 → s.hts = s.stampOf s.hnode
  rlSup : s.stale = false → ∀ x ∈ s.rl, ∃ g, s.supAt x = some g ∧ unitOf g ≤ s.hts
  htsNow : s.hts ≤ unitOf s.now
  stampNow : ∀ x, s.pushed x = true → s.stampOf (x + 1) ≤ unitOf s.now
  lheadOk : ∀ t lts ln, (s.pc t).lhead = some (lts, ln) → ln ≠ 0 → s.pushed (ln - 1) = true ∧ lts = s.stampOf ln
  lclockNow : ∀ t v, (s.pc t).lclock = some v → v ≤ s.now
  lclockFresh : ∀ t ln v, (s.pc t).freshClock c = some (ln, v) → ln ≠ 0 → s.stampOf ln ≤ unitOf v
  lclockSup : ∀ t x v, (s.pc t).holds = some x → (s.pc t).lclock = some v → ∃ g, s.supAt x = some g ∧ g ≤ v
  expiring : ∀ t lts v, (s.pc t).expiring = some (lts, v) → expired lts (unitOf v) = true
  freedOk : s.stale = false → ∀ x v, s.freedT x = some (some v) →
      ∃ g, s.supAt x = some g ∧ unitOf g + 2 ≤ unitOf v ∧ v ≤ s.now
  rereadOk : c.reread = true → s.stale = false

theorem InvR.init (c : Cfg) (now : Nat) : InvR c (State.init now) := by
  constructor <;> simp [State.init, Chain, Pc.holds, Pc.lhead, Pc.lclock, Pc.freshClock, Pc.expiring]

/-- the head node, if any, is the node of a pushed table -/
theorem InvR.headPushed {c : Cfg} {s : State} (h : InvR c s) (hn : s.hnode ≠ 0) : s.pushed (s.hnode - 1) = true :=
  h.rlPushed _ (h.chain.head_mem hn)

/-- steps that touch neither the retire list nor a thread inside retire / gc -/
theorem InvR.frame {c : Cfg} {s s' : State} (h : InvR c s)
    (hhts : s'.hts = s.hts) (hhn : s'.hnode = s.hnode) (hnext : s'.next = s.next) (hrl : s'.rl = s.rl)
    (hpushed : s'.pushed = s.pushed) (hstamp : s'.stampOf = s.stampOf) (hstale : s'.stale = s.stale)
    (hsup : s'.supAt = s.supAt) (hpub : ∀ x, s.pub x = true → s'.pub x = true) (hnow : s.now ≤ s'.now)
    (hfreed : ∀ x v, s'.freedT x = some (some v) → s.freedT x = some (some v))
    (hpc : ∀ u, s'.pc u = s.pc u ∨ ((s'.pc u).isR = false ∧ (s.pc u).isR = false)) : InvR c s' := by
  have hmono := unitOf_mono hnow
  constructor
  · rw [hnext, hhn, hrl]; exact h.chain
  · rw [hrl]; exact h.rlNodup
  · intro x hx; rw [hrl] at hx; rw [hpushed]; exact h.rlPushed x hx
  · intro x hx; rw [hpushed] at hx; exact hpub x (h.pushedPub x hx)
  · intro t x hx
    rcases hpc t with he | ⟨he, _⟩
    · rw [he] at hx; rw [hpushed, hsup]
      obtain ⟨h1, h2, h3⟩ := h.holdsFresh t x hx
      exact ⟨h1, hpub x h2, h3⟩
    · rw [Pc.holds_of_notR he] at hx; cases hx
  · intro t u x htu hx
    rcases hpc t with he | ⟨he, _⟩
    · rw [he] at hx
      rcases hpc u with he' | ⟨he', _⟩
      · rw [he']; exact h.holdsDistinct t u x htu hx
      · rw [Pc.holds_of_notR he']; simp
    · rw [Pc.holds_of_notR he] at hx; cases hx
  · rw [hhn, hhts, hstamp]; exact h.headStamp
  · intro hst x hx; rw [hstale] at hst; rw [hrl] at hx; rw [hsup, hhts]; exact h.rlSup hst x hx
  · rw [hhts]; exact Nat.le_trans h.htsNow hmono
  · intro x hx; rw [hpushed] at hx; rw [hstamp]; exact Nat.le_trans (h.stampNow x hx) hmono
  · intro t lts ln hl hln
    rcases hpc t with he | ⟨he, _⟩
    · rw [he] at hl; rw [hpushed, hstamp]; exact h.lheadOk t lts ln hl hln
    · rw [Pc.lhead_of_notR he] at hl; cases hl
  · intro t v hl
    rcases hpc t with he | ⟨he, _⟩
    · rw [he] at hl; exact Nat.le_trans (h.lclockNow t v hl) hnow
    · rw [Pc.lclock_of_notR he] at hl; cases hl
  · intro t ln v hl hln
    rcases hpc t with he | ⟨he, _⟩
    · rw [he] at hl; rw [hstamp]; exact h.lclockFresh t ln v hl hln
    · rw [Pc.freshClock_of_notR he] at hl; cases hl
  · intro t x v hx hl
    rcases hpc t with he | ⟨he, _⟩
    · rw [he] at hx hl; rw [hsup]; exact h.lclockSup t x v hx hl
    · rw [Pc.holds_of_notR he] at hx; cases hx
  · intro t lts v hl
    rcases hpc t with he | ⟨he, _⟩
    · rw [he] at hl; exact h.expiring t lts v hl
    · rw [Pc.expiring_of_notR he] at hl; cases hl
  · intro hst x v hf
    rw [hstale] at hst
    obtain ⟨g, h1, h2, h3⟩ := h.freedOk hst x v (hfreed x v hf)
    exact ⟨g, by rw [hsup]; exact h1, h2, Nat.le_trans h3 hnow⟩
  · intro hr; rw [hstale]; exact h.rereadOk hr

end Babylon.CVec
