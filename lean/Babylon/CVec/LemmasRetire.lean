/-
  Retire list of ConcurrentVector: the nodes reachable from the head word are exactly the ghost list
  `rl`; as long as no push installed a stamp older than the one it replaced (`stale = false`, always
  the case when retire re-reads the clock for every attempt) the head stamp is not older than the
  supersession of any table behind it, so a detach that observes `expired` frees only tables
  superseded at least two stamp units earlier.
-/
import Babylon.CVec.LemmasStep
import Babylon.CVec.LemmasTable
import Babylon.CVec.LemmasBlocks
import Babylon.CVec.LemmasTime

namespace Babylon.CVec
open Babylon.Core

/-! ### lists -/

/-- the nodes starting at `n` carry exactly the tables `l` -/
def Chain (next : Nat → Nat) : Nat → List Nat → Prop
  | n, [] => n = 0
  | n, x :: xs => n = x + 1 ∧ Chain next (next n) xs

theorem Chain.walk {next : Nat → Nat} : ∀ {l : List Nat} {n fuel : Nat}, Chain next n l → l.length < fuel →
    walk next fuel n = l
  | [], n, fuel, h, hf => by
    simp only [Chain] at h; subst h
    cases fuel with
    | zero => rfl
    | succ f => simp [Babylon.CVec.walk]
  | x :: xs, n, fuel, h, hf => by
    simp only [Chain] at h
    obtain ⟨hn, hc⟩ := h
    cases fuel with
    | zero => simp at hf
    | succ f =>
      simp only [List.length_cons, Nat.add_lt_add_iff_right] at hf
      simp only [Babylon.CVec.walk, hn, Nat.add_one_ne_zero, if_false, Nat.add_sub_cancel]
      rw [hn] at hc
      rw [Chain.walk hc hf]

theorem Chain.upd_notMem {next : Nat → Nat} {m v : Nat} : ∀ {l : List Nat} {n : Nat}, Chain next n l →
    (∀ x ∈ l, x + 1 ≠ m) → Chain (upd next m v) n l
  | [], _, h, _ => h
  | x :: xs, n, h, hm => by
    simp only [Chain] at h ⊢
    obtain ⟨hn, hc⟩ := h
    refine ⟨hn, ?_⟩
    have hne : n ≠ m := by rw [hn]; exact hm x (List.mem_cons_self ..)
    rw [upd_other _ _ hne]
    exact Chain.upd_notMem hc (fun y hy => hm y (List.mem_cons_of_mem _ hy))

theorem Chain.head_zero {next : Nat → Nat} {l : List Nat} (h : Chain next 0 l) : l = [] := by
  cases l with
  | nil => rfl
  | cons x xs => simp [Chain] at h

theorem Chain.head_mem {next : Nat → Nat} {l : List Nat} {n : Nat} (h : Chain next n l) (hn : n ≠ 0) : n - 1 ∈ l := by
  cases l with
  | nil => exact absurd h hn
  | cons x xs => simp only [Chain] at h; rw [h.1]; simp

/-- pigeonhole: a duplicate-free list of numbers `≤ n` has at most `n + 1` entries -/
theorem nodup_bound : ∀ (n : Nat) (l : List Nat), l.Nodup → (∀ x ∈ l, x ≤ n) → l.length ≤ n + 1 := by
  intro n
  induction n with
  | zero =>
    intro l hnd hle
    match l with
    | [] => simp
    | [a] => simp
    | a :: b :: r =>
      have ha := hle a (by simp)
      have hb := hle b (by simp)
      rw [List.nodup_cons] at hnd
      have : a ≠ b := fun e => hnd.1 (by rw [e]; simp)
      omega
  | succ n ih =>
    intro l hnd hle
    have hsplit : l.length = (l.filter (fun x => decide (x ≤ n))).length + (l.filter (fun x => decide (n < x))).length := by
      have := List.length_eq_countP_add_countP (fun x => decide (x ≤ n)) (l := l)
      simpa [List.countP_eq_length_filter] using this
    have h1 : (l.filter (fun x => decide (x ≤ n))).length ≤ n + 1 := by
      apply ih
      · exact hnd.filter _
      · intro x hx; simpa using (List.mem_filter.mp hx).2
    have h2 : (l.filter (fun x => decide (n < x))).length ≤ 1 := by
      have hsub : ∀ x ∈ l.filter (fun x => decide (n < x)), x = n + 1 := by
        intro x hx
        have hm := List.mem_filter.mp hx
        have := hle x hm.1
        have : n < x := by simpa using hm.2
        omega
      have hnd' : (l.filter (fun x => decide (n < x))).Nodup := hnd.filter _
      match hq : l.filter (fun x => decide (n < x)), hnd', hsub with
      | [], _, _ => simp
      | [a], _, _ => simp
      | a :: b :: r, hnd', hsub =>
        have ha := hsub a (by simp)
        have hb := hsub b (by simp)
        rw [List.nodup_cons] at hnd'
        exact absurd (by rw [ha, hb]; simp) hnd'.1
    omega

/-! ### what a program counter says about the retire list -/

def Pc.isR : Pc → Bool
  | .rLoad .. | .rClock .. | .rCasX .. | .rClock2 .. | .rCasW .. | .gClock .. | .gCas .. => true
  | _ => false

/-- the table the thread is retiring -/
def Pc.holds : Pc → Option Nat
  | .rLoad x _ _ | .rClock x _ _ _ _ | .rCasX x _ _ _ _ _ | .rClock2 x _ _ _ _ | .rCasW x _ _ _ _ _ => some x
  | _ => none
/-- the thread's copy of the head word (untruncated stamp, node) -/
def Pc.lhead : Pc → Option (Nat × Nat)
  | .rClock _ lts ln _ _ | .rCasX _ lts ln _ _ _ | .rClock2 _ lts ln _ _ | .rCasW _ lts ln _ _ _
  | .gClock lts ln | .gCas lts ln _ => some (lts, ln)
  | _ => none
def Pc.lclock : Pc → Option Nat
  | .rCasX _ _ _ v _ _ | .rCasW _ _ _ v _ _ | .gCas _ _ v => some v
  | _ => none
/-- program counters whose clock value was read after the local head value was obtained -/
def Pc.freshClock (c : Cfg) : Pc → Option (Nat × Nat)
  | .rCasX _ _ ln v _ _ | .gCas _ ln v => some (ln, v)
  | .rCasW _ _ ln v _ _ => if c.reread then some (ln, v) else none
  | _ => none
/-- program counters reached only through a positive expiry test -/
def Pc.expiring : Pc → Option (Nat × Nat)
  | .rCasX _ lts _ v _ _ | .gCas lts _ v => some (lts, v)
  | _ => none

theorem Pc.holds_of_notR {p : Pc} (h : p.isR = false) : p.holds = none := by cases p <;> simp_all [Pc.isR, Pc.holds]
theorem Pc.lhead_of_notR {p : Pc} (h : p.isR = false) : p.lhead = none := by cases p <;> simp_all [Pc.isR, Pc.lhead]
theorem Pc.lclock_of_notR {p : Pc} (h : p.isR = false) : p.lclock = none := by cases p <;> simp_all [Pc.isR, Pc.lclock]
theorem Pc.freshClock_of_notR {c : Cfg} {p : Pc} (h : p.isR = false) : p.freshClock c = none := by
  cases p <;> simp_all [Pc.isR, Pc.freshClock]
theorem Pc.expiring_of_notR {p : Pc} (h : p.isR = false) : p.expiring = none := by cases p <;> simp_all [Pc.isR, Pc.expiring]

structure InvR (c : Cfg) (s : State) : Prop where
  chain : Chain s.next s.hnode s.rl
  rlNodup : s.rl.Nodup
  rlPushed : ∀ x ∈ s.rl, s.pushed x = true
  pushedPub : ∀ x, s.pushed x = true → s.pub x = true
  pushedSup : ∀ x, s.pushed x = true → ∃ g, s.supAt x = some g
  holdsFresh : ∀ t x, (s.pc t).holds = some x → s.pushed x = false ∧ s.pub x = true ∧ ∃ g, s.supAt x = some g
  holdsDistinct : ∀ t u x, t ≠ u → (s.pc t).holds = some x → (s.pc u).holds ≠ some x
  headStamp : s.hnode ≠ 0 → s.hts = s.stampOf s.hnode
  rlSup : s.stale = false → ∀ x ∈ s.rl, ∃ g, s.supAt x = some g ∧ unitOf g ≤ s.hts
  htsNow : s.hts ≤ unitOf s.now
  stampNow : ∀ x, s.pushed x = true → s.stampOf (x + 1) ≤ unitOf s.now
  lheadOk : ∀ t lts ln, (s.pc t).lhead = some (lts, ln) → ln ≠ 0 → s.pushed (ln - 1) = true ∧ lts = s.stampOf ln
  lclockNow : ∀ t v, (s.pc t).lclock = some v → v ≤ s.now
  lclockFresh : ∀ t ln v, (s.pc t).freshClock c = some (ln, v) → ln ≠ 0 → s.stampOf ln ≤ unitOf v
  lclockSup : ∀ t x v, (s.pc t).holds = some x → (s.pc t).lclock = some v → ∃ g, s.supAt x = some g ∧ g ≤ v
  expiring : ∀ t lts v, (s.pc t).expiring = some (lts, v) → expired lts (unitOf v) = true
  freedOk : s.stale = false → ∀ x v, s.freedT x = some (some v) →
      ∃ g, s.supAt x = some g ∧ unitOf g + 2 ≤ unitOf v ∧ v ≤ s.now
  rereadOk : c.reread = true → s.stale = false

theorem InvR.init (c : Cfg) (now : Nat) : InvR c (State.init now) := by
  constructor <;> simp [State.init, Chain, Pc.holds, Pc.lhead, Pc.lclock, Pc.freshClock, Pc.expiring]

/-- the head node, if any, is the node of a pushed table -/
theorem InvR.headPushed {c : Cfg} {s : State} (h : InvR c s) (hn : s.hnode ≠ 0) : s.pushed (s.hnode - 1) = true :=
  h.rlPushed _ (h.chain.head_mem hn)

/-- steps that touch neither the retire list nor a thread inside retire / gc -/
theorem InvR.frame {c : Cfg} {s s' : State} (h : InvR c s)
    (hhts : s'.hts = s.hts) (hhn : s'.hnode = s.hnode) (hnext : s'.next = s.next) (hrl : s'.rl = s.rl)
    (hpushed : s'.pushed = s.pushed) (hstamp : s'.stampOf = s.stampOf) (hstale : s'.stale = s.stale)
    (hsup : s'.supAt = s.supAt) (hpub : ∀ x, s.pub x = true → s'.pub x = true) (hnow : s.now ≤ s'.now)
    (hfreed : ∀ x v, s'.freedT x = some (some v) → s.freedT x = some (some v))
    (hpc : ∀ u, s'.pc u = s.pc u ∨ ((s'.pc u).isR = false ∧ (s.pc u).isR = false)) : InvR c s' := by
  have hmono := unitOf_mono hnow
  constructor
  · rw [hnext, hhn, hrl]; exact h.chain
  · rw [hrl]; exact h.rlNodup
  · intro x hx; rw [hrl] at hx; rw [hpushed]; exact h.rlPushed x hx
  · intro x hx; rw [hpushed] at hx; exact hpub x (h.pushedPub x hx)
  · intro x hx; rw [hpushed] at hx; rw [hsup]; exact h.pushedSup x hx
  · intro t x hx
    rcases hpc t with he | ⟨he, _⟩
    · rw [he] at hx; rw [hpushed, hsup]
      obtain ⟨h1, h2, h3⟩ := h.holdsFresh t x hx
      exact ⟨h1, hpub x h2, h3⟩
    · rw [Pc.holds_of_notR he] at hx; cases hx
  · intro t u x htu hx
    rcases hpc t with he | ⟨he, _⟩
    · rw [he] at hx
      rcases hpc u with he' | ⟨he', _⟩
      · rw [he']; exact h.holdsDistinct t u x htu hx
      · rw [Pc.holds_of_notR he']; simp
    · rw [Pc.holds_of_notR he] at hx; cases hx
  · rw [hhn, hhts, hstamp]; exact h.headStamp
  · intro hst x hx; rw [hstale] at hst; rw [hrl] at hx; rw [hsup, hhts]; exact h.rlSup hst x hx
  · rw [hhts]; exact Nat.le_trans h.htsNow hmono
  · intro x hx; rw [hpushed] at hx; rw [hstamp]; exact Nat.le_trans (h.stampNow x hx) hmono
  · intro t lts ln hl hln
    rcases hpc t with he | ⟨he, _⟩
    · rw [he] at hl; rw [hpushed, hstamp]; exact h.lheadOk t lts ln hl hln
    · rw [Pc.lhead_of_notR he] at hl; cases hl
  · intro t v hl
    rcases hpc t with he | ⟨he, _⟩
    · rw [he] at hl; exact Nat.le_trans (h.lclockNow t v hl) hnow
    · rw [Pc.lclock_of_notR he] at hl; cases hl
  · intro t ln v hl hln
    rcases hpc t with he | ⟨he, _⟩
    · rw [he] at hl; rw [hstamp]; exact h.lclockFresh t ln v hl hln
    · rw [Pc.freshClock_of_notR he] at hl; cases hl
  · intro t x v hx hl
    rcases hpc t with he | ⟨he, _⟩
    · rw [he] at hx hl; rw [hsup]; exact h.lclockSup t x v hx hl
    · rw [Pc.holds_of_notR he] at hx; cases hx
  · intro t lts v hl
    rcases hpc t with he | ⟨he, _⟩
    · rw [he] at hl; exact h.expiring t lts v hl
    · rw [Pc.expiring_of_notR he] at hl; cases hl
  · intro hst x v hf
    rw [hstale] at hst
    obtain ⟨g, h1, h2, h3⟩ := h.freedOk hst x v (hfreed x v hf)
    exact ⟨g, by rw [hsup]; exact h1, h2, Nat.le_trans h3 hnow⟩
  · intro hr; rw [hstale]; exact h.rereadOk hr


theorem Pc.lhead_of_freshClock {c : Cfg} {p : Pc} {ln v : Nat} (h : p.freshClock c = some (ln, v)) :
    ∃ lts, p.lhead = some (lts, ln) := by
  cases p <;> simp_all [Pc.freshClock, Pc.lhead]

/-- a thread inside retire / gc moves to its next program counter (possibly reading the clock); the
list itself is untouched -/
theorem InvR.pcStep {c : Cfg} {s s' : State} (h : InvR c s) (t : Nat) (p' : Pc)
    (hhts : s'.hts = s.hts) (hhn : s'.hnode = s.hnode) (hnext : s'.next = s.next) (hrl : s'.rl = s.rl)
    (hpushed : s'.pushed = s.pushed) (hstamp : s'.stampOf = s.stampOf) (hstale : s'.stale = s.stale)
    (hsup : s'.supAt = s.supAt) (hpub : s'.pub = s.pub) (hnow : s.now ≤ s'.now) (hfreed : s'.freedT = s.freedT)
    (hpc : s'.pc = upd s.pc t p')
    (H1 : p'.holds = (s.pc t).holds ∨ p'.holds = none)
    (H2 : ∀ lts ln, p'.lhead = some (lts, ln) → ln ≠ 0 → s.pushed (ln - 1) = true ∧ lts = s.stampOf ln)
    (H3 : ∀ v, p'.lclock = some v → v ≤ s'.now)
    (H4 : ∀ ln v, p'.freshClock c = some (ln, v) → ln ≠ 0 → s.stampOf ln ≤ unitOf v)
    (H5 : ∀ x v, p'.holds = some x → p'.lclock = some v → ∃ g, s.supAt x = some g ∧ g ≤ v)
    (H6 : ∀ lts v, p'.expiring = some (lts, v) → expired lts (unitOf v) = true) : InvR c s' := by
  have hmono := unitOf_mono hnow
  have hpcT : s'.pc t = p' := by rw [hpc]; simp
  have hpcO : ∀ u, u ≠ t → s'.pc u = s.pc u := fun u hu => by rw [hpc, upd_other _ _ hu]
  constructor
  · rw [hnext, hhn, hrl]; exact h.chain
  · rw [hrl]; exact h.rlNodup
  · intro x hx; rw [hrl] at hx; rw [hpushed]; exact h.rlPushed x hx
  · intro x hx; rw [hpushed] at hx; rw [hpub]; exact h.pushedPub x hx
  · intro x hx; rw [hpushed] at hx; rw [hsup]; exact h.pushedSup x hx
  · intro u x hx
    rw [hpushed, hsup, hpub]
    by_cases hu : u = t
    · subst hu; rw [hpcT] at hx
      rcases H1 with e | e
      · rw [e] at hx; exact h.holdsFresh u x hx
      · rw [e] at hx; cases hx
    · rw [hpcO u hu] at hx; exact h.holdsFresh u x hx
  · intro u w x huw hx
    have key : ∀ a, (s'.pc a).holds = some x → (s.pc a).holds = some x := by
      intro a ha
      by_cases hat : a = t
      · subst hat; rw [hpcT] at ha
        rcases H1 with e | e
        · rw [e] at ha; exact ha
        · rw [e] at ha; cases ha
      · rw [hpcO a hat] at ha; exact ha
    intro hw
    exact h.holdsDistinct u w x huw (key u hx) (key w hw)
  · rw [hhn, hhts, hstamp]; exact h.headStamp
  · intro hst x hx; rw [hstale] at hst; rw [hrl] at hx; rw [hsup, hhts]; exact h.rlSup hst x hx
  · rw [hhts]; exact Nat.le_trans h.htsNow hmono
  · intro x hx; rw [hpushed] at hx; rw [hstamp]; exact Nat.le_trans (h.stampNow x hx) hmono
  · intro u lts ln hl hln
    rw [hpushed, hstamp]
    by_cases hu : u = t
    · subst hu; rw [hpcT] at hl; exact H2 lts ln hl hln
    · rw [hpcO u hu] at hl; exact h.lheadOk u lts ln hl hln
  · intro u v hl
    by_cases hu : u = t
    · subst hu; rw [hpcT] at hl; exact H3 v hl
    · rw [hpcO u hu] at hl; exact Nat.le_trans (h.lclockNow u v hl) hnow
  · intro u ln v hl hln
    rw [hstamp]
    by_cases hu : u = t
    · subst hu; rw [hpcT] at hl; exact H4 ln v hl hln
    · rw [hpcO u hu] at hl; exact h.lclockFresh u ln v hl hln
  · intro u x v hx hl
    rw [hsup]
    by_cases hu : u = t
    · subst hu; rw [hpcT] at hx hl; exact H5 x v hx hl
    · rw [hpcO u hu] at hx hl; exact h.lclockSup u x v hx hl
  · intro u lts v hl
    by_cases hu : u = t
    · subst hu; rw [hpcT] at hl; exact H6 lts v hl
    · rw [hpcO u hu] at hl; exact h.expiring u lts v hl
  · intro hst x v hf
    rw [hstale] at hst; rw [hfreed] at hf
    obtain ⟨g, h1, h2, h3⟩ := h.freedOk hst x v hf
    exact ⟨g, by rw [hsup]; exact h1, h2, Nat.le_trans h3 hnow⟩
  · intro hr; rw [hstale]; exact h.rereadOk hr

/-- the retire list's items are all the tables `delete_list` walks over -/
theorem InvR.items {c : Cfg} {s : State} (h : InvR c s) (ha : InvA s) (next' : Nat → Nat) (n fuel : Nat)
    (hn : n = s.hnode) (hfuel : fuel = s.nalloc + 2) (hc : Chain next' s.hnode s.rl) : walk next' fuel n = s.rl := by
  subst hn hfuel
  apply hc.walk
  have := nodup_bound s.nalloc s.rl h.rlNodup (fun x hx => ha.pubLe x (h.pushedPub x (h.rlPushed x hx)))
  omega

theorem headMatches_iff (s : State) (lts ln : Nat) :
    headMatches s lts ln = true ↔ s.hnode = ln ∧ s.hts % stampMod = lts % stampMod := by
  simp [headMatches]


/-- the whole list is detached from the head word and freed (by gc / by retire's expire branch with the
clock value they observed, or by the destructor) -/
def detachSt (s : State) (by_ : Option Nat) : State :=
  freedTables { s with hts := 0, hnode := 0, rl := [] } s.rl by_

theorem InvR.detach {c : Cfg} {s : State} (h : InvR c s) (by_ : Option Nat)
    (hby : ∀ v, by_ = some v → v ≤ s.now ∧ (s.hnode ≠ 0 → s.hts + 2 ≤ unitOf v)) : InvR c (detachSt s by_) := by
  constructor
  · simp [detachSt, freedTables, Chain]
  · simp [detachSt, freedTables]
  · simp [detachSt, freedTables]
  · exact h.pushedPub
  · exact h.pushedSup
  · exact h.holdsFresh
  · exact h.holdsDistinct
  · simp [detachSt, freedTables]
  · simp [detachSt, freedTables]
  · simp [detachSt, freedTables]
  · exact h.stampNow
  · exact h.lheadOk
  · exact h.lclockNow
  · exact h.lclockFresh
  · exact h.lclockSup
  · exact h.expiring
  · intro hst x v hf
    simp only [detachSt, freedTables] at hf hst ⊢
    split at hf
    · rename_i hx
      simp only [Option.some.injEq] at hf
      obtain ⟨hv, hexp⟩ := hby v hf
      obtain ⟨g, hg1, hg2⟩ := h.rlSup hst x hx.2
      have hn : s.hnode ≠ 0 := by
        intro e
        have hc := h.chain; rw [e] at hc
        rw [hc.head_zero] at hx; simp at hx
      have := hexp hn
      exact ⟨g, hg1, by omega, hv⟩
    · exact h.freedOk hst x v hf
  · exact h.rereadOk

/-- a successful CAS of retire links node `x + 1` in front of the observed head `ln` -/
theorem InvR.push {c : Cfg} {s : State} (h : InvR c s) (t x ln v nt : Nat) (k : Kont)
    (hx : (s.pc t).holds = some x) (hv : v ≤ s.now) (hg : ∃ g, s.supAt x = some g ∧ g ≤ v) (hln : ln = s.hnode)
    (hfresh : c.reread = true → s.hnode ≠ 0 → s.stampOf s.hnode ≤ unitOf v) :
    InvR c (rCasWWin c s t x ln v nt k) := by
  obtain ⟨hxp, hxpub, hxsup⟩ := h.holdsFresh t x hx
  have hxrl : x ∉ s.rl := fun hm => by rw [h.rlPushed x hm] at hxp; cases hxp
  have hpcT : (rCasWWin c s t x ln v nt k).pc t = .idle := by simp [rCasWWin, finish]
  have hpcO : ∀ u, u ≠ t → (rCasWWin c s t x ln v nt k).pc u = s.pc u := fun u hu => by
    simp only [rCasWWin, finish]; rw [upd_other _ _ hu]
  have hpushedOld : ∀ y, s.pushed y = true → y ≠ x := fun y hy e => by rw [e, hxp] at hy; cases hy
  have hholdO : ∀ u y, u ≠ t → (s.pc u).holds = some y → y ≠ x := fun u y hu hy e => by
    rw [e] at hy; exact h.holdsDistinct t u x (Ne.symm hu) hx hy
  subst hln
  constructor
  · simp only [rCasWWin, finish, Chain, upd_same, true_and]
    refine h.chain.upd_notMem (fun y hy e => hxrl ?_)
    have hyx : y = x := by omega
    rw [← hyx]; exact hy
  · simp only [rCasWWin, finish, List.nodup_cons]; exact ⟨hxrl, h.rlNodup⟩
  · intro y hy
    simp only [rCasWWin, finish, List.mem_cons] at hy ⊢
    rcases hy with rfl | hy
    · simp
    · rw [upd_other _ _ (hpushedOld y (h.rlPushed y hy))]; exact h.rlPushed y hy
  · intro y hy
    simp only [rCasWWin, finish] at hy ⊢
    by_cases hyx : y = x
    · subst hyx; exact hxpub
    · rw [upd_other _ _ hyx] at hy; exact h.pushedPub y hy
  · intro y hy
    simp only [rCasWWin, finish] at hy ⊢
    by_cases hyx : y = x
    · subst hyx; exact hxsup
    · rw [upd_other _ _ hyx] at hy; exact h.pushedSup y hy
  · intro u y hy
    by_cases hu : u = t
    · subst hu; rw [hpcT] at hy; cases hy
    · rw [hpcO u hu] at hy
      have hne := hholdO u y hu hy
      simp only [rCasWWin, finish]
      rw [upd_other _ _ hne]; exact h.holdsFresh u y hy
  · intro u w y huw hy hw
    by_cases hu : u = t
    · subst hu; rw [hpcT] at hy; cases hy
    · by_cases hw' : w = t
      · subst hw'; rw [hpcT] at hw; cases hw
      · rw [hpcO u hu] at hy; rw [hpcO w hw'] at hw
        exact h.holdsDistinct u w y huw hy hw
  · intro _; simp [rCasWWin, finish]
  · intro hst y hy
    simp only [rCasWWin, finish, Bool.or_eq_false_iff, Bool.and_eq_false_iff, List.mem_cons] at hst hy ⊢
    obtain ⟨hst1, hst2⟩ := hst
    rcases hy with rfl | hy
    · obtain ⟨g, hg1, hg2⟩ := hg
      exact ⟨g, hg1, unitOf_mono hg2⟩
    · obtain ⟨g, hg1, hg2⟩ := h.rlSup hst1 y hy
      refine ⟨g, hg1, ?_⟩
      rcases hst2 with hz | hz
      · have hz : s.hnode = 0 := by simpa using hz
        have hc := h.chain; rw [hz] at hc; rw [hc.head_zero] at hy; cases hy
      · have hz : ¬ unitOf v < s.hts := by simpa using hz
        omega
  · simp only [rCasWWin, finish]; exact unitOf_mono hv
  · intro y hy
    simp only [rCasWWin, finish] at hy ⊢
    by_cases hyx : y = x
    · subst hyx; simp only [upd_same]; exact unitOf_mono hv
    · rw [upd_other _ _ hyx] at hy
      rw [upd_other _ _ (by omega : y + 1 ≠ x + 1)]; exact h.stampNow y hy
  · intro u lts ln' hl hln'
    by_cases hu : u = t
    · subst hu; rw [hpcT] at hl; cases hl
    · rw [hpcO u hu] at hl
      obtain ⟨h1, h2⟩ := h.lheadOk u lts ln' hl hln'
      have hne := hpushedOld _ h1
      simp only [rCasWWin, finish]
      rw [upd_other _ _ hne, upd_other _ _ (by omega : ln' ≠ x + 1)]
      exact ⟨h1, h2⟩
  · intro u w hl
    by_cases hu : u = t
    · subst hu; rw [hpcT] at hl; cases hl
    · rw [hpcO u hu] at hl; exact h.lclockNow u w hl
  · intro u ln' w hl hln'
    by_cases hu : u = t
    · subst hu; rw [hpcT] at hl; cases hl
    · rw [hpcO u hu] at hl
      obtain ⟨lts, hlh⟩ := Pc.lhead_of_freshClock hl
      obtain ⟨h1, _⟩ := h.lheadOk u lts ln' hlh hln'
      have hne := hpushedOld _ h1
      simp only [rCasWWin, finish]
      rw [upd_other _ _ (by omega : ln' ≠ x + 1)]
      exact h.lclockFresh u ln' w hl hln'
  · intro u y w hy hl
    by_cases hu : u = t
    · subst hu; rw [hpcT] at hy; cases hy
    · rw [hpcO u hu] at hy hl; exact h.lclockSup u y w hy hl
  · intro u lts w hl
    by_cases hu : u = t
    · subst hu; rw [hpcT] at hl; cases hl
    · rw [hpcO u hu] at hl; exact h.expiring u lts w hl
  · intro hst y w hf
    simp only [rCasWWin, finish, Bool.or_eq_false_iff] at hst hf ⊢
    exact h.freedOk hst.1 y w hf
  · intro hr
    simp only [rCasWWin, finish, Bool.or_eq_false_iff, Bool.and_eq_false_iff]
    refine ⟨h.rereadOk hr, ?_⟩
    by_cases hz : s.hnode = 0
    · left; simp [hz]
    · right
      have := hfresh hr hz
      have := h.headStamp hz
      simp only [decide_eq_false_iff_not]; omega

/-- the publishing CAS on the table pointer: the winner starts retiring the table it replaced -/
theorem InvR.casWin {c : Cfg} {s : State} (h : InvR c s) (ha : InvA s) (t nt old need : Nat) (made : List Nat) (k : Kont)
    (hpc : s.pc t = .casT nt old need made k) (hcur : s.cur = old) : InvR c (casWin s t nt old made k) := by
  subst hcur
  have hsupOld : ∀ y g, s.supAt y = some g → y ≠ s.cur := fun y g hy e => by rw [e, ha.supCur] at hy; cases hy
  have hpcT : (Babylon.CVec.casWin s t nt s.cur made k).pc t = .rLoad s.cur nt k := by simp [Babylon.CVec.casWin]
  have hpcO : ∀ u, u ≠ t → (Babylon.CVec.casWin s t nt s.cur made k).pc u = s.pc u := fun u hu => by
    simp only [Babylon.CVec.casWin]; rw [upd_other _ _ hu]
  have hpubMono : ∀ y, s.pub y = true → (Babylon.CVec.casWin s t nt s.cur made k).pub y = true := by
    intro y hy; simp only [Babylon.CVec.casWin]
    by_cases hyn : y = nt
    · subst hyn; simp
    · rw [upd_other _ _ hyn]; exact hy
  have hsupKeep : ∀ y g, s.supAt y = some g → (Babylon.CVec.casWin s t nt s.cur made k).supAt y = some g := by
    intro y g hy; simp only [Babylon.CVec.casWin]; rw [upd_other _ _ (hsupOld y g hy)]; exact hy
  have hnoR : (s.pc t).isR = false := by rw [hpc]; rfl
  have hcurUnpushed : s.pushed s.cur = false := by
    cases hq : s.pushed s.cur with
    | false => rfl
    | true => obtain ⟨g, hg⟩ := h.pushedSup _ hq; exact absurd rfl (hsupOld _ g hg)
  constructor
  · exact h.chain
  · exact h.rlNodup
  · exact h.rlPushed
  · intro y hy; exact hpubMono y (h.pushedPub y hy)
  · intro y hy; obtain ⟨g, hg⟩ := h.pushedSup y hy; exact ⟨g, hsupKeep y g hg⟩
  · intro u y hy
    by_cases hu : u = t
    · subst hu; rw [hpcT] at hy; simp only [Pc.holds, Option.some.injEq] at hy; subst hy
      refine ⟨hcurUnpushed, hpubMono _ ha.pubCur, s.now, ?_⟩
      simp [Babylon.CVec.casWin]
    · rw [hpcO u hu] at hy
      obtain ⟨h1, h2, g, h3⟩ := h.holdsFresh u y hy
      exact ⟨h1, hpubMono y h2, g, hsupKeep y g h3⟩
  · intro u w y huw hy hw
    have key : ∀ a, a ≠ t → (s.pc a).holds = some y → y ≠ s.cur := by
      intro a _ hay
      obtain ⟨_, _, g, hg⟩ := h.holdsFresh a y hay
      exact hsupOld y g hg
    by_cases hu : u = t
    · subst hu
      have hw' : w ≠ u := Ne.symm huw
      rw [hpcT] at hy; simp only [Pc.holds, Option.some.injEq] at hy
      rw [hpcO w hw'] at hw
      exact key w hw' hw hy.symm
    · rw [hpcO u hu] at hy
      by_cases hw' : w = t
      · subst hw'; rw [hpcT] at hw; simp only [Pc.holds, Option.some.injEq] at hw
        exact key u hu hy hw.symm
      · rw [hpcO w hw'] at hw; exact h.holdsDistinct u w y huw hy hw
  · exact h.headStamp
  · intro hst y hy
    obtain ⟨g, hg1, hg2⟩ := h.rlSup hst y hy
    exact ⟨g, hsupKeep y g hg1, hg2⟩
  · exact h.htsNow
  · exact h.stampNow
  · intro u lts ln hl hln
    by_cases hu : u = t
    · subst hu; rw [hpcT] at hl; cases hl
    · rw [hpcO u hu] at hl; exact h.lheadOk u lts ln hl hln
  · intro u v hl
    by_cases hu : u = t
    · subst hu; rw [hpcT] at hl; cases hl
    · rw [hpcO u hu] at hl; exact h.lclockNow u v hl
  · intro u ln v hl hln
    by_cases hu : u = t
    · subst hu; rw [hpcT] at hl; cases hl
    · rw [hpcO u hu] at hl; exact h.lclockFresh u ln v hl hln
  · intro u y v hy hl
    by_cases hu : u = t
    · subst hu; rw [hpcT] at hl; cases hl
    · rw [hpcO u hu] at hy hl
      obtain ⟨g, hg1, hg2⟩ := h.lclockSup u y v hy hl
      exact ⟨g, hsupKeep y g hg1, hg2⟩
  · intro u lts v hl
    by_cases hu : u = t
    · subst hu; rw [hpcT] at hl; cases hl
    · rw [hpcO u hu] at hl; exact h.expiring u lts v hl
  · intro hst y v hf
    obtain ⟨g, hg1, hg2, hg3⟩ := h.freedOk hst y v hf
    exact ⟨g, hsupKeep y g hg1, hg2, hg3⟩
  · exact h.rereadOk


theorem isR_upd (s : State) (t : Nat) (p : Pc) (h0 : (s.pc t).isR = false) (hp : p.isR = false) (u : Nat) :
    (upd s.pc t p) u = s.pc u ∨ (((upd s.pc t p) u).isR = false ∧ (s.pc u).isR = false) := by
  by_cases hu : u = t
  · subst hu; right; simp [hp, h0]
  · left; rw [upd_other _ _ hu]

theorem freedNone_keeps (f : Nat → Option (Option Nat)) (l : List Nat) (x v : Nat)
    (h : (if x ≠ 0 ∧ x ∈ l then some none else f x) = some (some v)) : f x = some (some v) := by
  split at h
  · cases h
  · exact h

/-- retire's expire branch = detach everything, then push onto the empty list -/
theorem rCasXWin_eq {c : Cfg} {s : State} (h : InvR c s) (ha : InvA s) (t x ln v nt : Nat) (k : Kont)
    (hx : (s.pc t).holds = some x) (hln : ln = s.hnode) :
    rCasXWin c s t x ln v nt k = rCasWWin c (detachSt s (some v)) t x 0 v nt k := by
  obtain ⟨hxp, _, _⟩ := h.holdsFresh t x hx
  have hxrl : ∀ y ∈ s.rl, y + 1 ≠ x + 1 := fun y hy e => by
    have hyx : y = x := by omega
    rw [hyx] at hy; rw [h.rlPushed x hy] at hxp; cases hxp
  have hitems : walk (upd s.next (x + 1) 0) (s.nalloc + 2) ln = s.rl :=
    h.items ha _ _ _ hln rfl (h.chain.upd_notMem hxrl)
  simp [rCasXWin, rCasWWin, detachSt, finish, freedTables, listItems, hitems]

theorem gCasWin_eq {c : Cfg} {s : State} (h : InvR c s) (ha : InvA s) (t ln v : Nat) (hln : ln = s.hnode) :
    gCasWin s t ln v = retUnit (detachSt s (some v)) t := by
  have hitems : walk s.next (s.nalloc + 2) ln = s.rl := h.items ha _ _ _ hln rfl h.chain
  simp [gCasWin, retUnit, detachSt, freedTables, listItems, hitems]

theorem xXchgSt_eq {c : Cfg} {s : State} (h : InvR c s) (ha : InvA s) (t : Nat) :
    xXchgSt s t = { detachSt s none with pc := upd s.pc t .xLoad2 } := by
  have hitems : walk s.next (s.nalloc + 2) s.hnode = s.rl := h.items ha _ _ _ rfl rfl h.chain
  simp [xXchgSt, detachSt, freedTables, listItems, hitems]

/-- the clock of a stamp read after the head was observed is not older than the observed stamp -/
theorem InvR.stamp_le_clock {c : Cfg} {s : State} (h : InvR c s) (t lts ln v : Nat)
    (hl : (s.pc t).lhead = some (lts, ln)) (hv : s.now ≤ v) (hln : ln ≠ 0) : s.stampOf ln ≤ unitOf v := by
  obtain ⟨h1, _⟩ := h.lheadOk t lts ln hl hln
  have := h.stampNow (ln - 1) h1
  have e : ln - 1 + 1 = ln := by omega
  rw [e] at this
  exact Nat.le_trans this (unitOf_mono hv)

theorem InvR.step {c : Cfg} {s s' : State} (h : InvR c s) (ha : InvA s) (hs : Step c s s') : InvR c s' := by
  cases hs
  case act t inp ls hst =>
    have hts := stepThread_TStep hst
    cases hts
    case gqFast need k hpc hc =>
      exact h.frame rfl rfl rfl rfl rfl rfl rfl rfl (fun _ hx => hx) (Nat.le_refl _) (fun _ _ hf => hf)
        (isR_upd s t _ (by rw [hpc]; rfl) rfl)
    case gqSlow need k hpc hc =>
      exact h.frame rfl rfl rfl rfl rfl rfl rfl rfl (fun _ hx => hx) (Nat.le_refl _) (fun _ _ hf => hf)
        (isR_upd s t _ (by rw [hpc]; rfl) rfl)
    case casWin nt old need made k hpc hc => exact h.casWin ha t nt old need made k hpc hc
    case casLoseDone nt old need made k hpc hc hl =>
      exact h.frame rfl rfl rfl rfl rfl rfl rfl rfl (fun _ hx => hx) (Nat.le_refl _)
        (fun x v hf => freedNone_keeps _ _ x v hf) (isR_upd s t _ (by rw [hpc]; rfl) rfl)
    case casLoseRetry nt old need made k hpc hc hl =>
      exact h.frame rfl rfl rfl rfl rfl rfl rfl rfl (fun _ hx => hx) (Nat.le_refl _) (fun _ _ hf => hf)
        (isR_upd s t _ (by rw [hpc]; rfl) rfl)
    case rLoad x nt k hpc =>
      refine h.pcStep t _ rfl rfl rfl rfl rfl rfl rfl rfl rfl (Nat.le_refl _) rfl rfl ?_ ?_ ?_ ?_ ?_ ?_
      · left; rw [hpc]; rfl
      · intro lts ln hl hln
        simp only [Pc.lhead, Option.some.injEq, Prod.mk.injEq] at hl
        obtain ⟨rfl, rfl⟩ := hl
        exact ⟨h.headPushed hln, h.headStamp hln⟩
      · intro v hl; cases hl
      · intro ln v hl; cases hl
      · intro y v _ hl; cases hl
      · intro lts v hl; cases hl
    case rClock x lts ln nt k v hpc hv =>
      have hhold : (s.pc t).holds = some x := by rw [hpc]; rfl
      have hlh : (s.pc t).lhead = some (lts, ln) := by rw [hpc]; rfl
      obtain ⟨_, _, g, hg⟩ := h.holdsFresh t x hhold
      have hgv : g ≤ v := Nat.le_trans (ha.supNow x g hg) hv
      refine h.pcStep t _ rfl rfl rfl rfl rfl rfl rfl rfl rfl hv rfl rfl ?_ ?_ ?_ ?_ ?_ ?_
      · left; rw [hpc]; unfold rClockNext; split
        · rfl
        · split <;> rfl
      · intro lts' ln' hl hln
        have : lts' = lts ∧ ln' = ln := by
          unfold rClockNext at hl; split at hl
          · simpa [Pc.lhead, eq_comm] using hl
          · split at hl <;> simpa [Pc.lhead, eq_comm] using hl
        obtain ⟨rfl, rfl⟩ := this
        exact h.lheadOk t lts' ln' hlh hln
      · intro w hl
        have : w = v := by
          unfold rClockNext at hl; split at hl
          · simpa [Pc.lclock, eq_comm] using hl
          · split at hl
            · cases hl
            · simpa [Pc.lclock, eq_comm] using hl
        subst this; exact Nat.le_refl _
      · intro ln' w hl hln
        have : ln' = ln ∧ w = v := by
          unfold rClockNext at hl; split at hl
          · simpa [Pc.freshClock, eq_comm] using hl
          · split at hl
            · cases hl
            · rename_i hr; simp [Pc.freshClock, hr] at hl
        obtain ⟨rfl, rfl⟩ := this
        exact h.stamp_le_clock t lts ln' w hlh hv hln
      · intro y w hy hl
        have hyx : y = x := by
          unfold rClockNext at hy; split at hy
          · simpa [Pc.holds, eq_comm] using hy
          · split at hy <;> simpa [Pc.holds, eq_comm] using hy
        have hwv : w = v := by
          unfold rClockNext at hl; split at hl
          · simpa [Pc.lclock, eq_comm] using hl
          · split at hl
            · cases hl
            · simpa [Pc.lclock, eq_comm] using hl
        subst hyx hwv
        exact ⟨g, hg, hgv⟩
      · intro lts' w hl
        unfold rClockNext at hl; split at hl
        · rename_i he
          simp only [Pc.expiring, Option.some.injEq, Prod.mk.injEq] at hl
          obtain ⟨rfl, rfl⟩ := hl
          exact he
        · split at hl <;> cases hl
    case rCasXWin x lts ln v nt k hpc hm =>
      have hhold : (s.pc t).holds = some x := by rw [hpc]; rfl
      have hlh : (s.pc t).lhead = some (lts, ln) := by rw [hpc]; rfl
      obtain ⟨hmn, hmt⟩ := (headMatches_iff s lts ln).mp hm
      have hvnow : v ≤ s.now := h.lclockNow t v (by rw [hpc]; rfl)
      rw [rCasXWin_eq h ha t x ln v nt k hhold hmn.symm]
      have hd : InvR c (detachSt s (some v)) := by
        apply h.detach
        intro w hw
        simp only [Option.some.injEq] at hw; subst hw
        refine ⟨hvnow, fun hn => ?_⟩
        have hln : ln ≠ 0 := by rw [← hmn]; exact hn
        obtain ⟨_, hlts⟩ := h.lheadOk t lts ln hlh hln
        have hfr := h.lclockFresh t ln v (by rw [hpc]; rfl) hln
        have hex := h.expiring t lts v (by rw [hpc]; rfl)
        have hhs := h.headStamp hn
        rw [hmn, ← hlts] at hhs
        have := expired_sound lts (unitOf v) (by rw [hlts]; exact hfr) hex
        have hA : Babylon.Gen.CVec.expireAfter = 1 := rfl
        rw [hA] at this
        omega
      have hsup := h.lclockSup t x v hhold (by rw [hpc]; rfl)
      exact hd.push t x 0 v nt k hhold hvnow hsup rfl (fun _ hn => absurd rfl hn)
    case rCasXFail x lts ln v nt k hpc hm =>
      have hhold : (s.pc t).holds = some x := by rw [hpc]; rfl
      have hvnow : v ≤ s.now := h.lclockNow t v (by rw [hpc]; rfl)
      have hsup := h.lclockSup t x v hhold (by rw [hpc]; rfl)
      refine h.pcStep t _ rfl rfl rfl rfl rfl rfl rfl rfl rfl (Nat.le_refl _) rfl rfl ?_ ?_ ?_ ?_ ?_ ?_
      · left; rw [hpc]; split <;> rfl
      · intro lts' ln' hl hln
        have : lts' = s.hts ∧ ln' = s.hnode := by split at hl <;> simpa [Pc.lhead, eq_comm] using hl
        obtain ⟨rfl, rfl⟩ := this
        exact ⟨h.headPushed hln, h.headStamp hln⟩
      · intro w hl
        split at hl
        · cases hl
        · simp only [Pc.lclock, Option.some.injEq] at hl; subst hl; exact hvnow
      · intro ln' w hl
        split at hl
        · cases hl
        · rename_i hr; simp [Pc.freshClock, hr] at hl
      · intro y w hy hl
        by_cases hr : c.reread = true
        · rw [if_pos hr] at hl; cases hl
        · rw [if_neg hr] at hl hy
          simp only [Pc.lclock, Option.some.injEq] at hl; subst hl
          simp only [Pc.holds, Option.some.injEq] at hy; subst hy
          exact hsup
      · intro lts' w hl; split at hl <;> cases hl
    case rClock2 x lts ln nt k v hpc hv =>
      have hhold : (s.pc t).holds = some x := by rw [hpc]; rfl
      have hlh : (s.pc t).lhead = some (lts, ln) := by rw [hpc]; rfl
      obtain ⟨_, _, g, hg⟩ := h.holdsFresh t x hhold
      have hgv : g ≤ v := Nat.le_trans (ha.supNow x g hg) hv
      refine h.pcStep t _ rfl rfl rfl rfl rfl rfl rfl rfl rfl hv rfl rfl ?_ ?_ ?_ ?_ ?_ ?_
      · left; rw [hpc]; rfl
      · intro lts' ln' hl hln
        simp only [Pc.lhead, Option.some.injEq, Prod.mk.injEq] at hl
        obtain ⟨rfl, rfl⟩ := hl
        exact h.lheadOk t _ _ hlh hln
      · intro w hl; simp only [Pc.lclock, Option.some.injEq] at hl; subst hl; exact Nat.le_refl _
      · intro ln' w hl hln
        simp only [Pc.freshClock] at hl
        split at hl
        · simp only [Option.some.injEq, Prod.mk.injEq] at hl
          obtain ⟨rfl, rfl⟩ := hl
          exact h.stamp_le_clock t lts _ _ hlh hv hln
        · cases hl
      · intro y w hy hl
        simp only [Pc.lclock, Option.some.injEq] at hl; subst hl
        simp only [Pc.holds, Option.some.injEq] at hy; subst hy
        exact ⟨g, hg, hgv⟩
      · intro lts' w hl; cases hl
    case rCasWWin x lts ln v nt k hpc hm =>
      have hhold : (s.pc t).holds = some x := by rw [hpc]; rfl
      obtain ⟨hmn, _⟩ := (headMatches_iff s lts ln).mp hm
      have hvnow : v ≤ s.now := h.lclockNow t v (by rw [hpc]; rfl)
      have hsup := h.lclockSup t x v hhold (by rw [hpc]; rfl)
      refine h.push t x ln v nt k hhold hvnow hsup hmn.symm ?_
      intro hr hn
      have := h.lclockFresh t ln v (by rw [hpc]; simp [Pc.freshClock, hr]) (by rw [← hmn]; exact hn)
      rw [hmn]; exact this
    case rCasWFail x lts ln v nt k hpc =>
      have hhold : (s.pc t).holds = some x := by rw [hpc]; rfl
      have hvnow : v ≤ s.now := h.lclockNow t v (by rw [hpc]; rfl)
      have hsup := h.lclockSup t x v hhold (by rw [hpc]; rfl)
      refine h.pcStep t _ rfl rfl rfl rfl rfl rfl rfl rfl rfl (Nat.le_refl _) rfl rfl ?_ ?_ ?_ ?_ ?_ ?_
      · left; rw [hpc]; split <;> rfl
      · intro lts' ln' hl hln
        have : lts' = s.hts ∧ ln' = s.hnode := by split at hl <;> simpa [Pc.lhead, eq_comm] using hl
        obtain ⟨rfl, rfl⟩ := this
        exact ⟨h.headPushed hln, h.headStamp hln⟩
      · intro w hl
        split at hl
        · cases hl
        · simp only [Pc.lclock, Option.some.injEq] at hl; subst hl; exact hvnow
      · intro ln' w hl
        split at hl
        · cases hl
        · rename_i hr; simp [Pc.freshClock, hr] at hl
      · intro y w hy hl
        by_cases hr : c.reread = true
        · rw [if_pos hr] at hl; cases hl
        · rw [if_neg hr] at hl hy
          simp only [Pc.lclock, Option.some.injEq] at hl; subst hl
          simp only [Pc.holds, Option.some.injEq] at hy; subst hy
          exact hsup
      · intro lts' w hl; split at hl <;> cases hl
    case gLoad hpc =>
      refine h.pcStep t _ rfl rfl rfl rfl rfl rfl rfl rfl rfl (Nat.le_refl _) rfl rfl ?_ ?_ ?_ ?_ ?_ ?_
      · right; rfl
      · intro lts ln hl hln
        simp only [Pc.lhead, Option.some.injEq, Prod.mk.injEq] at hl
        obtain ⟨rfl, rfl⟩ := hl
        exact ⟨h.headPushed hln, h.headStamp hln⟩
      · intro v hl; cases hl
      · intro ln v hl; cases hl
      · intro y v hy; cases hy
      · intro lts v hl; cases hl
    case gClockGo lts ln v hpc hv he =>
      have hlh : (s.pc t).lhead = some (lts, ln) := by rw [hpc]; rfl
      refine h.pcStep t _ rfl rfl rfl rfl rfl rfl rfl rfl rfl hv rfl rfl ?_ ?_ ?_ ?_ ?_ ?_
      · right; rfl
      · intro lts' ln' hl hln
        simp only [Pc.lhead, Option.some.injEq, Prod.mk.injEq] at hl
        obtain ⟨rfl, rfl⟩ := hl
        exact h.lheadOk t _ _ hlh hln
      · intro w hl; simp only [Pc.lclock, Option.some.injEq] at hl; subst hl; exact Nat.le_refl _
      · intro ln' w hl hln
        simp only [Pc.freshClock, Option.some.injEq, Prod.mk.injEq] at hl
        obtain ⟨rfl, rfl⟩ := hl
        exact h.stamp_le_clock t lts _ _ hlh hv hln
      · intro y w hy; cases hy
      · intro lts' w hl
        simp only [Pc.expiring, Option.some.injEq, Prod.mk.injEq] at hl
        obtain ⟨rfl, rfl⟩ := hl
        exact he
    case gClockRet lts ln v hpc hv =>
      refine h.pcStep t .idle rfl rfl rfl rfl rfl rfl rfl rfl rfl hv rfl rfl (Or.inr rfl) ?_ ?_ ?_ ?_ ?_
      · intro _ _ hl; cases hl
      · intro _ hl; cases hl
      · intro _ _ hl; cases hl
      · intro _ _ hy; cases hy
      · intro _ _ hl; cases hl
    case gCasWin lts ln v hpc hm =>
      have hlh : (s.pc t).lhead = some (lts, ln) := by rw [hpc]; rfl
      obtain ⟨hmn, hmt⟩ := (headMatches_iff s lts ln).mp hm
      have hvnow : v ≤ s.now := h.lclockNow t v (by rw [hpc]; rfl)
      rw [gCasWin_eq h ha t ln v hmn.symm]
      have hd : InvR c (detachSt s (some v)) := by
        apply h.detach
        intro w hw
        simp only [Option.some.injEq] at hw; subst hw
        refine ⟨hvnow, fun hn => ?_⟩
        have hln : ln ≠ 0 := by rw [← hmn]; exact hn
        obtain ⟨_, hlts⟩ := h.lheadOk t lts ln hlh hln
        have hfr := h.lclockFresh t ln v (by rw [hpc]; rfl) hln
        have hex := h.expiring t lts v (by rw [hpc]; rfl)
        have hhs := h.headStamp hn
        rw [hmn, ← hlts] at hhs
        have := expired_sound lts (unitOf v) (by rw [hlts]; exact hfr) hex
        have hA : Babylon.Gen.CVec.expireAfter = 1 := rfl
        rw [hA] at this
        omega
      refine hd.pcStep t .idle rfl rfl rfl rfl rfl rfl rfl rfl rfl (Nat.le_refl _) rfl rfl (Or.inr rfl) ?_ ?_ ?_ ?_ ?_
      · intro _ _ hl; cases hl
      · intro _ hl; cases hl
      · intro _ _ hl; cases hl
      · intro _ _ hy; cases hy
      · intro _ _ hl; cases hl
    case gCasFail lts ln v hpc =>
      refine h.pcStep t .idle rfl rfl rfl rfl rfl rfl rfl rfl rfl (Nat.le_refl _) rfl rfl (Or.inr rfl) ?_ ?_ ?_ ?_ ?_
      · intro _ _ hl; cases hl
      · intro _ hl; cases hl
      · intro _ _ hl; cases hl
      · intro _ _ hy; cases hy
      · intro _ _ hl; cases hl
    case sLoad k hpc =>
      cases k <;> exact h.frame rfl rfl rfl rfl rfl rfl rfl rfl (fun _ hx => hx) (Nat.le_refl _) (fun _ _ hf => hf)
        (isR_upd s t _ (by rw [hpc]; rfl) rfl)
    case xLoad hpc =>
      exact h.frame rfl rfl rfl rfl rfl rfl rfl rfl (fun _ hx => hx) (Nat.le_refl _)
        (fun x v hf => freedNone_keeps _ _ x v hf) (isR_upd s t _ (by rw [hpc]; rfl) rfl)
    case xXchg hpc =>
      rw [xXchgSt_eq h ha t]
      have hd : InvR c (detachSt s none) := h.detach none (fun _ hw => by cases hw)
      refine hd.pcStep t .xLoad2 rfl rfl rfl rfl rfl rfl rfl rfl rfl (Nat.le_refl _) rfl rfl (Or.inr rfl) ?_ ?_ ?_ ?_ ?_
      · intro _ _ hl; cases hl
      · intro _ hl; cases hl
      · intro _ _ hl; cases hl
      · intro _ _ hy; cases hy
      · intro _ _ hl; cases hl
    case xLoad2 hpc =>
      exact h.frame rfl rfl rfl rfl rfl rfl rfl rfl (fun _ hx => hx) (Nat.le_refl _)
        (fun x v hf => freedNone_keeps _ _ x v hf) (isR_upd s t _ (by rw [hpc]; rfl) rfl)
  case ensure t i hi hd hx =>
    exact h.frame rfl rfl rfl rfl rfl rfl rfl rfl (fun _ hx => hx) (Nat.le_refl _) (fun _ _ hf => hf)
      (isR_upd s t _ (by rw [hi]; rfl) rfl)
  case reserve t n hi hd hx =>
    exact h.frame rfl rfl rfl rfl rfl rfl rfl rfl (fun _ hx => hx) (Nat.le_refl _) (fun _ _ hf => hf)
      (isR_upd s t _ (by rw [hi]; rfl) rfl)
  case range t b e hi hd hx hbe =>
    exact h.frame rfl rfl rfl rfl rfl rfl rfl rfl (fun _ hx => hx) (Nat.le_refl _) (fun _ _ hf => hf)
      (isR_upd s t _ (by rw [hi]; rfl) rfl)
  case snap t k hi hd hx =>
    exact h.frame rfl rfl rfl rfl rfl rfl rfl rfl (fun _ hx => hx) (Nat.le_refl _) (fun _ _ hf => hf)
      (isR_upd s t _ (by rw [hi]; rfl) rfl)
  case gc t hi hd hx =>
    -- gLoad is a retire-list program counter without any local yet
    refine h.pcStep t .gLoad rfl rfl rfl rfl rfl rfl rfl rfl rfl (Nat.le_refl _) rfl rfl (Or.inr rfl) ?_ ?_ ?_ ?_ ?_
    · intro _ _ hl; cases hl
    · intro _ hl; cases hl
    · intro _ _ hl; cases hl
    · intro _ _ hy; cases hy
    · intro _ _ hl; cases hl
  case destroy t hi hd =>
    exact h.frame rfl rfl rfl rfl rfl rfl rfl rfl (fun _ hx => hx) (Nat.le_refl _) (fun _ _ hf => hf)
      (isR_upd s t _ (by rw [hi t]; rfl) rfl)
  case tick d =>
    exact h.frame rfl rfl rfl rfl rfl rfl rfl rfl (fun _ hx => hx) (Nat.le_add_right _ _) (fun _ _ hf => hf)
      (fun _ => Or.inl rfl)

end Babylon.CVec
