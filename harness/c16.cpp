// E-CONC harness for C16 (ConcurrentExecutionQueue) under VRT.
// usage: c16 <mode> <seed0> <nruns>
//   mode inline       : InplaceExecutor (the first producer becomes the consumer)
//        pool         : ThreadPoolExecutor with 1-2 workers
//        fault-inline : InplaceExecutor behind a fault injector (invoke fails per a PRNG bit-string)
//        fault-pool   : ThreadPoolExecutor behind the same injector
//        stall-inline | stall-pool : directed — producer A parked between index claim and publish for >= 1200
//                       consumer polls while B publishes + signals behind it and a third thread joins
//        wrap-inline | wrap-pool : directed — `_events` preset to 2^32 - k while the first consumer is held inside
//                       the consume function, k signals, one more execute: a counter narrower than 64 bits
//                       overflows and launches a second consumer
// Every run: 1-3 producer threads with programs of execute / signal_push_event / join calls on one
// ConcurrentExecutionQueue<uint64_t> of capacity hint 1-4; the main thread may join() concurrently and
// always joins at the end (after recovering refused launches).
//
// Trace (replayed by lean/Drivers/C16.lean):
//   L1 (atomic lock-step): every operation on `_events` (named "events");
//   queue tie (assumed C01 specification, checked loosely): `pushidx`, `popidx`, `slot+off` lines;
//   L2 events: push <id> | ret execute <rc> | signal | ret signal <rc> | launch accept inline|async |
//              launch refuse | consumer_begin | consumer_end | cb_begin <n> | consume <id> | cb_end |
//              join_begin | join_end.
// Oracle verdicts (evaluated on the implementation, independent of the model): `ev ORACLE <kind> ...`
//   dup, order, invented, overlap, two-consumers, join-early-quiescent, join-early, lost
// Output per run: RUN <seed> cap=<capacity> mode=<mode> ... \n <trace> END
#include "../vrt/vrt.h"

#include <babylon/concurrent/execution_queue.h>
#include <babylon/executor.h>

#include <cstdio>
#include <cstdlib>
#include <cstring>
#include <map>
#include <set>
#include <string>
#include <thread>
#include <vector>

using namespace babylon;

struct Rng {
  uint64_t s;
  explicit Rng(uint64_t x) : s(x * 0x9E3779B97F4A7C15ull + 1) {}
  uint64_t next() {
    s ^= s << 13;
    s ^= s >> 7;
    s ^= s << 17;
    return s * 0x2545F4914F6CDD1Dull;
  }
  uint64_t below(uint64_t n) { return (next() >> 11) % n; }
};

// fault input: the k-th launch attempt is refused iff bit k of the string is set; attempts beyond the
// string are accepted (the executor "recovers")
struct Fault {
  std::vector<int> bits;
  size_t pos = 0;
  size_t refused = 0;
  bool next() {
    bool r = pos < bits.size() && bits[pos];
    ++pos;
    if (r) ++refused;
    return r;
  }
};

using Q = ConcurrentExecutionQueue<uint64_t>;

struct Oracle {
  std::set<uint64_t> submitted;             // push event emitted
  std::set<uint64_t> returned;              // execute() returned
  std::set<uint64_t> consumed;
  std::map<uint64_t, uint64_t> next_seq;    // per producer: next sequence number expected by the consumer
  int in_cb = 0;
  int in_consumer = 0;
  size_t total_refused = 0;
};

// executor wrapper: emits the launch outcome and the consumer begin/end markers, injects refusals, and
// delegates accepted launches to the real InplaceExecutor / ThreadPoolExecutor
class TestExecutor : public Executor {
 public:
  Executor* inner = nullptr;
  bool is_inline = true;
  Fault* fault = nullptr;
  Oracle* orc = nullptr;

 protected:
  int invoke(MoveOnlyFunction<void(void)>&& function) noexcept override {
    if (fault != nullptr && fault->next()) {
      ++orc->total_refused;
      vrt_event("launch refuse");
      return -1;
    }
    vrt_event("launch accept %s", is_inline ? "inline" : "async");
    Oracle* o = orc;
    return inner->submit([o, f = std::move(function)]() mutable {
      vrt_event("consumer_begin");
      if (o->in_consumer++ != 0) vrt_event("ORACLE two-consumers consume_until_empty entered while another one is running");
      f();
      --o->in_consumer;
      vrt_event("consumer_end");
    });
  }
};

static void run_one(uint64_t seed, const std::string& mode) {
  Rng rng(seed);
  bool fault_mode = mode.rfind("fault-", 0) == 0;
  bool use_pool = mode.find("pool") != std::string::npos;
  int nprod = 1 + (int)rng.below(3);
  size_t cap_hint = 1 + rng.below(4);
  int workers = 1 + (int)rng.below(2);
  bool main_joins = rng.below(3) == 0;

  Fault fault;
  if (fault_mode) {
    int len = 1 + (int)rng.below(8);
    int density = 1 + (int)rng.below(3);   // 1/4, 2/4, 3/4
    for (int i = 0; i < len; ++i) fault.bits.push_back(rng.below(4) < (uint64_t)density ? 1 : 0);
  }

  // per-producer programs: e = execute, s = bare signal_push_event, j = join
  std::vector<std::string> prog(nprod);
  for (int p = 0; p < nprod; ++p) {
    int n = 1 + (int)rng.below(4);
    for (int i = 0; i < n; ++i) {
      uint64_t r = rng.below(100);
      prog[p] += r < 70 ? 'e' : (r < 80 ? 's' : 'j');
    }
    if (prog[p].find('e') == std::string::npos) prog[p][0] = 'e';
  }

  Oracle orc;
  Q q;
  ThreadPoolExecutor pool;
  TestExecutor ex;
  ex.orc = &orc;
  ex.is_inline = !use_pool;
  ex.fault = fault_mode ? &fault : nullptr;
  ex.inner = use_pool ? static_cast<Executor*>(&pool) : static_cast<Executor*>(&InplaceExecutor::instance());

  q.initialize(cap_hint, ex, [&](Q::Iterator begin, Q::Iterator end) {
    vrt_event("cb_begin %zd", (ssize_t)(end - begin));
    if (orc.in_cb++ != 0) vrt_event("ORACLE overlap consume function entered while another invocation is running");
    for (auto it = begin; it != end; ++it) {
      uint64_t id = *it;
      vrt_event("consume %lu", (unsigned long)id);
      if (!orc.submitted.count(id)) vrt_event("ORACLE invented item %lu was never submitted", (unsigned long)id);
      if (!orc.consumed.insert(id).second) vrt_event("ORACLE dup item %lu delivered twice", (unsigned long)id);
      uint64_t p = id / 100, seq = id % 100;
      if (orc.next_seq[p] != seq)
        vrt_event("ORACLE order producer %lu: item %lu delivered, expected sequence number %lu", (unsigned long)p,
                  (unsigned long)id, (unsigned long)orc.next_seq[p]);
      orc.next_seq[p] = seq + 1;
    }
    --orc.in_cb;
    vrt_event("cb_end");
  });
  size_t cap = q.capacity();

  vrt_unname_all();
  vrt_name(&q._events, sizeof(q._events), "events");
  vrt_name(&q._queue._next_push_index, sizeof(size_t), "pushidx");
  vrt_name(&q._queue._next_pop_index, sizeof(size_t), "popidx");
  vrt_name(&q._queue._slots.futex(0), (cap - 1) * sizeof(Q::Queue::Slot) + sizeof(uint32_t), "slot");

  // join with the property's oracle: everything whose execute() had returned when join() was called is
  // consumed when it returns — claimed only while launches are accepted
  auto do_join = [&](const char* kind) {
    std::set<uint64_t> snap = orc.returned;
    size_t refused_before = orc.total_refused;
    vrt_event("join_begin");
    q.join();
    vrt_event("join_end");
    if (refused_before != 0 || orc.total_refused != 0) return;
    for (uint64_t id : snap) {
      if (!orc.consumed.count(id)) {
        vrt_event("ORACLE %s join() returned but item %lu, whose execute() returned before the join began, is not consumed", kind,
                  (unsigned long)id);
        break;
      }
    }
  };
  auto recover = [&](Rng& r) {
    // a refused launch left events = 0: signal again (after a few yields) until a launch is accepted
    int spins = 0;
    for (;;) {
      for (int y = (int)r.below(3); y > 0; --y) sched_yield();
      vrt_event("signal");
      int rc = q.signal_push_event();
      vrt_event("ret signal %d", rc);
      if (rc == 0) break;
      if (++spins > 64) {
        vrt_event("ORACLE refused signal_push_event failed 64 times although the injector's bit-string has at most 8 bits");
        break;
      }
    }
  };

  vrt_yield_time(1);   // only matters for code that yield-spins on a usleep-spinning thread
  vrt_begin(seed);
  printf("RUN %lu cap=%zu mode=%s prods=%d workers=%d faultbits=", (unsigned long)seed, cap, mode.c_str(), nprod, use_pool ? workers : 0);
  for (int b : fault.bits) printf("%d", b);
  printf("-");
  for (int p = 0; p < nprod; ++p) printf(" p%d=%s", p + 1, prog[p].c_str());
  printf("\n");
  if (use_pool) {
    pool.set_worker_number(workers);
    pool.set_global_capacity(8);
    pool.start();
  }
  std::vector<std::thread> ts;
  for (int p = 0; p < nprod; ++p) {
    uint64_t tseed = rng.next();
    ts.emplace_back([&, p, tseed] {
      Rng r(tseed);
      uint64_t seq = 0;
      for (char op : prog[p]) {
        if (op == 'e') {
          uint64_t id = (uint64_t)(p + 1) * 100 + seq++;
          orc.submitted.insert(id);
          vrt_event("push %lu", (unsigned long)id);
          int rc = q.execute(id);
          vrt_event("ret execute %d", rc);
          orc.returned.insert(id);
          if (rc != 0) recover(r);
        } else if (op == 's') {
          vrt_event("signal");
          int rc = q.signal_push_event();
          vrt_event("ret signal %d", rc);
          if (rc != 0) recover(r);
        } else {
          do_join("join-early");
        }
      }
    });
  }
  if (main_joins) do_join("join-early");
  for (auto& t : ts) t.join();
  // quiescent: no execute in flight any more; every refused launch was followed by an accepted signal
  do_join("join-early-quiescent");
  for (uint64_t id : orc.submitted)
    if (!orc.consumed.count(id)) {
      vrt_event("ORACLE lost item %lu was never delivered (refusals injected: %zu, all recovered by an accepted signal)", (unsigned long)id,
                orc.total_refused);
      break;
    }
  if (use_pool) pool.stop();
  vrt_event("stats steps %lu switches %lu refusals_injected %zu", vrt_steps(), vrt_switches(), orc.total_refused);
  vrt_end();
  vrt_dump(stdout);
}

// ---------------------------------------------------------------------------------------------
// Directed modes stall-inline / stall-pool: producer A is parked between claiming its queue index and
// publishing its slot (the item type's copy assignment — which execute(const T&) runs exactly there —
// blocks for STALL_MS virtual milliseconds, one usleep(1000) at a time, so the consumer gets at least
// one poll per millisecond: >= STALL_MS polls, far beyond any plausible bounded spin).  Meanwhile
// producer B pushes behind it, publishes and signals, and a third thread joins once B's execute()
// has returned.  The join oracle must hold: B's item is consumed when join() returns.
static int g_stall_ms = 0;          // remaining virtual ms the next slow assignment blocks
static bool g_in_assign = false;    // A is parked between index claim and publish
struct SlowItem {
  uint64_t id = 0;
  SlowItem() = default;
  explicit SlowItem(uint64_t i) : id(i) {}
  SlowItem(const SlowItem&) = default;
  SlowItem& operator=(const SlowItem& o) {
    if (o.id == 100 && g_stall_ms > 0) {
      g_in_assign = true;
      vrt_event("stall_begin");
      while (g_stall_ms > 0) {
        --g_stall_ms;
        usleep(1000);
      }
      vrt_event("stall_end");
      g_in_assign = false;
    }
    id = o.id;
    return *this;
  }
};
static_assert(sizeof(SlowItem) == sizeof(uint64_t), "slot layout must match the uint64_t queue the translator probes");

static void run_stall(uint64_t seed, const std::string& mode) {
  using QS = ConcurrentExecutionQueue<SlowItem>;
  constexpr int STALL_MS = 1200;
  Rng rng(seed);
  bool use_pool = mode.find("pool") != std::string::npos;
  size_t cap_hint = 2 + rng.below(3);
  bool b_joins_itself = rng.below(2) == 0;
  Oracle orc;
  QS q;
  ThreadPoolExecutor pool;
  TestExecutor ex;
  ex.orc = &orc;
  ex.is_inline = !use_pool;
  ex.inner = use_pool ? static_cast<Executor*>(&pool) : static_cast<Executor*>(&InplaceExecutor::instance());
  q.initialize(cap_hint, ex, [&](QS::Iterator begin, QS::Iterator end) {
    vrt_event("cb_begin %zd", (ssize_t)(end - begin));
    if (orc.in_cb++ != 0) vrt_event("ORACLE overlap consume function entered while another invocation is running");
    for (auto it = begin; it != end; ++it) {
      uint64_t id = it->id;
      vrt_event("consume %lu", (unsigned long)id);
      if (!orc.submitted.count(id)) vrt_event("ORACLE invented item %lu was never submitted", (unsigned long)id);
      if (!orc.consumed.insert(id).second) vrt_event("ORACLE dup item %lu delivered twice", (unsigned long)id);
    }
    --orc.in_cb;
    vrt_event("cb_end");
  });
  size_t cap = q.capacity();
  vrt_unname_all();
  vrt_name(&q._events, sizeof(q._events), "events");
  vrt_name(&q._queue._next_push_index, sizeof(size_t), "pushidx");
  vrt_name(&q._queue._next_pop_index, sizeof(size_t), "popidx");
  vrt_name(&q._queue._slots.futex(0), (cap - 1) * sizeof(QS::Queue::Slot) + sizeof(uint32_t), "slot");
  auto do_join = [&](const char* kind) {
    std::set<uint64_t> snap = orc.returned;
    vrt_event("join_begin");
    q.join();
    vrt_event("join_end");
    for (uint64_t id : snap)
      if (!orc.consumed.count(id)) {
        vrt_event("ORACLE %s join() returned but item %lu, whose execute() returned before the join began, is not consumed "
                  "(producer of an earlier index parked between index claim and publish: %s)",
                  kind, (unsigned long)id, g_in_assign ? "yes" : "no");
        break;
      }
  };
  auto do_execute = [&](uint64_t id) {
    SlowItem item(id);
    orc.submitted.insert(id);
    vrt_event("push %lu", (unsigned long)id);
    int rc = q.execute(item);
    vrt_event("ret execute %d", rc);
    orc.returned.insert(id);
  };
  g_stall_ms = STALL_MS;
  g_in_assign = false;
  bool b_returned = false;
  vrt_yield_time(1);
  vrt_begin(seed);
  printf("RUN %lu cap=%zu mode=%s prods=2 workers=%d stall_ms=%d bjoins=%d\n", (unsigned long)seed, cap, mode.c_str(), use_pool ? 1 : 0,
         STALL_MS, (int)b_joins_itself);
  if (use_pool) {
    pool.set_worker_number(1);
    pool.set_global_capacity(8);
    pool.start();
  }
  std::thread a([&] { do_execute(100); });
  while (!g_in_assign) usleep(100);
  std::thread b([&] {
    do_execute(200);
    b_returned = true;
    if (b_joins_itself) do_join("join-early");
  });
  std::thread j([&] {
    while (!b_returned) usleep(100);
    do_join("join-early");
  });
  a.join();
  b.join();
  j.join();
  do_join("join-early-quiescent");
  for (uint64_t id : orc.submitted)
    if (!orc.consumed.count(id)) {
      vrt_event("ORACLE lost item %lu was never delivered", (unsigned long)id);
      break;
    }
  if (use_pool) pool.stop();
  vrt_event("stats steps %lu switches %lu refusals_injected 0", vrt_steps(), vrt_switches());
  vrt_end();
  vrt_dump(stdout);
}

// ---------------------------------------------------------------------------------------------
// Directed modes wrap-inline / wrap-pool: an overflow of the event counter is brought within reach.  The
// first consumer is held inside the consume function; `_events` is then overwritten with 2^32 - k (plain
// store while nobody else runs; traced as `ev preset_events`), k signals follow, then one more execute().
// With the 64-bit counter nothing special happens (the counter passes 2^32); with a counter narrowed to
// 32 bits the k-th signal wraps it to 0 and the execute() launches a second consumer while the first
// one is still inside the consume function: the two-consumers / overlap oracles fire.
static void run_wrap(uint64_t seed, const std::string& mode) {
  Rng rng(seed);
  bool use_pool = mode.find("pool") != std::string::npos;
  unsigned k = 1 + (unsigned)rng.below(4);
  Oracle orc;
  Q q;
  ThreadPoolExecutor pool;
  TestExecutor ex;
  ex.orc = &orc;
  ex.is_inline = !use_pool;
  ex.inner = use_pool ? static_cast<Executor*>(&pool) : static_cast<Executor*>(&InplaceExecutor::instance());
  bool gate = false, held = false;
  q.initialize(4, ex, [&](Q::Iterator begin, Q::Iterator end) {
    vrt_event("cb_begin %zd", (ssize_t)(end - begin));
    if (orc.in_cb++ != 0) vrt_event("ORACLE overlap consume function entered while another invocation is running");
    for (auto it = begin; it != end; ++it) {
      uint64_t id = *it;
      vrt_event("consume %lu", (unsigned long)id);
      if (!orc.submitted.count(id)) vrt_event("ORACLE invented item %lu was never submitted", (unsigned long)id);
      if (!orc.consumed.insert(id).second) vrt_event("ORACLE dup item %lu delivered twice", (unsigned long)id);
      if (id == 100) {
        held = true;
        while (!gate) usleep(1000);   // the first consumer activation lasts as long as the test needs
        held = false;
      }
    }
    --orc.in_cb;
    vrt_event("cb_end");
  });
  size_t cap = q.capacity();
  vrt_unname_all();
  vrt_name(&q._events, sizeof(q._events), "events");
  vrt_name(&q._queue._next_push_index, sizeof(size_t), "pushidx");
  vrt_name(&q._queue._next_pop_index, sizeof(size_t), "popidx");
  vrt_name(&q._queue._slots.futex(0), (cap - 1) * sizeof(Q::Queue::Slot) + sizeof(uint32_t), "slot");
  auto do_execute = [&](uint64_t id) {
    orc.submitted.insert(id);
    vrt_event("push %lu", (unsigned long)id);
    int rc = q.execute(id);
    vrt_event("ret execute %d", rc);
    orc.returned.insert(id);
  };
  vrt_yield_time(1);
  vrt_begin(seed);
  printf("RUN %lu cap=%zu mode=%s prods=2 workers=%d k=%u events_bytes=%zu\n", (unsigned long)seed, cap, mode.c_str(), use_pool ? 2 : 0, k,
         sizeof(q._events));
  if (use_pool) {
    pool.set_worker_number(2);
    pool.set_global_capacity(8);
    pool.start();
  }
  std::thread a([&] { do_execute(100); });
  while (!held) usleep(100);
  {
    using EV = decltype(q._events.load());
    EV v = (EV)((1ull << 32) - k);
    vrt_event("preset_events %llu", (unsigned long long)v);
    memcpy((void*)&q._events, &v, sizeof v);
  }
  for (unsigned i = 0; i < k; ++i) {
    vrt_event("signal");
    int rc = q.signal_push_event();
    vrt_event("ret signal %d", rc);
  }
  std::thread b([&] { do_execute(300); });
  // give a wrongly launched second consumer every chance to run while the first one is still held
  for (int i = 0; i < 20; ++i) usleep(1000);
  gate = true;
  a.join();
  b.join();
  vrt_event("join_begin");
  q.join();
  vrt_event("join_end");
  for (uint64_t id : orc.submitted)
    if (!orc.consumed.count(id)) {
      vrt_event("ORACLE lost item %lu was never delivered", (unsigned long)id);
      break;
    }
  if (use_pool) pool.stop();
  vrt_event("stats steps %lu switches %lu refusals_injected 0", vrt_steps(), vrt_switches());
  vrt_end();
  vrt_dump(stdout);
}

int main(int argc, char** argv) {
  std::string mode = argc > 1 ? argv[1] : "inline";
  uint64_t seed0 = argc > 2 ? strtoull(argv[2], 0, 10) : 1;
  int nruns = argc > 3 ? atoi(argv[3]) : 1;
  bool stall = mode == "stall-inline" || mode == "stall-pool";
  bool wrap = mode == "wrap-inline" || mode == "wrap-pool";
  if (!stall && !wrap && mode != "inline" && mode != "pool" && mode != "fault-inline" && mode != "fault-pool") return 2;
  for (int i = 0; i < nruns; ++i) {
    if (stall) run_stall(seed0 + i, mode); else if (wrap) run_wrap(seed0 + i, mode); else run_one(seed0 + i, mode);
  }
  return 0;
}
