// E-CONC harness for C13 (coroutines: coroutine futex, cancellable wrapper, task / future awaits)
// on the real code under VRT.
// usage: c13 <mode> <seed0> <nruns>      or      c13 <mode> corpus <name>
//   mode futex  : 1-2 coroutine futexes, 1-4 waiter coroutines (1-3 waits each) on the inplace executor
//                 and on 1-2 thread pools, 1-3 client threads mixing wake_one / wake_all / cancel (fresh
//                 and stale tokens) / value changes, then a drain.  Trace = the atomic points of the
//                 protocol (mutex lock/unlock, DepositBox slot version store / take CAS, slot id pop /
//                 mint / push, plain accesses to Node::next outside... all `next` accesses) + harness events.
//                 Replayed in lock-step by lean/Drivers/C13.lean.
//   mode cancel : Cancellable<A> wrapper: completion racing with cancellation (L2 events)
//   mode await  : task awaiting task across executors, task awaiting future (L2 events)
// Output per run:  RUN <seed> mode=<mode> ...\n <trace lines> END
// Oracle verdicts are harness events `ev ORACLE <kind> ...` in the trace.
#include "../vrt/vrt.h"

#include <babylon/coroutine/cancelable.h>
#include <babylon/coroutine/futex.h>
#include <babylon/executor.h>
#include <babylon/future.h>

#include <sched.h>
#include <signal.h>
#include <unistd.h>

#include <atomic>
#include <cstdio>
#include <cstdlib>
#include <cstring>
#include <memory>
#include <string>
#include <thread>
#include <vector>

using namespace babylon;
using CoFutex = ::babylon::coroutine::Futex;
using CoNode = CoFutex::Node;
using NodeBox = DepositBox<CoNode>;
using VId = VersionedValue<uint32_t>;
using ::babylon::coroutine::Cancellable;
using ::babylon::coroutine::BasicCancellable;

#define NOTSAN __attribute__((no_sanitize("thread"), noinline))

// A finished harness coroutine is never destroyed: it parks here for ever.  A resumption that arrives
// although the suspension it belongs to was already resumed then lands on a live frame and is
// reported (instead of running a destroyed frame).
struct ParkForever {
  const char* what;
  int id;
  bool await_ready() const noexcept { return false; }
  void await_suspend(std::coroutine_handle<>) const noexcept {}
  void await_resume() const noexcept { vrt_event("ORACLE double-resume %s %d was resumed although it has no suspension outstanding", what, id); }
};
#define PARK(what, id) co_await ::babylon::coroutine::BasicPromise::NoTransformation<ParkForever> {ParkForever {what, id}}

// a crash (the implementation ran into undefined behaviour) still delivers the trace of the run
static void on_crash(int sig) {
  static volatile int once = 0;
  if (once) _exit(43);
  once = 1;
  vrt_event("VERDICT-crash signal %d", sig);
  fputs(vrt_trace(), stdout);
  fputs("VERDICT crash signal\nEND\n", stdout);
  fflush(stdout);
  _exit(43);
}

struct Rng {
  uint64_t s;
  explicit Rng(uint64_t x) : s(x * 0x9E3779B97F4A7C15ull + 1) {}
  uint64_t next() {
    s ^= s << 13;
    s ^= s >> 7;
    s ^= s << 17;
    return s * 0x2545F4914F6CDD1Dull;
  }
  uint64_t below(uint64_t n) { return (next() >> 11) % n; }
};

// ---------------------------------------------------------------------------------------------
// A user-derived executor that sometimes refuses the closure.  BasicExecutor contract: `invoke` returns 0
// when the function was taken (and will be called), any other code - positive or negative - when it was
// neither moved nor called; the library must then resume the coroutine in place.  Accepted closures run
// inline under this executor's RunnerScope.  The first closures (the starts of the coroutines, while
// `starting` is set) are always accepted, because Executor::submit destroys a task whose start is refused.
static thread_local bool t_rejected = false;
static thread_local bool t_starting = false;
struct FaultyExecutor : public Executor {
  uint64_t pattern = 0;
  std::atomic<int> calls {0};
  int invoke(MoveOnlyFunction<void(void)>&& function) noexcept override {
    int k = calls.fetch_add(1, std::memory_order_relaxed);
    int code = 0;
    bool starting = t_starting;
    t_starting = false;
    if (!starting) {
      switch ((pattern >> (2 * (k % 24))) & 3) {
        case 1: code = 1; break;
        case 2: code = 11; break;    // EAGAIN
        case 3: code = -1; break;
        default: code = 0;
      }
    }
    if (code != 0) {
      vrt_event("xreject e9 %d", code);
      t_rejected = true;
      return code;
    }
    RunnerScope scope {*this};
    function();
    return 0;
  }
};

// executors: index 0 = inplace, 1.. = pools, 9 = the fault-injecting executor
struct Execs {
  std::vector<std::unique_ptr<ThreadPoolExecutor>> pools;
  FaultyExecutor faulty;
  Executor& at(int e) {
    if (e == 0) return InplaceExecutor::instance();
    if (e == 9) return faulty;
    return *pools[e - 1];
  }
  // submit a new coroutine: the closure that starts it is never refused
  template <typename T>
  void submit(int e, T&& task) {
    t_starting = true;
    at(e).submit(std::forward<T>(task));
    t_starting = false;
  }
  // a third of the runs use the fault-injecting executor; the choice leaves the random program of a seed
  // as it is
  bool faults(uint64_t seed) {
    if (seed % 3 != 0) return false;
    Rng f(seed ^ 0xFA17FA17ull);
    faulty.pattern = f.next();
    return true;
  }
  // does the continuation run where it must?  In place (anywhere) is right exactly when the bound
  // executor has just refused the closure on this thread; a coroutine that was resumed in place stays
  // there (same thread) until it suspends again.
  struct Place {
    bool inplace = false;
    pthread_t th {};
  };
  bool placed_ok(int bound, Place& p) {
    int e = current();
    bool rej = t_rejected;
    t_rejected = false;
    if (bound == 9 && rej) {
      p.inplace = true;
      p.th = pthread_self();
      return true;
    }
    if (p.inplace && pthread_equal(p.th, pthread_self()) && e != bound) return true;   // continues inline
    p.inplace = false;
    return e == bound;
  }
  int index_of(BasicExecutor* b) {
    if (b == nullptr) return -1;
    if (b == static_cast<BasicExecutor*>(&InplaceExecutor::instance())) return 0;
    if (b == static_cast<BasicExecutor*>(&faulty)) return 9;
    for (size_t i = 0; i < pools.size(); ++i)
      if (b == static_cast<BasicExecutor*>(pools[i].get())) return (int)i + 1;
    return 99;
  }
  int current() { return index_of(BasicExecutor::current()); }
  void start(int npools, Rng& rng) {
    for (int i = 0; i < npools; ++i) {
      pools.emplace_back(new ThreadPoolExecutor);
      pools.back()->set_worker_number(1 + rng.below(2));
      pools.back()->set_global_capacity(64);
      pools.back()->start();
    }
  }
  void stop() {
    for (auto& p : pools) p->stop();
    pools.clear();
  }
};

// ---------------------------------------------------------------------------------------------
// DepositBox<Node> is a process-wide singleton: put it into a canonical state before each run so a
// run depends on its seed only.  K slots exist; ids 0..minted-1 are on the free list (0 first),
// the others will be minted by fetch_add.
constexpr int K = 16;
constexpr uint32_t VER0 = 1000;

static NodeBox::Slot* slot_ptr(int i) { return &NodeBox::instance()._slots.ensure(i); }
static CoNode* g_node[K + 64];   // address of the Node object inside slot i (fixed for the life of the process)

static void reset_box(int minted) {
  auto& box = NodeBox::instance();
  auto& al = box._slot_id_allocator;
  al._free_next_value.ensure(K + 63);
  for (int i = 0; i < K + 64; ++i) {
    al._free_next_value.ensure(i).store(i + 1 < minted ? i + 1 : IdAllocator<uint32_t>::FREE_LIST_TAIL,
                                        std::memory_order_relaxed);
  }
  for (int i = 0; i < K + 64; ++i) {
    auto* s = slot_ptr(i);
    s->version.store(0, std::memory_order_relaxed);
    s->object.emplace();
    g_node[i] = &*s->object;
  }
  al._next_value = minted;
  VId head;
  head.value = minted > 0 ? 0 : IdAllocator<uint32_t>::FREE_LIST_TAIL;
  head.version = VER0;
  al._free_head = head;
}

// raw, uninstrumented inspection (no scheduling point, atomic w.r.t. the VRT scheduler)
NOTSAN static uint32_t raw_version(int i) {
  return __atomic_load_n(reinterpret_cast<uint32_t*>(&slot_ptr(i)->version), __ATOMIC_RELAXED);
}
NOTSAN static CoNode* raw_node(int i) {
  return g_node[i];
}
NOTSAN static int slot_of(CoNode* n) {
  for (int i = 0; i < K + 64; ++i)
    if (raw_node(i) == n) return i;
  return -1;
}
// number of allocated slot ids = minted - length of the free list
NOTSAN static int raw_allocated() {
  auto& al = NodeBox::instance()._slot_id_allocator;
  uint32_t nv = __atomic_load_n(&al._next_value, __ATOMIC_RELAXED);
  uint64_t h = __atomic_load_n(&al._free_head.version_and_value, __ATOMIC_RELAXED);
  uint32_t v = (uint32_t)h;
  int len = 0;
  while (v != IdAllocator<uint32_t>::FREE_LIST_TAIL && len < 100000) {
    ++len;
    v = __atomic_load_n(reinterpret_cast<uint32_t*>(&al._free_next_value.ensure(v)), __ATOMIC_RELAXED);
  }
  return (int)nv - len;
}
NOTSAN static uint32_t raw_minted() {
  return __atomic_load_n(&NodeBox::instance()._slot_id_allocator._next_value, __ATOMIC_RELAXED);
}

// ---------------------------------------------------------------------------------------------
// futex mode
enum FState { F_NEW, F_RUNNING, F_WAITING, F_DONE };

struct Wait {
  int f;
  uint64_t v;
};
struct FrameSt {
  int exec = 0;
  Execs::Place place;
  std::vector<Wait> waits;
  void* addr = nullptr;              // coroutine frame address (handle.address())
  volatile int state = F_NEW;
  volatile int round = -1;
  volatile int resumes = 0;          // continuations after a co_await
  std::atomic<uint64_t> tok[4];      // published cancellation tokens, 0 = none (id.version_and_value + 1)
};

enum OpKind { OP_WAKE_ONE, OP_WAKE_ALL, OP_CANCEL, OP_SET, OP_YIELD, OP_NAP };
struct Op {
  OpKind k;
  int f = 0;
  uint64_t v = 0;
  int h = 0, r = 0;
};

struct World {
  int nfut = 1;
  std::vector<std::unique_ptr<CoFutex>> fut;
  std::vector<std::unique_ptr<FrameSt>> fr;
  std::vector<std::vector<Op>> clients;
  Execs ex;
  bool has_set = false;
};

// which waits (slot, version) are linked on futex f and not taken, as the implementation's own
// data structures say right now
struct Linked {
  int n = 0;
  int slot[64];
  uint32_t ver[64];
};
NOTSAN static void raw_linked(CoFutex* fx, Linked* out) {
  out->n = 0;
  CoNode* node = fx->_awaiter_head.next;
  int guard = 0;
  while (node != nullptr && guard++ < 64) {
    int i = slot_of(node);
    if (i >= 0 && node->id.value == (uint32_t)i && raw_version(i) == node->id.version) {
      out->slot[out->n] = i;
      out->ver[out->n] = node->id.version;
      out->n++;
    }
    node = node->next;
  }
}
// is a wait of the coroutine at `addr` linked and not taken anywhere?
NOTSAN static int raw_pending_wait_of(World* w, void* addr) {
  for (auto& fx : w->fut) {
    CoNode* node = fx->_awaiter_head.next;
    int guard = 0;
    while (node != nullptr && guard++ < 64) {
      int i = slot_of(node);
      if (i >= 0 && node->handle.address() == addr && node->id.value == (uint32_t)i &&
          raw_version(i) == node->id.version)
        return i;
      node = node->next;
    }
  }
  return -1;
}

static coroutine::Task<> frame_body(World* w, int h) {
  FrameSt& me = *w->fr[h];
  me.state = F_RUNNING;
  vrt_event("start %d e%d", h, w->ex.current());
  if (w->ex.current() != me.exec) vrt_event("ORACLE wrong-executor frame %d started on e%d, bound to e%d", h, w->ex.current(), me.exec);
  for (size_t r = 0; r < me.waits.size(); ++r) {
    Wait wt = me.waits[r];
    me.round = (int)r;
    me.state = F_WAITING;
    uint64_t seen = w->fut[wt.f]->atomic_value().load(std::memory_order_relaxed);
    int tid0 = vrt_tid();
    vrt_event("wait %d %d %lu", h, wt.f, (unsigned long)wt.v);
    co_await w->fut[wt.f]->wait(wt.v).on_suspend([w, h, r](CoFutex::Cancellation&& c) {
      // a waker may already have resumed the coroutine (the awaitable and this closure are gone
      // then): locals only after the first statement
      FrameSt* fs = w->fr[h].get();
      int lh = h;
      size_t lr = r;
      VId id = c._id;
      vrt_event("token %d %u %u", lh, id.value, id.version);
      fs->tok[lr].store(id.version_and_value + 1, std::memory_order_release);
    });
    if (me.state != F_WAITING) vrt_event("ORACLE double-resume frame %d continued while not waiting (state %d)", h, me.state);
    me.state = F_RUNNING;
    me.resumes = me.resumes + 1;
    int e = w->ex.current();
    vrt_event("resumed %d e%d", h, e);
    if (!w->ex.placed_ok(me.exec, me.place)) vrt_event("ORACLE wrong-executor frame %d resumed on e%d, bound to e%d", h, e, me.exec);
    int still = raw_pending_wait_of(w, me.addr);
    if (still >= 0) vrt_event("ORACLE spurious-resume frame %d runs while its wait (slot %d) is still linked and not taken", h, still);
    if (!w->has_set && seen != wt.v) {
      // nobody ever changes the futex words in this program: a non-matching wait must not suspend
      if (vrt_tid() != tid0 || me.tok[r].load(std::memory_order_relaxed) != 0)
        vrt_event("ORACLE nonmatching-suspended frame %d wait(%lu) on value %lu", h, (unsigned long)wt.v, (unsigned long)seen);
    }
  }
  me.state = F_DONE;
  vrt_event("done %d", h);
  for (;;) PARK("frame", h);
}

static void client_op(World* w, const Op& op) {
  switch (op.k) {
    case OP_WAKE_ONE:
    case OP_WAKE_ALL: {
      Linked before, after;
      raw_linked(w->fut[op.f].get(), &before);
      bool one = op.k == OP_WAKE_ONE;
      vrt_event("call %s %d", one ? "wake_one" : "wake_all", op.f);
      int n = one ? w->fut[op.f]->wake_one() : w->fut[op.f]->wake_all();
      vrt_event("ret %s %d", one ? "wake_one" : "wake_all", n);
      raw_linked(w->fut[op.f].get(), &after);
      // a wait that was linked and not taken before the call and still is after it was eligible
      // during the whole call
      for (int i = 0; i < before.n; ++i)
        for (int j = 0; j < after.n; ++j)
          if (before.slot[i] == after.slot[j] && before.ver[i] == after.ver[j]) {
            if (!one) vrt_event("ORACLE wake_all-missed slot %d stayed linked and untaken across wake_all (returned %d)", before.slot[i], n);
            else if (n == 0) vrt_event("ORACLE wake_one-missed slot %d stayed linked and untaken across wake_one which returned 0", before.slot[i]);
          }
      break;
    }
    case OP_CANCEL: {
      uint64_t t = w->fr[op.h]->tok[op.r].load(std::memory_order_acquire);
      if (t == 0) {
        sched_yield();
        break;
      }
      VId id(t - 1);
      vrt_event("call cancel %u %u", id.value, id.version);
      bool ok = CoFutex::Awaitable::cancel(id);
      vrt_event("ret cancel %d", ok ? 1 : 0);
      break;
    }
    case OP_SET:
      vrt_event("call set %d %lu", op.f, (unsigned long)op.v);
      w->fut[op.f]->atomic_value().store(op.v, std::memory_order_release);
      vrt_event("ret set");
      break;
    case OP_YIELD:
      sched_yield();
      break;
    case OP_NAP:
      usleep(50);
      break;
  }
}

static void name_world(World* w) {
  vrt_unname_all();
  auto& al = NodeBox::instance()._slot_id_allocator;
  vrt_name(&al._free_head, sizeof(al._free_head), "fh");
  vrt_name(&al._next_value, sizeof(al._next_value), "nv");
  for (int i = 0; i < K + 64; ++i) {
    auto* s = slot_ptr(i);
    CoNode* n = g_node[i];
    vrt_namef(&s->version, sizeof(s->version), "ver%d", i);
    vrt_namef(n, sizeof(CoNode), "nd%d", i);
    vrt_namef(&n->next, sizeof(n->next), "nx%d", i);
    vrt_payload(&n->next, sizeof(n->next), "next");
  }
  for (int f = 0; f < w->nfut; ++f) {
    vrt_namef(&w->fut[f]->_mutex, sizeof(w->fut[f]->_mutex), "m%d", f);
    vrt_namef(&w->fut[f]->_value, sizeof(w->fut[f]->_value), "val%d", f);
    vrt_namef(&w->fut[f]->_awaiter_head, sizeof(w->fut[f]->_awaiter_head), "hd%d", f);
  }
}

static void start_frame(World* w, int h) {
  auto task = frame_body(w, h);
  w->fr[h]->addr = task.handle().address();
  vrt_event("spawn %d e%d", h, w->fr[h]->exec);
  w->ex.submit(w->fr[h]->exec, std::move(task));
}

static bool all_done(World* w) {
  for (auto& f : w->fr)
    if (f->state != F_DONE) return false;
  return true;
}

// build the world of one run from its seed, or from a fixed corpus program
static void gen_program(World* w, Rng& rng, int* npools, int* minted) {
  w->nfut = 1 + (rng.below(4) == 0);
  int nframes = 1 + (int)rng.below(4);
  *npools = (int)rng.below(3);
  *minted = (int[]) {0, 2, K}[rng.below(3)];
  int setp = (int)rng.below(3);   // 0: never change the futex words
  for (int h = 0; h < nframes; ++h) {
    w->fr.emplace_back(new FrameSt);
    FrameSt& f = *w->fr.back();
    f.exec = (int)rng.below(*npools + 1);
    int nw = 1 + (int)rng.below(3);
    for (int r = 0; r < nw; ++r) f.waits.push_back({(int)rng.below(w->nfut), rng.below(5) == 0 ? 1u : 0u});
    for (auto& t : f.tok) t.store(0, std::memory_order_relaxed);
  }
  int nclients = 1 + (int)rng.below(3);
  for (int c = 0; c < nclients; ++c) {
    std::vector<Op> ops;
    int nops = 2 + (int)rng.below(6);
    for (int i = 0; i < nops; ++i) {
      Op op;
      int k = (int)rng.below(100);
      if (k < 28) op.k = OP_WAKE_ONE;
      else if (k < 50) op.k = OP_WAKE_ALL;
      else if (k < 78) op.k = OP_CANCEL;
      else if (k < 84 && setp) op.k = OP_SET;
      else if (k < 92) op.k = OP_YIELD;
      else op.k = OP_NAP;
      op.f = (int)rng.below(w->nfut);
      op.v = rng.below(2);
      op.h = (int)rng.below(nframes);
      op.r = (int)rng.below(w->fr[op.h]->waits.size());
      if (op.k == OP_SET) w->has_set = true;
      ops.push_back(op);
    }
    w->clients.push_back(ops);
  }
}

static void run_futex(uint64_t seed, const char* corpus) {
  World* w = new World;   // leaked on purpose when a coroutine stays suspended forever
  Rng rng(seed);
  int npools = 0, minted = K;
  if (corpus == nullptr) {
    gen_program(w, rng, &npools, &minted);
    if (w->ex.faults(seed)) {
      Rng f(seed ^ 0xE9E9ull);
      bool any = false;
      for (auto& fr : w->fr)
        if (f.below(2) == 0) fr->exec = 9, any = true;
      if (!any) w->fr[0]->exec = 9;
    }
  } else if (!strcmp(corpus, "wake_all_reuse")) {
    // two waiters on futex 0; wake_all from a client while another coroutine keeps waiting again:
    // the slot wake_all has just finished is re-emplaced while wake_all still walks its list
    w->nfut = 1;
    npools = 1;
    minted = 2;
    for (int h = 0; h < 3; ++h) {
      w->fr.emplace_back(new FrameSt);
      w->fr.back()->exec = h == 2 ? 1 : 0;
      int nw = h == 2 ? 3 : 1;
      for (int r = 0; r < nw; ++r) w->fr.back()->waits.push_back({0, 0});
      for (auto& t : w->fr.back()->tok) t.store(0, std::memory_order_relaxed);
    }
    w->clients.push_back({Op {OP_WAKE_ALL}, Op {OP_WAKE_ALL}});
    w->clients.push_back({Op {OP_WAKE_ONE}, Op {OP_YIELD}, Op {OP_WAKE_ALL}});
  } else if (!strcmp(corpus, "wake_one_cancelled_head")) {
    // defect #3 (repaired): the head waiter's slot is taken by a canceller that has not unlinked yet
    w->nfut = 1;
    npools = 0;
    minted = K;
    for (int h = 0; h < 2; ++h) {
      w->fr.emplace_back(new FrameSt);
      w->fr.back()->exec = 0;
      w->fr.back()->waits.push_back({0, 0});
      for (auto& t : w->fr.back()->tok) t.store(0, std::memory_order_relaxed);
    }
    Op c;
    c.k = OP_CANCEL;
    c.h = 1;
    c.r = 0;
    w->clients.push_back({c});
    w->clients.push_back({Op {OP_WAKE_ONE}});
  } else if (!strcmp(corpus, "nonmatching_leak")) {
    // defect #5 (repaired): non-matching waits must recycle their slot
    w->nfut = 1;
    npools = 0;
    minted = 0;
    for (int h = 0; h < 3; ++h) {
      w->fr.emplace_back(new FrameSt);
      w->fr.back()->exec = 0;
      for (int r = 0; r < 3; ++r) w->fr.back()->waits.push_back({0, 5});
      for (auto& t : w->fr.back()->tok) t.store(0, std::memory_order_relaxed);
    }
    w->clients.push_back({Op {OP_WAKE_ONE}});
  } else if (!strcmp(corpus, "cancel_head_vs_wake_all")) {
    // the newest waiter is cancelled while wake_all walks the list; afterwards the slots are reused by
    // further waits on the same futex and woken again: a node wake_all skipped must be marked unlinked
    w->nfut = 1;
    npools = 1;
    minted = 3;
    for (int h = 0; h < 3; ++h) {
      w->fr.emplace_back(new FrameSt);
      w->fr.back()->exec = h == 2 ? 1 : 0;
      for (int r = 0; r < 3; ++r) w->fr.back()->waits.push_back({0, 0});
      for (auto& t : w->fr.back()->tok) t.store(0, std::memory_order_relaxed);
    }
    auto cancel = [](int h, int r) {
      Op c;
      c.k = OP_CANCEL;
      c.h = h;
      c.r = r;
      return c;
    };
    w->clients.push_back({cancel(1, 0), cancel(0, 0), Op {OP_YIELD}, cancel(1, 1), cancel(2, 0)});
    w->clients.push_back({Op {OP_WAKE_ALL}, Op {OP_YIELD}, Op {OP_WAKE_ALL}, Op {OP_WAKE_ALL}});
    w->clients.push_back({Op {OP_YIELD}, Op {OP_WAKE_ALL}, Op {OP_WAKE_ONE}});
  } else if (!strcmp(corpus, "waiter_vs_store_wake")) {
    // new waiters racing with `value = new; wake_all()`: the comparison and the parking must be one
    // atomic step, a waiter must not park on a word that no longer matches
    w->nfut = 1;
    npools = 2;
    minted = K;
    w->has_set = true;
    for (int h = 0; h < 3; ++h) {
      w->fr.emplace_back(new FrameSt);
      w->fr.back()->exec = h;
      for (int r = 0; r < 2; ++r) w->fr.back()->waits.push_back({0, (uint64_t)r});
      for (auto& t : w->fr.back()->tok) t.store(0, std::memory_order_relaxed);
    }
    Op s1;
    s1.k = OP_SET;
    s1.v = 1;
    Op s2;
    s2.k = OP_SET;
    s2.v = 2;
    w->clients.push_back({s1, Op {OP_WAKE_ALL}, Op {OP_YIELD}, s2, Op {OP_WAKE_ALL}});
    w->clients.push_back({Op {OP_YIELD}, Op {OP_WAKE_ONE}});
  } else {
    fprintf(stderr, "unknown corpus case %s\n", corpus);
    exit(2);
  }
  for (int f = 0; f < w->nfut; ++f) w->fut.emplace_back(new CoFutex);
  reset_box(minted);
  name_world(w);
  vrt_payload_sched(1);
  vrt_payload_trace(1);
  vrt_begin(seed);
  printf("RUN %lu mode=futex futexes=%d frames=%zu pools=%d clients=%zu minted=%d ver0=%u\n", (unsigned long)seed, w->nfut,
         w->fr.size(), npools, w->clients.size(), minted, VER0);
  w->ex.start(npools, rng);
  int base_alloc = raw_allocated();
  {
    // the client threads exist before the coroutines are started, so also the waits that run inline
    // on the main thread (inplace executor) race with them
    std::vector<std::thread> ts;
    for (auto& ops : w->clients) {
      ts.emplace_back([w, &ops] {
        sched_yield();
        for (auto& op : ops) client_op(w, op);
      });
    }
    for (size_t h = 0; h < w->fr.size(); ++h) start_frame(w, (int)h);
    for (auto& t : ts) t.join();
  }
  // drain: make every later wait non-matching and wake everybody until all coroutines finished
  for (int round = 0; round < 12 && !all_done(w); ++round) {
    for (int f = 0; f < w->nfut; ++f) {
      Op s;
      s.k = OP_SET;
      s.f = f;
      s.v = 7;
      client_op(w, s);
      Op a;
      a.k = OP_WAKE_ALL;
      a.f = f;
      client_op(w, a);
    }
    usleep(1000);   // virtual: returns when every other thread is blocked
  }
  bool lost = false;
  for (size_t h = 0; h < w->fr.size(); ++h) {
    if (w->fr[h]->state != F_DONE) {
      lost = true;
      vrt_event("ORACLE lost frame %zu is still suspended (wait %d) although every futex was woken with wake_all and no waiter is linked", h, w->fr[h]->round);
    }
  }
  w->ex.stop();
  int alloc_now = raw_allocated();
  vrt_event("slots allocated %d minted %u", alloc_now - base_alloc, raw_minted());
  if (!lost && alloc_now != base_alloc) vrt_event("ORACLE leak %d deposit-box slots still allocated with no wait in progress", alloc_now - base_alloc);
  if ((int)raw_minted() > std::max<int>(minted, (int)w->fr.size() + (int)w->clients.size() + 1))
    vrt_event("ORACLE highwater %u slots minted for %zu coroutines", raw_minted(), w->fr.size());
  if (vrt_races() > 0) vrt_event("ORACLE race %lu unordered plain accesses to Node::next", (unsigned long)vrt_races());
  vrt_event("stats steps %lu switches %lu", vrt_steps(), vrt_switches());
  vrt_end();
  vrt_payload_sched(0);
  vrt_payload_trace(0);
  vrt_dump(stdout);
  if (!lost) delete w;
}

// ---------------------------------------------------------------------------------------------
// cancel mode: `co_await Cancellable<Task<int>>(inner).on_suspend(cb)`; completion of `inner` races with
// cancellation through the token.  Decisive atomic = take CAS on the DepositBox<BasicCancellable*> slot
// (named `cver<n>`); L2 events for everything else.
using CBox = DepositBox<BasicCancellable*>;
constexpr int CK = 16;

static void reset_cbox(int minted) {
  auto& box = CBox::instance();
  auto& al = box._slot_id_allocator;
  al._free_next_value.ensure(CK + 15);
  for (int i = 0; i < CK + 16; ++i) {
    al._free_next_value.ensure(i).store(i + 1 < minted ? i + 1 : IdAllocator<uint32_t>::FREE_LIST_TAIL, std::memory_order_relaxed);
    auto& s = box._slots.ensure(i);
    s.version.store(0, std::memory_order_relaxed);
    s.object.emplace(nullptr);
  }
  al._next_value = minted;
  VId head;
  head.value = minted > 0 ? 0 : IdAllocator<uint32_t>::FREE_LIST_TAIL;
  head.version = VER0;
  al._free_head = head;
}
NOTSAN static int raw_callocated() {
  auto& al = CBox::instance()._slot_id_allocator;
  uint32_t nv = __atomic_load_n(&al._next_value, __ATOMIC_RELAXED);
  uint64_t h = __atomic_load_n(&al._free_head.version_and_value, __ATOMIC_RELAXED);
  uint32_t v = (uint32_t)h;
  int len = 0;
  while (v != IdAllocator<uint32_t>::FREE_LIST_TAIL && len < 100000) {
    ++len;
    v = __atomic_load_n(reinterpret_cast<uint32_t*>(&al._free_next_value.ensure(v)), __ATOMIC_RELAXED);
  }
  return (int)nv - len;
}

struct CInst {
  Execs::Place place;
  int exec = 0;        // executor of the awaiting coroutine
  int exec2 = 0;       // executor of the inner task
  bool gated = true;   // inner waits on its gate before finishing
  bool sync_cancel = false;   // the on_suspend callback cancels at once
  volatile int state = F_NEW;
  volatile int resumes = 0;
  volatile int result = -2;   // -1 = empty
  std::atomic<uint64_t> tok {0};
  std::atomic<int> cancel_won {0};
};
enum COpKind { CO_CANCEL, CO_COMPLETE, CO_YIELD, CO_NAP };
struct COp {
  COpKind k;
  int i;
};
struct CWorld {
  std::vector<std::unique_ptr<CInst>> inst;
  std::vector<std::unique_ptr<CoFutex>> gate;
  std::vector<std::vector<COp>> clients;
  Execs ex;
};

static coroutine::Task<int> c_inner(CWorld* w, int i) {
  vrt_event("istart %d e%d", i, w->ex.current());
  if (w->inst[i]->gated) co_await w->gate[i]->wait(0);
  vrt_event("ifinish %d", i);
  co_return 100 + i;
}

static coroutine::Task<> c_outer(CWorld* w, int i) {
  CInst& me = *w->inst[i];
  me.state = F_RUNNING;
  vrt_event("cstart %d e%d", i, w->ex.current());
  auto inner = c_inner(w, i);
  inner.set_executor(w->ex.at(me.exec2));
  me.state = F_WAITING;
  vrt_event("cwait %d", i);
  auto result = co_await Cancellable<coroutine::Task<int>>(std::move(inner)).on_suspend([w, i](BasicCancellable::Cancellation&& c) {
    // once the token is published a concurrent cancellation may resume the awaiter, which destroys the
    // Cancellable and with it this closure: copy everything to locals first
    CWorld* lw = w;
    int li = i;
    CInst* inst = lw->inst[li].get();
    bool sync = inst->sync_cancel;
    BasicCancellable::Cancellation tok = c;
    VId id = tok._id;
    vrt_event("ctoken %d %u %u", li, id.value, id.version);
    inst->tok.store(id.version_and_value + 1, std::memory_order_release);
    if (sync) {
      vrt_event("call ccancel %d %u %u", li, id.value, id.version);
      bool ok = tok();
      if (ok) inst->cancel_won.fetch_add(1, std::memory_order_relaxed);
      vrt_event("ret ccancel %d", ok ? 1 : 0);
    }
  });
  if (me.state != F_WAITING) vrt_event("ORACLE double-resume cancellable awaiter %d continued while not waiting", i);
  me.state = F_RUNNING;
  me.resumes = me.resumes + 1;
  me.result = result ? *result : -1;
  int e = w->ex.current();
  if (result) vrt_event("cresumed %d e%d value %d", i, e, *result);
  else vrt_event("cresumed %d e%d empty", i, e);
  if (!w->ex.placed_ok(me.exec, me.place)) vrt_event("ORACLE wrong-executor cancellable awaiter %d resumed on e%d, bound to e%d", i, e, me.exec);
  if (result && *result != 100 + i) vrt_event("ORACLE wrong-value awaiter %d got %d", i, *result);
  me.state = F_DONE;
  vrt_event("cdone %d", i);
  for (;;) PARK("cancellable awaiter", i);
}

static void c_complete(CWorld* w, int i) {
  vrt_event("call complete %d", i);
  w->gate[i]->atomic_value().store(1, std::memory_order_release);
  w->gate[i]->wake_all();
  vrt_event("ret complete");
}

static void run_cancel(uint64_t seed) {
  CWorld* w = new CWorld;
  Rng rng(seed);
  int npools = (int)rng.below(3);
  int n = 1 + (int)rng.below(3);
  int minted = (int[]) {0, 1, CK}[rng.below(3)];
  for (int i = 0; i < n; ++i) {
    w->inst.emplace_back(new CInst);
    CInst& c = *w->inst.back();
    c.exec = (int)rng.below(npools + 1);
    c.exec2 = (int)rng.below(npools + 1);
    c.gated = rng.below(5) != 0;
    c.sync_cancel = c.exec != 0 && rng.below(6) == 0;
    w->gate.emplace_back(new CoFutex);
  }
  if (w->ex.faults(seed)) {
    Rng f(seed ^ 0xE9E9ull);
    bool any = false;
    for (auto& c : w->inst)
      if (f.below(2) == 0) c->exec = 9, any = true;
    if (!any) w->inst[0]->exec = 9;
  }
  int nclients = 1 + (int)rng.below(3);
  for (int c = 0; c < nclients; ++c) {
    std::vector<COp> ops;
    int nops = 1 + (int)rng.below(5);
    for (int k = 0; k < nops; ++k) {
      int r = (int)rng.below(100);
      COp op;
      op.k = r < 45 ? CO_CANCEL : r < 80 ? CO_COMPLETE : r < 90 ? CO_YIELD : CO_NAP;
      op.i = (int)rng.below(n);
      ops.push_back(op);
    }
    w->clients.push_back(ops);
  }
  reset_box(K);
  reset_cbox(minted);
  vrt_unname_all();
  for (int i = 0; i < CK + 16; ++i) vrt_namef(&CBox::instance()._slots.ensure(i).version, 4, "cver%d", i);
  vrt_begin(seed);
  printf("RUN %lu mode=cancel awaiters=%d pools=%d clients=%d minted=%d\n", (unsigned long)seed, n, npools, nclients, minted);
  w->ex.start(npools, rng);
  int base = raw_callocated();
  for (int i = 0; i < n; ++i) {
    vrt_event("cspawn %d e%d", i, w->inst[i]->exec);
    w->ex.submit(w->inst[i]->exec, c_outer(w, i));
  }
  {
    std::vector<std::thread> ts;
    for (auto& ops : w->clients) {
      ts.emplace_back([w, &ops] {
        for (auto& op : ops) {
          switch (op.k) {
            case CO_CANCEL: {
              uint64_t t = w->inst[op.i]->tok.load(std::memory_order_acquire);
              if (t == 0) {
                sched_yield();
                break;
              }
              VId id(t - 1);
              vrt_event("call ccancel %d %u %u", op.i, id.value, id.version);
              bool ok = BasicCancellable::cancel(id);
              if (ok) w->inst[op.i]->cancel_won.fetch_add(1, std::memory_order_relaxed);
              vrt_event("ret ccancel %d", ok ? 1 : 0);
              break;
            }
            case CO_COMPLETE:
              c_complete(w, op.i);
              break;
            case CO_YIELD:
              sched_yield();
              break;
            case CO_NAP:
              usleep(50);
              break;
          }
        }
      });
    }
    for (auto& t : ts) t.join();
  }
  auto all = [&] {
    for (auto& c : w->inst)
      if (c->state != F_DONE) return false;
    return true;
  };
  for (int round = 0; round < 8; ++round) {
    for (int i = 0; i < n; ++i) c_complete(w, i);
    usleep(1000);
    if (all()) break;
  }
  usleep(1000);
  bool lost = false;
  for (int i = 0; i < n; ++i) {
    CInst& c = *w->inst[i];
    if (c.state != F_DONE) {
      lost = true;
      vrt_event("ORACLE lost cancellable awaiter %d never resumed although its awaitable completed", i);
      continue;
    }
    if (c.resumes != 1) vrt_event("ORACLE resume-count awaiter %d resumed %d times", i, c.resumes);
    int won = c.cancel_won.load(std::memory_order_relaxed);
    if (won > 1) vrt_event("ORACLE two-cancel-winners awaiter %d: %d cancellations reported success", i, won);
    if ((c.result == -1) != (won == 1)) vrt_event("ORACLE empty-iff-cancelled awaiter %d result %d but %d cancellations won", i, c.result, won);
  }
  w->ex.stop();
  int leaked = raw_callocated() - base;
  vrt_event("cslots allocated %d", leaked);
  if (!lost && leaked != 0) vrt_event("ORACLE leak %d cancellable slots still allocated", leaked);
  vrt_event("stats steps %lu switches %lu", vrt_steps(), vrt_switches());
  vrt_end();
  vrt_dump(stdout);
  if (!lost) delete w;
}

// ---------------------------------------------------------------------------------------------
// await mode: a task awaits another task (bound to the same / another / no executor) or a babylon
// Future whose value is set by a client thread at an arbitrary moment (completion racing with the
// registration of the awaiter).  L2 events + oracle.
struct AInst {
  Execs::Place place, place2;
  int exec = 0;
  int kind = 0;        // 0: await task, 1: await future, 2: await task that awaits a future
  int exec2 = -1;      // executor of the inner task, -1 = not set (inherits)
  volatile int state = F_NEW;
  volatile int resumes = 0;
  Promise<int> promise;
  Future<int> future;
};
struct AWorld {
  std::vector<std::unique_ptr<AInst>> inst;
  std::vector<std::vector<int>> clients;   // which promises to set, in order
  Execs ex;
};

static coroutine::Task<int> a_inner(AWorld* w, int i) {
  AInst& me = *w->inst[i];
  int e = w->ex.current();
  vrt_event("istart %d e%d", i, e);
  int want = me.exec2 >= 0 ? me.exec2 : me.exec;
  if (!w->ex.placed_ok(want, me.place2)) vrt_event("ORACLE wrong-executor inner task %d runs on e%d, bound to e%d", i, e, want);
  int v = 0;
  if (me.kind == 2) {
    vrt_event("iawait %d future", i);
    v = co_await me.future;
    int e2 = w->ex.current();
    vrt_event("iresumed %d e%d %d", i, e2, v);
    if (!w->ex.placed_ok(want, me.place2)) vrt_event("ORACLE wrong-executor inner task %d resumed on e%d, bound to e%d", i, e2, want);
  }
  vrt_event("ifinish %d", i);
  co_return 1000 + i + v;
}

static coroutine::Task<> a_outer(AWorld* w, int i) {
  AInst& me = *w->inst[i];
  me.state = F_RUNNING;
  vrt_event("astart %d e%d", i, w->ex.current());
  int got = 0, expect = 0;
  me.state = F_WAITING;
  if (me.kind == 1) {
    vrt_event("await %d future", i);
    got = co_await me.future;
    expect = 7 + i;
  } else {
    auto t = a_inner(w, i);
    if (me.exec2 >= 0) t.set_executor(w->ex.at(me.exec2));
    vrt_event("await %d task", i);
    got = co_await std::move(t);
    expect = 1000 + i + (me.kind == 2 ? 7 + i : 0);
  }
  if (me.state != F_WAITING) vrt_event("ORACLE double-resume awaiter %d continued while not waiting", i);
  me.state = F_RUNNING;
  me.resumes = me.resumes + 1;
  int e = w->ex.current();
  vrt_event("aresumed %d e%d %d", i, e, got);
  if (!w->ex.placed_ok(me.exec, me.place)) vrt_event("ORACLE wrong-executor awaiter %d resumed on e%d, bound to e%d", i, e, me.exec);
  if (got != expect) vrt_event("ORACLE wrong-value awaiter %d got %d expected %d", i, got, expect);
  me.state = F_DONE;
  vrt_event("adone %d", i);
  for (;;) PARK("awaiter", i);
}

static void run_await(uint64_t seed) {
  AWorld* w = new AWorld;
  Rng rng(seed);
  int npools = (int)rng.below(3);
  int n = 1 + (int)rng.below(4);
  std::vector<int> sets;
  for (int i = 0; i < n; ++i) {
    w->inst.emplace_back(new AInst);
    AInst& a = *w->inst.back();
    a.exec = (int)rng.below(npools + 1);
    a.kind = (int)rng.below(3);
    a.exec2 = (int)rng.below(npools + 2) - 1;
    a.future = a.promise.get_future();
    if (a.kind != 0) sets.push_back(i);
  }
  if (w->ex.faults(seed)) {
    Rng f(seed ^ 0xE9E9ull);
    bool any = false;
    for (auto& a : w->inst) {
      if (f.below(2) == 0) a->exec = 9, any = true;
      if (f.below(3) == 0) a->exec2 = 9, any = true;
    }
    if (!any) w->inst[0]->exec = 9;
  }
  int nclients = 1 + (int)rng.below(2);
  w->clients.resize(nclients);
  for (int i : sets) w->clients[rng.below(nclients)].push_back(i);
  bool early = rng.below(3) == 0;   // set the futures before the coroutines start
  vrt_unname_all();
  // ready() / on_finish / set_value meet at the callback head of the future: its accesses are trace lines
  for (int i = 0; i < n; ++i) vrt_namef(&w->inst[i]->promise._context->_head, 8, "qh%d", i);
  vrt_begin(seed);
  printf("RUN %lu mode=await awaiters=%d pools=%d clients=%d\n", (unsigned long)seed, n, npools, nclients);
  w->ex.start(npools, rng);
  auto setter = [w](int i) {
    vrt_event("call fset %d %d", i, 7 + i);
    w->inst[i]->promise.set_value(7 + i);
    vrt_event("ret fset");
  };
  if (early)
    for (auto& c : w->clients)
      for (int i : c) setter(i);
  {
    // the setter threads exist before the coroutines are started: `set_value` can land at every
    // scheduling point of await_ready / await_suspend, also for awaits that run inline on the main thread
    std::vector<std::thread> ts;
    for (auto& c : w->clients) {
      uint64_t cs = rng.next();
      ts.emplace_back([&, early, cs] {
        Rng r(cs);
        for (int i : c) {
          int y = (int)r.below(4);
          for (int k = 0; k < y; ++k) sched_yield();
          if (!early) setter(i);
        }
      });
    }
    for (int i = 0; i < n; ++i) {
      vrt_event("aspawn %d e%d k%d x%d", i, w->inst[i]->exec, w->inst[i]->kind, w->inst[i]->exec2);
      w->ex.submit(w->inst[i]->exec, a_outer(w, i));
    }
    for (auto& t : ts) t.join();
  }
  for (int round = 0; round < 6; ++round) usleep(1000);
  for (int i = 0; i < n; ++i) {
    AInst& a = *w->inst[i];
    if (a.state != F_DONE) vrt_event("ORACLE lost awaiter %d never resumed although what it awaits completed", i);
    else if (a.resumes != 1) vrt_event("ORACLE resume-count awaiter %d resumed %d times", i, a.resumes);
  }
  w->ex.stop();
  vrt_event("stats steps %lu switches %lu", vrt_steps(), vrt_switches());
  vrt_end();
  vrt_dump(stdout);
  delete w;
}

int main(int argc, char** argv) {
  signal(SIGSEGV, on_crash);
  signal(SIGBUS, on_crash);
  signal(SIGABRT, on_crash);
  signal(SIGILL, on_crash);
  signal(SIGFPE, on_crash);
  std::string mode = argc > 1 ? argv[1] : "futex";
  if (argc > 3 && !strcmp(argv[2], "corpus")) {
    uint64_t seed = argc > 4 ? strtoull(argv[4], 0, 10) : 1;
    int n = argc > 5 ? atoi(argv[5]) : 1;
    for (int i = 0; i < n; ++i)
      if (mode == "futex") run_futex(seed + i, argv[3]);
    return 0;
  }
  uint64_t seed0 = argc > 2 ? strtoull(argv[2], 0, 10) : 1;
  int nruns = argc > 3 ? atoi(argv[3]) : 1;
  for (int i = 0; i < nruns; ++i) {
    uint64_t seed = seed0 + i;
    if (mode == "futex") run_futex(seed, nullptr);
    else if (mode == "cancel") run_cancel(seed);
    else if (mode == "await") run_await(seed);
    else return 2;
  }
  return 0;
}
