// C14, DESIGN section 7 #7: the 16-bit free-list version of IdAllocator<uint16_t> (thread ids) wraps.
// Directed replay on the REAL code of the schedule of theorem `ida_wrap_counterexample` (W = 2 there,
// W = 16 here): thread B is stalled between reading `_free_next_value[0]` and its CAS while thread A
// recycles id 0 exactly `recycles` times.  With recycles = 65536 the head is again (0, version 2),
// B's CAS succeeds with the stale `next` and id 1 — still held by A — is handed out a second time.
// usage: c14wrap <recycles>      (65536 = wrap; 65535 = control, B's CAS must fail and nothing breaks)
// Output: RUN ... / events / END as the other harnesses (no atomic-level trace: ~5*10^5 operations).
#include "../vrt/vrt.h"

#include <babylon/concurrent/id_allocator.h>

#include <sched.h>

#include <cstdio>
#include <cstdlib>
#include <cstring>
#include <thread>
#include <vector>

using namespace babylon;

static int g_b_tid = -1;        // VRT id of thread B
static bool g_b_in_alloc = false;
static int g_b_points = 0;      // scheduling points B has reached inside its first allocate()
static int g_phase = 0;         // 0: run B up to its CAS   1: B stalled, only A runs   2: free

static int find(const int* ids, int n, int tid) {
  for (int i = 0; i < n; ++i)
    if (ids[i] == tid) return i;
  return -1;
}

static int picker(int cur, const int* ids, int n, int) {
  if (g_phase == 0) {
    if (g_b_tid >= 0 && cur == g_b_tid && g_b_in_alloc) {
      // B is at a scheduling point (= just before its next atomic operation) inside allocate(); once its
      // relaxed load of `_free_next_value[0]` is in the trace the next operation is the CAS: stall here
      ++g_b_points;
      if (strstr(vrt_trace(), "\n1 ld next rlx ") != nullptr) {
        g_phase = 1;
        return find(ids, n, 0);
      }
    }
    int k = g_b_tid >= 0 ? find(ids, n, g_b_tid) : -1;
    return k;   // prefer B (or default while B does not exist yet)
  }
  if (g_phase == 1) return find(ids, n, 0);
  return -1;
}

int main(int argc, char** argv) {
  long recycles = argc > 1 ? atol(argv[1]) : 65536;
  IdAllocator<uint16_t> alloc;
  alloc._free_next_value.ensure(127);
  vrt_unname_all();
  vrt_name(&alloc._free_head, sizeof(alloc._free_head), "head");
  vrt_name(&alloc._free_next_value.ensure(0), 128 * sizeof(uint16_t), "next");
  std::vector<int> owner(128, -1);
  int dups = 0;
  auto take = [&](int me) {
    auto id = alloc.allocate();
    if (id.value < 128) {
      if (owner[id.value] != -1) {
        ++dups;
        vrt_event("ORACLE dup id %u handed to t%d while held by t%d (after %ld recycles during one stalled allocate)",
                  (unsigned)id.value, me, owner[id.value], recycles);
      }
      owner[id.value] = me;
    }
    return id;
  };
  auto give = [&](VersionedValue<uint16_t> id) {
    owner[id.value] = -1;
    alloc.deallocate(id);
  };

  setenv("VRT_CAS_WEAK_FAIL", "0", 1);        // no injected spurious weak-CAS failures: the schedule is exact
  vrt_begin(1);
  vrt_set_picker(picker);
  printf("RUN 1 W=16 mode=wrap16 recycles=%ld\n", recycles);
  auto i0 = take(0);
  auto i1 = take(0);
  give(i1);
  give(i0);                                   // head = (0, version 2); next[0] = 1; next[1] = tail
  VersionedValue<uint16_t> b_first, b_second;
  bool b_done = false;
  g_b_tid = 1;                                // the first thread created inside the section
  std::thread tb([&] {
    g_b_in_alloc = true;
    b_first = take(vrt_tid());                // stalls before its CAS (picker), resumes in phase 2
    g_b_in_alloc = false;
    vrt_event("B first allocate returned %u@%u", (unsigned)b_first.value, (unsigned)b_first.version);
    b_second = take(vrt_tid());
    vrt_event("B second allocate returned %u@%u", (unsigned)b_second.value, (unsigned)b_second.version);
    b_done = true;
  });
  while (g_phase == 0) sched_yield();
  vrt_event("B stalled before its CAS after %d scheduling points", g_b_points);
  vrt_unname_all();                           // no atomic-level trace for the ~5*10^5 operations that follow
  auto a0 = take(0);                          // pops 0
  auto a1 = take(0);                          // pops 1; A keeps it
  vrt_event("A holds %u@%u and %u@%u", (unsigned)a0.value, (unsigned)a0.version, (unsigned)a1.value,
            (unsigned)a1.version);
  for (long k = 0; k + 1 < recycles; ++k) {
    give(a0);
    a0 = take(0);
  }
  give(a0);                                   // `recycles` pushes of id 0 since B read the head
  {
    uint64_t raw = 0;
    memcpy(&raw, &alloc._free_head, sizeof(alloc._free_head));
    vrt_event("A recycled id 0 %ld times; head word now %lu (value %lu, version %lu)", recycles, (unsigned long)raw,
              (unsigned long)(raw & 0xffff), (unsigned long)(raw >> 16));
  }
  vrt_name(&alloc._free_head, sizeof(alloc._free_head), "head");
  vrt_name(&alloc._free_next_value.ensure(0), 128 * sizeof(uint16_t), "next");
  g_phase = 2;
  while (!b_done) sched_yield();
  tb.join();
  vrt_set_picker(nullptr);
  vrt_event("summary recycles %ld dups %d", recycles, dups);
  vrt_event("stats steps %lu switches %lu", vrt_steps(), vrt_switches());
  vrt_end();
  vrt_dump(stdout);
  return 0;
}
