// E-CONC harness for C07 (executors) under VRT.
// usage: c07 <mode> <seed0> <nruns>
//   mode pool      : real ThreadPoolExecutor (workers 1-4, global capacity 1-4, local capacity 0/1/2,
//                    stealing on/off, balance interval unset / 2 us / 1 ms (VRT_TICK_NS makes virtual time pass per step)), 1-3 external submitters, a
//                    task forest where every task submits 0-2 children (execute / submit, sometimes from
//                    inside a foreign InplaceExecutor scope), wakeup_one_worker, failing submissions
//                    through the base Executor, stop() or the destructor, early or after the roots'
//                    futures are ready.
//   mode hold      : the same with a configuration biased towards one worker, a small local queue, a
//                    full global queue and a permanently sweeping balance thread
//   mode wide      : pool runs with stealing on in which the workers' thread-local slots are 126, 127, 128, …
//                    (124 parked threads hold the smaller ids) and the storage has 160 slots: the stealing scan
//                    crosses from the first into the second 128-entry block
//   mode inplace   : InplaceExecutor, nested submissions
//   mode newthread : AlwaysUseNewThreadExecutor, children, join()
// Output per run:  RUN <seed> mode=… W=… L=… G=… steal=… bal=…\n <trace lines> END
//
// The trace holds (a) every atomic operation on the queue tickets (`gpush`, `gpop`, `lpush.k`, `lpop.k`),
// on `_running` and on the new-thread counter (`ntrun`), with the memory order written in the source,
// (b) harness events `submit id in=b`, `accept id`, `reject id`, `run id in=b`, `done id`, `stop_begin`,
// `stop_end`, `wakeup`, `wakeup_ret`, `scope_enter`, `scope_leave`, `join_begin`, `join_end`, (c) thread
// exit / join.  lean/Drivers/C07.lean replays it through the ticket-level model.
//
// ORACLE (evaluated here on the real code, independent of the model), reported as `ev ORACLE <kind> …`:
//   not-inside      a task ran on a thread for which executor.is_running_in() was false, or the thread did
//                   not report the pool again after a nested InplaceExecutor call had returned
//   ran-twice       a task function was entered more than once
//   rejected-ran    a failed submission ran, or yielded a valid future, or a pool submission failed
//   not-drained     stop()/destructor/join() returned while a task accepted before it was called, or a
//                   task pushed into a local queue, had not finished
//   future          the future of a finished accepted task is not ready / holds the wrong value
#include "../vrt/vrt.h"

#include <babylon/executor.h>

#include <cstdio>
#include <cstdlib>
#include <cstring>
#include <memory>
#include <string>
#include <thread>
#include <vector>

using namespace babylon;



struct Rng {
  uint64_t s;
  explicit Rng(uint64_t x) : s(x * 0x9E3779B97F4A7C15ull + 1) {}
  uint64_t next() {
    s ^= s << 13;
    s ^= s >> 7;
    s ^= s << 17;
    return s * 0x2545F4914F6CDD1Dull;
  }
  uint64_t below(uint64_t n) { return (next() >> 11) % n; }
  bool pct(unsigned p) { return below(100) < p; }
};

struct Spec {
  int id = 0;
  int parent = -1;
  std::vector<int> kids;
  bool use_execute = true;   // execute (future) or submit (int)
  bool via_inplace = false;  // submitted from inside a foreign InplaceExecutor scope
  int rejects = 0;           // failing submissions (base Executor) this task makes before its children
  bool linger = false;       // after spawning its children the task stays busy until stop() has been called
};

struct Book {
  std::vector<Spec> t;
  std::vector<int> runs, done, accepted, pre, local, rejected_id;
  std::vector<Future<int>> fut;
  bool stop_called = false;
  int lingering = 0;  // tasks that have spawned their children and are waiting for stop() to begin
  int next_reject = 0;
  int salt = 0;  // rotates the failure codes of the rejecting executor from run to run
  int value(int id) const { return id * 7 + 3; }
  void resize(size_t n) {
    runs.assign(n, 0);
    done.assign(n, 0);
    accepted.assign(n, 0);
    pre.assign(n, 0);
    local.assign(n, 0);
    fut.clear();
    fut.resize(n);
  }
};

// a forest: `roots` roots, every task 0-2 children, depth <= maxdepth, at most `cap` tasks
static void make_forest(Rng& rng, Book& b, int roots, int maxdepth, int cap, unsigned kid_pct, unsigned inplace_pct, unsigned reject_pct) {
  b.t.clear();
  std::vector<std::pair<int, int>> frontier;  // (id, depth)
  for (int r = 0; r < roots && (int)b.t.size() < cap; ++r) {
    Spec s;
    s.id = (int)b.t.size();
    s.use_execute = rng.pct(70);
    b.t.push_back(s);
    frontier.push_back({s.id, 0});
  }
  for (size_t f = 0; f < frontier.size(); ++f) {
    int id = frontier[f].first, d = frontier[f].second;
    if (d >= maxdepth) continue;
    int nk = 0;
    if (rng.pct(kid_pct)) nk = 1 + (int)rng.below(2);
    for (int k = 0; k < nk && (int)b.t.size() < cap; ++k) {
      Spec s;
      s.id = (int)b.t.size();
      s.parent = id;
      s.use_execute = rng.pct(60);
      s.via_inplace = rng.pct(inplace_pct);
      b.t.push_back(s);
      b.t[id].kids.push_back(s.id);
      frontier.push_back({s.id, d + 1});
    }
    if (rng.pct(reject_pct)) b.t[id].rejects = 1;
  }
  b.resize(b.t.size());
  b.next_reject = 1000;
}

// a user-defined executor whose invoke() always fails, with any non-zero code (the contract of
// BasicExecutor::invoke is "== 0 success, != 0 fail: the function is not moved away and never called")
struct Rejecting : public Executor {
  int code = -1;
  int invoke(MoveOnlyFunction<void(void)>&&) noexcept override { return code; }
};
static const int REJECT_CODES[] = {-1, 1, 16 /* EBUSY */, -2, 11 /* EAGAIN */, (int)0x80000000, 0x7fffffff};

// a failing submission through executor `ex`: never runs, execute() yields an invalid future, submit() a non-zero code
static void probe_failing(Executor& ex, int code, int id, bool use_execute) {
  bool ran = false;
  bool ok;
  if (use_execute) {
    auto f = ex.execute([&ran] {
      ran = true;
      return 1;
    });
    ok = f.valid();
  } else {
    ok = ex.submit([&ran] { ran = true; }) == 0;
  }
  if (ok || ran) {
    vrt_event("ORACLE rejected-ran failing executor (invoke returns %d, %s): accepted=%d ran=%d", code, use_execute ? "execute" : "submit", (int)ok,
              (int)ran);
  }
  vrt_event("reject %d", id);
}

using TaskQueue = ConcurrentBoundedQueue<ThreadPoolExecutor::Task>;
// thread-local slots whose tickets are named in the trace (thread ids are reused, so only small slot
// numbers occur; an access to an unnamed slot would leave a gap the replay reports)
constexpr int NSLOT = 16;

// plain (uninstrumented, unscheduled) read of an index word: the harness peeks without adding a trace line
__attribute__((no_sanitize("thread"))) static size_t peek(const void* p) {
  return *reinterpret_cast<const volatile size_t*>(p);
}

struct PoolRun {
  ThreadPoolExecutor* pool = nullptr;
  Executor base;  // BasicExecutor::invoke: always fails
  Book b;

  Rejecting rejecting;

  void probe_reject() {
    int id = b.next_reject++;
    int pick = (id + b.salt) % 8;
    if (pick == 7) {
      probe_failing(base, -1, id, id % 2 == 0);
    } else {
      rejecting.code = REJECT_CODES[pick];
      probe_failing(rejecting, rejecting.code, id, (id / 8) % 3 != 2);
    }
  }

  void submit_task(int id);

  int body(int id) {
    bool in = pool->is_running_in();
    vrt_event("run %d in=%d", id, (int)in);
    if (!in) vrt_event("ORACLE not-inside task %d ran on a thread where is_running_in() is false", id);
    if (++b.runs[id] > 1) vrt_event("ORACLE ran-twice task %d entered %d times", id, b.runs[id]);
    const Spec& s = b.t[id];
    for (int r = 0; r < s.rejects; ++r) probe_reject();
    for (int k : s.kids) {
      if (b.t[k].via_inplace) {
        InplaceExecutor::instance().submit([this, k] {
          vrt_event("scope_enter");
          submit_task(k);
          vrt_event("scope_leave");
        });
        // the nested executor's scope has ended: this thread must report the pool again
        if (!pool->is_running_in())
          vrt_event("ORACLE not-inside task %d: is_running_in() is false after a nested InplaceExecutor call returned", id);
      } else {
        submit_task(k);
      }
    }
    if (s.linger) {
      // stay busy (children possibly still in the local queue) until stop() has begun, then a little longer
      ++b.lingering;
      for (int spin = 0; spin < 4000 && !b.stop_called; ++spin) sched_yield();
      for (int spin = 0; spin < 12; ++spin) sched_yield();
      --b.lingering;
    }
    vrt_event("done %d", id);
    b.done[id] = 1;
    return b.value(id);
  }
};

void PoolRun::submit_task(int id) {
  const Spec& s = b.t[id];
  bool in = pool->is_running_in();
  const void* lp = nullptr;
  size_t before = 0;
  if (in && pool->_local_capacity > 0) {
    lp = &pool->_local_task_queues.local()._next_push_index;
    before = peek(lp);
  }
  vrt_event("submit %d in=%d", id, (int)in);
  bool ok;
  if (s.use_execute) {
    b.fut[id] = pool->execute([this, id] { return body(id); });
    ok = b.fut[id].valid();
  } else {
    ok = pool->submit([this, id] { body(id); }) == 0;
  }
  if (!ok) {
    vrt_event("ORACLE rejected-ran pool submission of %d failed", id);
    vrt_event("reject %d", id);
    return;
  }
  if (lp != nullptr && peek(lp) == before + 1) b.local[id] = 1;
  b.accepted[id] = 1;
  if (!b.stop_called) b.pre[id] = 1;
  vrt_event("accept %d", id);
}

// One-time initialisation of function-local statics and thread-local machinery outside the
// controlled section.  The warm-up pool is leaked on purpose (never stopped, never destroyed): a
// mutated stop() must not be able to hang the harness before the first controlled run; its two
// workers stay parked on the empty global queue for the life of the process.
static void warm_up() {
  static bool done = false;
  if (done) return;
  done = true;
  (void)InplaceExecutor::instance();
  (void)AlwaysUseNewThreadExecutor::instance();
  auto* p = new ThreadPoolExecutor;
  p->set_worker_number(2);
  p->set_local_capacity(2);
  p->set_global_capacity(4);
  p->set_enable_work_stealing(true);
  p->start();
  auto f = p->execute([p] {
    p->submit([] {});
    return 1;
  });
  f.get();
  InplaceExecutor::instance().execute([] { return 0; }).get();
}

// mode wide: 124 more parked workers of a leaked pool take the thread ids 2..125 of the thread-local
// queue storage, so the workers of the pools under test get the ids 126, 127, 128, ... and straddle
// the boundary between the first and the second 128-entry block of that storage
static void warm_wide() {
  static bool done = false;
  if (done) return;
  done = true;
  warm_up();
  auto* p = new ThreadPoolExecutor;
  p->set_worker_number(124);
  p->set_local_capacity(1);
  p->set_global_capacity(1);
  p->start();
  for (int spin = 0; spin < 20000 && ThreadId::end<TaskQueue>() < 126; ++spin) usleep(1000);
  if (ThreadId::end<TaskQueue>() < 126) {
    fprintf(stderr, "warm_wide: only %u thread ids in use\n", (unsigned)ThreadId::end<TaskQueue>());
    exit(3);
  }
}

static void run_pool(uint64_t seed, bool hold, bool wide = false) {
  warm_up();
  Rng rng(seed * 2654435761ull + (hold ? 17 : 0) + (wide ? 29 : 0));
  int W = 1 + (int)rng.below(4);
  int G = 1 + (int)rng.below(4);
  int L = (int[]) {0, 2, 2, 1}[rng.below(4)];
  bool steal = rng.pct(50);
  int bal = (int[]) {-1, -1, 2, 2, 1000}[rng.below(5)];  // microseconds; -1 = unset
  // run classes: (0) no queue can fill: free shape; (1) small global queue, external submitters block,
  // few spawning tasks so that some worker can always drain; (2) anything goes: a stall in which every
  // live worker is itself blocked submitting into the full global queue is the documented blocking
  // submit (classified by the model), anything else is reported
  int klass = (int)rng.below(10) < 5 ? 0 : ((int)rng.below(10) < 7 ? 1 : 2);
  int nsub = 1 + (int)rng.below(3);
  int roots = 1 + (int)rng.below(6);
  int maxdepth = 1 + (int)rng.below(3);
  unsigned kid_pct = 30 + (unsigned)rng.below(60);
  int cap = 24;
  if (hold) {
    W = 1 + (rng.pct(25) ? 1 : 0);
    G = 1;
    L = 1 + (int)rng.below(2);
    bal = 2;
    steal = rng.pct(30);
    klass = 2;
    nsub = 1 + (int)rng.below(2);
    roots = 3 + (int)rng.below(4);
    maxdepth = 3;
    kid_pct = 90;
  }
  if (wide) {
    // stealing across the block boundary: two or three workers, local queues in use, nobody blocks
    W = 2 + (int)rng.below(2);
    L = 1 + (int)rng.below(2);
    steal = true;
    bal = rng.pct(20) ? 2 : -1;
    klass = 0;
    nsub = 1 + (int)rng.below(2);
    roots = 2 + (int)rng.below(3);
    maxdepth = 2 + (int)rng.below(2);
    kid_pct = 85;
  }
  if (klass == 0) {
    G = 4;
    cap = 8 - W;  // 2*G slots hold every task and every marker
    if (cap < 1) cap = 1;
  }
  PoolRun R;
  make_forest(rng, R.b, roots, maxdepth, cap, kid_pct, 20, 25);
  R.b.salt = (int)(seed % 8);
  const int nslot = wide ? 160 : NSLOT;
  if (klass == 1) {
    // at most W-1 tasks have children: a worker that does not spawn is always left to drain the queue
    int spawners = 0;
    for (auto& s : R.b.t) {
      if (!s.kids.empty()) {
        if (spawners >= W - 1) {
          // detach the subtree: its tasks simply never exist
          s.kids.clear();
        } else {
          ++spawners;
        }
      }
    }
    // renumber reachable tasks only
    std::vector<int> keep(R.b.t.size(), 0);
    std::vector<int> stack;
    for (auto& s : R.b.t)
      if (s.parent < 0) stack.push_back(s.id);
    while (!stack.empty()) {
      int x = stack.back();
      stack.pop_back();
      keep[x] = 1;
      for (int k : R.b.t[x].kids) stack.push_back(k);
    }
    for (auto& s : R.b.t)
      if (!keep[s.id]) s.parent = -2;  // unreachable: never submitted
  }
  // linger runs: one or two tasks with children stay busy until stop() has begun, so that stop() finds
  // freshly spawned children in local queues (and a balance thread that may still sweep them)
  bool linger_run = !hold && klass == 0 && L > 0 && rng.pct(60);  // klass 0: no queue can fill, nobody blocks
  if (linger_run) {
    int want = 1 + (int)rng.below(2);
    for (auto& s : R.b.t)
      if (want > 0 && s.parent != -2 && !s.kids.empty()) {
        s.linger = true;
        --want;
      }
    bool any = false;
    for (auto& s : R.b.t) any = any || s.linger;
    linger_run = any;
  }
  bool use_dtor = rng.pct(30);
  int wait_mode = (int)rng.below(3);  // 0 stop at once, 1 wait for the roots' futures, 2 wait for some
  if (klass != 0 && !hold && wait_mode == 0 && rng.pct(60)) wait_mode = 1;
  if (linger_run) wait_mode = 0;  // a lingering task waits for stop(): nobody may wait for it first
  int wakeups = rng.pct(30) ? 1 + (int)rng.below(2) : 0;

  alignas(ThreadPoolExecutor) static unsigned char storage[sizeof(ThreadPoolExecutor)];
  vrt_unname_all();
  vrt_begin(seed);
  printf("RUN %lu mode=pool W=%d L=%d G=%d steal=%d bal=%d klass=%d dtor=%d wait=%d balus=%d linger=%d slots=%d\n", (unsigned long)seed, W, L, G,
         (int)steal, bal >= 0 ? 1 : 0, klass, (int)use_dtor, wait_mode, bal, (int)linger_run, nslot);
  auto* pool = new (storage) ThreadPoolExecutor;
  R.pool = pool;
  pool->set_worker_number(0);
  pool->set_local_capacity((size_t)L);
  pool->set_global_capacity((size_t)G);
  pool->set_enable_work_stealing(steal);
  pool->start();                                  // no worker yet: only sets the slot constructor
  pool->_local_task_queues._storage.ensure(nslot - 1);  // first block of thread-local queues, built by that constructor
  pool->stop();
  vrt_name(&pool->_global_task_queue._next_push_index, 8, "gpush");
  vrt_name(&pool->_global_task_queue._next_pop_index, 8, "gpop");
  vrt_name(&pool->_running, sizeof(pool->_running), "running");
  for (int k = 0; k < nslot; ++k) {
    auto& q = pool->_local_task_queues._storage.ensure(k);
    vrt_namef(&q._next_push_index, 8, "lpush.%d", k);
    vrt_namef(&q._next_pop_index, 8, "lpop.%d", k);
  }
  pool->set_worker_number((size_t)W);
  if (bal >= 0) pool->set_balance_interval(std::chrono::microseconds(bal));
  pool->start();
  vrt_event("started");
  if (pool->_global_task_queue.capacity() != (size_t)absl::bit_ceil((size_t)G * 2))
    vrt_event("NOTE global slots %zu", pool->_global_task_queue.capacity());

  // distribute the roots over the submitters (submitter 0 = this thread)
  std::vector<std::vector<int>> mine(nsub);
  for (auto& s : R.b.t)
    if (s.parent == -1) mine[rng.below(nsub)].push_back(s.id);
  std::vector<std::thread> subs;
  for (int u = 1; u < nsub; ++u) {
    subs.emplace_back([&, u] {
      for (int id : mine[u]) R.submit_task(id);
    });
  }
  for (size_t i = 0; i < mine[0].size(); ++i) {
    R.submit_task(mine[0][i]);
    if (wakeups > 0 && rng.pct(40)) {
      --wakeups;
      vrt_event("wakeup");
      pool->wakeup_one_worker();
      vrt_event("wakeup_ret");
    }
    if (rng.pct(15)) R.probe_reject();
  }
  for (auto& t : subs) t.join();
  if (wait_mode != 0) {
    for (auto& s : R.b.t) {
      if (s.parent == -1 && s.use_execute && R.b.fut[s.id].valid() && (wait_mode == 1 || rng.pct(50))) {
        int v = R.b.fut[s.id].get();
        if (v != R.b.value(s.id)) vrt_event("ORACLE future root %d holds %d, expected %d", s.id, v, R.b.value(s.id));
      }
    }
  }
  if (linger_run) {
    // wait (bounded) until a lingering task has spawned its children
    for (int spin = 0; spin < 20000 && R.b.lingering == 0; ++spin) sched_yield();
  }
  vrt_event("stop_begin");
  R.b.stop_called = true;
  if (use_dtor) {
    pool->~ThreadPoolExecutor();
  } else {
    pool->stop();
  }
  vrt_event("stop_end");
  // ---- the property, on the real code
  for (auto& s : R.b.t) {
    int id = s.id;
    if (s.parent == -2) continue;
    if ((R.b.pre[id] || R.b.local[id]) && !R.b.done[id])
      vrt_event("ORACLE not-drained task %d (accepted-before-stop=%d local=%d) not finished when %s returned", id, R.b.pre[id], R.b.local[id],
                use_dtor ? "the destructor" : "stop()");
    if (R.b.runs[id] > 1) vrt_event("ORACLE ran-twice task %d ran %d times", id, R.b.runs[id]);
    if (R.b.done[id] && R.b.accepted[id] && s.use_execute) {
      auto& f = R.b.fut[id];
      if (!f.valid() || !f.ready()) {
        // the promise is fulfilled right after the function returns; a worker that has exited has done it
        vrt_event("ORACLE future task %d finished but its future is valid=%d ready=%d", id, (int)f.valid(), f.valid() ? (int)f.ready() : 0);
      } else if (f.get() != R.b.value(id)) {
        vrt_event("ORACLE future task %d holds %d, expected %d", id, f.get(), R.b.value(id));
      }
    }
  }
  vrt_event("stats steps %lu switches %lu", vrt_steps(), vrt_switches());
  vrt_unname_all();
  if (!use_dtor) pool->~ThreadPoolExecutor();
  vrt_end();
  vrt_dump(stdout);
}

// ---------------------------------------------------------------------------------------------------
struct SimpleRun {
  Executor* ex = nullptr;
  Executor base;
  Book b;
  bool join_called = false;
  void submit_task(int id);
  int body(int id) {
    bool in = ex->is_running_in();
    vrt_event("run %d in=%d", id, (int)in);
    if (!in) vrt_event("ORACLE not-inside task %d ran on a thread where is_running_in() is false", id);
    if (++b.runs[id] > 1) vrt_event("ORACLE ran-twice task %d entered %d times", id, b.runs[id]);
    for (int k : b.t[id].kids) submit_task(k);
    vrt_event("done %d", id);
    b.done[id] = 1;
    return b.value(id);
  }
  Rejecting rejecting;
  void probe_reject() {
    int id = b.next_reject++;
    int pick = (id + b.salt) % 8;
    if (pick == 7) {
      probe_failing(base, -1, id, true);
    } else {
      rejecting.code = REJECT_CODES[pick];
      probe_failing(rejecting, rejecting.code, id, id % 3 != 0);
    }
  }
};

void SimpleRun::submit_task(int id) {
  const Spec& s = b.t[id];
  vrt_event("submit %d in=%d", id, (int)ex->is_running_in());
  bool ok;
  if (s.use_execute) {
    b.fut[id] = ex->execute([this, id] { return body(id); });
    ok = b.fut[id].valid();
  } else {
    ok = ex->submit([this, id] { body(id); }) == 0;
  }
  if (!ok) {
    vrt_event("ORACLE rejected-ran submission of %d failed", id);
    return;
  }
  b.accepted[id] = 1;
  if (!join_called) b.pre[id] = 1;
  vrt_event("accept %d", id);
}

static void run_inplace(uint64_t seed) {
  warm_up();
  Rng rng(seed * 0x51ED27ull + 5);
  SimpleRun R;
  R.ex = &InplaceExecutor::instance();
  make_forest(rng, R.b, 1 + (int)rng.below(4), 1 + (int)rng.below(3), 20, 30 + (unsigned)rng.below(60), 0, 0);
  R.b.salt = (int)(seed % 8);
  int nthreads = 1 + (int)rng.below(3);
  vrt_unname_all();
  vrt_begin(seed);
  printf("RUN %lu mode=inplace threads=%d\n", (unsigned long)seed, nthreads);
  std::vector<std::vector<int>> mine(nthreads);
  for (auto& s : R.b.t)
    if (s.parent == -1) mine[rng.below(nthreads)].push_back(s.id);
  auto drive = [&](int u) {
    for (int id : mine[u]) {
      R.submit_task(id);
      // inplace: everything below `id` has run inside the call, on this thread
      std::vector<int> st {id};
      while (!st.empty()) {
        int x = st.back();
        st.pop_back();
        if (!R.b.done[x] || R.b.runs[x] != 1) vrt_event("ORACLE not-drained inplace task %d not run exactly once when execute(%d) returned", x, id);
        auto& f = R.b.fut[x];
        if (R.b.t[x].use_execute && (!f.valid() || !f.ready() || f.get() != R.b.value(x))) vrt_event("ORACLE future inplace task %d", x);
        for (int k : R.b.t[x].kids) st.push_back(k);
      }
      if (u == 0 && id % 3 == 0) R.probe_reject();
    }
  };
  std::vector<std::thread> ts;
  for (int u = 1; u < nthreads; ++u) ts.emplace_back([&, u] { drive(u); });
  drive(0);
  for (auto& t : ts) t.join();
  vrt_event("stats steps %lu switches %lu", vrt_steps(), vrt_switches());
  vrt_end();
  vrt_dump(stdout);
}

static void run_newthread(uint64_t seed) {
  warm_up();
  Rng rng(seed * 0x7A3B1ull + 9);
  SimpleRun R;
  auto& ex = AlwaysUseNewThreadExecutor::instance();
  R.ex = &ex;
  make_forest(rng, R.b, 1 + (int)rng.below(4), 1 + (int)rng.below(2), 12, 30 + (unsigned)rng.below(50), 0, 0);
  int nthreads = 1 + (int)rng.below(2);
  vrt_unname_all();
  vrt_name(&ex._running, sizeof(ex._running), "ntrun");
  vrt_begin(seed);
  printf("RUN %lu mode=newthread threads=%d\n", (unsigned long)seed, nthreads);
  std::vector<std::vector<int>> mine(nthreads);
  for (auto& s : R.b.t)
    if (s.parent == -1) mine[rng.below(nthreads)].push_back(s.id);
  std::vector<std::thread> ts;
  for (int u = 1; u < nthreads; ++u)
    ts.emplace_back([&, u] {
      for (int id : mine[u]) R.submit_task(id);
    });
  for (int id : mine[0]) R.submit_task(id);
  bool early = rng.pct(50);
  if (!early)
    for (auto& t : ts) t.join();
  vrt_event("join_begin");
  R.join_called = true;
  ex.join();
  vrt_event("join_end");
  for (auto& s : R.b.t) {
    int id = s.id;
    if (R.b.pre[id] && (!R.b.done[id] || R.b.runs[id] != 1))
      vrt_event("ORACLE not-drained task %d accepted before join() not run exactly once when join() returned (runs=%d done=%d)", id, R.b.runs[id], R.b.done[id]);
    if (R.b.pre[id] && s.use_execute) {
      auto& f = R.b.fut[id];
      if (!f.valid() || !f.ready() || f.get() != R.b.value(id)) vrt_event("ORACLE future task %d", id);
    }
  }
  if (early)
    for (auto& t : ts) t.join();
  // let every detached thread finish (tasks submitted while join() ran, thread epilogues)
  ex.join();
  while (vrt_live() > 1) usleep(1000);
  for (auto& s : R.b.t)
    if (R.b.runs[s.id] > 1) vrt_event("ORACLE ran-twice task %d", s.id);
  vrt_event("stats steps %lu switches %lu", vrt_steps(), vrt_switches());
  vrt_end();
  vrt_dump(stdout);
}

int main(int argc, char** argv) {
  std::string mode = argc > 1 ? argv[1] : "pool";
  uint64_t seed0 = argc > 2 ? strtoull(argv[2], 0, 10) : 1;
  int nruns = argc > 3 ? atoi(argv[3]) : 1;
  for (int i = 0; i < nruns; ++i) {
    uint64_t seed = seed0 + i;
    if (mode == "pool") run_pool(seed, false);
    else if (mode == "hold") run_pool(seed, true);
    else if (mode == "wide") {
      warm_wide();
      run_pool(seed, false, true);
    }
    else if (mode == "inplace") run_inplace(seed);
    else if (mode == "newthread") run_newthread(seed);
    else return 2;
  }
  return 0;
}
