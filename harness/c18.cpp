// E-SEQ harness for C18: interprets op lines on the real ConcurrentTransientHashSet / HashMap
// and prints one canonical line per op (same protocol as lean/Drivers/C18.lean).
// A reference std::map (first insertion wins) is driven alongside; whenever the real container
// disagrees with it at the level the property speaks about (size, find, iteration contents,
// mapped value) the output line gets a " !ORACLE(...)" suffix.
//
// usage: c18 <mode>     mode ∈ set | map | strset | moveonly
#include <babylon/concurrent/transient_hash_table.h>

#include <cstdint>
#include <cstdio>
#include <iostream>
#include <map>
#include <memory>
#include <sstream>
#include <string>
#include <vector>

using namespace babylon;

struct IdHash {
  size_t operator()(uint64_t k) const noexcept { return k; }
};

// string elements "k<number>" hashed by their number: same control-byte behaviour, non-trivial T
struct StrHash {
  size_t operator()(const std::string& s) const noexcept { return std::stoull(s.substr(1)); }
};

struct MoveOnly {
  std::unique_ptr<uint64_t> p;
  MoveOnly(uint64_t k) : p(new uint64_t(k)) {}
  MoveOnly(MoveOnly&&) = default;
  MoveOnly& operator=(MoveOnly&&) = default;
  bool operator==(const MoveOnly& o) const { return *p == *o.p; }
  bool operator==(uint64_t k) const { return *p == k; }
};
struct MoveOnlyHash {
  size_t operator()(const MoveOnly& m) const noexcept { return *m.p; }
  size_t operator()(uint64_t k) const noexcept { return k; }
};

struct SetTraits {
  using C = ConcurrentTransientHashSet<uint64_t, IdHash>;
  static constexpr bool copyable = true;
  static auto emplace(C& c, uint64_t k, uint64_t) { return c.emplace(k); }
  static auto find(C& c, uint64_t k) { return c.find(k); }
  static bool contains(C& c, uint64_t k) { return c.contains(k) && c.count(k) == 1; }
  template <typename E> static uint64_t key(const E& e) { return e; }
  template <typename E> static uint64_t val(const E&) { return 0; }
};
struct MapTraits {
  using C = ConcurrentTransientHashMap<uint64_t, uint64_t, IdHash>;
  static constexpr bool copyable = true;
  static auto emplace(C& c, uint64_t k, uint64_t v) {
    // exercise the three insertion spellings of the map
    switch (k % 3) {
      case 0: return c.try_emplace(k, v);
      case 1: return c.emplace(k, v);
      default: return c.insert(std::pair<const uint64_t, uint64_t>(k, v));
    }
  }
  static auto find(C& c, uint64_t k) { return c.find(k); }
  static bool contains(C& c, uint64_t k) { return c.contains(k) && c.count(k) == 1; }
  template <typename E> static uint64_t key(const E& e) { return e.first; }
  template <typename E> static uint64_t val(const E& e) { return e.second; }
};
struct StrTraits {
  using C = ConcurrentTransientHashSet<std::string, StrHash>;
  static constexpr bool copyable = true;
  static std::string mk(uint64_t k) { return "k" + std::to_string(k); }
  static auto emplace(C& c, uint64_t k, uint64_t) { return c.emplace(mk(k)); }
  static auto find(C& c, uint64_t k) { return c.find(mk(k)); }
  static bool contains(C& c, uint64_t k) { return c.contains(mk(k)); }
  template <typename E> static uint64_t key(const E& e) { return std::stoull(e.substr(1)); }
  template <typename E> static uint64_t val(const E&) { return 0; }
};
struct MoveTraits {
  using C = ConcurrentTransientHashSet<MoveOnly, MoveOnlyHash>;
  static constexpr bool copyable = false;
  static auto emplace(C& c, uint64_t k, uint64_t) { return c.emplace(MoveOnly(k)); }
  static auto find(C& c, uint64_t k) { return c.find(MoveOnly(k)); }
  static bool contains(C& c, uint64_t k) { return c.contains(MoveOnly(k)); }
  template <typename E> static uint64_t key(const E& e) { return *e.p; }
  template <typename E> static uint64_t val(const E&) { return 0; }
};

template <typename T>
struct Runner {
  using C = typename T::C;
  using Ref = std::map<uint64_t, uint64_t>;
  std::unique_ptr<C> reg[2];
  Ref ref[2];

  Runner() { reset(); }
  void reset() {
    for (int i = 0; i < 2; ++i) {
      reg[i].reset(new C);
      ref[i].clear();
    }
  }
  static int idx(const std::string& r) { return r == "A" ? 0 : 1; }

  // property-level oracle after every op on register i: size() and find() of every reference key
  std::string oracle(int i) {
    C& c = *reg[i];
    std::ostringstream os;
    if (c.size() != ref[i].size()) {
      os << " !ORACLE(size " << c.size() << " expected " << ref[i].size() << ")";
    }
    return os.str();
  }

  std::string iter_line(int i) {
    C& c = *reg[i];
    std::ostringstream os;
    std::vector<std::pair<uint64_t, uint64_t>> got;
    size_t guard = 0;
    for (auto it = c.begin(); it != c.end(); ++it) {
      got.emplace_back(T::key(*it), T::val(*it));
      if (++guard > 1000000) {
        break;
      }
    }
    os << got.size() << " |";
    for (auto& e : got) {
      os << " " << e.first << ":" << e.second;
    }
    Ref seen;
    bool dup = false;
    for (auto& e : got) {
      dup |= !seen.emplace(e.first, e.second).second;
    }
    if (dup || seen != ref[i]) {
      os << " !ORACLE(iteration yields " << got.size() << " elements, " << seen.size()
         << " distinct; expected the " << ref[i].size() << " reference elements)";
    }
    return os.str();
  }

  std::string step(const std::vector<std::string>& w) {
    std::ostringstream os;
    if (w.size() == 1 && w[0] == "reset") {
      reset();
      return "ok";
    }
    if (w.size() == 3 && w[0] == "new") {
      int i = idx(w[1]);
      if (w[2] == "default") {
        reg[i].reset(new C);
      } else {
        reg[i].reset(new C(std::stoull(w[2])));
      }
      ref[i].clear();
      return "ok" + oracle(i);
    }
    if (w.size() == 3 && (w[0] == "copyctor" || w[0] == "assign" || w[0] == "move" || w[0] == "swap")) {
      int i = idx(w[1]), j = idx(w[2]);
      if (w[0] == "copyctor" || w[0] == "assign") {
        if constexpr (T::copyable) {
          if (w[0] == "copyctor") {
            if (i != j) {
              reg[j].reset(new C(*reg[i]));
            } else {
              std::unique_ptr<C> n(new C(*reg[i]));
              reg[j] = std::move(n);
            }
          } else {
            *reg[j] = static_cast<const C&>(*reg[i]);
          }
          ref[j] = ref[i];
        } else {
          return "bad-op";
        }
      } else if (i != j) {
        if (w[0] == "move") {
          *reg[j] = std::move(*reg[i]);
        } else {
          reg[i]->swap(*reg[j]);
        }
        std::swap(ref[i], ref[j]);
      }
      return "ok" + oracle(i) + oracle(j);
    }
    if (w.size() < 2) {
      return "bad-op";
    }
    int i = idx(w[0]);
    C& c = *reg[i];
    const std::string& op = w[1];
    if (op == "emplace" && w.size() == 4) {
      uint64_t k = std::stoull(w[2]), v = std::stoull(w[3]);
      auto r = T::emplace(c, k, v);
      auto rr = ref[i].emplace(k, v);
      os << "ins " << (r.second ? 1 : 0) << " val " << T::val(*r.first);
      if (r.second != rr.second || T::key(*r.first) != k || T::val(*r.first) != rr.first->second) {
        os << " !ORACLE(emplace " << k << ": inserted=" << r.second << " stored=" << T::key(*r.first)
           << ":" << T::val(*r.first) << " expected inserted=" << rr.second << " value=" << rr.first->second << ")";
      }
      return os.str() + oracle(i);
    }
    if (op == "find" && w.size() == 3) {
      uint64_t k = std::stoull(w[2]);
      auto it = T::find(c, k);
      auto rit = ref[i].find(k);
      bool found = it != c.end();
      if (found) {
        os << "some " << T::val(*it);
      } else {
        os << "none";
      }
      bool cont = T::contains(c, k);
      if (found != (rit != ref[i].end()) || cont != found || (found && (T::key(*it) != k || T::val(*it) != rit->second))) {
        os << " !ORACLE(find " << k << ": found=" << found << " contains=" << cont << " expected found=" << (rit != ref[i].end()) << ")";
      }
      return os.str();
    }
    if (op == "size") {
      os << c.size();
      return os.str() + oracle(i);
    }
    if (op == "bc") {
      os << c.bucket_count();
      return os.str();
    }
    if (op == "iter") {
      return iter_line(i);
    }
    if (op == "clear") {
      c.clear();
      ref[i].clear();
      return "ok" + oracle(i);
    }
    if (op == "reserve" && w.size() == 3) {
      c.reserve(std::stoull(w[2]));
      return "ok" + oracle(i);
    }
    if (op == "rehash" && w.size() == 3) {
      c.rehash(std::stoull(w[2]));
      return "ok" + oracle(i);
    }
    return "bad-op";
  }

  void run() {
    std::string line;
    while (std::getline(std::cin, line)) {
      std::istringstream is(line);
      std::vector<std::string> w;
      std::string t;
      while (is >> t) {
        w.push_back(t);
      }
      std::cout << step(w) << "\n" << std::flush;
    }
  }
};

int main(int argc, char** argv) {
  std::string mode = argc > 1 ? argv[1] : "set";
  if (mode == "set") {
    Runner<SetTraits>().run();
  } else if (mode == "map") {
    Runner<MapTraits>().run();
  } else if (mode == "strset") {
    Runner<StrTraits>().run();
  } else if (mode == "moveonly") {
    Runner<MoveTraits>().run();
  } else {
    return 2;
  }
  return 0;
}
