// E-CONC harness for C20 part B: the real AsyncFileAppender under VRT (deterministic scheduler,
// every atomic operation of the queue is a scheduling point; DESIGN.md 3.3).
//
// usage: c20_vrt <mode> <seed0> <nruns>      mode ∈ mix | full | race | sessions
//   mix       1-4 logging threads x 1-6 entries, capacity 1-16, 1-3 file objects, rotation, some discards
//   full      capacity 1-2 and back-to-back writes: producers hold a ticket while the ring is full
//             (back-pressure: write() spins until the writer releases the slot of the previous round)
//   race      close() is called while the logging threads are still writing (capacity >= threads)
//   sessions  initialize / close twice on the same appender and file objects
// Output per run: `RUN seed cap=…`, the VRT trace (queue indices `q.push` / `q.pop`, slot versions
// `q.f<i>`, thread spawn/exit, sleeps) interleaved with harness events, `END`:
//   <t> ev wbegin <seq> <file> <size> <page:len>…     write() about to be called by thread t
//   <t> ev wbegin+ … / writev+ … / dealloc+ …         continuation of the previous list (event lines are short)
//   <t> ev wend <seq>                                 write() returned
//   0 ev cbegin / 0 ev cend                           close() called / returned (main thread)
//   0 ev init                                         initialize() (writer thread = next spawned tid)
//   <w> ev check <file> <fd>                          check_and_get_file_descriptor returned fd (999999: none)
//   <w> ev writev <file> <fd> <page:len>…             one writev call of the writer
//   <w> ev dealloc <page>…                            deallocate() by the writer
//   <t> ev ORACLE <kind> …                            the property oracle on the real code failed
// lean/Drivers/C20.lean (trace mode) replays these lines in lock-step through App.step:
// ticket = the fetch_add on q.push that follows wbegin/cbegin, publish = the thread's next store to a
// slot version, pop = the writer's store to q.pop, a round ends at the writer's next load of q.pop.
#include <babylon/logging/async_file_appender.h>
#include <babylon/logging/log_entry.h>

#include <sys/uio.h>
#include <unistd.h>

#include <cstdint>
#include <cstdio>
#include <cstring>
#include <map>
#include <memory>
#include <string>
#include <thread>
#include <vector>

#include "../vrt/vrt.h"

using namespace babylon;

struct Rng {
  uint64_t s;
  explicit Rng(uint64_t x) : s(x * 0x9E3779B97F4A7C15ull + 1) {}
  uint64_t next() {
    s ^= s << 13;
    s ^= s >> 7;
    s ^= s << 17;
    return s * 0x2545F4914F6CDD1Dull;
  }
  uint64_t below(uint64_t n) { return n ? (next() >> 11) % n : 0; }
};

static void event_list(const std::string& head, const std::string& cont, const std::vector<std::string>& items);

// Plain memory is fine for the bookkeeping: exactly one thread runs at a time under VRT and none of
// these accesses is a scheduling point.
struct Alloc : public PageAllocator {
  size_t ps {64};
  size_t next {0};
  std::map<void*, size_t> live;
  size_t allocated {0}, freed {0}, bad_free {0};
  int writer_tid {-1};
  size_t page_size() const noexcept override { return ps; }
  using PageAllocator::allocate;
  using PageAllocator::deallocate;
  void allocate(void** pages, size_t num) noexcept override {
    for (size_t i = 0; i < num; ++i) {
      void* p = ::operator new(ps, std::align_val_t(8));
      live[p] = next++;
      ++allocated;
      pages[i] = p;
    }
  }
  size_t number(const void* p) {
    auto it = live.find(const_cast<void*>(p));
    return it == live.end() ? 999999 : it->second;
  }
  void deallocate(void** pages, size_t num) noexcept override {
    std::vector<std::string> s;
    for (size_t i = 0; i < num; ++i) {
      auto it = live.find(pages[i]);
      if (it == live.end()) {
        ++bad_free;
        vrt_event("ORACLE returned a page that is not live is handed to deallocate (double return)");
        continue;
      }
      s.push_back(std::to_string(it->second));
      ::operator delete(pages[i], std::align_val_t(8));
      live.erase(it);
      ++freed;
    }
    if (vrt_tid() == writer_tid) {
      event_list("dealloc", "dealloc+", s);
    }
  }
  ~Alloc() noexcept override {
    for (auto& e : live) {
      ::operator delete(e.first, std::align_val_t(8));
    }
  }
};

// vrt_event lines are limited to 400 characters: long lists are continued with `<head>+ …` events
static void event_list(const std::string& head, const std::string& cont, const std::vector<std::string>& items) {
  size_t i = 0;
  bool first = true;
  do {
    std::string s;
    for (size_t k = 0; k < 24 && i < items.size(); ++k, ++i) {
      s += " " + items[i];
    }
    vrt_event("%s%s", first ? head.c_str() : cont.c_str(), s.c_str());
    first = false;
  } while (i < items.size());
}

static Alloc* g_alloc = nullptr;
static const int FD_BASE = 500000;                 // fake descriptors: FD_BASE + file * 1000 + index
static std::map<int, std::string>* g_content = nullptr;  // fake fd -> bytes written
static bool g_outage = false;

extern "C" ssize_t writev(int fd, const struct iovec* iov, int cnt) {
  if (g_content == nullptr) {
    return -1;
  }
  std::vector<std::string> s;
  ssize_t total = 0;
  for (int i = 0; i < cnt; ++i) {
    s.push_back(std::to_string(g_alloc->number(iov[i].iov_base)) + ":" + std::to_string(iov[i].iov_len));
    total += static_cast<ssize_t>(iov[i].iov_len);
  }
  if (fd < FD_BASE) {
    event_list("writev -1 999999", "writev+", s);  // file filled in by the driver from the last check
    return -1;
  }
  int file = (fd - FD_BASE) / 1000, idx = (fd - FD_BASE) % 1000;
  event_list("writev " + std::to_string(file) + " " + std::to_string(idx), "writev+", s);
  for (int i = 0; i < cnt; ++i) {
    (*g_content)[fd].append(static_cast<const char*>(iov[i].iov_base), iov[i].iov_len);
  }
  return total;
}

struct VFile : public FileObject {
  int id {0};
  int idx {-1};
  size_t calls {0};
  size_t rot_every {0};
  std::tuple<int, int> check_and_get_file_descriptor() noexcept override {
    if (g_outage) {
      ++calls;
      vrt_event("check %d 999999", id);
      return std::tuple<int, int>(-1, -1);
    }
    int old = -1;
    if (idx < 0 || (rot_every != 0 && calls % rot_every == 0)) {
      old = idx < 0 ? -1 : FD_BASE + id * 1000 + idx;
      ++idx;
    }
    ++calls;
    vrt_event("check %d %d", id, idx);
    return std::tuple<int, int>(FD_BASE + id * 1000 + idx, old);
  }
};

struct Written {
  int tid;      // logging thread number 1..T (not the VRT tid)
  int seq;
  int file;
  bool discarded {false};
  bool returned_before_close {false};
  std::string data;
};

static std::string payload(int tid, int seq, size_t len) {
  std::string s(16 + len, '\0');
  uint32_t h[4] = {0x31474f4cu, static_cast<uint32_t>(tid), static_cast<uint32_t>(seq), static_cast<uint32_t>(len)};
  std::memcpy(&s[0], h, 16);
  for (size_t k = 0; k < len; ++k) {
    s[16 + k] = static_cast<char>((k * 131 + static_cast<size_t>(tid) * 17 + static_cast<size_t>(seq) * 13 + 1) % 251);
  }
  return s;
}

static void run_case(uint64_t seed, const std::string& mode) {
  Rng rng(seed);
  bool full = mode == "full", race = mode == "race", multi = mode == "sessions";
  int T = 1 + static_cast<int>(rng.below(full ? 3 : 4));
  size_t want_cap = full ? 1 + rng.below(2) : 1 + rng.below(16);
  if (race) {
    T = 2 + static_cast<int>(rng.below(2));
    want_cap = 4 << rng.below(3);
  }
  int F = 1 + static_cast<int>(rng.below(3));
  size_t ps = (size_t[]) {24, 32, 64}[rng.below(3)];
  size_t rot = (size_t[]) {0, 0, 1, 2, 3}[rng.below(5)];
  int N = 1 + static_cast<int>(rng.below(full ? 5 : 6));
  int sessions = multi ? 2 : 1;
  bool outage_case = !race && rng.below(6) == 0;
  unsigned discard_pct = (!race && rng.below(4) == 0) ? 30 : 0;
  size_t K = LogEntry::INLINE_PAGE_CAPACITY;

  Alloc alloc;
  alloc.ps = ps;
  g_alloc = &alloc;
  std::map<int, std::string> content;
  g_content = &content;
  g_outage = false;
  std::vector<std::unique_ptr<VFile>> files;
  for (int f = 0; f < F; ++f) {
    files.emplace_back(new VFile);
    files.back()->id = f;
    files.back()->rot_every = rot;
  }
  auto appp = std::make_unique<AsyncFileAppender>();
  AsyncFileAppender& app = *appp;
  app.set_page_allocator(alloc);
  app.set_queue_capacity(want_cap);
  size_t cap = app._queue.capacity();
  vrt_unname_all();
  vrt_name(&app._queue._next_push_index, 8, "q.push");
  vrt_name(&app._queue._next_pop_index, 8, "q.pop");
  for (size_t i = 0; i < cap; ++i) {
    vrt_namef(&app._queue._slots.futex(i), 4, "q.f%zu", i);
    vrt_payload(&app._queue._slots.value(i), sizeof(app._queue._slots.value(i)), "cell");
  }
  std::vector<std::vector<Written>> per_thread(static_cast<size_t>(T));
  for (auto& v : per_thread) {
    v.reserve(static_cast<size_t>(N * sessions));
  }
  // per-thread plans drawn before the controlled section
  struct Plan {
    std::vector<size_t> len;
    std::vector<int> file;
    std::vector<unsigned> pause;
    std::vector<bool> discard;
  };
  std::vector<Plan> plans(static_cast<size_t>(T * sessions));
  for (auto& p : plans) {
    for (int i = 0; i < N; ++i) {
      size_t k = rng.below(8);
      size_t len = k < 4 ? rng.below(ps + 2) : k < 6 ? rng.below(3 * ps) : k < 7 ? K * ps - 16 - 1 + rng.below(3) : 0;
      p.len.push_back(len);
      p.file.push_back(static_cast<int>(rng.below(static_cast<uint64_t>(F))));
      p.pause.push_back(full ? 0 : (rng.below(3) == 0 ? static_cast<unsigned>(rng.below(400)) : 0));
      p.discard.push_back(rng.below(100) < discard_pct);
    }
  }
  unsigned close_delay = race ? static_cast<unsigned>(rng.below(200)) : static_cast<unsigned>(rng.below(300));
  volatile bool closing = false;

  vrt_trace_sleep(1);
  vrt_yield_time(1);
  vrt_begin(seed);
  printf("RUN %lu cap=%zu mode=%s threads=%d n=%d files=%d ps=%zu rot=%zu sessions=%d outage=%d discard=%u\n",
         static_cast<unsigned long>(seed), cap, mode.c_str(), T, N, F, ps, rot, sessions, static_cast<int>(outage_case), discard_pct);
  int spawned = 0;
  for (int ses = 0; ses < sessions; ++ses) {
    closing = false;
    alloc.writer_tid = ++spawned;
    vrt_event("init");
    app.initialize();
    std::vector<std::thread> threads;
    for (int t = 0; t < T; ++t) {
      ++spawned;
      threads.emplace_back([&, t, ses] {
        Plan& p = plans[static_cast<size_t>(ses * T + t)];
        LogStreamBuffer buf;
        buf.set_page_allocator(alloc);
        for (int i = 0; i < N; ++i) {
          if (race && closing && i > 0) {
            break;  // after close() has begun only the write in flight may still be going on
          }
          if (outage_case && t == 0) {
            if (i == N / 3) {
              g_outage = true;
            } else if (i == (2 * N + 2) / 3) {
              g_outage = false;
            }
          }
          if (p.pause[static_cast<size_t>(i)]) {
            ::usleep(p.pause[static_cast<size_t>(i)]);
          }
          Written w;
          w.tid = t + 1;
          w.seq = ses * N + i;
          w.file = p.file[static_cast<size_t>(i)];
          w.discarded = p.discard[static_cast<size_t>(i)];
          w.data = payload(w.tid, w.seq, p.len[static_cast<size_t>(i)]);
          buf.begin();
          buf.sputn(w.data.data(), static_cast<std::streamsize>(w.data.size()));
          LogEntry& e = buf.end();
          per_thread[static_cast<size_t>(t)].push_back(w);
          Written& rec = per_thread[static_cast<size_t>(t)].back();
          if (w.discarded) {
            app.discard(e);
            continue;
          }
          std::vector<struct ::iovec> iov;
          e.append_to_iovec(ps, iov);
          std::vector<std::string> s;
          for (auto& v : iov) {
            s.push_back(std::to_string(alloc.number(v.iov_base)) + ":" + std::to_string(v.iov_len));
          }
          event_list("wbegin " + std::to_string(w.seq) + " " + std::to_string(w.file) + " " + std::to_string(e.size), "wbegin+", s);
          app.write(e, files[static_cast<size_t>(w.file)].get());
          rec.returned_before_close = !closing;
          vrt_event("wend %d", w.seq);
        }
      });
    }
    if (!race) {
      for (auto& th : threads) {
        th.join();
      }
    }
    if (close_delay) {
      ::usleep(close_delay);
    }
    g_outage = false;
    closing = true;
    vrt_event("cbegin");
    app.close();
    vrt_event("cend");
    if (race) {
      for (auto& th : threads) {
        th.join();
      }
    }
  }
  // ---- property oracle on the real code
  std::map<std::pair<int, int>, int> seen;
  for (auto& fc : content) {
    int file = (fc.first - FD_BASE) / 1000;
    const std::string& c = fc.second;
    size_t pos = 0;
    std::map<int, int> last_seq;
    while (pos < c.size()) {
      uint32_t h[4];
      if (pos + 16 > c.size()) {
        vrt_event("ORACLE mixed truncated header in file %d", file);
        break;
      }
      std::memcpy(h, &c[pos], 16);
      if (h[0] != 0x31474f4cu || pos + 16 + h[3] > c.size() ||
          c.compare(pos, 16 + h[3], payload(static_cast<int>(h[1]), static_cast<int>(h[2]), h[3])) != 0) {
        vrt_event("ORACLE mixed file %d descriptor %d offset %zu is not the start of an intact entry", file,
                  (fc.first - FD_BASE) % 1000, pos);
        break;
      }
      ++seen[{static_cast<int>(h[1]), static_cast<int>(h[2])}];
      pos += 16 + h[3];
    }
  }
  // per file and thread: order of appearance over the descriptors in order
  for (int f = 0; f < F; ++f) {
    std::map<int, int> last_seq;
    for (auto& fc : content) {
      if ((fc.first - FD_BASE) / 1000 != f) {
        continue;
      }
      const std::string& c = fc.second;
      size_t pos = 0;
      while (pos + 16 <= c.size()) {
        uint32_t h[4];
        std::memcpy(h, &c[pos], 16);
        if (h[0] != 0x31474f4cu) {
          break;
        }
        auto it = last_seq.find(static_cast<int>(h[1]));
        if (it != last_seq.end() && it->second >= static_cast<int>(h[2])) {
          vrt_event("ORACLE order file %d thread %u entry %u after entry %d", f, h[1], h[2], it->second);
        }
        last_seq[static_cast<int>(h[1])] = static_cast<int>(h[2]);
        pos += 16 + h[3];
      }
    }
  }
  size_t lost_ok = 0;
  for (auto& v : per_thread) {
    for (auto& w : v) {
      auto it = seen.find({w.tid, w.seq});
      int times = it == seen.end() ? 0 : it->second;
      if (w.discarded) {
        if (times) {
          vrt_event("ORACLE once discarded entry %d.%d reached a file", w.tid, w.seq);
        }
        continue;
      }
      if (times > 1) {
        vrt_event("ORACLE once entry %d.%d written %d times", w.tid, w.seq, times);
      }
      if (times == 0) {
        if (outage_case) {
          ++lost_ok;  // may have been flushed while its file object had no descriptor (the replay checks which)
        } else if (w.returned_before_close) {
          vrt_event("ORACLE once entry %d.%d written before close() is in no file", w.tid, w.seq);
        }
      }
    }
  }
  if (alloc.bad_free != 0) {
    vrt_event("ORACLE returned %zu pages returned twice", alloc.bad_free);
  }
  if (!race && !alloc.live.empty()) {
    vrt_event("ORACLE returned %zu pages still live of %zu allocated after close()", alloc.live.size(), alloc.allocated);
  }
  vrt_event("stats steps %lu switches %lu races %lu stale %lu entries %zu live %zu", vrt_steps(), vrt_switches(), vrt_races(),
            vrt_stale_reads(), seen.size(), alloc.live.size());
  vrt_end();
  vrt_dump(stdout);
  g_content = nullptr;
  appp.reset();
  g_alloc = nullptr;
}

int main(int argc, char** argv) {
  std::string mode = argc > 1 ? argv[1] : "mix";
  uint64_t seed0 = argc > 2 ? strtoull(argv[2], 0, 10) : 1;
  int nruns = argc > 3 ? atoi(argv[3]) : 1;
  if (mode != "mix" && mode != "full" && mode != "race" && mode != "sessions") {
    return 2;
  }
  for (int i = 0; i < nruns; ++i) {
    run_case(seed0 + static_cast<uint64_t>(i), mode);
  }
  return 0;
}
