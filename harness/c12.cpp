// E-SEQ harness for C12: interprets op lines on the real babylon::ReusableVector /
// MonotonicBasicString / ReusableManager and prints one canonical line per op (same protocol as
// lean/Drivers/C12.lean).  The SAME ops are driven on std::vector / std::string as the property
// oracle; the output line gets a " !ORACLE(<kind> ...)" suffix when the real container
//   contents   differs from the std container (size or any element),
//   shrink     loses capacity / constructed elements on a logical clear (or on any in-place op),
//   fresh      is not equal to a freshly constructed object after clear,
//   inv        breaks size <= constructed_size <= capacity,
//   lifetime   constructs over a live object, or assigns / destroys / moves from raw storage
//              (instrumented element type),
//   balance    constructed-but-not-destroyed elements != elements the containers still hold,
//   reuse      takes memory from the resource while repeating a workload that fits,
//   accessor   a manager accessor does not lead to a live instance inside the resource.
//
// usage: c12 <mode>
//   int | str | nest | elem | elemrb | stdstr     on a counting MonotonicBufferResource
//   swissint | swissstr                           on SwissMemoryResource (SwissVector / SwissString)
#include <babylon/reusable/manager.h>
#include <babylon/reusable/string.h>
#include <babylon/reusable/vector.h>

#include <cstdint>
#include <cstdio>
#include <iostream>
#include <memory>
#include <set>
#include <sstream>
#include <string>
#include <vector>

using namespace babylon;

// ---------------------------------------------------------------------------------------------
// recording resource: counts what the containers take from it, forwards to the real
// ExclusiveMonotonicBufferResource (which poisons unallocated page space under ASan)
class RecRes : public MonotonicBufferResource {
 public:
  size_t vcalls {0}, vbytes {0};  // alignment > 1: element buffers (and object headers)
  size_t ccalls {0}, cbytes {0};  // alignment 1: character buffers of strings
  size_t releases {0};
  void release() noexcept override {
    ++releases;
    inner.release();
  }
  bool contains(const void* p) noexcept override { return inner.contains(p); }
  size_t space_used() const noexcept override { return inner.space_used(); }
  size_t space_allocated() const noexcept override { return inner.space_allocated(); }

 protected:
  void* do_allocate(size_t bytes, size_t alignment) noexcept override {
    if (alignment > 1) {
      ++vcalls;
      vbytes += bytes;
    } else {
      ++ccalls;
      cbytes += bytes;
    }
    return inner.allocate(bytes, alignment);
  }
  void do_register_destructor(void* p, void (*d)(void*)) noexcept override {
    inner.register_destructor(p, d);
  }
  ExclusiveMonotonicBufferResource inner;
};

template <typename R>
struct Meter;
template <>
struct Meter<RecRes> {
  static constexpr bool counted = true;
  static size_t vcalls(RecRes& r) { return r.vcalls; }
  static size_t vbytes(RecRes& r) { return r.vbytes; }
  static size_t total(RecRes& r) { return r.vbytes + r.cbytes; }
};
template <>
struct Meter<SwissMemoryResource> {
  static constexpr bool counted = false;
  static size_t vcalls(SwissMemoryResource&) { return 0; }
  static size_t vbytes(SwissMemoryResource&) { return 0; }
  static size_t total(SwissMemoryResource& r) { return r.space_used(); }
};

// ---------------------------------------------------------------------------------------------
// value encodings (model values are naturals; 0 is the value-initialised element)
static std::string enc(long v) {
  if (v == 0) {
    return "";
  }
  std::string filler(static_cast<size_t>(v % 61), 'x');
  if (v % 4 == 3) {
    // binary payload: embedded / trailing NUL bytes and other non-printable characters (same length, so the
    // SSO / heap boundaries stay where they are)
    for (size_t i = 0; i < filler.size(); ++i) {
      filler[i] = i % 3 == 0 ? '\0' : (i % 3 == 1 ? '\x01' : '\xff');
    }
  }
  return std::to_string(v) + filler;
}
template <typename S>
static long dec_str(const S& s) {
  if (s.size() == 0) {
    return 0;
  }
  long v = 0;
  size_t i = 0;
  while (i < s.size() && s[i] >= '0' && s[i] <= '9') {
    v = v * 10 + (s[i] - '0');
    ++i;
  }
  std::string e = enc(v);
  if (v == 0 || e.size() != s.size() || std::string(s.data(), s.size()) != e) {
    return -1;  // not a value the harness ever stored
  }
  return v;
}

// instrumented element ------------------------------------------------------------------------
struct Life {
  static inline long ctor = 0, asg = 0, dtor = 0, bad = 0;
  static inline std::set<const void*> live;
  static void born(const void* p) {
    ++ctor;
    if (!live.insert(p).second) {
      ++bad;  // construct over a live object
    }
  }
  static void die(const void* p) {
    ++dtor;
    if (live.erase(p) == 0) {
      ++bad;  // destroy raw storage
    }
  }
  static void use(const void* p) {
    if (live.count(p) == 0) {
      ++bad;  // read / assign raw storage
    }
  }
  static void reset() {
    ctor = asg = dtor = bad = 0;
    live.clear();
  }
};
static constexpr int MOVED = 777777;

// reconstruct() goes through operator= / clear()
struct Elem {
  using AllocationMetadata = void;
  int v;
  Elem() : v(0) { Life::born(this); }
  explicit Elem(int x) : v(x) { Life::born(this); }
  Elem(const Elem& o) : v(o.rd()) { Life::born(this); }
  Elem(Elem&& o) : v(o.rd()) {
    o.v = MOVED;
    Life::born(this);
  }
  Elem& operator=(const Elem& o) {
    Life::use(this);
    ++Life::asg;
    v = o.rd();
    return *this;
  }
  Elem& operator=(Elem&& o) {
    Life::use(this);
    ++Life::asg;
    if (&o != this) {
      v = o.rd();
      o.v = MOVED;
    }
    return *this;
  }
  Elem& operator=(int x) {
    Life::use(this);
    ++Life::asg;
    v = x;
    return *this;
  }
  void clear() {
    Life::use(this);
    ++Life::asg;
    v = 0;
  }
  void set(int x) { *this = x; }
  ~Elem() { Life::die(this); }
  int rd() const {
    Life::use(this);
    return v;
  }
};
// reconstruct() has no usable assignment for value arguments: destroy + construct
struct ElemRB {
  using AllocationMetadata = void;
  int v;
  ElemRB() : v(0) { Life::born(this); }
  explicit ElemRB(int x) : v(x) { Life::born(this); }
  ElemRB(const ElemRB& o) : v(o.rd()) { Life::born(this); }
  ElemRB(ElemRB&& o) : v(o.rd()) {
    o.v = MOVED;
    Life::born(this);
  }
  ElemRB& operator=(const ElemRB&) = delete;
  ElemRB& operator=(ElemRB&& o) {
    Life::use(this);
    ++Life::asg;
    if (&o != this) {
      v = o.rd();
      o.v = MOVED;
    }
    return *this;
  }
  void set(int x) {
    Life::use(this);
    ++Life::asg;
    v = x;
  }
  ~ElemRB() { Life::die(this); }
  int rd() const {
    Life::use(this);
    return v;
  }
};

// element traits ------------------------------------------------------------------------------
template <typename R>
struct IntE {
  using T = int;
  using Arg = int;
  using Ref = int;
  static constexpr bool life = false, vcount = true;
  static Arg arg(long v, R&) { return static_cast<int>(v); }
  static Ref ref(long v) { return static_cast<int>(v); }
  static long dec(const T& x) { return x; }
  static void set(T& x, long v, R&) { x = static_cast<int>(v); }
};
template <typename R>
struct StrE {
  using T = MonotonicBasicString<char, std::char_traits<char>, R>;
  using Arg = std::string;
  using Ref = std::string;
  static constexpr bool life = false, vcount = true;
  static Arg arg(long v, R&) { return enc(v); }
  static Ref ref(long v) { return enc(v); }
  static long dec(const T& x) { return dec_str(x); }
  static void set(T& x, long v, R&) { x = enc(v); }
};
template <typename R>
struct StdStrE {
  using T = std::string;
  using Arg = std::string;
  using Ref = std::string;
  static constexpr bool life = false, vcount = true;
  static Arg arg(long v, R&) { return enc(v); }
  static Ref ref(long v) { return enc(v); }
  static long dec(const T& x) { return dec_str(x); }
  static void set(T& x, long v, R&) { x = enc(v); }
};
template <typename R>
struct NestE {
  using S = MonotonicBasicString<char, std::char_traits<char>, R>;
  using T = ReusableVector<S, MonotonicAllocator<S, R>>;
  using Arg = T;  // built on the scratch resource
  using Ref = std::vector<std::string>;
  static constexpr bool life = false, vcount = false;
  static Ref ref(long v) {
    Ref r;
    if (v != 0) {
      for (long k = 0; k < 1 + v % 3; ++k) {
        r.push_back(enc(v) + std::string(static_cast<size_t>(k), 'y'));
      }
    }
    return r;
  }
  static Arg arg(long v, R& scratch) {
    Arg a {MonotonicAllocator<S, R> {scratch}};
    for (auto& s : ref(v)) {
      a.emplace_back(s);
    }
    return a;
  }
  static long dec(const T& x) {
    if (x.size() == 0) {
      return 0;
    }
    std::string first(x[0].data(), x[0].size());
    long v = dec_str(first);
    if (v <= 0) {
      return -1;
    }
    Ref r = ref(v);
    if (r.size() != x.size()) {
      return -1;
    }
    for (size_t i = 0; i < r.size(); ++i) {
      if (std::string(x[i].data(), x[i].size()) != r[i]) {
        return -1;
      }
    }
    return v;
  }
  static void set(T& x, long v, R& scratch) { x = arg(v, scratch); }
};
template <typename R, typename E>
struct ElemE {
  using T = E;
  using Arg = int;
  using Ref = int;
  static constexpr bool life = true, vcount = true;
  static Arg arg(long v, R&) { return static_cast<int>(v); }
  static Ref ref(long v) { return static_cast<int>(v); }
  static long dec(const T& x) { return x.rd(); }
  static void set(T& x, long v, R&) { x.set(static_cast<int>(v)); }
};

// ---------------------------------------------------------------------------------------------
template <typename R, typename ET>
struct Runner {
  using T = typename ET::T;
  using Alloc = MonotonicAllocator<T, R>;
  using V = ReusableVector<T, Alloc>;
  using RefV = std::vector<typename ET::Ref>;
  using M = Meter<R>;

  // vector scene
  std::unique_ptr<R> res[2];
  std::unique_ptr<R> scratch;
  V* reg[2] {nullptr, nullptr};
  int rk[2] {0, 0};
  RefV ref[2];
  size_t al[2] {0, 0}, ne[2] {0, 0};
  typename V::AllocationMetadata meta[2];
  size_t snap_calls {0}, snap_total {0};
  bool have_snap {false};
  // manager scene
  std::unique_ptr<ReusableManager<R>> mgr;
  std::vector<ReusableAccessor<V>> accs;
  std::vector<RefV> mref;
  std::vector<size_t> mgen;
  size_t mheaders {0};  // object headers (sizeof(V)) the manager itself took from the resource
  size_t mreleases {0};
  std::string oracle_msg;

  Runner() { reset_all(); }
  ~Runner() { drop(); }

  void drop() {
    mgr.reset();  // ~ReusableManager releases its resource (runs the registered destructors)
    accs.clear();
    mref.clear();
    mgen.clear();
    for (int i = 0; i < 2; ++i) {
      delete reg[i];
      reg[i] = nullptr;
    }
    for (int i = 0; i < 2; ++i) {
      res[i].reset();
    }
    scratch.reset();
  }

  std::string reset_all() {
    drop();
    std::string out = "ok";
    if (ET::life && !Life::live.empty()) {
      out += " !ORACLE(balance " + std::to_string(Life::live.size()) + " elements never destroyed)";
    }
    Life::reset();
    for (int i = 0; i < 2; ++i) {
      res[i].reset(new R);
      ref[i].clear();
      al[i] = ne[i] = 0;
      rk[i] = 0;
      meta[i] = typename V::AllocationMetadata {};
    }
    scratch.reset(new R);
    reg[0] = new V(Alloc {*res[0]});
    reg[1] = new V(Alloc {*res[0]});
    mheaders = mreleases = 0;
    snap_calls = snap_total = 0;
    have_snap = false;
    return out;
  }

  static int idx(const std::string& r) { return r == "A" ? 0 : (r == "B" ? 1 : -1); }
  size_t calls_now() { return M::vcalls(*res[0]) + M::vcalls(*res[1]); }
  size_t bytes_now() { return M::vbytes(*res[0]) + M::vbytes(*res[1]); }
  size_t total_now() { return M::total(*res[0]) + M::total(*res[1]); }

  void flag(const std::string& s) { oracle_msg += " !ORACLE(" + s + ")"; }

  // ---- printing
  template <typename VV>
  void show_contents(std::ostringstream& os, const VV& v) {
    os << "[";
    for (size_t i = 0; i < v.size(); ++i) {
      long d = ET::dec(v[i]);
      if (i) {
        os << " ";
      }
      if (d < 0) {
        os << "?";
      } else {
        os << d;
      }
    }
    os << "]";
  }
  void show_reg(std::ostringstream& os, int i) {
    V& v = *reg[i];
    os << (i == 0 ? "A " : "B ") << v.size() << " " << v.constructed_size() << " " << v.capacity() << " ";
    if (M::counted && ET::vcount) {
      os << al[i] << " " << ne[i];
    } else {
      os << "- -";
    }
    os << " ";
    show_contents(os, v);
  }
  void show_life(std::ostringstream& os, size_t held) {
    if (ET::life) {
      long leaked = static_cast<long>(Life::live.size()) - static_cast<long>(held);
      os << "L " << Life::ctor << " " << Life::asg << " " << Life::dtor << " " << Life::bad << " " << leaked;
    } else {
      os << "L - - - - -";
    }
  }

  // ---- oracle pieces
  template <typename VV>
  void check_contents(const char* who, const VV& v, const RefV& r) {
    bool same = v.size() == r.size();
    for (size_t i = 0; same && i < r.size(); ++i) {
      same = ET::dec(v[i]) >= 0 && ET::dec(v[i]) == expected_dec(r[i]);
    }
    if (!same) {
      std::ostringstream os;
      os << "contents " << who << " size " << v.size() << " expected " << r.size();
      for (size_t i = 0; i < r.size() && i < v.size(); ++i) {
        if (ET::dec(v[i]) != expected_dec(r[i])) {
          os << " first-diff-at " << i << " got " << ET::dec(v[i]) << " expected " << expected_dec(r[i]);
          break;
        }
      }
      flag(os.str());
    }
  }
  static long expected_dec(const int& x) { return x; }
  static long expected_dec(const std::string& s) { return dec_str(s); }
  static long expected_dec(const std::vector<std::string>& r) { return r.empty() ? 0 : dec_str(r[0]); }

  void check_inv(const char* who, const V& v) {
    if (!(v.size() <= v.constructed_size() && v.constructed_size() <= v.capacity())) {
      std::ostringstream os;
      os << "inv " << who << " size " << v.size() << " constructed " << v.constructed_size() << " capacity " << v.capacity();
      flag(os.str());
    }
  }
  void check_life(size_t held) {
    if (!ET::life) {
      return;
    }
    if (Life::bad != 0) {
      flag("lifetime " + std::to_string(Life::bad) + " operations on storage in the wrong state");
    }
    if (Life::live.size() != held) {
      flag("balance live elements " + std::to_string(Life::live.size()) + " held by containers " + std::to_string(held));
    }
    if (static_cast<size_t>(Life::ctor - Life::dtor) != Life::live.size()) {
      flag("balance ctor-dtor " + std::to_string(Life::ctor - Life::dtor));
    }
  }
  size_t held_vec() { return reg[0]->constructed_size() + reg[1]->constructed_size(); }

  std::string finish_vec() {
    std::ostringstream os;
    for (int i = 0; i < 2; ++i) {
      check_contents(i == 0 ? "A" : "B", *reg[i], ref[i]);
      check_inv(i == 0 ? "A" : "B", *reg[i]);
    }
    check_life(held_vec());
    show_reg(os, 0);
    os << " ";
    show_reg(os, 1);
    os << " ";
    show_life(os, held_vec());
    os << oracle_msg;
    return os.str();
  }

  // ---- one single-vector operation on (v, r); returns false when the line is not such an op or its
  //      precondition fails
  bool vec_op(V& v, RefV& r, const std::vector<std::string>& w, size_t k) {
    R& sc = *scratch;
    auto num = [&](size_t i) { return std::stol(w[i]); };
    size_t n = w.size() - k;
    const std::string& op = w[k];
    size_t sz = r.size();
    size_t cap0 = v.capacity(), cons0 = v.constructed_size();
    bool shrink_ok = true;
    if (op == "push" && n == 2) {
      long x = num(k + 1);
      if (x % 2) {
        v.push_back(ET::arg(x, sc));
      } else {
        v.emplace_back(ET::arg(x, sc));
      }
      r.push_back(ET::ref(x));
    } else if (op == "pop" && n == 1) {
      if (sz == 0) {
        return false;
      }
      v.pop_back();
      r.pop_back();
    } else if (op == "insr" && n >= 2) {
      size_t i = num(k + 1);
      if (i > sz) {
        return false;
      }
      std::vector<typename ET::Arg> args;
      RefV refs;
      for (size_t j = k + 2; j < w.size(); ++j) {
        args.push_back(ET::arg(num(j), sc));
        refs.push_back(ET::ref(num(j)));
      }
      auto it = v.insert(v.begin() + i, args.begin(), args.end());
      if (it != v.begin() + i) {
        flag("contents insert returned a wrong iterator");
      }
      r.insert(r.begin() + i, refs.begin(), refs.end());
    } else if (op == "insn" && n == 4) {
      size_t i = num(k + 1), c = num(k + 2);
      long x = num(k + 3);
      if (i > sz) {
        return false;
      }
      auto it = v.insert(v.begin() + i, c, ET::arg(x, sc));
      if (it != v.begin() + i) {
        flag("contents insert returned a wrong iterator");
      }
      r.insert(r.begin() + i, c, ET::ref(x));
    } else if (op == "emp" && n == 3) {
      size_t i = num(k + 1);
      long x = num(k + 2);
      if (i > sz) {
        return false;
      }
      if (x % 2) {
        v.emplace(v.begin() + i, ET::arg(x, sc));
      } else {
        v.insert(v.begin() + i, ET::arg(x, sc));
      }
      r.insert(r.begin() + i, ET::ref(x));
    } else if (op == "pushself" && n == 2) {
      // the argument is a reference to an element of the vector itself (std::vector must cope)
      size_t j = num(k + 1);
      if (j >= sz) {
        return false;
      }
      if (j % 2) {
        v.push_back(v[j]);
      } else {
        v.emplace_back(v[j]);
      }
      r.push_back(r[j]);
    } else if (op == "insnself" && n == 4) {
      size_t i = num(k + 1), c = num(k + 2), j = num(k + 3);
      if (i > sz || j >= sz) {
        return false;
      }
      v.insert(v.begin() + i, c, v[j]);
      r.insert(r.begin() + i, c, r[j]);
    } else if (op == "empself" && n == 3) {
      size_t i = num(k + 1), j = num(k + 2);
      if (i > sz || j >= sz) {
        return false;
      }
      if (j % 2) {
        v.emplace(v.begin() + i, v[j]);
      } else {
        v.insert(v.begin() + i, v[j]);
      }
      r.insert(r.begin() + i, r[j]);
    } else if (op == "erase" && n == 3) {
      size_t i = num(k + 1), j = num(k + 2);
      if (!(i <= j && j <= sz)) {
        return false;
      }
      typename V::iterator it;
      if (j == i + 1 && i % 2) {
        it = v.erase(v.begin() + i);
      } else {
        it = v.erase(v.begin() + i, v.begin() + j);
      }
      if (it != v.begin() + i) {
        flag("contents erase returned a wrong iterator");
      }
      r.erase(r.begin() + i, r.begin() + j);
    } else if (op == "resize" && n == 2) {
      v.resize(num(k + 1));
      r.resize(num(k + 1));
    } else if (op == "resizev" && n == 3) {
      v.resize(num(k + 1), ET::arg(num(k + 2), sc));
      r.resize(num(k + 1), ET::ref(num(k + 2)));
    } else if (op == "assignl") {
      std::vector<typename ET::Arg> args;
      RefV refs;
      for (size_t j = k + 1; j < w.size(); ++j) {
        args.push_back(ET::arg(num(j), sc));
        refs.push_back(ET::ref(num(j)));
      }
      v.assign(args.begin(), args.end());
      r.assign(refs.begin(), refs.end());
    } else if (op == "assignn" && n == 3) {
      v.assign(static_cast<size_t>(num(k + 1)), ET::arg(num(k + 2), sc));
      r.assign(static_cast<size_t>(num(k + 1)), ET::ref(num(k + 2)));
    } else if (op == "assignc" && n == 2) {
      v.assign(static_cast<size_t>(num(k + 1)));
      r.assign(static_cast<size_t>(num(k + 1)), ET::ref(0));
    } else if (op == "reserve" && n == 2) {
      v.reserve(num(k + 1));
      r.reserve(num(k + 1));
    } else if (op == "clear" && n == 1) {
      v.clear();
      r.clear();
      // "equal to a freshly constructed one": every observer of contents agrees with an empty vector
      if (!(v.size() == 0 && v.empty() && v.begin() == v.end() && v.rbegin() == v.rend())) {
        flag("fresh cleared vector is not observably empty");
      }
    } else if (op == "set" && n == 3) {
      size_t i = num(k + 1);
      if (i >= sz) {
        return false;
      }
      ET::set(v[i], num(k + 2), sc);
      r[i] = ET::ref(num(k + 2));
    } else {
      return false;
    }
    if (v.capacity() < cap0 || v.constructed_size() < cons0) {
      std::ostringstream os;
      os << "shrink " << op << " capacity " << cap0 << "->" << v.capacity() << " constructed " << cons0 << "->"
         << v.constructed_size();
      flag(os.str());
    }
    (void)shrink_ok;
    return true;
  }

  // attribute what the resources handed out during `f` to register `i`
  template <typename F>
  void metered(int i, F&& f) {
    size_t c0 = calls_now(), b0 = bytes_now();
    f();
    al[i] += calls_now() - c0;
    ne[i] += (bytes_now() - b0) / sizeof(T);
  }
  template <typename F>
  void renew(int i, int k, F&& make) {
    delete reg[i];
    reg[i] = nullptr;
    al[i] = ne[i] = 0;
    rk[i] = k;
    metered(i, [&] { reg[i] = make(); });
  }

  std::string step(const std::vector<std::string>& w) {
    oracle_msg.clear();
    if (w.empty()) {
      return "bad-op";
    }
    auto num = [&](size_t i) { return std::stol(w[i]); };
    const std::string& c = w[0];
    if (c == "reset" && w.size() == 1) {
      return reset_all();
    }
    if (c == "snap" && w.size() == 1) {
      snap_calls = calls_now() + (mgr ? M::vcalls(mgr->resource()) : 0);
      snap_total = total_now() + (mgr ? M::total(mgr->resource()) : 0);
      have_snap = true;
      return "ok";
    }
    if ((c == "noalloc" || c == "noalloc-total") && w.size() == 1 && !have_snap) {
      return "ok";  // nothing to compare with (a minimised case may have lost its `snap`)
    }
    if ((c == "noalloc" || c == "noalloc-total") && w.size() == 1) {
      have_snap = false;
      // noalloc: element buffers only (plus everything when elements own no memory of the resource);
      // noalloc-total: every byte (after a manager re-creation with converged metadata)
      size_t calls = calls_now() + (mgr ? M::vcalls(mgr->resource()) : 0);
      size_t total = total_now() + (mgr ? M::total(mgr->resource()) : 0);
      bool all = c == "noalloc-total" || std::is_same<T, int>::value || ET::life || std::is_same<T, std::string>::value;
      if (!all) {
        total = snap_total;
      }
      if (!(M::counted && ET::vcount)) {
        calls = snap_calls;
      }
      std::ostringstream os;
      os << "ok";
      if (calls != snap_calls || total != snap_total) {
        os << " !ORACLE(reuse workload that fits took " << (calls - snap_calls) << " buffers, " << (total - snap_total)
           << " bytes from the resource)";
      }
      return os.str();
    }
    // ------------------------------------------------------------------ vector scene
    if ((c == "new" && w.size() == 3) || (c == "newn" && w.size() == 5) || (c == "newc" && w.size() == 4) ||
        (c == "newl" && w.size() >= 3)) {
      int i = idx(w[1]);
      int k = num(2);
      if (i < 0 || k < 0 || k > 1) {
        return "bad-op";
      }
      Alloc a {*res[k]};
      R& sc = *scratch;
      if (c == "new") {
        renew(i, k, [&] { return new V(a); });
        ref[i].clear();
      } else if (c == "newn") {
        size_t n = num(3);
        long x = num(4);
        renew(i, k, [&] { return new V(n, ET::arg(x, sc), a); });
        ref[i].assign(n, ET::ref(x));
      } else if (c == "newc") {
        size_t n = num(3);
        renew(i, k, [&] { return new V(n, a); });
        ref[i].assign(n, ET::ref(0));
      } else {
        std::vector<typename ET::Arg> args;
        RefV refs;
        for (size_t j = 3; j < w.size(); ++j) {
          args.push_back(ET::arg(num(j), sc));
          refs.push_back(ET::ref(num(j)));
        }
        renew(i, k, [&] { return new V(args.begin(), args.end(), a); });
        ref[i] = refs;
      }
      return finish_vec();
    }
    if (c == "swap" && w.size() == 1) {
      if (rk[0] != rk[1]) {
        return "bad-op";
      }
      if (reg[0]->size() % 2) {
        reg[0]->swap(*reg[1]);
      } else {
        swap(*reg[1], *reg[0]);
      }
      std::swap(ref[0], ref[1]);
      return finish_vec();
    }
    if ((c == "copyassign" || c == "moveassign") && w.size() == 2) {
      int d = idx(w[1]);
      if (d < 0) {
        return "bad-op";
      }
      int s = 1 - d;
      if (c == "copyassign") {
        metered(d, [&] { *reg[d] = static_cast<const V&>(*reg[s]); });
        ref[d] = ref[s];
      } else {
        bool same = rk[d] == rk[s];
        RefV moved = ref[s];
        metered(d, [&] { *reg[d] = std::move(*reg[s]); });
        if (same) {
          std::swap(ref[d], ref[s]);
        } else {
          ref[d] = moved;
          resync(s);  // the moved-from elements are "valid but unspecified"
        }
      }
      return finish_vec();
    }
    if ((c == "copyctor" || c == "movector") && w.size() == 3) {
      int d = idx(w[1]);
      int k = num(2);
      if (d < 0 || k < 0 || k > 1) {
        return "bad-op";
      }
      int s = 1 - d;
      Alloc a {*res[k]};
      if (c == "copyctor") {
        bool plain = k == rk[s] && reg[s]->size() % 2 == 0;
        renew(d, k, [&] { return plain ? new V(static_cast<const V&>(*reg[s])) : new V(static_cast<const V&>(*reg[s]), a); });
        ref[d] = ref[s];
      } else {
        bool same = k == rk[s];
        bool plain = same && reg[s]->size() % 2 == 0;
        RefV moved = ref[s];
        renew(d, k, [&] { return plain ? new V(std::move(*reg[s])) : new V(std::move(*reg[s]), a); });
        ref[d] = moved;
        if (same) {
          ref[s].clear();
        } else {
          resync(s);
        }
      }
      return finish_vec();
    }
    if (c == "meta" && w.size() == 2) {
      int i = idx(w[1]);
      if (i < 0) {
        return "bad-op";
      }
      reg[i]->update_allocation_metadata(meta[i]);
      return "meta " + std::to_string(meta[i].capacity);
    }
    if (c == "remeta" && w.size() == 3) {
      int i = idx(w[1]);
      int k = num(2);
      if (i < 0 || k < 0 || k > 1) {
        return "bad-op";
      }
      Alloc a {*res[k]};
      renew(i, k, [&] { return new V(meta[i], a); });
      ref[i].clear();
      return finish_vec();
    }
    if (idx(c) >= 0 && w.size() >= 2) {
      int i = idx(c);
      bool ok = false;
      metered(i, [&] { ok = vec_op(*reg[i], ref[i], w, 1); });
      if (!ok) {
        return "bad-op";
      }
      return finish_vec();
    }
    // ------------------------------------------------------------------ manager scene
    if (c == "mnew" && w.size() == 2) {
      have_snap = false;
      mgr.reset();
      accs.clear();
      mref.clear();
      mgen.clear();
      mgr.reset(new ReusableManager<R>);
      if (num(1) != 0) {
        mgr->set_recreate_interval(num(1));
      }
      mheaders = mreleases = 0;
      return finish_mgr();
    }
    if (!mgr) {
      return "bad-op";
    }
    if (c == "mcreate" && w.size() == 1) {
      accs.push_back(mgr->template create_object<V>());
      ++mheaders;
      mref.emplace_back();
      mgen.push_back(0);
      return "acc " + std::to_string(accs.size() - 1) + " " + finish_mgr();
    }
    if (c == "minterval" && w.size() == 2) {
      mgr->set_recreate_interval(num(1));
      return finish_mgr();
    }
    if (c == "mclear" && w.size() == 1) {
      size_t before = mgr->_clear_times;
      mgr->clear();
      bool recreated = before + 1 >= mgr->_recreate_interval;
      if (recreated) {
        ++mreleases;
        mheaders += accs.size();
        for (auto& g : mgen) {
          ++g;
        }
      }
      for (auto& r : mref) {
        r.clear();
      }
      return finish_mgr();
    }
    if (c == "m" && w.size() >= 3) {
      size_t a = num(1);
      if (a >= accs.size()) {
        return "bad-op";
      }
      if (!vec_op(*accs[a], mref[a], w, 2)) {
        return "bad-op";
      }
      return finish_mgr();
    }
    return "bad-op";
  }

  // after a cross-allocator move the source keeps its size with moved-from elements: take what is there
  void resync(int s) {
    ref[s].clear();
    for (size_t i = 0; i < reg[s]->size(); ++i) {
      long d = ET::dec((*reg[s])[i]);
      ref[s].push_back(ET::ref(d < 0 ? 0 : d));
    }
  }

  std::string finish_mgr() {
    std::ostringstream os;
    os << "M " << mgr->_clear_times << " " << mreleases;
    size_t held = 0;
    for (size_t a = 0; a < accs.size(); ++a) {
      V* p = accs[a].get();
      if (!accs[a] || p == nullptr || !mgr->resource().contains(p)) {
        flag("accessor " + std::to_string(a) + " does not lead into the manager's resource");
        os << " U ? ? ? ? []";
        continue;
      }
      if (&*accs[a] != p || accs[a].operator->() != p) {
        flag("accessor " + std::to_string(a) + " operators disagree");
      }
      check_contents("unit", *p, mref[a]);
      check_inv("unit", *p);
      held += p->constructed_size();
      os << " U " << mgen[a] << " " << p->size() << " " << p->constructed_size() << " " << p->capacity() << " ";
      show_contents(os, *p);
    }
    check_life(held);
    os << " ";
    show_life(os, held);
    os << " T ";
    if (M::counted && ET::vcount) {
      R& r = mgr->resource();
      os << (M::vcalls(r) - mheaders) << " " << (M::vbytes(r) - mheaders * sizeof(V)) / sizeof(T);
    } else {
      os << "- -";
    }
    os << oracle_msg;
    return os.str();
  }

  void run() {
    std::string line;
    while (std::getline(std::cin, line)) {
      std::istringstream is(line);
      std::vector<std::string> w;
      std::string t;
      while (is >> t) {
        w.push_back(t);
      }
      std::cout << step(w) << "\n" << std::flush;
    }
  }
};

// ---------------------------------------------------------------------------------------------
// string scene: MonotonicString against std::string
template <typename R>
struct StrRunner {
  using S = MonotonicBasicString<char, std::char_traits<char>, R>;
  using ST = ReusableTraits<S>;
  std::unique_ptr<R> res;
  std::unique_ptr<R> res2;  // a second resource: sources of cross-allocator assignments live here
  S* s {nullptr};
  std::string ref;
  typename ST::AllocationMetadata meta;

  StrRunner() { fresh(); }
  void fresh() {
    res.reset(new R);
    res2.reset(new R);
    s = MonotonicAllocator<S, R> {*res}.create();
    ref.clear();
    meta = typename ST::AllocationMetadata {};
  }
  std::string show(const std::string& extra, bool with_chars = true) {
    std::ostringstream os;
    os << "S " << s->size() << " " << s->capacity();
    if (with_chars) {
      os << " [";
      for (size_t i = 0; i < s->size(); ++i) {
        os << (i ? " " : "") << static_cast<int>(static_cast<unsigned char>((*s)[i]));
      }
      os << "]";
      if (std::string(s->data(), s->size()) != ref || s->size() != ref.size() || (*s == ref) == false) {
        os << " !ORACLE(contents string differs from std::string: size " << s->size() << " expected " << ref.size() << ")";
      }
    } else if (s->size() != ref.size()) {
      os << " !ORACLE(contents string size " << s->size() << " expected " << ref.size() << ")";
    }
    if (s->c_str()[s->size()] != '\0') {
      os << " !ORACLE(contents string not terminated)";
    }
    os << extra;
    return os.str();
  }
  static std::string chars(const std::vector<std::string>& w, size_t k) {
    std::string r;
    for (size_t j = k; j < w.size(); ++j) {
      r.push_back(static_cast<char>(std::stol(w[j])));
    }
    return r;
  }
  bool handles(const std::vector<std::string>& w) {
    static const std::set<std::string> cmds {"snew", "sassign", "sappend", "sclear", "sreserve", "sresizeu", "smeta", "sremeta", "smove"};
    return !w.empty() && cmds.count(w[0]) != 0;
  }
  std::string step(const std::vector<std::string>& w) {
    const std::string& c = w[0];
    size_t cap0 = s->capacity();
    std::string extra;
    auto keep = [&](const char* what) {
      if (s->capacity() < cap0) {
        extra += std::string(" !ORACLE(shrink ") + what + " capacity " + std::to_string(cap0) + "->" + std::to_string(s->capacity()) + ")";
      }
    };
    if (c == "snew" && w.size() == 1) {
      fresh();
      return show("");
    }
    if (c == "sassign") {
      // every way of giving a MonotonicBasicString a new value that must keep its own buffer
      std::string x = chars(w, 1);
      MonotonicAllocator<char, R> same {*res}, other {*res2};
      switch ((x.size() + (x.empty() ? 0 : static_cast<unsigned char>(x[0]))) % 7) {
        case 0:
          *s = x;  // operator=(const std::basic_string<C, traits, A>&)
          break;
        case 1:
          s->assign(x.data(), x.size());  // const char* + length
          break;
        case 2:
          *s = std::string_view(x);  // std::basic_string::operator=(string_view) via `using Base::operator=`
          break;
        case 3: {
          S tmp(x, same);  // converting constructor, then copy assignment from another monotonic string
          *s = tmp;
          break;
        }
        case 4: {
          S tmp(x, other);  // move assignment across resources degrades to a copy
          *s = std::move(tmp);
          break;
        }
        case 5: {
          S t0(x, other);
          S tmp(std::move(t0), same);  // MonotonicBasicString(MonotonicBasicString&&, allocator) across resources
          *s = tmp;
          break;
        }
        default:
          s->assign(x.begin(), x.end());  // iterator range
          break;
      }
      ref = x;
      keep("assign");
      return show(extra);
    }
    if (c == "smove") {
      // move assignment on the same resource swaps buffers: the string takes the source's capacity
      std::string x = chars(w, 1);
      S tmp(x, MonotonicAllocator<char, R> {*res});
      *s = std::move(tmp);
      ref = x;
      return show(extra);
    }
    if (c == "sappend") {
      std::string x = chars(w, 1);
      s->append(x.data(), x.size());
      ref += x;
      keep("append");
      return show(extra);
    }
    if (c == "sclear" && w.size() == 1) {
      if (cap0 % 2) {
        s->clear();
      } else {
        Reuse::reconstruct(*s, MonotonicAllocator<S, R> {*res});
      }
      ref.clear();
      keep("clear");
      if (!s->empty()) {
        extra += " !ORACLE(fresh cleared string not empty)";
      }
      return show(extra);
    }
    if (c == "sreserve" && w.size() == 2) {
      stable_reserve(*s, std::stoul(w[1]));
      keep("stable_reserve");
      return show(extra);
    }
    if (c == "sresizeu" && w.size() == 2) {
      size_t n = std::stoul(w[1]);
      auto p = resize_uninitialized(*s, n);
      // give the uninitialised tail a defined value on both sides
      for (size_t i = ref.size(); i < n; ++i) {
        p[i] = 'u';
      }
      ref.resize(n, 'u');
      keep("resize_uninitialized");
      return show(extra, false);
    }
    if (c == "smeta" && w.size() == 1) {
      ST::update_allocation_metadata(*s, meta);
      return "meta " + std::to_string(meta.capacity);
    }
    if (c == "sremeta" && w.size() == 1) {
      // what TypedReusableUnit::recreate does, on a released resource
      res->release();
      s = Reuse::create_with_allocation_metadata<S>(MonotonicAllocator<S, R> {*res}, meta);
      ref.clear();
      if (s->capacity() < meta.capacity) {
        extra += " !ORACLE(shrink recreated string capacity " + std::to_string(s->capacity()) + " below metadata " + std::to_string(meta.capacity) + ")";
      }
      return show(extra);
    }
    return "bad-op";
  }
};

template <typename R, typename ET>
int run_mode() {
  Runner<R, ET> vr;
  StrRunner<R> sr;
  std::string line;
  while (std::getline(std::cin, line)) {
    std::istringstream is(line);
    std::vector<std::string> w;
    std::string t;
    while (is >> t) {
      w.push_back(t);
    }
    if (w.size() == 1 && w[0] == "reset") {
      sr.fresh();
    }
    if (sr.handles(w)) {
      std::cout << sr.step(w) << "\n" << std::flush;
    } else {
      std::cout << vr.step(w) << "\n" << std::flush;
    }
  }
  return 0;
}

int main(int argc, char** argv) {
  std::string mode = argc > 1 ? argv[1] : "int";
  if (mode == "int") {
    return run_mode<RecRes, IntE<RecRes>>();
  } else if (mode == "str") {
    return run_mode<RecRes, StrE<RecRes>>();
  } else if (mode == "stdstr") {
    return run_mode<RecRes, StdStrE<RecRes>>();
  } else if (mode == "nest") {
    return run_mode<RecRes, NestE<RecRes>>();
  } else if (mode == "elem") {
    return run_mode<RecRes, ElemE<RecRes, Elem>>();
  } else if (mode == "elemrb") {
    return run_mode<RecRes, ElemE<RecRes, ElemRB>>();
  } else if (mode == "swissint") {
    return run_mode<SwissMemoryResource, IntE<SwissMemoryResource>>();
  } else if (mode == "swissstr") {
    return run_mode<SwissMemoryResource, StrE<SwissMemoryResource>>();
  }
  return 2;
}
