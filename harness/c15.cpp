// E-CONC harness for C15 (ConcurrentTransientTopic) under VRT.
// usage: c15 <mode> <seed0> <nruns>
//   mode lock : slots reserved up front and every slot's futex word named, so the atomic-level trace
//               is replayed in lock-step by lean/Drivers/C15.lean; property oracle evaluated too
//   mode grow : nothing reserved (the ConcurrentVector grows under the publishers / consumers),
//               nothing named: oracle + happens-before race monitor + deadlock verdict only
// One run = 1-3 publish/close/clear cycles; per cycle an optional sequential prefix batch (so that the
// concurrent ranges straddle the 128-slot block boundary), 1-3 publishers (single publish and
// publish_n(0..5)), 1-3 consumers (consume() and consume(1..5)), close by the main thread or by the
// last publisher, optionally a consumer that subscribes after close, then clear().
// Output per run:  RUN <seed> bs=<block> cap=<slots> threads=<bound> mode=<mode>\n <trace lines> END
// Oracle verdicts are harness events `ev ORACLE <kind> ...` in the trace:
//   shared-slot   two publish callbacks were handed the same index
//   pieces        the callback ranges of one publish_n do not add up to n / are not ascending
//   order         a consumer's sequence differs from the published items in index order
//   early-end     a consumer saw the end marker before it had received every item
//   no-end        a consumer did not see the end marker after the last item
//   after-end     a consumer received something after the end marker
//   torn          an item's two words are inconsistent (publisher's writes not fully visible)
//   clear         after clear() the topic is not in the state of a new one
#include "../vrt/vrt.h"

#include <babylon/concurrent/transient_topic.h>

#include <algorithm>
#include <atomic>
#include <cstdio>
#include <cstdlib>
#include <cstring>
#include <string>
#include <thread>
#include <vector>

using namespace babylon;

static inline uint64_t mate(uint64_t a) { return a * 3 + 1; }
struct Ctx;
// what `publish(value)` is called with: assigning it to the slot's item is the callback's plain write
struct Pub {
  uint64_t v;
  Ctx* c;
};
struct Item {
  uint64_t a;
  uint64_t b;
  Item() = default;
  Item(uint64_t x, uint64_t y) : a(x), b(y) {}
  Item& operator=(const Pub& p);
};

using Topic = ConcurrentTransientTopic<Item>;

struct Rng {
  uint64_t s;
  explicit Rng(uint64_t x) : s(x * 0x9E3779B97F4A7C15ull + 1) {}
  uint64_t next() {
    s ^= s << 13;
    s ^= s >> 7;
    s ^= s << 17;
    return s * 0x2545F4914F6CDD1Dull;
  }
  uint64_t below(uint64_t n) { return (next() >> 11) % n; }
};

constexpr size_t BS = 128;

struct Ctx {
  Topic topic;
  std::vector<Topic::Slot*> blocks;   // block base addresses (lock mode: known up front)
  bool lock = false;
  // reference: what was published at which index in this cycle
  std::vector<uint64_t> ref;
  std::vector<char> refset;

  long index_of(Topic::Slot* p) {
    for (size_t k = 0; k < blocks.size(); ++k)
      if (p >= blocks[k] && p < blocks[k] + BS) return (long)(k * BS + (p - blocks[k]));
    return -1;
  }
};

// values `first:count` runs of consecutive values
static std::string runs(const std::vector<uint64_t>& v) {
  std::string out;
  size_t i = 0;
  while (i < v.size()) {
    size_t j = i + 1;
    while (j < v.size() && v[j] == v[j - 1] + 1) ++j;
    out += " " + std::to_string(v[i]) + ":" + std::to_string(j - i);
    i = j;
  }
  return out;
}

Item& Item::operator=(const Pub& p) {
  Ctx& c = *p.c;
  if (c.lock) {
    long idx = c.index_of(reinterpret_cast<Topic::Slot*>(this));
    if (idx >= 0) {
      if (c.refset[idx]) vrt_event("ORACLE shared-slot index %ld", idx);
      c.refset[idx] = 1;
      c.ref[idx] = p.v;
    }
    vrt_event("fill %ld 1 %lu:1", idx, (unsigned long)p.v);
  }
  a = p.v;
  b = mate(p.v);
  return *this;
}

static void do_publish(Ctx& c, size_t n, uint64_t base, bool single) {
  vrt_event("call publish %zu", n);
  if (single) {
    // publish(U&&) = publish_n(1, assign): Item::operator=(Pub) is the callback's plain write
    c.topic.publish(Pub {base, &c});
  } else {
    size_t total = 0;
    long last = -1;
    c.topic.publish_n(n, [&](Topic::Iterator b, Topic::Iterator e) {
      size_t k = (size_t)(e - b);
      long idx = c.lock ? c.index_of(b._slot) : -1;
      if (c.lock) {
        if (idx < 0 || idx <= last) vrt_event("ORACLE pieces callback range at %ld after %ld", idx, last);
        last = idx + (long)k - 1;
        for (size_t i = 0; i < k && idx >= 0; ++i) {
          if (c.refset[idx + i]) vrt_event("ORACLE shared-slot index %ld", idx + (long)i);
          c.refset[idx + i] = 1;
          c.ref[idx + i] = base + total + i;
        }
        vrt_event("fill %ld %zu %lu:%zu", idx, k, (unsigned long)(base + total), k);
      }
      for (size_t i = 0; i < k; ++i) {
        uint64_t v = base + total + i;
        *(b + (ssize_t)i) = Item(v, mate(v));
      }
      total += k;
    });
    if (total != n) vrt_event("ORACLE pieces callback ranges add up to %zu, publish_n(%zu)", total, n);
  }
  vrt_event("ret publish");
}

struct ConsumerLog {
  std::vector<uint64_t> got;
  bool ended = false;
  bool bad_after_end = false;
  bool torn = false;
};

// one consume call; returns false when the end marker was seen
static bool do_consume(Topic::Consumer& cons, ConsumerLog& log, size_t k, bool single) {
  std::vector<uint64_t> vals;
  size_t m = 0;
  if (single) {
    vrt_event("call consume 1");
    Item* p = cons.consume();
    if (p != nullptr) {
      m = 1;
      if (p->b != mate(p->a)) log.torn = true;
      vals.push_back(p->a);
    }
    k = 1;
  } else {
    vrt_event("call consume %zu", k);
    auto range = cons.consume(k);
    m = range.size();
    for (size_t i = 0; i < m; ++i) {
      Item& it = range[i];
      if (it.b != mate(it.a)) log.torn = true;
      vals.push_back(it.a);
    }
  }
  vrt_event("ret consume %zu%s", m, runs(vals).c_str());
  if (log.ended && m > 0) log.bad_after_end = true;
  for (auto v : vals) log.got.push_back(v);
  if (m < k) log.ended = true;
  return m == k;
}

static void consumer_body(Ctx& c, ConsumerLog& log, uint64_t seed, size_t prefix, std::atomic<int>* past_prefix = nullptr) {
  Rng r(seed);
  struct Arrive {   // tell the publishers that this consumer is past the sequential prefix (or gone)
    std::atomic<int>* p;
    bool done = false;
    void now() { if (p && !done) { done = true; p->fetch_add(1); } }
    ~Arrive() { now(); }
  } arrive {past_prefix};
  vrt_event("subscribe");
  auto cons = c.topic.subscribe();
  bool resub = r.below(100) < 8;
  if (prefix > 0) {
    // skip the sequential prefix in one or two big calls
    size_t first = r.below(3) == 0 ? 1 + r.below(prefix) : prefix;
    if (!do_consume(cons, log, first, false)) return;
    if (first < prefix && !do_consume(cons, log, prefix - first, false)) return;
  }
  arrive.now();
  int calls = 0;
  for (;;) {
    bool single = r.below(100) < 35;
    size_t k = 1 + r.below(5);
    bool more = do_consume(cons, log, k, single);
    ++calls;
    if (resub && calls == 2 && more) {
      // drop this consumer and start over with a new one: it must see everything from index 0 again
      resub = false;
      vrt_event("subscribe");
      cons = c.topic.subscribe();
      log = ConsumerLog {};
      continue;
    }
    if (!more) break;
  }
  if (r.below(100) < 40) do_consume(cons, log, 1 + r.below(3), r.below(2));   // the end marker is sticky
}

static void check_consumer(Ctx& c, const ConsumerLog& log, size_t total, int who) {
  if (log.torn) vrt_event("ORACLE torn consumer %d read an item whose two words disagree", who);
  if (log.bad_after_end) vrt_event("ORACLE after-end consumer %d received items after the end marker", who);
  if (!log.ended) vrt_event("ORACLE no-end consumer %d never saw the end marker", who);
  size_t n = log.got.size();
  for (size_t i = 0; i < n && i < total; ++i) {
    if (log.got[i] != c.ref[i]) {
      vrt_event("ORACLE order consumer %d item %zu is %lu, published %lu", who, i, (unsigned long)log.got[i], (unsigned long)c.ref[i]);
      return;
    }
  }
  if (n < total) vrt_event("ORACLE early-end consumer %d got %zu of %zu items before the end marker", who, n, total);
  if (n > total) vrt_event("ORACLE order consumer %d got %zu items, %zu were published", who, n, total);
}

static void run(uint64_t seed, bool lock) {
  Rng rng(seed);
  auto* cp = new Ctx;
  Ctx& c = *cp;
  c.lock = lock;
  size_t cap = 0;
  vrt_unname_all();
  if (lock) {
    c.topic._slots.reserve(2 * BS);
    cap = c.topic._slots.size();
    for (size_t k = 0; k < cap / BS; ++k) c.blocks.push_back(&c.topic._slots[k * BS]);
    vrt_name(&c.topic._next_event_index, sizeof(c.topic._next_event_index), "next");
    for (size_t i = 0; i < cap; ++i) vrt_namef(&c.topic._slots[i].futex, sizeof(uint32_t), "w%zu", i);
    for (size_t k = 0; k < c.blocks.size(); ++k) {
      char nm[16];
      snprintf(nm, sizeof nm, "blk%zu", k);
      vrt_payload(c.blocks[k], BS * sizeof(Topic::Slot), nm);
    }
  }
  int cycles = 1 + (int)rng.below(3);
  uint64_t call_no = 1;
  vrt_begin(seed);
  printf("RUN %lu bs=%zu cap=%zu threads=64 mode=%s\n", (unsigned long)seed, BS, cap, lock ? "lock" : "grow");
  for (int cyc = 0; cyc < cycles; ++cyc) {
    c.ref.assign(4 * BS, 0);
    c.refset.assign(4 * BS, 0);
    size_t total = 0;
    // sequential prefix so that the concurrent part straddles the block boundary
    size_t prefix = 0;
    {
      uint64_t d = rng.below(100);
      if (d < 40) prefix = BS - 1 - rng.below(8);
      else if (d < 55) prefix = 1 + rng.below(5);
    }
    int P = 1 + (int)rng.below(3), C = 1 + (int)rng.below(3);
    struct Call { size_t n; uint64_t base; bool single; };
    std::vector<std::vector<Call>> prog(P);
    for (int p = 0; p < P; ++p) {
      int ncalls = 1 + (int)rng.below(3);
      for (int k = 0; k < ncalls; ++k) {
        bool single = rng.below(100) < 40;
        size_t n = single ? 1 : (rng.below(100) < 6 ? 0 : 1 + rng.below(5));
        prog[p].push_back({n, (call_no++) * 1000, single});
        total += n;
      }
    }
    bool publisher_closes = rng.below(100) < 40;
    bool late_consumer = rng.below(100) < 30;
    bool consumers_first = rng.below(2);
    uint64_t prefix_base = (call_no++) * 1000;
    if (prefix > 0) {
      do_publish(c, prefix, prefix_base, false);
      total += prefix;
    }
    std::vector<ConsumerLog> logs(C + 1);
    std::vector<std::thread> pubs, cons;
    std::atomic<int> done {0};
    // in most cycles with a long prefix the publishers start only when every consumer stands at the end of
    // the prefix, so that consumers sleep on slots around the block boundary
    std::atomic<int> past_prefix {0};
    bool hold_publishers = prefix >= 100 && rng.below(100) < 60;
    auto spawn_consumers = [&] {
      for (int k = 0; k < C; ++k) {
        uint64_t s = rng.next();
        cons.emplace_back([&, k, s] { consumer_body(c, logs[k], s, prefix, &past_prefix); });
      }
    };
    auto do_close = [&] {
      vrt_event("call close");
      c.topic.close();
      vrt_event("ret close");
    };
    if (consumers_first) spawn_consumers();
    for (int p = 0; p < P; ++p) {
      pubs.emplace_back([&, p] {
        if (hold_publishers)
          while (past_prefix.load() < C) sched_yield();
        for (auto& call : prog[p]) do_publish(c, call.n, call.base, call.single);
        if (done.fetch_add(1) + 1 == P && publisher_closes) do_close();
      });
    }
    if (!consumers_first) spawn_consumers();
    for (auto& t : pubs) t.join();
    if (!publisher_closes) do_close();
    if (late_consumer) consumer_body(c, logs[C], rng.next(), rng.below(2) ? prefix : 0);
    for (auto& t : cons) t.join();
    // ---- oracle
    size_t next_now;
    memcpy(&next_now, (void*)&c.topic._next_event_index, sizeof next_now);
    if (next_now != total) vrt_event("ORACLE shared-slot next index is %zu after publishing %zu items", next_now, total);
    if (lock) {
      for (size_t i = 0; i < total; ++i)
        if (!c.refset[i]) vrt_event("ORACLE shared-slot index %zu below the count was never handed to a callback", i);
    } else {
      // indices are not observable without names: the reference is what the slots hold; as a
      // multiset it must be exactly what was published (every value in exactly one slot)
      std::vector<uint64_t> have, want;
      for (size_t i = 0; i < total && i < next_now; ++i) {
        Item it;
        memcpy((void*)&it, (void*)&c.topic._slots[i].value, sizeof it);
        c.ref[i] = it.a;
        have.push_back(it.a);
      }
      for (size_t i = 0; i < prefix; ++i) want.push_back(prefix_base + i);
      for (auto& pp : prog)
        for (auto& call : pp)
          for (size_t i = 0; i < call.n; ++i) want.push_back(call.base + i);
      std::sort(have.begin(), have.end());
      std::sort(want.begin(), want.end());
      if (have != want) vrt_event("ORACLE shared-slot the slots below the count do not hold each published value once");
    }
    for (int k = 0; k < C + (late_consumer ? 1 : 0); ++k) check_consumer(c, logs[k], total, k);
    if (cyc + 1 < cycles || rng.below(2)) {
      vrt_event("call clear");
      c.topic.clear();
      vrt_event("ret clear");
      memcpy(&next_now, (void*)&c.topic._next_event_index, sizeof next_now);
      if (next_now != 0) vrt_event("ORACLE clear next index is %zu after clear", next_now);
      size_t nslots = c.topic._slots.size();
      for (size_t i = 0; i < nslots; ++i) {
        uint32_t w;
        memcpy(&w, (void*)&c.topic._slots[i].futex, sizeof w);
        if (w != 0) vrt_event("ORACLE clear slot %zu word is %u after clear", i, w);
      }
    }
  }
  if (vrt_races() > 0) vrt_event("ORACLE race %lu unordered payload accesses", (unsigned long)vrt_races());
  vrt_event("stats steps %lu switches %lu stale %lu", vrt_steps(), vrt_switches(), (unsigned long)vrt_stale_reads());
  vrt_end();
  vrt_dump(stdout);
  delete cp;
}

int main(int argc, char** argv) {
  std::string mode = argc > 1 ? argv[1] : "lock";
  uint64_t seed0 = argc > 2 ? strtoull(argv[2], 0, 10) : 1;
  int nruns = argc > 3 ? atoi(argv[3]) : 1;
  for (int i = 0; i < nruns; ++i) {
    uint64_t seed = seed0 + i;
    if (mode == "lock") run(seed, true);
    else if (mode == "grow") run(seed, false);
    else return 2;
  }
  return 0;
}
