// E-CONC harness for C05 (anyflow) under VRT.
// usage: c05 <mode> <seed0> <nruns>
//   mode dep    : L1 — a real graph with ONE dependency  V --(T [on|unless C])--> X ; the three actors of the
//                 dependency protocol run on up to three threads:  A = Graph::run (activation),  C / T = external
//                 emitters of the condition / target data (before the run, concurrently, or not at all — then the
//                 data is flushed empty at the end).  Atomic-level trace of `dep.wn`, `C.closure`, `T.closure`, `V.wn`
//                 replayed in lock-step by lean/Drivers/C05.lean against Babylon.Anyflow.Dep.step.
//   mode graph  : L2 — random DAGs (3-12 vertices, fan-in / fan-out, on / unless conditions, essential dependencies,
//                 asynchronous processors completed by another thread, inputs emitted by another thread) built through
//                 the real GraphBuilder, run on the inplace executor;   mode pool : same on ThreadPoolGraphExecutor
//                 (1-4 workers).  run / reset x 1-3 on the same Graph instance.
//   mode gated / gatedpool : graph / pool mode where external threads feed a RUNNING graph the supported way: the data's
//                 producer parks its vertex closure, an injector thread emits the data (before / during / after the
//                 activation, also of requested targets while Graph::run still binds the others), the main thread completes
//                 the parked closures afterwards; vertices with up to 7 dependencies; processors may fail with +/- codes
//   mode samedata : graph mode where half of the conditional dependencies have their condition equal to their target
//   mode inject : graph mode plus raw inputs (data without producer) emitted by another thread WHILE Graph::run
//                 activates (an emitter the closure does not know about)
// Trace: named atomics (v<i>.act, v<i>.wn, e<i>_<k>.wn, d<j>.closure, d<j>.acq, ctx.wvn, ctx.wdn, ctx.cb) + events
//   graph …spec… | cycle k | run t… | activate v | invoke v in… | publish d val | result code | waited | value d …
// Oracle verdicts (evaluated on the implementation, independent of the model): `ev ORACLE <kind> ...`
//   dup-invoke, early-invoke, unneeded-run, dup-publish, lost-emit, wait-early, start-after-wait, value, code,
//   not-finished, dup-flush
// Output per seed:  RUN <seed> mode=<mode>\n <trace lines of every cycle> END
#include "../vrt/vrt.h"

#include <babylon/anyflow/builder.h>

#include <algorithm>
#include <csignal>
#include <unistd.h>
#include <cstdio>
#include <cstdlib>
#include <cstring>
#include <functional>
#include <map>
#include <memory>
#include <set>
#include <string>
#include <thread>
#include <vector>

using namespace babylon;
using namespace babylon::anyflow;

struct Rng {
  uint64_t s;
  explicit Rng(uint64_t x) : s(x * 0x9E3779B97F4A7C15ull + 1) {}
  uint64_t next() {
    s ^= s << 13;
    s ^= s >> 7;
    s ^= s << 17;
    return s * 0x2545F4914F6CDD1Dull;
  }
  uint64_t below(uint64_t n) { return (next() >> 11) % n; }
};

struct OptVal {
  bool has = false;
  uint64_t v = 0;
  bool operator==(const OptVal& o) const { return has == o.has && (!has || v == o.v); }
};
static std::string show(const OptVal& o) { return o.has ? std::to_string(o.v) : std::string("-"); }

// the processors are pure functions of their inputs (mirrored by Babylon.Anyflow.Graph.mix)
static OptVal mix(int vid, int k, const std::vector<OptVal>& ins) {
  uint64_t h = (uint64_t)vid * 31 + (uint64_t)k * 7 + 1;
  for (auto& in : ins) h = (h * 1000003ull + (in.has ? in.v + 1 : 0)) % 1000000007ull;
  OptVal o;
  if (h % 7 == 0) return o;
  o.has = true;
  o.v = (h % 3 == 0) ? 0 : h % 1000;
  return o;
}

// some processors fail on some inputs, with positive and negative codes (contract: non-zero = the run fails)
static uint64_t mix_h(int vid, int k, const std::vector<OptVal>& ins) {
  uint64_t h = (uint64_t)vid * 31 + (uint64_t)k * 7 + 1;
  for (auto& in : ins) h = (h * 1000003ull + (in.has ? in.v + 1 : 0)) % 1000000007ull;
  return h;
}
static int fail_code(int vid, const std::vector<OptVal>& ins) {
  uint64_t h = mix_h(vid, 1000, ins);
  if (h % 19 != 0) return 0;
  int k = 1 + (int)((h / 19) % 5);
  return ((h / 7) % 2) ? k : -k;
}

struct DepS {
  int target = 0;
  int cond = -1;
  bool ev = true;
  bool essential = false;
};
enum Kind { SYNC = 0, ASYNC = 1, STASH = 2 };
struct VertS {
  int id = 0;
  std::vector<DepS> deps;
  std::vector<int> emits;
  int kind = SYNC;
};
struct GraphS {
  int ndata = 0;
  std::vector<VertS> verts;
  // payload type of each data: 0 = uint64_t, 1 = std::string holding the decimal number.  std::string is a type with
  // clear(): GraphData keeps the instance across reset() and only clears it (reuse), so "empty" then depends on
  // GraphData::_empty alone.  Data used as a condition are numeric (as<bool>() of a string is false).
  std::vector<int> dtype;
  int type_of(int d) const { return d < (int)dtype.size() ? dtype[d] : 0; }
};
static const uint64_t STALE = 777777;   // a data that shows a recycled, cleared std::string instead of being empty

struct RunCtx {
  const GraphS* spec = nullptr;
  std::vector<GraphData*> data;
  std::vector<int> invoked, activated, publishes;
  int inflight = 0;
  bool waited = false;
  bool failing = false;   // processors may fail (graph modes)
  ClosureContext* ctx = nullptr;   // the closure of this cycle's Graph::run, once it exists
  std::vector<std::thread> helpers;
  std::vector<GraphVertexClosure> stash;   // STASH processors: completed by the main thread
  uint64_t delay_seed = 0;
};
static RunCtx* g = nullptr;
static const GraphS* g_spec = nullptr;   // the graph being built / run (processors read the payload types in setup)

// Join the helper threads of asynchronous processors.  A helper is created by the thread that runs the processor
// (main, a pool worker — stopped before this is called —, an injector — joined before —, or another helper) and is
// stored in its slot only after its creation, so passes are repeated until a whole pass finds nothing to join.
static void join_helpers() {
  bool again = true;
  while (again) {
    again = false;
    for (size_t i = 0; i < g->helpers.size(); ++i)
      if (g->helpers[i].joinable()) {
        g->helpers[i].join();
        again = true;
      }
  }
}

static void yields(int n) {
  for (int i = 0; i < n; ++i) sched_yield();
}

static OptVal str_val(const std::string* p) {
  OptVal o;
  if (p != nullptr) {
    o.has = true;
    o.v = p->empty() ? STALE : strtoull(p->c_str(), nullptr, 10);
  }
  return o;
}
static OptVal num_val(const uint64_t* p) {
  OptVal o;
  if (p != nullptr) {
    o.has = true;
    o.v = *p;
  }
  return o;
}
// value of a ready data as the framework presents it
static OptVal read_data(GraphData* d, int type) {
  if (!d->ready() || d->empty()) return OptVal();
  return type == 1 ? str_val(d->value<std::string>()) : num_val(d->value<uint64_t>());
}

// An emitter could not acquire the data.  Fine if somebody published it before (a preset of a produced data).  For an
// external emitter the only competitor while it runs is the flush of its parked producer when that producer is SKIPPED
// (GraphVertex::run on a closure that has already finished, i.e. after an error): that flush acquires the data first and
// seals it a moment later, so `ready()` may still be false here, but `finished()` — monotone, and true before that flush
// started — is true.  Anything else is a lost emit.
static void lost_emit(int id, const char* who) {
  if (g->publishes[id] != 0) return;
  if (strncmp(who, "external", 8) == 0 && g->ctx != nullptr && g->ctx->finished()) {
    vrt_event("late-external %d", id);
    return;
  }
  vrt_event("ORACLE lost-emit %s could not acquire d%d although nobody published it", who, id);
}

static void publish(GraphData* d, int id, const OptVal& v, const char* who) {
  int type = g->spec->type_of(id);
  if (strncmp(who, "external", 8) == 0 && d->ready()) {
    // the parked producer was not parked after all: the closure had already finished with an error when it was
    // invoked, so it was skipped and its output flushed empty before the external emitter came
    vrt_event("late-external %d", id);
    return;
  }
  if (type == 1) {
    auto c = d->emit<std::string>();
    if (!c) {
      lost_emit(id, who);
      return;
    }
    if (++g->publishes[id] > 1) vrt_event("ORACLE dup-publish d%d acquired twice", id);
    vrt_event("publish %d %s", id, show(v).c_str());
    if (v.has) *c = std::to_string(v.v);
    return;
  }
  auto c = d->emit<uint64_t>();
  if (!c) {
    lost_emit(id, who);
    return;
  }
  if (++g->publishes[id] > 1) vrt_event("ORACLE dup-publish d%d acquired twice", id);
  vrt_event("publish %d %s", id, show(v).c_str());
  if (v.has) *c = v.v;
}

class MixProcessor : public GraphProcessor {
 public:
  int setup() noexcept override {
    spec = *option<const VertS*>();
    for (size_t i = 0; i < spec->deps.size(); ++i) {
      auto* dep = vertex().anonymous_dependency(i);
      dep->declare_essential(spec->deps[i].essential);
      if (g_spec->type_of(spec->deps[i].target) == 1) dep->declare_type<std::string>();
      else dep->declare_type<uint64_t>();
    }
    for (size_t k = 0; k < spec->emits.size(); ++k) {
      if (g_spec->type_of(spec->emits[k]) == 1) vertex().anonymous_emit(k)->declare_type<std::string>();
      else vertex().anonymous_emit(k)->declare_type<uint64_t>();
    }
    return 0;
  }
  int on_activate() noexcept override {
    vrt_event("activate %d", spec->id);
    g->activated[spec->id]++;
    return 0;
  }
  std::vector<OptVal> read_inputs() {
    std::vector<OptVal> ins;
    std::string txt;
    for (size_t i = 0; i < spec->deps.size(); ++i) {
      auto* dep = vertex().anonymous_dependency(i);
      const DepS& ds = spec->deps[i];
      OptVal in;
      // oracle: the dependency is resolved (condition evaluated, target ready if the condition holds)
      bool est = true;
      if (ds.cond >= 0) {
        GraphData* c = g->data[ds.cond];
        if (!c->ready()) {
          vrt_event("ORACLE early-invoke v%d runs while condition d%d of dependency %zu is not ready", spec->id, ds.cond, i);
          est = false;
        } else {
          est = c->as<bool>() == ds.ev;
        }
      }
      if (est && !g->data[ds.target]->ready())
        vrt_event("ORACLE early-invoke v%d runs while target d%d of established dependency %zu is not ready", spec->id, ds.target, i);
      if (dep->ready() != est) vrt_event("ORACLE early-invoke v%d dependency %zu ready()=%d but established=%d", spec->id, i, (int)dep->ready(), (int)est);
      if (dep->ready() && !dep->empty())
        in = g->spec->type_of(ds.target) == 1 ? str_val(dep->value<std::string>()) : num_val(dep->value<uint64_t>());
      ins.push_back(in);
      txt += " " + (in.has ? show(in) : std::string(dep->ready() ? "e" : "-"));
    }
    vrt_event("invoke %d%s", spec->id, txt.c_str());
    if (++g->invoked[spec->id] > 1) vrt_event("ORACLE dup-invoke v%d processor runs for the %d. time in one run", spec->id, g->invoked[spec->id]);
    if (g->waited) vrt_event("ORACLE start-after-wait v%d starts after wait() returned", spec->id);
    return ins;
  }
  void emit_all(const std::vector<OptVal>& ins) {
    for (size_t k = 0; k < spec->emits.size(); ++k) {
      OptVal o = mix(spec->id, (int)k, ins);
      if (o.has) publish(vertex().anonymous_emit(k), spec->emits[k], o, "processor");
    }
  }
  void process(GraphVertexClosure&& closure) noexcept override {
    if (spec->kind == STASH) {
      vrt_event("stash %d", spec->id);
      g->stash.emplace_back(std::move(closure));
      return;
    }
    ++g->inflight;
    auto ins = read_inputs();
    int fc = g->failing ? fail_code(spec->id, ins) : 0;
    if (fc != 0) vrt_event("fail %d %d", spec->id, fc);
    if (spec->kind == ASYNC) {
      // hand the closure to another thread, which emits later and then completes the closure
      int n = 1 + (int)(g->delay_seed++ % 5);
      auto* self = this;
      // one slot per vertex (a vertex runs at most once per cycle; if the code under test breaks that, the oracle
      // has already said so and the previous helper is detached).  Thread creation is a scheduling point: the new
      // thread may even finish before the slot is assigned, see join_helpers().
      std::thread helper([self, ins, n, fc, c = std::move(closure)]() mutable {
        yields(n);
        if (fc == 0) self->emit_all(ins);
        --g->inflight;
        vrt_event("done %d", self->spec->id);
        c.done(fc);
      });
      std::thread& slot = g->helpers[spec->id];
      if (slot.joinable()) slot.detach();
      slot = std::move(helper);
      return;
    }
    if (fc == 0) emit_all(ins);
    --g->inflight;
    vrt_event("done %d", spec->id);
    closure.done(fc);
  }
  const VertS* spec = nullptr;
};

// executor wrappers: the real executors do the work; create_closure additionally names the closure's counters
struct HExec : public GraphExecutor {
  GraphExecutor* inner = nullptr;
  ClosureContext* last = nullptr;
  // mode gated: a vertex closure of the gate vertex taken the moment the closure exists (what an executor does for a
  // vertex in flight) and completed by the main thread when the external emitters are done: whatever happens inside
  // Graph::run (activation failure, failing processors), the closure cannot become idle while external data is in flight
  GraphVertex* hold_for = nullptr;
  GraphVertexClosure held;
  Closure create_closure() noexcept override {
    auto c = Closure::create<SchedInterface>(*this);
    last = c.context();
    vrt_name(&last->_waiting_vertex_num, sizeof(last->_waiting_vertex_num), "ctx.wvn");
    vrt_name(&last->_waiting_data_num, sizeof(last->_waiting_data_num), "ctx.wdn");
    vrt_name(&last->_callback, sizeof(last->_callback), "ctx.cb");
    if (hold_for != nullptr) held = GraphVertexClosure(*last, *hold_for);
    if (g != nullptr) g->ctx = last;
    return c;
  }
  int32_t run(GraphVertex* vertex, GraphVertexClosure&& closure) noexcept override { return inner->run(vertex, std::move(closure)); }
  int32_t run(ClosureContext* closure, Closure::Callback* callback) noexcept override { return inner->run(closure, callback); }
};

struct Built {
  GraphS spec;
  GraphBuilder builder;
  HExec exec;
  std::unique_ptr<Graph> graph;
  std::vector<GraphData*> data;
};

static bool build(Built& b) {
  g_spec = &b.spec;
  for (auto& vs : b.spec.verts) {
    auto& v = b.builder.add_vertex([] { return std::unique_ptr<GraphProcessor>(new MixProcessor); });
    v.option(static_cast<const VertS*>(&vs));
    for (auto& d : vs.deps) {
      auto& dep = v.anonymous_depend().to("d" + std::to_string(d.target));
      if (d.cond >= 0) {
        if (d.ev) dep.on("d" + std::to_string(d.cond));
        else dep.unless("d" + std::to_string(d.cond));
      }
    }
    for (int e : vs.emits) v.anonymous_emit().to("d" + std::to_string(e));
  }
  b.builder.set_executor(b.exec);
  if (b.builder.finish() != 0) return false;
  b.graph = b.builder.build();
  if (!b.graph) return false;
  b.data.assign(b.spec.ndata, nullptr);
  for (int j = 0; j < b.spec.ndata; ++j) b.data[j] = b.graph->find_data("d" + std::to_string(j));
  return true;
}

// the trace with the closure context's address replaced by a stable token
static void dump_trace(ClosureContext* ctx) {
  std::string t = vrt_trace();
  if (ctx != nullptr) {
    std::string a = std::to_string((unsigned long long)(uintptr_t)ctx);
    size_t pos = 0;
    while ((pos = t.find(a, pos)) != std::string::npos) {
      t.replace(pos, a.size(), "777");
      pos += 3;
    }
  }
  fputs(t.c_str(), stdout);
}

// ------------------------------------------------------------------------------------------------
// reference: sequential demand-driven evaluation of the same graph (oracle for values / needed set / success)
struct Ref {
  const GraphS* spec;
  std::vector<int> prod_v, prod_k;          // producer vertex / emit index of each data (-1 = none)
  std::vector<int> state;                   // 0 unknown, 1 known
  std::vector<OptVal> val;
  std::vector<bool> preset;
  std::set<int> needed_v;
  bool failed = false;
  bool failing = false;
  std::vector<bool> vdone;
  std::vector<std::vector<OptVal>> vins;
  explicit Ref(const GraphS& s) : spec(&s) {
    prod_v.assign(s.ndata, -1);
    prod_k.assign(s.ndata, -1);
    for (auto& v : s.verts)
      for (size_t k = 0; k < v.emits.size(); ++k) {
        prod_v[v.emits[k]] = v.id;
        prod_k[v.emits[k]] = (int)k;
      }
    state.assign(s.ndata, 0);
    val.assign(s.ndata, OptVal());
    preset.assign(s.ndata, false);
    vdone.assign(s.verts.size(), false);
    vins.resize(s.verts.size());
  }
  void set(int d, OptVal v) {
    state[d] = 1;
    val[d] = v;
    preset[d] = true;
  }
  OptVal eval(int d) {
    if (state[d] == 1) return val[d];
    if (prod_v[d] < 0) {
      failed = true;   // needed, not available
      state[d] = 1;
      return val[d];
    }
    run_vertex(prod_v[d]);
    return val[d];
  }
  void run_vertex(int vid) {
    if (vdone[vid]) return;
    vdone[vid] = true;
    needed_v.insert(vid);
    const VertS& v = spec->verts[vid];
    std::vector<OptVal> ins;
    bool ess_fail = false;
    for (auto& d : v.deps) {
      bool est = true;
      if (d.cond >= 0) {
        OptVal c = eval(d.cond);
        est = (c.has && c.v != 0) == d.ev;
      }
      OptVal in;
      if (est) in = eval(d.target);
      if (d.essential && !in.has) ess_fail = true;
      ins.push_back(in);
    }
    vins[vid] = ins;
    if (failing && !ess_fail && fail_code(vid, ins) != 0) {
      failed = true;   // the processor fails: the run fails, nothing downstream is meaningful
      return;
    }
    for (size_t k = 0; k < v.emits.size(); ++k) {
      int e = v.emits[k];
      if (state[e] == 1 && preset[e]) continue;
      state[e] = 1;
      val[e] = ess_fail ? OptVal() : mix(vid, (int)k, ins);
    }
  }
};

// ------------------------------------------------------------------------------------------------
static void name_graph(Built& b) {
  vrt_unname_all();
  vrt_payload_sched(1);
  auto& vs = b.graph->vertexes();
  for (size_t i = 0; i < vs.size(); ++i) {
    vrt_namef(&vs[i]._activated, sizeof(vs[i]._activated), "v%zu.act", i);
    vrt_namef(&vs[i]._waiting_num, sizeof(vs[i]._waiting_num), "v%zu.wn", i);
    auto& deps = vs[i].dependencies();
    for (size_t k = 0; k < deps.size(); ++k) {
      vrt_namef(&deps[k]._waiting_num, sizeof(deps[k]._waiting_num), "e%zu_%zu.wn", i, k);
      // the plain flags written AFTER the counter RMW: scheduling points (vrt_payload_sched), so that another thread
      // can run between the RMW and the flag store
      vrt_payload(&deps[k]._established, sizeof(bool), "dep._established");
      vrt_payload(&deps[k]._ready, sizeof(bool), "dep._ready");
    }
  }
  for (int j = 0; j < b.spec.ndata; ++j) {
    if (b.data[j] == nullptr) continue;   // an input no vertex refers to is not part of the graph
    vrt_namef(&b.data[j]->_closure, sizeof(b.data[j]->_closure), "d%d.closure", j);
    vrt_namef(&b.data[j]->_acquired, sizeof(b.data[j]->_acquired), "d%d.acq", j);
  }
}

static void emit_spec(const GraphS& s) {
  vrt_event("graph ndata %d", s.ndata);
  {
    std::string t = "graph types";
    for (int d = 0; d < s.ndata; ++d) t += s.type_of(d) == 1 ? " s" : " n";
    vrt_event("%s", t.c_str());
  }
  for (auto& v : s.verts) {
    std::string t = "graph vertex " + std::to_string(v.id) + " kind " + std::to_string(v.kind) + " emits";
    for (int e : v.emits) t += " " + std::to_string(e);
    t += " deps";
    for (auto& d : v.deps)
      t += " " + std::to_string(d.target) + ":" + (d.cond < 0 ? std::string("-") : std::to_string(d.cond)) + ":" + (d.ev ? "1" : "0") + ":" +
           (d.essential ? "1" : "0");
    vrt_event("%s", t.c_str());
  }
}

// same_pct: percentage of conditional dependencies whose condition IS their target (`to(A).on(A)`); 0 in the
// regular modes (see mode samedata)
// gated: a quarter of the vertices are "external" producers (kind STASH, no dependencies, one emit): their processor
// only parks its vertex closure, the data is emitted by an injector thread (before, during or after activation) and
// the parked closure is completed by the main thread after the injectors have been joined; one more such vertex, the
// gate, produces an extra last target — so the closure stays open while external data arrives (the supported way of
// feeding a running graph from outside, unlike mode inject).  Vertices get up to 6 dependencies, often starting with
// an external data, so that external data arrives while a long activation loop is running.
static GraphS gen_graph(Rng& rng, bool allow_async, int same_pct, bool gated = false) {
  GraphS s;
  std::vector<int> ext_data;
  int ninputs = 1 + (int)rng.below(4);
  int nverts = 3 + (int)rng.below(10);
  s.ndata = ninputs;
  for (int i = 0; i < nverts; ++i) {
    VertS v;
    v.id = i;
    int ndeps = (int)rng.below(4);
    if (rng.below(10) == 0) ndeps = 4 + (int)rng.below(3);
    if (i == 0 && rng.below(2)) ndeps = 0;
    if (gated && i > 0 && rng.below(2)) ndeps = 2 + (int)rng.below(5);
    bool ext = gated && rng.below(100) < 25;
    if (ext) ndeps = 0;
    if (gated && !ext && !ext_data.empty() && rng.below(2)) {
      DepS d;
      d.target = ext_data[rng.below(ext_data.size())];
      v.deps.push_back(d);
    }
    for (int k = 0; k < ndeps; ++k) {
      DepS d;
      // prefer recent data (chains) but allow any earlier data (fan-out of one data to many vertices)
      d.target = rng.below(3) ? (int)(s.ndata - 1 - rng.below(std::min<uint64_t>(s.ndata, 4))) : (int)rng.below(s.ndata);
      if (rng.below(100) < 45) {
        d.cond = (int)rng.below(s.ndata);
        d.ev = rng.below(2);
        if ((int)rng.below(100) < same_pct) d.cond = d.target;
        else if (d.cond == d.target) {
          if (s.ndata < 2) d.cond = -1;
          else d.cond = (d.target + 1 + (int)rng.below(s.ndata - 1)) % s.ndata;
        }
      }
      d.essential = rng.below(100) < 25;
      v.deps.push_back(d);
    }
    int nemits = 1 + (rng.below(4) == 0 ? 1 + (int)rng.below(2) : 0);
    if (ext) nemits = 1;
    for (int k = 0; k < nemits; ++k) v.emits.push_back(s.ndata++);
    if (allow_async && rng.below(100) < 20) v.kind = ASYNC;
    if (ext) {
      v.kind = STASH;
      ext_data.push_back(v.emits[0]);
    }
    s.verts.push_back(v);
  }
  if (gated) {
    VertS gate;
    gate.id = (int)s.verts.size();
    gate.kind = STASH;
    gate.emits.push_back(s.ndata++);
    s.verts.push_back(gate);
  }
  s.dtype.assign(s.ndata, 0);
  for (int d = 0; d < s.ndata; ++d) s.dtype[d] = rng.below(100) < 60 ? 1 : 0;
  for (auto& v : s.verts)
    for (auto& d : v.deps)
      if (d.cond >= 0) s.dtype[d.cond] = 0;
  return s;
}

static void run_graph(uint64_t seed, const std::string& mode) {
  Rng rng(seed);
  bool gated = mode == "gated" || mode == "gatedpool";
  bool pool = mode == "pool" || mode == "gatedpool";
  bool inject = mode == "inject";
  Built b;
  b.spec = gen_graph(rng, true, mode == "samedata" ? 50 : 0, gated);
  InplaceGraphExecutor inplace;
  b.exec.inner = &inplace;
  printf("RUN %lu mode=%s\n", (unsigned long)seed, mode.c_str());
  if (!build(b)) {
    printf("0 ev ORACLE build failed\nEND\n");
    return;
  }
  const GraphS& s = b.spec;
  int ninputs = s.verts.empty() ? s.ndata : s.verts[0].emits[0];
  int cycles = 1 + (int)rng.below(4);   // 1-4 run / reset cycles on the same instance; presets change from cycle to cycle,
                                          // so a data gets a value in one cycle and is published empty in another
  for (int cyc = 0; cyc < cycles; ++cyc) {
    RunCtx rc;
    rc.spec = &s;
    rc.data = b.data;
    rc.invoked.assign(s.verts.size(), 0);
    rc.activated.assign(s.verts.size(), 0);
    rc.publishes.assign(s.ndata, 0);
    rc.delay_seed = rng.next();
    rc.helpers.resize(s.verts.size());
    rc.failing = true;
    g = &rc;
    b.exec.hold_for = gated ? &b.graph->vertexes().back() : nullptr;
    name_graph(b);
    std::unique_ptr<ThreadPoolGraphExecutor> tp;
    int workers = 1 + (int)rng.below(4);
    // plan of the cycle
    std::vector<int> targets;
    int nt = 1 + (int)rng.below(3);
    std::vector<int> ext_d;   // data of the external producers (not the gate)
    int gate_d = -1;
    if (gated) {
      for (auto& v : s.verts)
        if (v.kind == STASH) ext_d.push_back(v.emits[0]);
      gate_d = ext_d.back();
      ext_d.pop_back();
      // often the first requested target is itself an external data: it is then emitted by another thread while
      // Graph::run is still binding / activating the other targets
      if (!ext_d.empty() && rng.below(100) < 60) targets.push_back(ext_d[rng.below(ext_d.size())]);
      nt += 1;
    }
    for (int i = 0; i < nt || targets.empty(); ++i) {
      int t = rng.below(4) ? ninputs + (int)rng.below(s.ndata - ninputs) : (int)rng.below(s.ndata);
      if (b.data[t] == nullptr) continue;
      if (std::find(targets.begin(), targets.end(), t) == targets.end()) targets.push_back(t);
    }
    if (gated) {
      targets.erase(std::remove(targets.begin(), targets.end(), gate_d), targets.end());
      targets.push_back(gate_d);
    }
    // presets: inputs (mostly), some produced data too (their producer then must not run)
    struct Pre { int d; OptVal v; int how; };   // how: 0 main thread, 1 another thread before the run, 2 another thread during the run
    std::vector<Pre> pres;
    // external data: how 0 = nobody emits it (flushed empty when the parked closure is completed), 1 = emitted before
    // the run, 2 = emitted by an injector thread concurrently with Graph::run
    std::vector<Pre> exts;
    for (int d : ext_d) {
      Pre p;
      p.d = d;
      uint64_t k = rng.below(10);
      if (k >= 2) {
        p.v.has = true;
        p.v.v = k < 4 ? 0 : 1 + rng.below(50);
      }
      uint64_t h = rng.below(100);
      p.how = h < 12 ? 0 : (h < 35 ? 1 : 2);
      if (p.how == 0) p.v = OptVal();
      exts.push_back(p);
    }
    for (int d = 0; d < s.ndata; ++d) {
      if (b.data[d] == nullptr) continue;
      if (d == gate_d || std::find(ext_d.begin(), ext_d.end(), d) != ext_d.end()) continue;
      bool is_input = d < ninputs;
      uint64_t r = rng.below(100);
      if (is_input ? r < 92 : r < 6) {
        Pre p;
        p.d = d;
        uint64_t k = rng.below(10);
        if (k >= 2) {
          p.v.has = true;
          p.v.v = k < 5 ? 0 : 1 + rng.below(50);
        }
        p.how = (int)rng.below(2);
        if (inject && is_input && rng.below(2)) p.how = 2;
        pres.push_back(p);
      }
    }
    Ref ref(s);
    ref.failing = true;
    for (auto& p : pres) ref.set(p.d, p.v);
    for (auto& p : exts) ref.set(p.d, p.v);
    if (gate_d >= 0) ref.set(gate_d, OptVal());
    for (int t : targets) ref.eval(t);

    vrt_begin(seed * 8 + cyc);
    vrt_event("cycle %d exec=%s workers=%d", cyc, pool ? "pool" : "inplace", pool ? workers : 0);
    emit_spec(s);
    for (auto& p : pres) vrt_event("env %d %s", p.d, show(p.v).c_str());
    for (auto& p : exts) vrt_event("env %d %s", p.d, show(p.v).c_str());
    if (gate_d >= 0) vrt_event("env %d -", gate_d);
    {
      std::string t = "targets";
      for (int x : targets) t += " " + std::to_string(x);
      vrt_event("%s", t.c_str());
    }
    if (pool) {
      tp.reset(new ThreadPoolGraphExecutor);
      tp->initialize(workers, 64);
      b.exec.inner = tp.get();
    }
    for (auto& p : pres)
      if (p.how == 0) publish(b.data[p.d], p.d, p.v, "preset");
    {
      std::vector<std::thread> ts;
      for (auto& p : pres)
        if (p.how == 1) ts.emplace_back([&b, p] { publish(b.data[p.d], p.d, p.v, "preset-thread"); });
      for (auto& t : ts) t.join();
    }
    for (auto& p : exts)
      if (p.how == 1) publish(b.data[p.d], p.d, p.v, "external-before");
    std::vector<std::thread> ext_threads;
    for (auto& p : exts)
      if (p.how == 2) {
        // a requested target is emitted early (while Graph::run is still binding / activating), other data any time
        bool is_target = std::find(targets.begin(), targets.end(), p.d) != targets.end();
        int n = is_target ? (int)rng.below(8) : (int)rng.below(24);
        ext_threads.emplace_back([&b, p, n] {
          yields(n);
          publish(b.data[p.d], p.d, p.v, "external");
        });
      }
    std::vector<std::thread> injectors;
    bool racing = false;
    for (auto& p : pres)
      if (p.how == 2) {
        racing = true;
        int n = (int)rng.below(12);
        injectors.emplace_back([&b, p, n] {
          yields(n);
          publish(b.data[p.d], p.d, p.v, "injector");
        });
      }
    {
      std::string t = "run";
      for (int x : targets) t += " " + std::to_string(x);
      vrt_event("%s", t.c_str());
    }
    std::vector<GraphData*> tv;
    for (int x : targets) tv.push_back(b.data[x]);
    {
      Closure closure = b.graph->run(tv.data(), tv.size());
      ClosureContext* ctx = b.exec.last;
      if (gated) {
        // the external emitters are done; now the harness's own vertex closure and the parked ones are completed,
        // which flushes what nobody emitted; completing one may start vertices (on pool workers too) that park
        // further closures: go on until the closure's vertex count is 0
        for (auto& t : ext_threads) t.join();
        b.exec.held.done(0);
        for (;;) {
          while (!rc.stash.empty()) {
            GraphVertexClosure c = std::move(rc.stash.back());
            rc.stash.pop_back();
            c.done(0);
          }
          if (ctx->_waiting_vertex_num.load(std::memory_order_acquire) == 0) break;
          sched_yield();
        }
      }
      int code = closure.get();
      vrt_event("result %d", code);
      if (!closure.finished()) vrt_event("ORACLE not-finished get() returned but finished() is false");
      closure.wait();
      vrt_event("waited");
      if (rc.inflight != 0) vrt_event("ORACLE wait-early wait() returned while %d processors are still running", rc.inflight);
      rc.waited = true;
      if (pool) {
        tp->stop();
        b.exec.inner = &inplace;
      }
      for (auto& t : injectors) t.join();
      join_helpers();
      // oracle on the outcome
      bool expect_ok = !ref.failed;
      if (!racing) {
        if (expect_ok != (code == 0)) vrt_event("ORACLE code run returned %d, sequential evaluation %s", code, expect_ok ? "succeeds" : "fails");
      } else if (code == 0 && !expect_ok) {
        vrt_event("ORACLE code run returned 0, sequential evaluation fails");
      }
      for (int d = 0; d < s.ndata; ++d) {
        GraphData* gd = b.data[d];
        if (gd == nullptr) continue;
        bool rdy = gd->ready();
        OptVal v = read_data(gd, s.type_of(d));
        vrt_event("value %d %s", d, rdy ? show(v).c_str() : "unready");
      }
      if (code == 0) {
        for (int t : targets)
          if (!b.data[t]->ready()) vrt_event("ORACLE value target d%d not ready after a successful run", t);
        // every data the sequential evaluation computed (targets and everything they need) holds that value
        for (int d = 0; d < s.ndata; ++d) {
          GraphData* gd = b.data[d];
          if (gd == nullptr || ref.state[d] != 1 || !gd->ready()) continue;
          OptVal v = read_data(gd, s.type_of(d));
          bool is_target = std::find(targets.begin(), targets.end(), d) != targets.end();
          if (!(v == ref.val[d]))
            vrt_event("ORACLE value %s d%d = %s, sequential evaluation gives %s", is_target ? "target" : "data", d,
                      v.has && v.v == STALE ? "<recycled cleared instance>" : show(v).c_str(), show(ref.val[d]).c_str());
        }
        for (auto& v : s.verts)
          if (v.kind != STASH && (rc.invoked[v.id] > 0 || rc.activated[v.id] > 0) && !ref.needed_v.count(v.id))
            vrt_event("ORACLE unneeded-run v%d %s but the targets do not need it", v.id, rc.invoked[v.id] > 0 ? "ran" : "was activated");
      }
      // published once: successful seal CAS per data in the trace of this cycle
      {
        std::string tr = vrt_trace();
        for (int d = 0; d < s.ndata; ++d) {
          std::string key = " d" + std::to_string(d) + ".closure acqrel acq ";
          size_t pos = 0;
          int seals = 0;
          while ((pos = tr.find(key, pos)) != std::string::npos) {
            size_t eol = tr.find('\n', pos);
            std::string line = tr.substr(pos, eol - pos);
            // "... expected desired ok observed"
            if (line.find(" 18446744073709551615 1 ") != std::string::npos) ++seals;
            pos = eol;
          }
          if (seals > 1) vrt_event("ORACLE dup-publish d%d sealed %d times", d, seals);
        }
        // flush once: the vertex count returns to 0 exactly once
        int flushes = 0;
        size_t pos = 0;
        std::string key = " rmw sub ctx.wvn acqrel 1 1";
        while ((pos = tr.find(key, pos)) != std::string::npos) {
          ++flushes;
          pos += key.size();
        }
        if (flushes != 1) vrt_event("ORACLE dup-flush the closure's vertex count returned to 0 %d times", flushes);
      }
      vrt_event("stats steps %lu switches %lu", vrt_steps(), vrt_switches());
      vrt_end();
      dump_trace(ctx);
    }
    g = nullptr;
    b.graph->reset();
  }
  printf("END\n");
  fflush(stdout);
}

// ------------------------------------------------------------------------------------------------
// L1: one dependency, three actors
static void run_dep(uint64_t seed) {
  Rng rng(seed);
  Built b;
  bool has_cond = rng.below(3) != 0;
  bool ev = rng.below(2);
  // data: 0 = T, 1 = C, 2 = X, 3 = Y ; vertices: 0 = PT (stash), 1 = PC (stash), 2 = V, 3 = PY (stash)
  // Y is a second target whose asynchronous producer PY is completed by the main thread after the external actors
  // have been joined: the closure therefore stays open while C / T act (an emitter the closure does not know about
  // must not outlive the closure — see mode inject for what happens otherwise)
  b.spec.ndata = 4;
  {
    VertS pt;
    pt.id = 0;
    pt.kind = STASH;
    pt.emits = {0};
    VertS pc;
    pc.id = 1;
    pc.kind = STASH;
    pc.emits = {1};
    VertS v;
    v.id = 2;
    DepS d;
    d.target = 0;
    d.cond = has_cond ? 1 : -1;
    d.ev = ev;
    v.deps.push_back(d);
    v.emits = {2};
    VertS py;
    py.id = 3;
    py.kind = STASH;
    py.emits = {3};
    b.spec.verts = {pt, pc, v, py};
    b.spec.dtype = {(int)rng.below(2), 0, (int)rng.below(2), (int)rng.below(2)};
  }
  InplaceGraphExecutor inplace;
  b.exec.inner = &inplace;
  printf("RUN %lu mode=dep hasCond=%d\n", (unsigned long)seed, (int)has_cond);
  if (!build(b)) {
    printf("0 ev ORACLE build failed\nEND\n");
    return;
  }
  int cycles = 1 + (int)rng.below(4);
  for (int cyc = 0; cyc < cycles; ++cyc) {
    RunCtx rc;
    rc.spec = &b.spec;
    rc.data = b.data;
    rc.invoked.assign(4, 0);
    rc.activated.assign(4, 0);
    rc.publishes.assign(4, 0);
    g = &rc;
    // how each external actor occurs: 0 absent (flushed empty at the end), 1 before the run, 2 concurrently
    int how_t = (int)rng.below(5);
    how_t = how_t == 0 ? 0 : (how_t == 1 ? 1 : 2);
    int how_c = (int)rng.below(5);
    how_c = !has_cond ? 0 : (how_c == 0 ? 0 : (how_c == 1 ? 1 : 2));
    OptVal cv;   // the condition's value
    {
      uint64_t k = rng.below(5);
      if (k >= 1) {
        cv.has = true;
        cv.v = k < 3 ? 0 : 1;
      }
    }
    OptVal tv;
    tv.has = rng.below(4) != 0;
    tv.v = 1 + rng.below(90);
    bool b_est = !has_cond || (((how_c != 0) && cv.has && cv.v != 0) == ev);
    int dt = (int)rng.below(6), dc = (int)rng.below(6), da = (int)rng.below(4);
    bool c_first = rng.below(2);

    vrt_unname_all();
    auto& V = b.graph->vertexes()[2];
    auto& dep = V.dependencies()[0];
    vrt_name(&dep._waiting_num, sizeof(dep._waiting_num), "dep.wn");
    vrt_payload(&dep._established, sizeof(bool), "dep._established");
    vrt_payload(&dep._ready, sizeof(bool), "dep._ready");
    vrt_payload_sched(1);
    vrt_name(&V._waiting_num, sizeof(V._waiting_num), "V.wn");
    vrt_name(&b.data[0]->_closure, sizeof(void*), "T.closure");
    vrt_name(&b.data[1]->_closure, sizeof(void*), "C.closure");
    vrt_begin(seed * 8 + cyc);
    vrt_event("cycle %d hasCond=%d b=%d howT=%d howC=%d", cyc, (int)has_cond, (int)b_est, how_t, how_c);
    auto emit_t = [&] { publish(b.data[0], 0, tv, "T"); };
    auto emit_c = [&] { publish(b.data[1], 1, cv, "C"); };
    if (c_first) {
      if (how_c == 1) emit_c();
      if (how_t == 1) emit_t();
    } else {
      if (how_t == 1) emit_t();
      if (how_c == 1) emit_c();
    }
    std::vector<std::thread> ts;
    if (how_t == 2) ts.emplace_back([&] { yields(dt); emit_t(); });
    if (how_c == 2) ts.emplace_back([&] { yields(dc); emit_c(); });
    yields(da);
    vrt_event("run 2");
    {
      GraphData* tvv[2] = {b.data[2], b.data[3]};
      Closure closure = b.graph->run(tvv, (size_t)2);
      for (auto& t : ts) t.join();
      // absent actors: the stashed producers are completed now, which flushes their data empty
      while (!rc.stash.empty()) {
        GraphVertexClosure c = std::move(rc.stash.back());
        rc.stash.pop_back();
        c.done(0);
      }
      int code = closure.get();
      vrt_event("result %d", code);
      closure.wait();
      vrt_event("waited");
      if (code != 0) vrt_event("ORACLE code run of the one-dependency graph returned %d", code);
      // the source vertex ran exactly once, and saw the dependency ready iff established
      if (rc.invoked[2] != 1) vrt_event("ORACLE dup-invoke source vertex ran %d times", rc.invoked[2]);
      bool rdy = dep.ready();
      if (rdy != b_est) vrt_event("ORACLE value dependency ready()=%d, expected %d", (int)rdy, (int)b_est);
      // X = mix(2, 0, [input]) with input = target value if established
      OptVal in;
      if (b_est && how_t != 0 && tv.has) in = tv;
      OptVal want = mix(2, 0, {in});
      OptVal got = read_data(b.data[2], b.spec.type_of(2));
      if (!(got == want)) vrt_event("ORACLE value X = %s, sequential evaluation gives %s", show(got).c_str(), show(want).c_str());
      vrt_event("stats steps %lu switches %lu", vrt_steps(), vrt_switches());
      vrt_end();
      dump_trace(b.exec.last);
    }
    g = nullptr;
    b.graph->reset();
  }
  printf("END\n");
  fflush(stdout);
}

// A crash inside the controlled section: print what the run did so far, so that the check can tell the known
// consequence of a closure flushed twice (two concurrent Promise::set_value on `_flushed`, finding
// oracle:inject:dup-flush: a vertex closure was created after the vertex count had returned to 0) from anything else.
static void on_crash(int sig) {
  std::string t = vrt_trace();
  fputs(t.c_str(), stdout);
  if (t.find(" rmw add ctx.wvn acqrel 0 1\n") != std::string::npos)
    printf("0 ev ORACLE dup-flush signal %d after a vertex closure was created on a closure whose vertex count had returned to 0\n", sig);
  printf("0 ev CRASH signal %d\nEND\n", sig);
  fflush(stdout);
  _exit(128 + sig);
}

// Process-wide lazily initialised state (logger singleton, its first WARNING, id allocators, absl / libstdc++ statics) is
// touched once here, outside any controlled section: otherwise the first run of a process executes more atomic operations
// (= scheduling points) than later ones, and the schedule of a seed would depend on what ran before it in the same process.
static void warm_up_statics() {
  Built b;
  b.spec.ndata = 3;
  VertS v;
  v.id = 0;
  DepS d;
  d.target = 0;
  v.deps.push_back(d);
  v.emits = {1};
  VertS w;
  w.id = 1;
  DepS e;
  e.target = 1;
  w.deps.push_back(e);
  w.emits = {2};
  b.spec.verts = {v, w};
  b.spec.dtype = {1, 0, 1};
  InplaceGraphExecutor inplace;
  b.exec.inner = &inplace;
  if (!build(b)) return;
  for (int round = 0; round < 2; ++round) {
    RunCtx rc;
    rc.spec = &b.spec;
    rc.data = b.data;
    rc.invoked.assign(2, 0);
    rc.activated.assign(2, 0);
    rc.publishes.assign(3, 0);
    rc.helpers.resize(2);
    g = &rc;
    OptVal in;
    in.has = true;
    in.v = 7;
    if (round == 1) publish(b.data[0], 0, in, "preset");   // round 0: the input is missing -> activation failure is logged
    {
      GraphData* t[1] = {b.data[2]};
      Closure c = b.graph->run(t, (size_t)1);
      c.get();
      c.wait();
    }
    g = nullptr;
    b.graph->reset();
  }
  {
    ThreadPoolGraphExecutor tp;
    tp.initialize(1, 8);
    tp.stop();
  }
  g_spec = nullptr;
}

int main(int argc, char** argv) {
  signal(SIGSEGV, on_crash);
  signal(SIGABRT, on_crash);
  std::string mode = argc > 1 ? argv[1] : "graph";
  uint64_t seed0 = argc > 2 ? strtoull(argv[2], 0, 10) : 1;
  int nruns = argc > 3 ? atoi(argv[3]) : 1;
  warm_up_statics();
  for (int i = 0; i < nruns; ++i) {
    uint64_t seed = seed0 + i;
    if (mode == "dep") run_dep(seed);
    else if (mode == "graph" || mode == "pool" || mode == "inject" || mode == "samedata" || mode == "gated" || mode == "gatedpool") run_graph(seed, mode);
    else return 2;
  }
  return 0;
}
