// Oracle harness for C12, protobuf part: babylon::ReusableManager<SwissMemoryResource> managing protobuf
// messages (test/proto/arena_example.proto, compiled by the check with protoc) through
// ReusableTraits<Message> / MessageAllocationMetadata (src/babylon/reusable/message.{h,cpp,trick.cpp}).
//
// One op per input line, one canonical output line per op.  There is no Lean model behind this scene
// (protobuf internals are trusted); the line carries the property ORACLE evaluated on the real code:
//   contents  the managed message differs (serialized bytes) from a plain heap message driven by the same
//             setters — after clear(): from a freshly constructed message,
//   fresh     after clear() the message is not observably a fresh one (presence bits, sizes, bytes),
//   shrink    a retained capacity (singular string, sub-message string, repeated field slots, strings and
//             sub-messages kept behind a repeated field) is smaller after an op / a clear() / a periodic
//             re-creation than it was before,
//   reuse     a round that already ran since the last-but-one re-creation takes new memory from the resource,
//   accessor  an accessor does not lead to a message inside the manager's resource.
//
// ops:  pnew <interval> | pcreate | pclear | psnap | pnoalloc
//       p <unit> set_p <v> | set_s <len> | set_ds <len> | m_set_s <len> | mm_set_s <len> | m_set_p <v>
//                | add_rp <v> | add_rs <len> | add_rm <len> | m_add_rs <len>
#include <babylon/reusable/manager.h>
#include <babylon/reusable/message.h>

#include <arena_example.pb.h>

#include <iostream>
#include <memory>
#include <sstream>
#include <string>
#include <vector>

using ::babylon::ArenaExample;
using ::babylon::ReusableAccessor;
using ::babylon::SwissManager;

static std::string payload(size_t len) {
  std::string s(len, 'a');
  for (size_t i = 0; i < len; ++i) {
    s[i] = static_cast<char>('a' + (i * 7 + len) % 26);
  }
  return s;
}

// every retained capacity the property talks about, in a fixed order
struct Caps {
  std::vector<size_t> v;
  std::vector<std::string> names;
  void add(const std::string& n, size_t x) {
    names.push_back(n);
    v.push_back(x);
  }
};

template <typename RF>
static size_t allocated(const RF& f) {
  return static_cast<size_t>(f.size()) +
         static_cast<size_t>(reinterpret_cast<const ::google::protobuf::internal::RepeatedPtrFieldBase&>(f).ClearedCount());
}

static void collect(const ArenaExample& m, const std::string& prefix, int depth, Caps& c) {
  c.add(prefix + "s", m.s().capacity());
  c.add(prefix + "ds", m.ds().capacity());
  c.add(prefix + "rp", static_cast<size_t>(m.rp().Capacity()));
  size_t ars = allocated(m.rs());
  c.add(prefix + "rs#", ars);
  for (size_t i = 0; i < ars; ++i) {
    // cleared strings stay behind size(): same raw walk as update_repeated_field
    c.add(prefix + "rs[" + std::to_string(i) + "]", (m.rs().cbegin() + static_cast<ssize_t>(i))->capacity());
  }
  size_t arm = allocated(m.rm());
  c.add(prefix + "rm#", arm);
  for (size_t i = 0; i < arm; ++i) {
    c.add(prefix + "rm[" + std::to_string(i) + "].s", (m.rm().cbegin() + static_cast<ssize_t>(i))->s().capacity());
  }
  if (depth > 0) {
    collect(m.m(), prefix + "m.", depth - 1, c);  // default instance when never allocated
  }
}

static std::string summary(const ArenaExample& m) {
  std::ostringstream os;
  os << "p=" << (m.has_p() ? std::to_string(m.p()) : "-") << " s=" << (m.has_s() ? std::to_string(m.s().size()) : "-")
     << " ds=" << (m.has_ds() ? std::to_string(m.ds().size()) : "-") << " m=" << (m.has_m() ? 1 : 0)
     << " m.s=" << (m.m().has_s() ? std::to_string(m.m().s().size()) : "-") << " m.m=" << (m.m().has_m() ? 1 : 0)
     << " rp=" << m.rp_size() << " rs=" << m.rs_size() << " rm=" << m.rm_size() << " bytes=" << m.ByteSizeLong();
  return os.str();
}

struct Unit {
  ReusableAccessor<ArenaExample> acc;
  std::unique_ptr<ArenaExample> ref;  // plain heap message: the std-side reference
};

struct Runner {
  std::unique_ptr<SwissManager> mgr;
  std::vector<Unit> units;
  size_t snap {0};
  bool have_snap {false};
  std::string msg;

  void flag(const std::string& s) { msg += " !ORACLE(" + s + ")"; }

  Caps caps(size_t u) {
    Caps c;
    collect(*units[u].acc, "", 2, c);
    return c;
  }
  void compare_caps(const char* when, size_t u, const Caps& before, const Caps& after) {
    for (size_t i = 0; i < before.v.size(); ++i) {
      size_t now = 0;
      bool found = false;
      for (size_t k = 0; k < after.v.size(); ++k) {
        if (after.names[k] == before.names[i]) {
          now = after.v[k];
          found = true;
          break;
        }
      }
      if (!found || now < before.v[i]) {
        std::ostringstream os;
        os << "shrink " << when << " unit " << u << " " << before.names[i] << " capacity " << before.v[i] << "->"
           << (found ? std::to_string(now) : std::string("gone"));
        flag(os.str());
        return;
      }
    }
  }
  void check_contents(size_t u, bool after_clear) {
    const ArenaExample& m = *units[u].acc;
    std::string a, b;
    m.SerializeToString(&a);
    units[u].ref->SerializeToString(&b);
    if (a != b) {
      std::ostringstream os;
      os << (after_clear ? "fresh" : "contents") << " unit " << u << " serialized " << a.size() << " bytes, reference " << b.size()
         << " [" << summary(m) << "] vs [" << summary(*units[u].ref) << "]";
      flag(os.str());
    }
  }
  void check_accessor(size_t u) {
    auto& acc = units[u].acc;
    if (!acc || acc.get() == nullptr || !mgr->resource().contains(acc.get())) {
      flag("accessor " + std::to_string(u) + " does not lead into the manager's resource");
    }
  }
  std::string show() {
    std::ostringstream os;
    os << "P " << mgr->_clear_times;
    for (size_t u = 0; u < units.size(); ++u) {
      Caps c = caps(u);
      os << " U[" << summary(*units[u].acc) << " |";
      for (size_t i = 0; i < c.v.size(); ++i) {
        if (c.v[i] != 0 && c.v[i] != 15 && c.names[i].find('[') == std::string::npos) {
          os << " " << c.names[i] << ":" << c.v[i];
        }
      }
      os << "]";
    }
    os << msg;
    return os.str();
  }

  std::string step(const std::vector<std::string>& w) {
    msg.clear();
    if (w.empty()) {
      return "bad-op";
    }
    const std::string& c = w[0];
    if (c == "reset" && w.size() == 1) {
      units.clear();
      mgr.reset();
      have_snap = false;
      return "ok";
    }
    if (c == "pnew" && w.size() == 2) {
      units.clear();
      mgr.reset(new SwissManager);
      if (std::stoul(w[1]) != 0) {
        mgr->set_recreate_interval(std::stoul(w[1]));
      }
      have_snap = false;
      return show();
    }
    if (!mgr) {
      return "bad-op";
    }
    if (c == "pcreate" && w.size() == 1) {
      Unit u;
      u.acc = mgr->create_object<ArenaExample>();
      u.ref.reset(new ArenaExample);
      units.push_back(std::move(u));
      check_accessor(units.size() - 1);
      check_contents(units.size() - 1, true);
      return show();
    }
    if (c == "psnap" && w.size() == 1) {
      snap = mgr->resource().space_used();
      have_snap = true;
      return "ok";
    }
    if (c == "pnoalloc" && w.size() == 1) {
      if (!have_snap) {
        return "ok";
      }
      have_snap = false;
      size_t now = mgr->resource().space_used();
      if (now != snap) {
        return "ok !ORACLE(reuse round repeated after convergence took " + std::to_string(now - snap) + " bytes from the resource)";
      }
      return "ok";
    }
    if (c == "pclear" && w.size() == 1) {
      std::vector<Caps> before;
      for (size_t u = 0; u < units.size(); ++u) {
        before.push_back(caps(u));
      }
      mgr->clear();
      for (size_t u = 0; u < units.size(); ++u) {
        units[u].ref->Clear();
        check_accessor(u);
        compare_caps("clear", u, before[u], caps(u));
        check_contents(u, true);
      }
      return show();
    }
    if (c == "p" && w.size() == 4) {
      size_t u = std::stoul(w[1]);
      if (u >= units.size()) {
        return "bad-op";
      }
      ArenaExample& m = *units[u].acc;
      ArenaExample& r = *units[u].ref;
      const std::string& op = w[2];
      size_t x = std::stoul(w[3]);
      Caps before = caps(u);
      // copy-assign from an lvalue: a `set_s(std::string&&)` would *replace* the field's buffer by the
      // argument's (std::string move assignment), which is the caller giving capacity away, not the container
      const std::string pl = payload(x);
      if (op == "set_p") {
        m.set_p(x);
        r.set_p(x);
      } else if (op == "set_s") {
        m.set_s(pl);
        r.set_s(pl);
      } else if (op == "set_ds") {
        m.set_ds(pl);
        r.set_ds(pl);
      } else if (op == "m_set_s") {
        m.mutable_m()->set_s(pl);
        r.mutable_m()->set_s(pl);
      } else if (op == "m_set_p") {
        m.mutable_m()->set_p(x);
        r.mutable_m()->set_p(x);
      } else if (op == "mm_set_s") {
        m.mutable_m()->mutable_m()->set_s(pl);
        r.mutable_m()->mutable_m()->set_s(pl);
      } else if (op == "add_rp") {
        m.add_rp(x);
        r.add_rp(x);
      } else if (op == "add_rs") {
        m.add_rs(pl);
        r.add_rs(pl);
      } else if (op == "add_rm") {
        m.add_rm()->set_s(pl);
        r.add_rm()->set_s(pl);
      } else if (op == "m_add_rs") {
        m.mutable_m()->add_rs(pl);
        r.mutable_m()->add_rs(pl);
      } else {
        return "bad-op";
      }
      compare_caps(op.c_str(), u, before, caps(u));
      check_contents(u, false);
      check_accessor(u);
      return show();
    }
    return "bad-op";
  }
};

int main() {
  Runner r;
  std::string line;
  while (std::getline(std::cin, line)) {
    std::istringstream is(line);
    std::vector<std::string> w;
    std::string t;
    while (is >> t) {
      w.push_back(t);
    }
    std::cout << r.step(w) << "\n" << std::flush;
  }
  return 0;
}
