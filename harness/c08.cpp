// E-CONC harness for C08 (Future / Promise / CountDownLatch) under VRT.
// usage: c08 <what> <seed0> <nruns>
//   what = promise | latch            random program per seed (printed in the RUN header as prog=...)
//        | prog:<promise|latch>:<N>:<program>   fixed program, one seeded schedule per run
//        | wrap                       regression: the waiter mark of the futex word is a flag, never a growing count
// program := spec '/' spec '/' ... ; first spec = main thread before the threads start, last spec = main
//            thread after joining them, the others = one spawned thread each.  spec := op{,op}
//   s<v> promise.set_value(v)     d<k> latch.count_down(k)
//   g    future.get()             w<tau> future.wait_for(tau ns, signed)     q  future.ready()
//   o    future.on_finish(cb)     t    future.then(cb)   (callback ids are numbered in program order)
//   y    sched_yield()            z<ns> sleep (virtual time)                 -  nothing
// Output per run:  RUN <seed> mode=.. latch=<N|-> prog=..\n <trace lines> END     (atomic-level trace of `_head`,
// `_futex`, `_count`, futex calls, clock reads + harness events; replayed in lock-step by lean/Drivers/C08.lean).
// The value storage is registered as payload: VRT's happens-before monitor prints a `race` line when a getter or a
// callback reads it without being ordered after the constructor by the release/acquire edges the code really has.
// Oracle verdicts (the property evaluated on the real code) are events `ev ORACLE <kind> ...`.
#include "../vrt/vrt.h"

#include <babylon/future.h>

#include <sched.h>
#include <unistd.h>

#include <chrono>
#include <climits>
#include <cstdio>
#include <cstdlib>
#include <cstring>
#include <string>
#include <thread>
#include <vector>

using namespace babylon;

struct Rng {
  uint64_t s;
  explicit Rng(uint64_t x) : s(x * 0x9E3779B97F4A7C15ull + 1) {}
  uint64_t next() {
    s ^= s << 13;
    s ^= s >> 7;
    s ^= s << 17;
    return s * 0x2545F4914F6CDD1Dull;
  }
  uint64_t below(uint64_t n) { return (next() >> 11) % n; }
};

static bool g_constructed = false;   // plain: exactly one thread runs at a time under VRT
static int g_expect = 0;
// VRT_MEM=view: atomic loads may be stale unless happens-before forbids it, so "after set_value" must mean
// "happens-after": the setter thread itself after its call returned, and the main thread after joining.
static bool g_view = false;
static thread_local bool t_after_hb = false;

struct Val {
  int v;
  Val(int x) {
    vrt_event("construct %d", x);
    v = x;
    g_constructed = true;
  }
};

struct Op {
  char kind;
  long long arg;
  int cb;   // callback id for o / t
};
typedef std::vector<Op> Spec;

static std::vector<Spec> parse_prog(const std::string& prog, int& ncb) {
  std::vector<Spec> specs(1);
  size_t i = 0;
  ncb = 0;
  while (i < prog.size()) {
    char c = prog[i];
    if (c == '/') {
      specs.emplace_back();
      ++i;
      continue;
    }
    if (c == ',' || c == '-') {
      ++i;
      continue;
    }
    Op op {c, 0, -1};
    ++i;
    size_t j = i;
    if (j < prog.size() && (prog[j] == '-' || isdigit((unsigned char)prog[j]))) {
      ++j;
      while (j < prog.size() && isdigit((unsigned char)prog[j])) ++j;
      op.arg = strtoll(prog.substr(i, j - i).c_str(), nullptr, 10);
      i = j;
    }
    if (c == 'o' || c == 't') op.cb = ncb++;
    specs.back().push_back(op);
  }
  return specs;
}

static const long long TAUS[] = {-5, 0, 1, 1000, 1000000000ll, LLONG_MAX};

static std::string gen_prog(Rng& rng, bool latch, int& latch_n) {
  auto tau = [&] { return std::to_string(TAUS[rng.below(6)]); };
  auto join = [](const std::vector<std::string>& v) {
    std::string s;
    for (size_t i = 0; i < v.size(); ++i) s += (i ? "," : "") + v[i];
    return s.empty() ? std::string("-") : s;
  };
  auto delay = [&](std::vector<std::string>& ops) {
    switch (rng.below(6)) {
      case 0: ops.push_back("y"); break;
      case 1: ops.push_back("y"); ops.push_back("y"); break;
      case 2: ops.push_back("z1000"); break;
      case 3: ops.push_back("z2000000000"); break;
      default: break;
    }
  };
  std::vector<std::string> pre, post;
  std::vector<std::vector<std::string>> thr;
  int npre = (int)rng.below(3);
  for (int i = 0; i < npre; ++i) pre.push_back(rng.below(4) == 0 ? "t" : "o");
  if (rng.below(4) == 0) pre.push_back("q");
  if (rng.below(6) == 0) pre.push_back("w" + tau());   // nobody can set yet: only finite timeouts terminate
  if (!pre.empty() && pre.back() == "w" + std::to_string(LLONG_MAX)) pre.back() = "w1000";
  // setter(s)
  if (!latch) {
    std::vector<std::string> s;
    delay(s);
    s.push_back("s" + std::to_string(1 + rng.below(1000)));
    if (rng.below(3) == 0) s.push_back(rng.below(2) ? "o" : "q");
    thr.push_back(s);
  } else {
    latch_n = (int)rng.below(5);
    int left = latch_n;
    int nthreads = latch_n == 0 ? 0 : 1 + (int)rng.below(3);
    for (int t = 0; t < nthreads; ++t) {
      std::vector<std::string> s;
      delay(s);
      int mine = (t == nthreads - 1) ? left : (int)rng.below(left + 1);
      left -= mine;
      while (mine > 0) {
        int d = 1 + (int)rng.below(mine);
        s.push_back("d" + std::to_string(d));
        mine -= d;
        if (rng.below(4) == 0) s.push_back("q");
      }
      thr.push_back(s);
    }
  }
  int nwait = (int)rng.below(4), nreg = (int)rng.below(4);
  for (int i = 0; i < nwait; ++i) {
    std::vector<std::string> s;
    delay(s);
    int n = 1 + (int)rng.below(3);
    for (int k = 0; k < n; ++k) {
      switch (rng.below(5)) {
        case 0: s.push_back("g"); break;
        case 1: s.push_back("q"); break;
        default: s.push_back("w" + tau()); break;
      }
    }
    if (rng.below(2)) s.push_back("g");
    thr.push_back(s);
  }
  for (int i = 0; i < nreg; ++i) {
    std::vector<std::string> s;
    delay(s);
    int n = 1 + (int)rng.below(2);
    for (int k = 0; k < n; ++k) s.push_back(rng.below(4) == 0 ? "t" : "o");
    if (rng.below(3) == 0) s.push_back(rng.below(2) ? "q" : "g");
    thr.push_back(s);
  }
  // shuffle thread creation order
  for (size_t i = thr.size(); i > 1; --i) std::swap(thr[i - 1], thr[rng.below(i)]);
  int npost = (int)rng.below(3);
  for (int i = 0; i < npost; ++i) post.push_back(rng.below(4) == 0 ? "t" : "o");
  post.push_back("g");
  post.push_back("w" + tau());
  post.push_back("q");
  std::string prog = join(pre);
  for (auto& t : thr) prog += "/" + join(t);
  prog += "/" + join(post);
  return prog;
}

// ---------------------------------------------------------------------------------------------------------------
template <typename T>
struct Read;
template <>
struct Read<Val> {
  static long long of(const Val& x) { return x.v; }
};
template <>
struct Read<size_t> {
  static long long of(const size_t& x) { return (long long)x; }
};

template <typename T>
struct Runner {
  Future<T> fut;
  Promise<Val>* promise = nullptr;
  CountDownLatch<>* latch = nullptr;
  int latch_n = -1;
  // oracle state (plain; one thread runs at a time)
  std::vector<int> cb_runs;
  std::vector<int> cb_registered;
  std::vector<Future<long long>> chained;   // indexed by callback id (one slot per `t` op: no shared growth)
  bool set_returned = false;     // promise: set_value returned;  latch: every count_down returned (checked at the end)
  long long downs_called = 0;

  bool value_may_be_set() const { return latch ? downs_called >= latch_n : g_constructed; }

  void on_cb(int id, long long seen) {
    vrt_event("cb %d %lld", id, seen);
    cb_runs[id]++;
    if (!value_may_be_set()) vrt_event("ORACLE cb-before-set callback %d ran before the value was set", id);
    else if (seen != g_expect) vrt_event("ORACLE cb-wrong-value callback %d saw %lld expected %d", id, seen, g_expect);
    if (cb_runs[id] > 1) vrt_event("ORACLE cb-twice callback %d ran %d times", id, cb_runs[id]);
    if (!cb_registered[id]) vrt_event("ORACLE cb-unregistered callback %d ran before being registered", id);
  }

  void run_op(const Op& op) {
    Future<T> f = fut;   // every call goes through a copy of the future
    switch (op.kind) {
      case 's': {
        vrt_event("call set %lld", op.arg);
        g_expect = (int)op.arg;
        promise->set_value((int)op.arg);
        vrt_event("ret set");
        set_returned = true;
        t_after_hb = true;
        break;
      }
      case 'd': {
        downs_called += op.arg;
        vrt_event("call down %lld", op.arg);
        latch->count_down((size_t)op.arg);
        vrt_event("ret down");
        break;
      }
      case 'g': {
        vrt_event("call get");
        auto& r = f.get();
        long long seen = Read<T>::of(r);
        vrt_event("ret get %lld", seen);
        if (!value_may_be_set()) vrt_event("ORACLE get-before-set get returned before the value was set");
        else if (seen != g_expect) vrt_event("ORACLE get-wrong-value get returned %lld expected %d", seen, g_expect);
        break;
      }
      case 'w': {
        bool after = g_view ? t_after_hb : set_returned;
        uint64_t t0 = vrt_now();
        vrt_event("call waitfor %lld", op.arg);
        bool ok = f.wait_for(std::chrono::nanoseconds(op.arg));
        uint64_t t1 = vrt_now();
        vrt_event("ret waitfor %d", (int)ok);
        if (ok && !value_may_be_set()) vrt_event("ORACLE waitfor-true-unset wait_for(%lld) returned true before the value was set", op.arg);
        if (!ok && op.arg > 0 && t1 - t0 < (uint64_t)op.arg)
          vrt_event("ORACLE waitfor-false-early wait_for(%lld) returned false after %llu ns", op.arg, (unsigned long long)(t1 - t0));
        if (!ok && after) vrt_event("ORACLE waitfor-false-after-set wait_for(%lld) returned false after set_value had returned", op.arg);
        break;
      }
      case 'q': {
        bool after = g_view ? t_after_hb : set_returned;
        vrt_event("call ready");
        bool r = f.ready();
        vrt_event("ret ready %d", (int)r);
        if (r && !value_may_be_set()) vrt_event("ORACLE ready-true-unset ready() true before the value was set");
        if (!r && after) vrt_event("ORACLE ready-false-after-set ready() false after set_value had returned");
        break;
      }
      case 'o': {
        int id = op.cb;
        vrt_event("call reg %d", id);
        cb_registered[id] = 1;
        f.on_finish([this, id](const T& x) { on_cb(id, Read<T>::of(x)); });
        vrt_event("ret reg");
        break;
      }
      case 't': {
        int id = op.cb;
        vrt_event("call reg %d", id);
        cb_registered[id] = 1;
        auto f2 = f.then([this, id](const T& x) -> long long {
          on_cb(id, Read<T>::of(x));
          return Read<T>::of(x) + 1000 + id;
        });
        vrt_event("ret reg");
        chained[id] = std::move(f2);
        break;
      }
      case 'y': sched_yield(); break;
      case 'z': {
        struct timespec ts {(time_t)(op.arg / 1000000000ll), (long)(op.arg % 1000000000ll)};
        nanosleep(&ts, nullptr);
        break;
      }
      default: break;
    }
  }

  void run(const std::vector<Spec>& specs) {
    for (auto& op : specs.front()) run_op(op);
    std::vector<std::thread> ts;
    for (size_t i = 1; i + 1 < specs.size(); ++i) {
      const Spec* sp = &specs[i];
      ts.emplace_back([this, sp] {
        for (auto& op : *sp) run_op(op);
      });
    }
    for (auto& t : ts) t.join();
    if (latch) set_returned = true;
    if (set_returned) t_after_hb = true;   // joined the setter(s)
    for (auto& op : specs.back()) run_op(op);
    // end-of-run oracle
    for (size_t id = 0; id < cb_runs.size(); ++id)
      if (cb_registered[id] && cb_runs[id] != 1)
        vrt_event("ORACLE cb-count callback %zu ran %d times (registered once, value set)", id, cb_runs[id]);
    for (size_t k = 0; k < chained.size(); ++k) {
      if (!chained[k].valid()) continue;
      if (!chained[k].ready()) {
        vrt_event("ORACLE then-not-ready future returned by then() of callback %zu not ready after everything finished", k);
      } else if (chained[k].get() != g_expect + 1000 + (long long)k) {
        vrt_event("ORACLE then-wrong-value chained future of callback %zu holds %lld", k, chained[k].get());
      }
    }
  }
};

static void run_case(uint64_t seed, bool latch_mode, int latch_n, const std::string& prog) {
  int ncb = 0;
  auto specs = parse_prog(prog, ncb);
  if (specs.size() < 2) specs.emplace_back();
  g_constructed = false;
  g_expect = 0;
  t_after_hb = false;
  const char* mem = getenv("VRT_MEM");
  g_view = mem && !strcmp(mem, "view");
  vrt_unname_all();
  vrt_trace_clock(1);
  if (!latch_mode) {
    Promise<Val> promise;
    Runner<Val> r;
    r.promise = &promise;
    r.fut = promise.get_future();
    r.cb_runs.assign(ncb, 0);
    r.cb_registered.assign(ncb, 0);
    r.chained.resize(ncb);
    auto* ctx = promise._context.get();
    vrt_name(&ctx->_futex, 4, "futex");
    vrt_name(&ctx->_head, 8, "head");
    vrt_payload(ctx->_storage, sizeof(Val), "value");
    vrt_begin(seed);
    printf("RUN %lu mode=promise latch=- prog=%s\n", (unsigned long)seed, prog.c_str());
    r.run(specs);
    vrt_event("stats steps %lu switches %lu stale %lu", vrt_steps(), vrt_switches(), vrt_stale_reads());
    vrt_end();
    vrt_dump(stdout);
  } else {
    CountDownLatch<> latch((size_t)latch_n);   // N = 0: the constructor publishes before anything can be named
    Runner<size_t> r;
    r.latch = &latch;
    r.latch_n = latch_n;
    r.fut = latch.get_future();
    r.cb_runs.assign(ncb, 0);
    r.cb_registered.assign(ncb, 0);
    r.chained.resize(ncb);
    g_expect = 0;
    auto* ctx = latch._promise._context.get();
    vrt_name(&ctx->_futex, 4, "futex");
    vrt_name(&ctx->_head, 8, "head");
    vrt_name(&latch._count, 8, "count");
    vrt_payload(ctx->_storage, sizeof(size_t), "value");
    vrt_begin(seed);
    printf("RUN %lu mode=latch latch=%d prog=%s\n", (unsigned long)seed, latch_n, prog.c_str());
    r.run(specs);
    vrt_event("stats steps %lu switches %lu stale %lu", vrt_steps(), vrt_switches(), vrt_stale_reads());
    vrt_end();
    vrt_dump(stdout);
  }
}

// Regression for the waiter mark of the futex word (fixed in /repo e39f62f).  Before the fix wait_slow / wait_for_slow did
// `fetch_add(1)` and never decremented: every wait_for that timed out left +1 behind, and after 2^31 such calls the low
// 31 bits carried into READY_MASK, so wait_for / get reported a value nobody had set.  Now the mark is a flag
// (`fetch_or(1)`).  (a) 20 timed-out wait_for(0) calls must leave the word at 1; (b) from the word a pre-fix future
// held after `2^31 - k` timed-out waits (written directly — 2^31 real calls would take days) the next wait_for calls
// must still return false.  On the pre-fix code (a) reports `waiter-count-grows` and (b) `waitfor-true-unset`.
static void run_wrap(uint64_t seed) {
  Promise<Val> promise;
  auto fut = promise.get_future();
  auto* ctx = promise._context.get();
  g_constructed = false;
  vrt_unname_all();
  vrt_trace_clock(1);
  vrt_name(&ctx->_futex, 4, "futex");
  vrt_name(&ctx->_head, 8, "head");
  unsigned k = 1 + (unsigned)(seed % 3);
  auto one_wait = [&](const char* phase) {
    vrt_event("call waitfor 0");
    bool ok = fut.wait_for(std::chrono::nanoseconds(0));
    vrt_event("ret waitfor %d", (int)ok);
    if (ok && !g_constructed)
      vrt_event("ORACLE waitfor-true-unset wait_for(0) returned true (%s) although set_value was never called", phase);
  };
  vrt_begin(seed);
  printf("RUN %lu mode=wrap latch=- prog=w0x20,preset,w0x%u\n", (unsigned long)seed, k + 1);
  for (int i = 0; i < 20; ++i) one_wait("fresh future");
  uint32_t word = *reinterpret_cast<volatile uint32_t*>(&ctx->_futex);
  *reinterpret_cast<volatile uint32_t*>(&ctx->_futex) = 0x80000000u - k;
  vrt_event("preset %u", 0x80000000u - k);
  for (unsigned i = 0; i < k + 1; ++i) one_wait("after 2^31 timed-out waits on the pre-fix code");
  if (word > 1) vrt_event("ORACLE waiter-count-grows futex word was %u after 20 timed-out wait_for calls (must stay a flag)", word);
  vrt_event("call set 7");
  g_expect = 7;
  promise.set_value(7);
  vrt_event("ret set");
  vrt_end();
  vrt_dump(stdout);
}

int main(int argc, char** argv) {
  std::string what = argc > 1 ? argv[1] : "promise";
  uint64_t seed0 = argc > 2 ? strtoull(argv[2], 0, 10) : 1;
  int nruns = argc > 3 ? atoi(argv[3]) : 1;
  for (int i = 0; i < nruns; ++i) {
    uint64_t seed = seed0 + i;
    if (what == "promise" || what == "latch") {
      Rng rng(seed);
      int n = -1;
      bool latch = what == "latch";
      std::string prog = gen_prog(rng, latch, n);
      run_case(seed, latch, n, prog);
    } else if (what.rfind("prog:", 0) == 0) {
      size_t a = what.find(':', 5), b = what.find(':', a + 1);
      std::string mode = what.substr(5, a - 5);
      int n = atoi(what.substr(a + 1, b - a - 1).c_str());
      run_case(seed, mode == "latch", n, what.substr(b + 1));
    } else if (what == "wrap") {
      run_wrap(seed);
    } else {
      return 2;
    }
  }
  return 0;
}
