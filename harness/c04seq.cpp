// E-SEQ harness for C04: index arithmetic of ConcurrentVector on the real classes (ASan + UBSan).
// One op per input line, one canonical output line per op; the same lines go to `drv_C04 seq`.
//   reset                      -> ok
//   meta <hint>                -> <block_mask_bits> <block_size> <block_mask>      (DynamicMeta::set_block_size)
//   idx <bits> <i>             -> <block_index(i)> <block_offset(i)>                (dynamic; static for bits 0 / 2 / 4 must agree)
//   grow <bits> ensure <i>     -> number of blocks of the table after ensure(i) on a fresh vector
//   grow <bits> reserve <n>    -> ... after reserve(n)
//   segs <bits> <b> <e>        -> <blocks> then `block#:offset:length` of every for_each callback on a fresh vector
// The harness also evaluates the property's oracle itself and appends ` !ORACLE(<kind> …)`:
//   cover    ensure/reserve left the index / range uncovered            split   (index, offset) does not recompose to i
//   range    for_each segments are not exactly [b, e) in order, or a segment leaves its block
//   value    fill_n / copy_n through the segments does not read back through operator[]
#include <babylon/concurrent/vector.h>

#include <cstdio>
#include <cstdlib>
#include <cstring>
#include <iostream>
#include <sstream>
#include <string>
#include <vector>

using namespace babylon;
using V = ConcurrentVector<uint64_t>;

template <size_t BS>
static bool static_agrees(size_t i, uint32_t bi, uint32_t bo) {
  typename ConcurrentVector<uint64_t, BS>::StaticMeta m;
  return m.block_index(i) == bi && m.block_offset(i) == bo && m.block_size() == BS && m.block_mask() == BS - 1;
}

int main() {
  std::string line;
  while (std::getline(std::cin, line)) {
    std::istringstream is(line);
    std::string op;
    is >> op;
    std::ostringstream out;
    std::string oracle;
    if (op == "reset") {
      out << "ok";
    } else if (op == "meta") {
      size_t h = 0;
      is >> h;
      V::DynamicMeta m;
      size_t r = m.set_block_size(h);
      out << m.block_mask_bits() << " " << m.block_size() << " " << m.block_mask();
      if (r != m.block_size() || (m.block_size() & (m.block_size() - 1)) != 0 || m.block_size() < h || (m.block_size() > 1 && m.block_size() / 2 >= h))
        oracle += " !ORACLE(meta block size is not the least power of two >= hint)";
      V v(h);
      if (v.block_size() != m.block_size()) oracle += " !ORACLE(meta vector disagrees with DynamicMeta)";
    } else if (op == "idx") {
      unsigned bits = 0;
      size_t i = 0;
      is >> bits >> i;
      V::DynamicMeta m;
      m.set_block_size((size_t)1 << bits);
      uint32_t bi = m.block_index(i), bo = m.block_offset(i);
      out << bi << " " << bo;
      if (bo >= m.block_size()) oracle += " !ORACLE(split offset outside the block)";
      if ((i >> bits) <= 0xFFFFFFFFull && (((size_t)bi << bits) | bo) != i) oracle += " !ORACLE(split index/offset do not recompose)";
      bool ok = true;
      if (bits == 0) ok = static_agrees<1>(i, bi, bo);
      if (bits == 2) ok = static_agrees<4>(i, bi, bo);
      if (bits == 4) ok = static_agrees<16>(i, bi, bo);
      if (!ok) oracle += " !ORACLE(split StaticMeta disagrees with DynamicMeta)";
    } else if (op == "grow") {
      unsigned bits = 0;
      std::string what;
      size_t n = 0;
      is >> bits >> what >> n;
      V v((size_t)1 << bits);
      if (what == "ensure") {
        uint64_t* p = &v.ensure(n);
        if (v.size() <= n || &v[n] != p) oracle += " !ORACLE(cover ensure)";
        *p = 1;
      } else {
        v.reserve(n);
        if (v.size() < n) oracle += " !ORACLE(cover reserve)";
        if (n) v[n - 1] = 1;
      }
      out << v.snapshot()._block_table->size;
    } else if (op == "segs") {
      unsigned bits = 0;
      size_t b = 0, e = 0;
      is >> bits >> b >> e;
      V v((size_t)1 << bits);
      std::vector<uint64_t> ref;
      std::ostringstream segs;
      size_t at = b;
      bool bad = false;
      v.for_each(b, e, [&](uint64_t* it, uint64_t* end) {
        auto* bt = v.snapshot()._block_table;
        size_t blk = (size_t)-1;
        for (size_t k = 0; k < bt->size; ++k)
          if (it >= bt->blocks[k] && it < bt->blocks[k] + v.block_size()) blk = k;
        if (blk == (size_t)-1 || end > bt->blocks[blk] + v.block_size() || end <= it) { bad = true; return; }
        segs << " " << blk << ":" << (it - bt->blocks[blk]) << ":" << (end - it);
        for (; it != end; ++it, ++at) {
          if (&v[at] != it) bad = true;
          *it = 1000 + at;
        }
      });
      if (bad || at != std::max(b, e)) oracle += " !ORACLE(range for_each segments)";
      // fill_n / copy_n over the same range read back through operator[]
      if (e > b) {
        v.fill_n(b, e - b, 77);
        for (size_t i = b; i < e; ++i)
          if (v[i] != 77) { oracle += " !ORACLE(value fill_n)"; break; }
        std::vector<uint64_t> src(e - b);
        for (size_t i = 0; i < src.size(); ++i) src[i] = 5000 + i;
        v.copy_n(src.begin(), src.size(), b);
        for (size_t i = b; i < e; ++i)
          if (v[i] != 5000 + (i - b)) { oracle += " !ORACLE(value copy_n)"; break; }
        if (b > 0 && v[b - 1] != 0) oracle += " !ORACLE(value write before the range)";
        if (e < v.size() && v[e] != 0) oracle += " !ORACLE(value write past the range)";
      }
      out << v.snapshot()._block_table->size << segs.str();
    } else {
      out << "bad-op";
    }
    std::cout << out.str() << oracle << "\n" << std::flush;
  }
  return 0;
}
