// E-CONC harness for C03 (ConcurrentFixedSwissTable / ConcurrentTransientHashSet) under VRT.
// usage: c03 <mode> <seed0> <nruns>
//   mode fixed : one ConcurrentFixedSwissTable (16/32/64 buckets or the default-constructed placeholder),
//                2-4 threads x emplace / insert / find, keys from a bad hash family, table fills up
//   mode set   : ConcurrentTransientHashSet (placeholder / 16 / 32 initial buckets) growing through 1-3
//                chained tables
// Output per run:  RUN <seed> mode=<mode> n0=<buckets|0> threads=<k>\n <trace lines> END
// The atomic-level trace (control bytes `ctl<k>` / `dummy`, `next<k>` pointers, fences, `ev yield`,
// `ev call` / `ev ret`) is replayed in lock-step by lean/Drivers/C03.lean.  Tables are named by their
// position k in the chain; node addresses in `next<k>` lines are canonicalised to k + 1.  The property's own oracle is
// evaluated on the real code here: `ev ORACLE <kind> ...`.
#include "../vrt/vrt.h"

#include <babylon/concurrent/transient_hash_table.h>

#include <sched.h>

#include <cstdio>
#include <cstdlib>
#include <cstring>
#include <map>
#include <new>
#include <set>
#include <string>
#include <thread>
#include <vector>

using namespace babylon;

struct Rng {
  uint64_t s;
  explicit Rng(uint64_t x) : s(x * 0x9E3779B97F4A7C15ull + 1) {}
  uint64_t next() {
    s ^= s << 13;
    s ^= s >> 7;
    s ^= s << 17;
    return s * 0x2545F4914F6CDD1Dull;
  }
  uint64_t below(uint64_t n) { return (next() >> 11) % n; }
};

// move-only element: four words that must be mutually consistent when anybody is allowed to look at
// them (fully constructed), and a flag telling whether the object has been moved from (consumed)
struct Item {
  uint64_t key, val, chk1, chk2;
  bool live;
  Item(uint64_t k, uint64_t v) : key(k), val(v), chk1(~k), chk2(k ^ v ^ 0x5a5a5a5a5a5a5a5aull), live(true) {}
  Item(Item&& o) noexcept : key(o.key), val(o.val), chk1(o.chk1), chk2(o.chk2), live(true) { o.live = false; }
  Item(const Item&) = delete;
  Item& operator=(const Item&) = delete;
  bool ok() const { return live && chk1 == ~key && chk2 == (key ^ val ^ 0x5a5a5a5a5a5a5a5aull); }
  bool operator==(const Item& o) const { return key == o.key; }
  bool operator==(uint64_t k) const { return key == k; }
};
struct IdHash {
  size_t operator()(const Item& i) const noexcept { return i.key; }
  size_t operator()(uint64_t k) const noexcept { return k; }
};
using Fixed = ConcurrentFixedSwissTable<Item, IdHash>;
using Set = ConcurrentTransientHashSet<Item, IdHash>;
using Node = Set::TableNode;

// ---------------------------------------------------------------------------------------------
// naming: tables are known by their POSITION in the chain (0 = head).  The head is named statically;
// chained nodes are created during the run, so VRT asks this resolver, which walks the real chain.
static Set* g_set = nullptr;
static std::set<const void*>* g_payload_done = nullptr;

// The header of every chained TableNode (table pointers, bucket mask: plain fields the winner of a growth
// race writes in `new TableNode` and every other thread reads after reaching the node through `next`) is a
// vrt_payload range, so the HB race monitor checks that the node is published by the release / acquire
// edges the code really has (growth CAS acq_rel + failure order acquire, `next` loads acquire).  Nodes are
// recognised at allocation (global operator new, size of a TableNode, inside Set::emplace of this thread;
// SC passes only: in view mode VRT itself allocates blocks of that size).  The harness's own reads of
// node headers (resolver, position lookup) are not instrumented.
#define C03_RAW __attribute__((no_sanitize_thread, noinline))
static bool g_hook = false;
static thread_local bool t_in_emplace = false;
static std::vector<void*>* g_cand = nullptr;       // blocks registered as node headers in this run
static std::vector<void*>* g_deferred = nullptr;   // ... and released by their owner during the run
static bool g_hook_busy = false;

void* operator new(size_t n) {
  void* p = malloc(n ? n : 1);
  if (!p) abort();
  if (g_hook && t_in_emplace && n == sizeof(Node) && !g_hook_busy) {
    g_hook_busy = true;
    g_cand->push_back(p);
    vrt_payload(p, offsetof(Node, next), "node");
    g_hook_busy = false;
  }
  return p;
}
static void c03_free(void* p) noexcept {
  if (p && g_cand && !g_hook_busy) {
    for (void* c : *g_cand)
      if (c == p) {   // keep the address unique (and its shadow meaningful) until the end of the run
        g_hook_busy = true;
        g_deferred->push_back(p);
        g_hook_busy = false;
        return;
      }
  }
  free(p);
}
void operator delete(void* p) noexcept { c03_free(p); }
void operator delete(void* p, size_t) noexcept { c03_free(p); }

C03_RAW static Node* raw_next(Node* nd) { return *(Node* volatile*)&nd->next; }   // plain read, no scheduling point

static void name_table(Fixed* t, int pos) {
  size_t nb = t->bucket_count();
  vrt_namef(t->_controls, nb + 16, "ctl%d", pos);
  vrt_payload(t->_values, nb * sizeof(*t->_values), (std::string("val") + std::to_string(pos)).c_str());
}
C03_RAW static bool resolver(const void* addr, char* out, size_t cap) {
  if (!g_set) return false;
  uintptr_t a = (uintptr_t)addr;
  int pos = 1;
  for (Node* nd = raw_next(&g_set->_head); nd; nd = raw_next(nd), ++pos) {
    if (a == (uintptr_t)&nd->next) {
      snprintf(out, cap, "next%d", pos);
      return true;
    }
    Fixed& t = nd->table;
    uintptr_t c = (uintptr_t)t._controls;
    size_t nb = t._bucket_mask + 1;
    if (a >= c && a < c + nb + 16) {
      const void* ctl = t._controls;
      const void* vals = t._values;
      if (g_payload_done->insert(ctl).second)
        vrt_payload(vals, nb * sizeof(*t._values), (std::string("val") + std::to_string(pos)).c_str());
      if (a == c) snprintf(out, cap, "ctl%d", pos);
      else snprintf(out, cap, "ctl%d+%lu", pos, (unsigned long)(a - c));
      return true;
    }
  }
  return false;
}

// ---------------------------------------------------------------------------------------------
struct Oracle {
  std::map<uint64_t, int> winners;            // key -> number of emplaces that reported `true`
  std::map<uint64_t, const Item*> addr;       // key -> the element every result must point to
  // key -> threads that KNOW (happens-before) that an emplace of it has returned an element; -1 = everybody
  // (returned in the main thread before the workers were spawned).  Under SC (default) real-time order is
  // enough: any returned emplace binds every later call.  Under VRT_MEM=view only happens-before binds.
  std::map<uint64_t, std::set<int>> known;
  bool spawned = false, quiescent = false, view = false;
  bool knows(uint64_t k) {
    auto it = known.find(k);
    if (it == known.end() || it->second.empty()) return false;
    if (!view || quiescent) return true;
    return it->second.count(-1) || it->second.count(vrt_tid());
  }
  void learn(uint64_t k) { known[k].insert(!spawned ? -1 : vrt_tid()); }
  std::map<uint64_t, bool> stored;            // key -> some emplace returned non-end (for the final census)
};

C03_RAW static int node_id_of_table(const Fixed* t, const Fixed* fixed_head) {
  if (t == fixed_head) return 0;
  if (!g_set) return -1;
  int pos = 1;
  for (Node* nd = raw_next(&g_set->_head); nd; nd = raw_next(nd), ++pos)
    if (&nd->table == t) return pos;
  return -1;
}

// result of one call, canonical
struct Out {
  bool end;
  int tb;
  size_t idx;
  bool inserted;
  const Item* p;
};

template <typename C>
struct Runner {
  C& c;
  const Fixed* head;     // table with id 0
  Oracle& o;
  bool is_set;

  Out unpack_table_it(typename Fixed::iterator it, bool ins) {
    Out r {};
    r.inserted = ins;
    if (!it) { r.end = true; return r; }
    r.tb = node_id_of_table(it._table, head);
    r.idx = it._index;
    r.p = &*it;
    return r;
  }
  Out emplace_on(Fixed& t, Item& item, bool use_insert) {
    auto res = use_insert ? t.insert(std::move(item)) : t.emplace(std::move(item));
    return unpack_table_it(res.first, res.second);
  }
  Out emplace_on(Set& s, Item& item, bool use_insert) {
    t_in_emplace = true;
    auto res = use_insert ? s.insert(std::move(item)) : s.emplace(std::move(item));
    t_in_emplace = false;
    if (res.first == s.end()) { Out r {}; r.end = true; r.inserted = res.second; return r; }
    return unpack_table_it(res.first._iter, res.second);
  }
  Out find_on(Fixed& t, uint64_t k) { return unpack_table_it(t.find(k), false); }
  Out find_on(Set& s, uint64_t k) {
    auto it = s.find(k);
    if (it == s.end()) { Out r {}; r.end = true; return r; }
    return unpack_table_it(it._iter, false);
  }

  void check_elem(const char* what, uint64_t k, const Out& r) {
    if (r.end) return;
    if (r.tb < 0) vrt_event("ORACLE unknown-table %s key %lu", what, (unsigned long)k);
    if (r.p->key != k) vrt_event("ORACLE wrong-element %s key %lu got %lu", what, (unsigned long)k, (unsigned long)r.p->key);
    if (!r.p->ok()) vrt_event("ORACLE torn-element %s key %lu (not fully constructed)", what, (unsigned long)k);
    auto it = o.addr.find(k);
    if (it == o.addr.end()) o.addr[k] = r.p;
    else if (it->second != r.p) vrt_event("ORACLE address-differs %s key %lu", what, (unsigned long)k);
  }

  void do_emplace(uint64_t k, uint64_t v, bool use_insert) {
    Item item(k, v);
    bool must = o.knows(k);
    vrt_event("call %s %lu %lu", is_set ? "emplace" : "templace", (unsigned long)k, (unsigned long)v);
    Out r = emplace_on(c, item, use_insert);
    if (r.end) vrt_event("ret %s end", is_set ? "emplace" : "templace");
    else vrt_event("ret %s %d %zu %d", is_set ? "emplace" : "templace", r.tb, r.idx, r.inserted ? 1 : 0);
    check_elem("emplace", k, r);
    if (r.end) {
      if (r.inserted) vrt_event("ORACLE end-with-true key %lu", (unsigned long)k);
      if (!item.live) vrt_event("ORACLE consumed-on-failure key %lu (full table consumed its argument)", (unsigned long)k);
      if (is_set) vrt_event("ORACLE set-emplace-failed key %lu", (unsigned long)k);
      if (must) vrt_event("ORACLE emplace-after-insert-missed key %lu", (unsigned long)k);
      // a fixed table may refuse only when every bucket is occupied (or it is the placeholder)
      if (!is_set) {
        const Fixed& t = *head;
        if (t._controls != Fixed::Group::s_dummy_controls) {
          size_t free_buckets = 0;
          for (size_t i = 0; i < t.bucket_count(); ++i)
            if (((volatile int8_t*)t._controls)[i] == Fixed::Group::EMPTY_CONTROL) ++free_buckets;
          if (free_buckets) vrt_event("ORACLE refused-while-not-full key %lu free %zu", (unsigned long)k, free_buckets);
        }
      }
      return;
    }
    if (r.inserted) {
      if (item.live) vrt_event("ORACLE inserted-without-consuming key %lu", (unsigned long)k);
      if (++o.winners[k] > 1) vrt_event("ORACLE two-winners key %lu", (unsigned long)k);
      if (must) vrt_event("ORACLE inserted-again key %lu after an insertion had returned", (unsigned long)k);
    } else {
      if (!item.live) vrt_event("ORACLE consumed-on-duplicate key %lu", (unsigned long)k);
    }
    o.learn(k);
    o.stored[k] = true;
  }

  void do_find(uint64_t k) {
    bool must = o.knows(k);
    vrt_event("call %s %lu 0", is_set ? "find" : "tfind", (unsigned long)k);
    Out r = find_on(c, k);
    if (r.end) vrt_event("ret %s end", is_set ? "find" : "tfind");
    else vrt_event("ret %s %d %zu", is_set ? "find" : "tfind", r.tb, r.idx);
    check_elem("find", k, r);
    if (r.end && must) vrt_event("ORACLE find-missed key %lu after its insertion had returned", (unsigned long)k);
  }
};

static size_t count_in_table(const Fixed& t, uint64_t k) {
  size_t c = 0;
  if (t._controls == Fixed::Group::s_dummy_controls) return 0;
  for (size_t i = 0; i < t.bucket_count(); ++i)
    if (((volatile int8_t*)t._controls)[i] >= 0 && const_cast<Fixed&>(t).at(i).key == k) ++c;
  return c;
}

template <typename C>
static void run(uint64_t seed, bool is_set) {
  Rng rng(seed);
  // ---- configuration
  size_t n0;
  if (is_set) n0 = (size_t[]) {0, 16, 16, 32}[rng.below(4)];
  else n0 = (size_t[]) {0, 16, 16, 16, 32, 32, 64}[rng.below(7)];
  int nthreads = 2 + (int)rng.below(3);
  size_t cap0 = n0 ? n0 : 16;
  // bad hash family: <= 4 distinct (base, tag) pairs, bases near the end of the ring
  int nh = 1 + (int)rng.below(4);
  std::vector<uint64_t> hashes;
  for (int i = 0; i < nh; ++i) {
    uint64_t d = (uint64_t[]) {1, 1, 2, 3, 7, 15, 16, 0}[rng.below(8)];
    uint64_t base = (cap0 * (1 + rng.below(3)) - d) & 0xff;
    uint64_t tag = rng.below(3) == 0 ? rng.below(128) : 0x2a;      // mostly equal tags
    hashes.push_back((base << 7) | tag);
  }
  auto mk_key = [&](uint64_t uniq) { return (uniq << 16) | hashes[uniq % hashes.size()]; };
  // how many distinct keys: around the capacity (fixed) / enough to grow 1-3 tables (set)
  size_t target, cap;
  if (is_set) {
    int grow = (int[]) {1, 1, 1, 1, 2, 2, 2, 3}[rng.below(8)];
    size_t nxt = cap0 * 2;   // placeholder: capacity 0, first chained table 32
    cap = n0;
    for (int g = 1; g < grow; ++g) { cap += nxt; nxt *= 2; }
    target = cap + 1 + rng.below(6);
  } else {
    cap = n0;
    target = cap0 - 3 + rng.below(7);  // a few below .. a few above the capacity
    if (n0 == 0) target = 2 + rng.below(4);
  }
  // the sequential prefix stops a few keys short of the capacity, so that the threads race for the
  // last free buckets / for the growth step; sometimes (nearly) everything is concurrent
  size_t nprefix = cap > 5 ? cap - 1 - rng.below(5) : 0;
  if (rng.below(5) == 0) nprefix = cap > 5 ? rng.below(cap) : 0;
  if (!is_set && n0 == 64 && nprefix < 40) nprefix = 40 + rng.below(20);
  // key pool of the threads: few keys (so that several threads insert the same key at the same time),
  // mostly new ones, enough of them to go beyond the capacity
  std::vector<uint64_t> pool;
  size_t room = cap > nprefix ? cap - nprefix : 0;
  size_t nnew = 1 + rng.below(4) + (rng.below(3) ? room : 0);
  for (size_t i = 0; i < nnew; ++i) pool.push_back(mk_key(nprefix + i));
  if (nprefix && rng.below(2)) pool.push_back(mk_key(rng.below(nprefix)));
  int nops = 3 + (int)rng.below(10);
  (void)target;

  // ---- container
  C* cp = n0 ? new C(n0) : new C();
  C& c = *cp;
  const Fixed* head;
  vrt_unname_all();
  vrt_trace_yield(1);
  g_payload_done = new std::set<const void*>();
  if constexpr (std::is_same<C, Set>::value) {
    head = &c._head.table;
    g_set = &c;
    vrt_name(&c._head.next, sizeof(void*), "next0");
    vrt_set_resolver(resolver);
  } else {
    head = &c;
    g_set = nullptr;
  }
  vrt_name(Fixed::Group::s_dummy_controls, 32, "dummy");
  if (n0) name_table(const_cast<Fixed*>(head), 0);

  Oracle o;
  o.view = getenv("VRT_MEM") && !strcmp(getenv("VRT_MEM"), "view");
  Runner<C> R {c, head, o, is_set};
  g_cand = new std::vector<void*>();
  g_deferred = new std::vector<void*>();
  g_hook = is_set && !o.view;
  vrt_begin(seed);
  printf("RUN %lu mode=%s n0=%zu threads=%d\n", (unsigned long)seed, is_set ? "set" : "fixed", n0, nthreads);
  for (size_t i = 0; i < nprefix; ++i) R.do_emplace(mk_key(i), i, false);
  std::vector<std::thread> ts;
  o.spawned = true;
  for (int t = 1; t <= nthreads; ++t) {
    uint64_t tseed = rng.next();
    ts.emplace_back([&, tseed] {
      Rng r(tseed);
      for (int i = 0; i < nops; ++i) {
        uint64_t k = pool[r.below(3) ? r.below(pool.size()) : r.below(1 + pool.size() / 3)];
        unsigned what = (unsigned)r.below(100);
        if (what < 65) R.do_emplace(k, r.below(1000), what < 15);
        else R.do_find(k);
      }
    });
  }
  for (auto& t : ts) t.join();
  // a lookup at quiescence finds every inserted key, at the same address
  o.quiescent = true;
  for (auto& kv : o.stored) R.do_find(kv.first);
  uint64_t steps = vrt_steps(), switches = vrt_switches(), stale = vrt_stale_reads();
  vrt_end();
  g_hook = false;
  // ---- quiescent census, outside the controlled section (growth never drops or duplicates a key;
  // chain shape; size)
  std::vector<const Fixed*> tables;
  tables.push_back(head);
  if constexpr (std::is_same<C, Set>::value) {
    size_t prev = head->bucket_count();
    for (Node* nd = c._head.next.load(std::memory_order_acquire); nd; nd = nd->next.load(std::memory_order_acquire)) {
      tables.push_back(&nd->table);
      if (nd->table.bucket_count() != prev * 2)
        vrt_event("ORACLE chain-shape table of %zu buckets follows one of %zu", nd->table.bucket_count(), prev);
      prev = nd->table.bucket_count();
    }
    // every table before the last one is completely full
    for (size_t i = 0; i + 1 < tables.size(); ++i) {
      const Fixed& t = *tables[i];
      if (t._controls == Fixed::Group::s_dummy_controls) continue;
      for (size_t b = 0; b < t.bucket_count(); ++b)
        if (((volatile int8_t*)t._controls)[b] < 0) { vrt_event("ORACLE grown-past-non-full table %zu bucket %zu", i, b); break; }
    }
  }
  size_t distinct = 0;
  for (auto& kv : o.stored) {
    size_t cnt = 0;
    for (auto* t : tables) cnt += count_in_table(*t, kv.first);
    if (cnt == 0) vrt_event("ORACLE dropped key %lu", (unsigned long)kv.first);
    if (cnt > 1) vrt_event("ORACLE duplicated key %lu stored %zu times", (unsigned long)kv.first, cnt);
    if (o.winners[kv.first] != 1) vrt_event("ORACLE winners key %lu has %d successful insertions", (unsigned long)kv.first, o.winners[kv.first]);
    ++distinct;
  }
  if (c.size() != distinct) vrt_event("ORACLE size reports %zu, %zu distinct keys were inserted", c.size(), distinct);
  vrt_event("stats steps %lu switches %lu tables %zu keys %zu stale %lu", (unsigned long)steps, (unsigned long)switches, tables.size(), distinct, (unsigned long)stale);

  // ---- canonicalise node addresses in `next<p>` lines (a non-null pointer stored in the `next` field of the
  // node at position p is the node at position p + 1), then print
  std::string tr = vrt_trace(), out;
  size_t pos = 0;
  while (pos < tr.size()) {
    size_t e = tr.find('\n', pos);
    if (e == std::string::npos) e = tr.size();
    std::string line = tr.substr(pos, e - pos);
    pos = e + 1;
    std::vector<std::string> w;
    {
      size_t p = 0;
      while (p < line.size()) {
        size_t q = line.find(' ', p);
        if (q == std::string::npos) q = line.size();
        if (q > p) w.push_back(line.substr(p, q - p));
        p = q + 1;
      }
    }
    if (w.size() >= 3 && w[1] != "ev" && w[2].rfind("next", 0) == 0) {
      unsigned long p1 = strtoul(w[2].c_str() + 4, nullptr, 10) + 1;
      auto canon = [&](std::string& tok) { if (tok != "0") tok = std::to_string(p1); };
      if (w[1] == "ld" && w.size() == 5) canon(w[4]);
      else if ((w[1] == "cas" || w[1] == "casw") && w.size() == 9) { canon(w[5]); canon(w[6]); canon(w[8]); }
      line.clear();
      for (auto& t : w) { if (!line.empty()) line += ' '; line += t; }
    }
    out += line;
    out += '\n';
  }
  fputs(out.c_str(), stdout);
  fputs("END\n", stdout);
  fflush(stdout);
  vrt_set_resolver(nullptr);
  g_set = nullptr;
  delete cp;
  delete g_payload_done;
  g_payload_done = nullptr;
  {
    std::vector<void*>* cand = g_cand;
    std::vector<void*>* deferred = g_deferred;
    g_cand = nullptr;
    g_deferred = nullptr;
    for (void* p : *deferred) free(p);
    delete cand;
    delete deferred;
  }
}

int main(int argc, char** argv) {
  std::string mode = argc > 1 ? argv[1] : "fixed";
  uint64_t seed0 = argc > 2 ? strtoull(argv[2], 0, 10) : 1;
  int nruns = argc > 3 ? atoi(argv[3]) : 1;
  for (int i = 0; i < nruns; ++i) {
    uint64_t seed = seed0 + i;
    if (mode == "fixed") run<Fixed>(seed, false);
    else if (mode == "set") run<Set>(seed, true);
    else return 2;
  }
  return 0;
}
