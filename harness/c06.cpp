// E-SEQ harness for C06: interprets op lines on the real ExclusiveMonotonicBufferResource and
// prints one canonical line per op (same protocol as lean/Drivers/C06.lean).
//
// Environment of the resource = two recording PageAllocators and two recording upstream
// std::pmr::memory_resources that hand out *real* memory from one big mmap'ed arena with the
// deterministic placement policies the Lean driver mirrors; every printed address is the offset
// from the arena base (nullptr prints as 0), so outputs are canonical.
//
// The harness also evaluates the property's own ORACLE on the implementation and appends
// " !ORACLE(kind ...)" to the output line when it fails:
//   misaligned            returned block not aligned as requested
//   not_owned             block (bytes > 0) not inside a page / upstream block the resource holds
//   overlap_block         block overlaps another live block (of either resource)
//   overlap_bookkeeping   block overlaps a PageArray / OversizePageArray / DestroyTaskArray
//   bookkeeping_not_owned / bookkeeping_overlap   bookkeeping arrays outside owned memory / overlapping
//   canary                contents of a live block changed
//   bad_page_free / bad_up_free   page / upstream block returned that the releasing resource does
//                         not hold, returned twice, to the wrong allocator, or with other (bytes, alignment)
//   leak_page / leak_up   release() kept a page / an upstream block
//   dtor_order            destructors not run exactly once each in reverse registration order
//   dtor_after_free       a destructor ran after memory was returned
//   accounting / not_reset   space_used / space_allocated / pointers not reset by release()
//   contains_live         contains() is false for an address inside a live block
//   leak_at_end           memory still held after both resources were destroyed
//
// usage: c06                 line protocol on stdin
//        c06 threads <kind> <nthreads> <seed> <rounds>   concurrent run on Shared / Swiss (oracle only):
//                            every thread also registers destructors that check blocks allocated by
//                            OTHER threads; oracle dtor_after_page_free = a destructor ran after any
//                            page / upstream block had been returned (pages are scribbled on return)
//        c06 pageheap <seed> <pageSize> <cacheCapacity> <cycles>   several resources on one real PageHeap
#include <babylon/reusable/memory_resource.h>

#include <sys/mman.h>
#include <unistd.h>

#include <algorithm>
#include <atomic>
#include <cstdint>
#include <cstdio>
#include <cstring>
#include <deque>
#include <iostream>
#include <map>
#include <memory>
#include <mutex>
#include <random>
#include <set>
#include <sstream>
#include <string>
#include <thread>
#include <vector>

#if defined(__SANITIZE_ADDRESS__)
#include <sanitizer/asan_interface.h>
#define POISON(p, n) ASAN_POISON_MEMORY_REGION(p, n)
#define UNPOISON(p, n) ASAN_UNPOISON_MEMORY_REGION(p, n)
#define NO_ASAN __attribute__((no_sanitize_address))
#else
#define POISON(p, n) ((void)0)
#define UNPOISON(p, n) ((void)0)
#define NO_ASAN
#endif

using namespace babylon;
using Res = ExclusiveMonotonicBufferResource;

static constexpr size_t ZONE = size_t(1) << 26;
static char* BASE = nullptr;

static size_t canon(const void* p) {
  auto c = reinterpret_cast<uintptr_t>(p);
  if (c < ZONE) return c;
  return static_cast<size_t>(reinterpret_cast<const char*>(p) - BASE);
}
static char* real(size_t m) {
  if (m < ZONE) return reinterpret_cast<char*>(m);
  return BASE + m;
}

static void die(const char* msg) {
  std::fprintf(stderr, "c06 harness: %s\n", msg);
  std::fflush(stdout);
  std::abort();
}

struct Seg {
  char* lo;
  size_t len;
  bool overlaps(const Seg& o) const { return len != 0 && o.len != 0 && lo < o.lo + o.len && o.lo < lo + len; }
  bool inside(const Seg& o) const { return o.lo <= lo && lo + len <= o.lo + o.len; }
};

// ---------------------------------------------------------------------------------------------
// what happened during the current op
struct EvRec {
  char kind;  // 'P' page alloc, 'p' page free, 'U' up alloc, 'u' up free, 'D' destructor
  int id;
  char* addr;
  size_t bytes, align;
};
static std::vector<EvRec> g_ev;
static size_t g_ev_base = 0;     // first event of the release currently running (an `end` line runs two)
static std::string g_oracle;   // oracle failures of the current op
static int g_cur = 0;          // register executing the current op
static void oracle(const std::string& s) { g_oracle += " !ORACLE(" + s + ")"; }

struct UpRec {
  size_t bytes, align;
};
// ownership (travels with the resource state on move)
struct Owned {
  std::set<char*> pages[2];              // by page allocator id
  std::map<char*, UpRec> ups[2];         // by upstream id
};
static Owned g_owned[2];

struct RecPA : public PageAllocator {
  int id = 0;
  size_t ps = 256;
  int policy = 0;
  bool reuse = false;
  size_t fresh = 0;
  std::vector<char*> freel;
  std::set<char*> live;
  size_t high = 0;  // bytes of the zone ever touched (for reset)

  char* zone() const { return BASE + (1 + id) * ZONE; }
  void config(size_t page_size, int pol, bool re) {
    if (!live.empty()) die("pa reconfigured while pages are live");
    ps = page_size; policy = pol; reuse = re; fresh = 0; freel.clear();
  }
  char* fresh_addr(size_t n) const {
    switch (policy) {
      case 0: return zone() + n * ps;
      case 1: return zone() + ZONE - (n + 1) * ps;
      default: return zone() + (2 * n + 1) * ps;
    }
  }
  virtual size_t page_size() const noexcept override { return ps; }
  using PageAllocator::allocate;
  using PageAllocator::deallocate;
  virtual void allocate(void** pages, size_t num) noexcept override {
    for (size_t i = 0; i < num; ++i) {
      char* p;
      if (reuse && !freel.empty()) {
        p = freel.back();
        freel.pop_back();
      } else {
        if ((2 * fresh + 2) * ps >= ZONE) die("page zone exhausted");
        p = fresh_addr(fresh++);
      }
      UNPOISON(p, ps);
      live.insert(p);
      g_owned[g_cur].pages[id].insert(p);
      g_ev.push_back({'P', id, p, ps, ps});
      pages[i] = p;
    }
  }
  virtual void deallocate(void** pages, size_t num) noexcept override {
    for (size_t i = 0; i < num; ++i) {
      char* p = reinterpret_cast<char*>(pages[i]);
      g_ev.push_back({'p', id, p, ps, ps});
      auto& own = g_owned[g_cur].pages[id];
      if (!own.count(p) || !live.count(p)) {
        std::ostringstream os;
        os << "bad_page_free pa " << id << " page " << canon(p) << (live.count(p) ? " held by another owner" : " not live");
        oracle(os.str());
        continue;
      }
      own.erase(p);
      live.erase(p);
      POISON(p, ps);
      if (reuse) freel.push_back(p);
    }
  }
  void reset() {
    // make everything addressable again for the next case
    for (size_t n = 0; n < fresh; ++n) UNPOISON(fresh_addr(n), ps);
    fresh = 0; freel.clear(); live.clear();
  }
};

struct RecUp : public std::pmr::memory_resource {
  int id = 0;
  int policy = 0;
  size_t cursor = 64;
  std::map<char*, UpRec> live;
  char* zone() const { return BASE + (3 + id) * ZONE; }
  void config(int pol) { policy = pol; }
  void* do_allocate(size_t bytes, size_t align) override {
    size_t al = align == 0 ? 1 : align;
    size_t m = (3 + id) * ZONE + cursor;
    size_t a0 = (m + al - 1) / al * al;
    size_t a = (policy == 1 && a0 % (2 * al) == 0) ? a0 + al : a0;
    cursor = a + (bytes == 0 ? 1 : bytes) - (3 + id) * ZONE;
    if (cursor >= ZONE) die("upstream zone exhausted");
    char* p = BASE + a;
    UNPOISON(p, bytes);
    live[p] = {bytes, align};
    g_owned[g_cur].ups[id][p] = {bytes, align};
    g_ev.push_back({'U', id, p, bytes, align});
    return p;
  }
  void do_deallocate(void* vp, size_t bytes, size_t align) override {
    char* p = reinterpret_cast<char*>(vp);
    g_ev.push_back({'u', id, p, bytes, align});
    auto& own = g_owned[g_cur].ups[id];
    auto it = own.find(p);
    if (it == own.end() || it->second.bytes != bytes || it->second.align != align) {
      std::ostringstream os;
      os << "bad_up_free upstream " << id << " block " << canon(p) << " bytes " << bytes << " align " << align;
      if (it != own.end()) os << " obtained with " << it->second.bytes << "/" << it->second.align;
      else if (live.count(p)) os << " held by another owner";
      else os << " not obtained from this upstream";
      oracle(os.str());
      return;
    }
    own.erase(it);
    live.erase(p);
    POISON(p, bytes);
  }
  bool do_is_equal(const std::pmr::memory_resource& o) const noexcept override { return this == &o; }
  void reset() {
    UNPOISON(zone(), cursor);
    cursor = 64; live.clear();
  }
};

static RecPA g_pa[2];
static RecUp g_up[2];

// ---------------------------------------------------------------------------------------------
struct Blk {
  char* p;
  size_t bytes, align;
  uint8_t canary;
  bool opaque = false;  // contents belong to an object living there (no canary)
};
struct DRec {
  int tag;
  long block;  // index into the owner's block list at registration time, or -1
};
struct Reg {
  std::unique_ptr<Res> res;
  std::vector<Blk> blocks;                   // live user blocks, allocation order
  std::vector<std::unique_ptr<DRec>> dtors;  // registered, registration order
};
static Reg g_reg[2];
static uint8_t g_next_canary = 1;

static bool canary_ok(const Blk& b) {
  if (b.opaque) return true;
  for (size_t i = 0; i < b.bytes; ++i)
    if (static_cast<uint8_t>(b.p[i]) != static_cast<uint8_t>(b.canary + i)) return false;
  return true;
}
static void canary_fill(const Blk& b) {
  for (size_t i = 0; i < b.bytes; ++i) b.p[i] = static_cast<char>(b.canary + i);
}

static void dtor_fn(void* vp) {
  auto* d = reinterpret_cast<DRec*>(vp);
  g_ev.push_back({'D', d->tag, nullptr, 0, 0});
  for (size_t k = g_ev_base; k < g_ev.size(); ++k)
    if (g_ev[k].kind == 'p' || g_ev[k].kind == 'u') {
      oracle("dtor_after_free tag " + std::to_string(d->tag));
      break;
    }
  auto& r = g_reg[g_cur];
  if (d->block >= 0 && static_cast<size_t>(d->block) < r.blocks.size()) {
    if (!canary_ok(r.blocks[d->block])) oracle("canary at destructor time, block " + std::to_string(d->block));
  }
}

// real bookkeeping arrays, read straight from the object (they are ASan-poisoned by the resource)
NO_ASAN static void walk_bookkeeping(Res& r, std::vector<Seg>& out) {
  for (auto a = r._last_page_array; a != nullptr; a = a->next)
    out.push_back({reinterpret_cast<char*>(a), sizeof(*a)});
  for (auto a = r._last_oversize_page_array; a != nullptr; a = a->next)
    out.push_back({reinterpret_cast<char*>(a), sizeof(*a)});
  for (auto a = r._last_destroy_task_array; a != nullptr; a = a->next)
    out.push_back({reinterpret_cast<char*>(a), sizeof(*a)});
}

static std::vector<Seg> owned_regions(int i) {
  std::vector<Seg> v;
  for (int k = 0; k < 2; ++k) {
    for (auto p : g_owned[i].pages[k]) v.push_back({p, g_pa[k].ps});
    for (auto& u : g_owned[i].ups[k]) v.push_back({u.first, u.second.bytes});
  }
  return v;
}

static std::string state(int i) {
  Res& r = *g_reg[i].res;
  std::ostringstream os;
  size_t pc = r._last_page_array ? static_cast<size_t>(r._last_page_array->pages + Res::PAGE_ARRAY_CAPACITY - r._last_page_pointer) : 0;
  size_t oc = r._last_oversize_page_array
                  ? static_cast<size_t>(r._last_oversize_page_array->pages + Res::PAGE_ARRAY_CAPACITY - r._last_oversize_page_pointer)
                  : 0;
  size_t dc = r._last_destroy_task_array
                  ? static_cast<size_t>(r._last_destroy_task_array->tasks + Res::DESTROY_TASK_ARRAY_CAPACITY - r._last_destroy_task_pointer)
                  : 0;
  os << "fb=" << canon(r._free_begin) << " fe=" << canon(r._free_end) << " used=" << r.space_used()
     << " alloc=" << r.space_allocated() << " pa=" << canon(r._last_page_array) << ":" << pc
     << " ov=" << canon(r._last_oversize_page_array) << ":" << oc << " dt=" << canon(r._last_destroy_task_array) << ":" << dc;
  return os.str();
}

static std::string events() {
  std::ostringstream os;
  bool first = true;
  for (auto& e : g_ev) {
    if (!first) os << " ";
    first = false;
    switch (e.kind) {
      case 'P': os << "P+" << e.id << ":" << canon(e.addr); break;
      case 'p': os << "P-" << e.id << ":" << canon(e.addr); break;
      case 'U': os << "U+" << e.id << ":" << canon(e.addr) << ":" << e.bytes << ":" << e.align; break;
      case 'u': os << "U-" << e.id << ":" << canon(e.addr) << ":" << e.bytes << ":" << e.align; break;
      case 'D': os << "D" << e.id; break;
    }
  }
  return os.str();
}

// invariant part of the oracle, after every op that touched register i
static void check_bookkeeping(int i) {
  std::vector<Seg> bk;
  walk_bookkeeping(*g_reg[i].res, bk);
  auto regions = owned_regions(i);
  for (size_t a = 0; a < bk.size(); ++a) {
    bool in = false;
    for (auto& r : regions) in = in || bk[a].inside(r);
    if (!in) oracle("bookkeeping_not_owned array " + std::to_string(canon(bk[a].lo)));
    for (size_t b = a + 1; b < bk.size(); ++b)
      if (bk[a].overlaps(bk[b])) oracle("bookkeeping_overlap " + std::to_string(canon(bk[a].lo)) + " " + std::to_string(canon(bk[b].lo)));
    for (int k = 0; k < 2; ++k)
      for (auto& blk : g_reg[k].blocks)
        if (bk[a].overlaps({blk.p, blk.bytes}))
          oracle("overlap_bookkeeping block " + std::to_string(canon(blk.p)) + " array " + std::to_string(canon(bk[a].lo)));
  }
}

static void check_canaries(int i, size_t last_n) {
  auto& bl = g_reg[i].blocks;
  size_t from = bl.size() > last_n ? bl.size() - last_n : 0;
  for (size_t k = from; k < bl.size(); ++k)
    if (!canary_ok(bl[k])) oracle("canary block " + std::to_string(canon(bl[k].p)) + " bytes " + std::to_string(bl[k].bytes));
}

static void do_release(int i, bool destroy) {
  auto& r = g_reg[i];
  check_canaries(i, r.blocks.size());
  std::vector<int> expect;
  for (auto it = r.dtors.rbegin(); it != r.dtors.rend(); ++it) expect.push_back((*it)->tag);
  g_ev_base = g_ev.size();
  if (destroy) r.res.reset(); else r.res->release();
  std::vector<int> got;
  for (size_t k = g_ev_base; k < g_ev.size(); ++k) if (g_ev[k].kind == 'D') got.push_back(g_ev[k].id);
  if (got != expect) {
    std::ostringstream os;
    os << "dtor_order expected";
    for (int t : expect) os << " " << t;
    os << " got";
    for (int t : got) os << " " << t;
    oracle(os.str());
  }
  for (int k = 0; k < 2; ++k) {
    for (auto p : g_owned[i].pages[k]) oracle("leak_page pa " + std::to_string(k) + " page " + std::to_string(canon(p)));
    for (auto& u : g_owned[i].ups[k]) oracle("leak_up upstream " + std::to_string(k) + " block " + std::to_string(canon(u.first)));
    // what release() did not return stays with the allocator; forget ownership so that one defect is reported once
    g_owned[i].pages[k].clear();
    g_owned[i].ups[k].clear();
  }
  if (!destroy) {
    Res& x = *r.res;
    if (x.space_used() != 0 || x.space_allocated() != 0) oracle("accounting after release");
    if (x._last_page_array || x._last_oversize_page_array || x._last_destroy_task_array || x._free_begin || x._free_end)
      oracle("not_reset after release");
  }
  r.blocks.clear();
  r.dtors.clear();
}

static void fresh(int i, int pa, int up) {
  g_reg[i].res.reset(new Res);
  g_reg[i].res->set_page_allocator(g_pa[pa]);
  g_reg[i].res->set_upstream(g_up[up]);
}

static bool pow2(size_t x) { return x != 0 && (x & (x - 1)) == 0; }

static int reg_of(const std::string& s) { return s == "A" ? 0 : s == "B" ? 1 : -1; }

static void init_arena() {
  size_t total = 6 * ZONE;
  void* m = mmap(nullptr, total + ZONE, PROT_READ | PROT_WRITE, MAP_PRIVATE | MAP_ANONYMOUS | MAP_NORESERVE, -1, 0);
  if (m == MAP_FAILED) die("mmap failed");
  auto u = (reinterpret_cast<uintptr_t>(m) + ZONE - 1) / ZONE * ZONE;
  BASE = reinterpret_cast<char*>(u);
  for (int i = 0; i < 2; ++i) {
    g_pa[i].id = i;
    g_up[i].id = i;
  }
}

static void reset_all(bool check) {
  g_ev.clear();
  for (int i = 0; i < 2; ++i) {
    g_cur = i;
    if (g_reg[i].res) do_release(i, true);
  }
  if (check)
    for (int k = 0; k < 2; ++k) {
      if (!g_pa[k].live.empty()) oracle("leak_at_end pa " + std::to_string(k) + " pages " + std::to_string(g_pa[k].live.size()));
      if (!g_up[k].live.empty()) oracle("leak_at_end upstream " + std::to_string(k) + " blocks " + std::to_string(g_up[k].live.size()));
    }
}

static int line_protocol() {
  std::string line;
  for (int i = 0; i < 2; ++i) fresh(i, i, i);
  while (std::getline(std::cin, line)) {
    std::istringstream is(line);
    std::vector<std::string> w;
    for (std::string t; is >> t;) w.push_back(t);
    g_ev.clear();
    g_oracle.clear();
    std::ostringstream out;
    auto num = [&](size_t k) { return static_cast<size_t>(std::stoull(w[k])); };
    if (w.size() == 1 && (w[0] == "reset" || w[0] == "end")) {
      bool end = w[0] == "end";
      reset_all(end);
      std::string evs = events();
      for (int k = 0; k < 2; ++k) {
        g_pa[k].reset();
        g_up[k].reset();
        g_pa[k].config(256, 0, false);
        g_up[k].config(0);
        g_owned[k] = Owned();
      }
      for (int i = 0; i < 2; ++i) fresh(i, i, i);
      if (end) out << "ok | " << evs; else out << "ok";
    } else if (w.size() == 5 && w[0] == "pa") {
      g_pa[num(1) ? 1 : 0].config(num(2), static_cast<int>(num(3)), num(4) != 0);
      // page size is read through the allocator on every call; nothing cached in the resources
      out << "ok";
    } else if (w.size() == 3 && w[0] == "up") {
      g_up[num(1) ? 1 : 0].config(static_cast<int>(num(2)));
      out << "ok";
    } else if (w.size() == 4 && w[0] == "new" && reg_of(w[1]) >= 0) {
      int i = reg_of(w[1]);
      g_cur = i;
      do_release(i, true);
      std::string evs = events();
      fresh(i, num(2) ? 1 : 0, num(3) ? 1 : 0);
      out << "ok | " << state(i) << " | " << evs;
    } else if (w.size() == 3 && w[0] == "move" && reg_of(w[1]) >= 0 && reg_of(w[2]) >= 0) {
      int s = reg_of(w[1]), d = reg_of(w[2]);
      *g_reg[d].res = std::move(*g_reg[s].res);
      if (s != d) {
        std::swap(g_reg[s].blocks, g_reg[d].blocks);
        std::swap(g_reg[s].dtors, g_reg[d].dtors);
        std::swap(g_owned[s], g_owned[d]);
      }
      check_bookkeeping(0);
      check_bookkeeping(1);
      out << "ok | " << state(0) << " | " << state(1);
    } else if (w.size() == 4 && reg_of(w[0]) >= 0 && w[1] == "alloc" && pow2(num(3))) {
      int i = reg_of(w[0]);
      g_cur = i;
      size_t bytes = num(2), align = num(3);
      char* p = reinterpret_cast<char*>(g_reg[i].res->allocate(bytes, align));
      Blk b {p, bytes, align, g_next_canary};
      g_next_canary = static_cast<uint8_t>(g_next_canary * 7 + 13);
      if (reinterpret_cast<uintptr_t>(p) % align != 0) oracle("misaligned block " + std::to_string(canon(p)) + " align " + std::to_string(align));
      if (bytes != 0) {
        bool in = false;
        for (auto& r : owned_regions(i)) in = in || Seg {p, bytes}.inside(r);
        if (!in) oracle("not_owned block " + std::to_string(canon(p)) + " bytes " + std::to_string(bytes));
        for (int k = 0; k < 2; ++k)
          for (auto& o : g_reg[k].blocks)
            if (Seg {p, bytes}.overlaps({o.p, o.bytes}))
              oracle("overlap_block " + std::to_string(canon(p)) + " with " + std::to_string(canon(o.p)));
        if (in) canary_fill(b);  // only write where the resource owns the memory
        else b.bytes = 0;
      }
      g_reg[i].blocks.push_back(b);
      check_bookkeeping(i);
      check_canaries(i, 8);
      check_canaries(1 - i, 4);
      out << "ret=" << canon(p) << " | " << state(i) << " | " << events();
    } else if (w.size() == 3 && reg_of(w[0]) >= 0 && w[1] == "reg") {
      int i = reg_of(w[0]);
      g_cur = i;
      auto& r = g_reg[i];
      int tag = static_cast<int>(num(2));
      long blk = r.blocks.empty() ? -1 : static_cast<long>(static_cast<size_t>(tag) % r.blocks.size());
      r.dtors.emplace_back(new DRec {tag, blk});
      r.res->register_destructor(r.dtors.back().get(), dtor_fn);
      check_bookkeeping(i);
      check_canaries(i, 8);
      out << "ok | " << state(i) << " | " << events();
    } else if (w.size() == 2 && reg_of(w[0]) >= 0 && w[1] == "release") {
      int i = reg_of(w[0]);
      g_cur = i;
      do_release(i, false);
      out << "ok | " << state(i) << " | " << events();
    } else if (w.size() == 5 && reg_of(w[0]) >= 0 && w[1] == "contains") {
      int i = reg_of(w[0]);
      g_cur = i;
      Res& x = *g_reg[i].res;
      size_t k = num(3);
      long long off = std::stoll(w[4]);
      bool ok = true, live_interior = false;
      size_t base = 0;
      if (w[2] == "abs") base = k;
      else if (w[2] == "fb") base = canon(x._free_begin);
      else if (w[2] == "fe") base = canon(x._free_end);
      else if (w[2] == "b" || w[2] == "o") {
        auto& bl = g_reg[w[2] == "b" ? i : 1 - i].blocks;
        if (!bl.empty()) {
          auto& b = bl[k % bl.size()];
          base = canon(b.p);
          live_interior = w[2] == "b" && off >= 0 && static_cast<size_t>(off) < b.bytes;
        }
      } else ok = false;
      if (ok && static_cast<long long>(base) + off < 0) ok = false;
      if (!ok) out << "bad-op";
      else {
        bool c = x.contains(real(static_cast<size_t>(static_cast<long long>(base) + off)));
        if (live_interior && !c) oracle("contains_live false for an address inside a live block");
        out << (c ? "true" : "false") << " | " << state(i) << " | ";
      }
    } else {
      out << "bad-op";
    }
    std::cout << out.str() << g_oracle << "\n" << std::flush;
  }
  reset_all(false);
  return 0;
}

// ---------------------------------------------------------------------------------------------
// thorough tier, supporting evidence only (no model): N real threads allocate concurrently from one
// SharedMonotonicBufferResource / SwissMemoryResource; same oracle on the union of all blocks.
// memory returned to any allocator since the current release() of the shared resource began
static std::atomic<long> g_release_frees {0};

struct LockedPA : public PageAllocator {
  std::mutex mu;
  size_t ps = 4096;
  std::set<char*> live;
  size_t allocs = 0, frees = 0;
  std::vector<std::string> errors;
  virtual size_t page_size() const noexcept override { return ps; }
  using PageAllocator::allocate;
  using PageAllocator::deallocate;
  virtual void allocate(void** pages, size_t num) noexcept override {
    for (size_t i = 0; i < num; ++i) {
      char* p = reinterpret_cast<char*>(::operator new(ps, std::align_val_t(ps)));
      std::lock_guard<std::mutex> g(mu);
      live.insert(p);
      ++allocs;
      pages[i] = p;
    }
  }
  virtual void deallocate(void** pages, size_t num) noexcept override {
    for (size_t i = 0; i < num; ++i) {
      char* p = reinterpret_cast<char*>(pages[i]);
      g_release_frees.fetch_add(1);
      {
        std::lock_guard<std::mutex> g(mu);
        if (!live.erase(p)) { errors.push_back("bad_page_free"); continue; }
        ++frees;
      }
      std::memset(p, 0xDD, ps);  // a recycling allocator scribbles over returned pages
      ::operator delete(p, ps, std::align_val_t(ps));
    }
  }
};
struct LockedUp : public std::pmr::memory_resource {
  std::mutex mu;
  std::map<char*, UpRec> live;
  size_t allocs = 0, frees = 0;
  std::vector<std::string> errors;
  void* do_allocate(size_t bytes, size_t align) override {
    char* p = reinterpret_cast<char*>(::operator new(bytes ? bytes : 1, std::align_val_t(align)));
    std::lock_guard<std::mutex> g(mu);
    live[p] = {bytes, align};
    ++allocs;
    return p;
  }
  void do_deallocate(void* vp, size_t bytes, size_t align) override {
    char* p = reinterpret_cast<char*>(vp);
    g_release_frees.fetch_add(1);
    {
      std::lock_guard<std::mutex> g(mu);
      auto it = live.find(p);
      if (it == live.end() || it->second.bytes != bytes || it->second.align != align) { errors.push_back("bad_up_free"); return; }
      live.erase(it);
      ++frees;
    }
    ::operator delete(p, bytes ? bytes : 1, std::align_val_t(align));
  }
  bool do_is_equal(const std::pmr::memory_resource& o) const noexcept override { return this == &o; }
};

static std::atomic<long> g_tdtor_runs {0};
static std::atomic<long> g_tdtor_bad {0};
static std::atomic<long> g_tdtor_after_free {0};  // destructor ran after some memory had already been returned
static std::atomic<long> g_tdtor_peer_bad {0};    // a block allocated by ANOTHER thread lost its contents before the destructor ran
struct TObj {
  uint64_t magic;
  std::atomic<int> runs;
  Blk peer;  // a block allocated through another thread's sub-resource (bytes == 0: none)
};
static void tdtor(void* p) {
  auto* o = reinterpret_cast<TObj*>(p);
  if (g_release_frees.load() != 0) {
    g_tdtor_after_free.fetch_add(1);  // do not touch resource memory any more: it may be gone
    g_tdtor_runs.fetch_add(1);
    return;
  }
  if (o->magic != 0xC06C06C06ull || o->runs.fetch_add(1) != 0) g_tdtor_bad.fetch_add(1);
  if (o->peer.bytes != 0 && !canary_ok(o->peer)) g_tdtor_peer_bad.fetch_add(1);
  g_tdtor_runs.fetch_add(1);
}

template <typename R>
static int run_threads(const char* kind, int nthreads, unsigned seed, int rounds) {
  LockedPA pa;
  LockedUp up;
  int failures = 0;
  long total_blocks = 0;
  auto fail = [&](const std::string& s) {
    std::printf("!ORACLE(%s)\n", s.c_str());
    ++failures;
  };
  {
    R res;
    res.set_page_allocator(pa);
    res.set_upstream(up);
    for (int round = 0; round < rounds; ++round) {
      std::vector<std::vector<Blk>> blocks(nthreads);
      std::vector<long> registered(nthreads, 0);
      std::vector<std::vector<Blk>> watchers(nthreads);
      std::vector<std::thread> ts;
      std::atomic<int> go {0};
      std::atomic<int> phase_a_done {0};
      for (int t = 0; t < nthreads; ++t) {
        ts.emplace_back([&, t] {
          std::mt19937 rng(seed * 1000 + round * 16 + t);
          while (go.load() == 0) {}
          int n = 200 + static_cast<int>(rng() % 200);
          for (int k = 0; k < n; ++k) {
            size_t align = size_t(1) << (rng() % 14);
            size_t bytes;
            switch (rng() % 6) {
              case 0: bytes = 0; break;
              case 1: bytes = pa.ps - rng() % 137; break;
              case 2: bytes = pa.ps + 1 + rng() % 3000; break;
              default: bytes = 1 + rng() % 300;
            }
            char* p = reinterpret_cast<char*>(res.allocate(bytes, align));
            Blk b {p, bytes, align, static_cast<uint8_t>(rng())};
            canary_fill(b);
            blocks[t].push_back(b);
            if (rng() % 5 == 0) {
              auto* o = reinterpret_cast<TObj*>(res.allocate(sizeof(TObj), alignof(TObj)));
              o->magic = 0xC06C06C06ull;
              o->runs.store(0);
              o->peer = Blk {nullptr, 0, 1, 0};
              res.register_destructor(o, tdtor);
              blocks[t].push_back({reinterpret_cast<char*>(o), sizeof(TObj), alignof(TObj), 0, true});
              ++registered[t];
            }
          }
          // every thread has finished allocating: register (through THIS thread's sub-resource)
          // destructors that look at blocks allocated through ANOTHER thread's sub-resource
          phase_a_done.fetch_add(1);
          while (phase_a_done.load() < nthreads) {}
          auto& theirs = blocks[(t + 1) % nthreads];
          size_t avail = theirs.size();  // frozen: nobody appends to another thread's list any more
          for (int k = 0; k < 8 && avail != 0 && nthreads > 1; ++k) {
            const Blk& pb = theirs[rng() % avail];
            if (pb.bytes == 0 || pb.opaque) continue;
            auto* o = reinterpret_cast<TObj*>(res.allocate(sizeof(TObj), alignof(TObj)));
            o->magic = 0xC06C06C06ull;
            o->runs.store(0);
            o->peer = pb;
            res.register_destructor(o, tdtor);
            watchers[t].push_back({reinterpret_cast<char*>(o), sizeof(TObj), alignof(TObj), 0, true});
            ++registered[t];
          }
        });
      }
      go.store(1);
      for (auto& t : ts) t.join();
      // oracle on the union
      std::vector<Blk> all;
      long reg = 0;
      for (int t = 0; t < nthreads; ++t) {
        all.insert(all.end(), blocks[t].begin(), blocks[t].end());
        all.insert(all.end(), watchers[t].begin(), watchers[t].end());
        reg += registered[t];
      }
      total_blocks += static_cast<long>(all.size());
      for (auto& b : all) {
        if (reinterpret_cast<uintptr_t>(b.p) % b.align != 0) fail("misaligned");
        if (!canary_ok(b)) fail("canary");
        if (b.bytes != 0 && !res.contains(b.p)) fail("contains_live");
      }
      std::vector<Blk> sorted;
      for (auto& b : all) if (b.bytes) sorted.push_back(b);
      std::sort(sorted.begin(), sorted.end(), [](const Blk& a, const Blk& b) { return a.p < b.p; });
      for (size_t i = 1; i < sorted.size(); ++i)
        if (sorted[i - 1].p + sorted[i - 1].bytes > sorted[i].p) fail("overlap_block");
      {
        std::lock_guard<std::mutex> g(pa.mu);
        std::lock_guard<std::mutex> g2(up.mu);
        for (auto& b : sorted) {
          bool in = false;
          auto it = pa.live.upper_bound(b.p);
          if (it != pa.live.begin()) { --it; in = *it <= b.p && b.p + b.bytes <= *it + pa.ps; }
          if (!in) {
            auto jt = up.live.upper_bound(b.p);
            if (jt != up.live.begin()) { --jt; in = jt->first <= b.p && b.p + b.bytes <= jt->first + jt->second.bytes; }
          }
          if (!in) fail("not_owned");
        }
      }
      long before = g_tdtor_runs.load();
      g_release_frees.store(0);
      g_tdtor_after_free.store(0);
      g_tdtor_peer_bad.store(0);
      res.release();
      if (g_tdtor_after_free.load() != 0)
        fail("dtor_after_page_free " + std::to_string(g_tdtor_after_free.load()) + " destructors ran after memory had been returned");
      if (g_tdtor_peer_bad.load() != 0)
        fail("canary at destructor time: " + std::to_string(g_tdtor_peer_bad.load()) + " blocks of other threads lost their contents before all destructors ran");
      if (g_tdtor_runs.load() - before != reg) fail("dtor_order: " + std::to_string(g_tdtor_runs.load() - before) + " runs for " + std::to_string(reg) + " registrations");
      if (g_tdtor_bad.load() != 0) fail("dtor ran twice or on dead memory");
      if (!pa.live.empty()) fail("leak_page");
      if (!up.live.empty()) fail("leak_up");
      if (res.space_used() != 0 || res.space_allocated() != 0) fail("accounting");
    }
  }
  for (auto& e : pa.errors) fail(e);
  for (auto& e : up.errors) fail(e);
  std::printf("threads kind=%s n=%d seed=%u rounds=%d blocks=%ld pages=%zu/%zu upstream=%zu/%zu failures=%d\n", kind, nthreads, seed,
              rounds, total_blocks, pa.allocs, pa.frees, up.allocs, up.frees, failures);
  return failures ? 1 : 0;
}

// ---------------------------------------------------------------------------------------------
// The resource on the library's own allocator stack: several resources share one real
// PageHeap (NewDeletePageAllocator + CachedPageAllocator with a small ring) through many
// allocate / release cycles, so that release() batches hit the cache at every ring position.
// Oracle: alignment, pairwise disjointness of ALL live blocks of all resources, canaries before
// every release, and "no page is in the cache twice / in the cache while a live block uses it".
//
// cap == 0: the resources sit directly on a NewDeletePageAllocator (set_page_size(ps)); otherwise on
// a PageHeap{cap, ps}.  A forwarding spy between resource and library allocator only OBSERVES the
// pages (the memory and its alignment are the library's): it checks the assumption the resource
// and the model make about every page allocator -- pages are page_size-aligned (`page_misaligned`)
// and not handed out while still out (`page_twice`) -- and supplies the containment oracle.
struct SpyPA : public PageAllocator {
  PageAllocator* up = nullptr;
  std::set<char*> live;
  std::vector<std::string> errors;
  virtual size_t page_size() const noexcept override { return up->page_size(); }
  using PageAllocator::allocate;
  using PageAllocator::deallocate;
  virtual void allocate(void** pages, size_t num) noexcept override {
    up->allocate(pages, num);
    size_t ps = up->page_size();
    for (size_t i = 0; i < num; ++i) {
      char* p = reinterpret_cast<char*>(pages[i]);
      if (reinterpret_cast<uintptr_t>(p) % ps != 0)
        errors.push_back("page_misaligned the library page allocator returned a page that is not page_size-aligned (page_size " +
                         std::to_string(ps) + ", address mod page_size " + std::to_string(reinterpret_cast<uintptr_t>(p) % ps) + ")");
      if (!live.insert(p).second) errors.push_back("page_twice the page allocator hands out a page that is still out");
    }
  }
  virtual void deallocate(void** pages, size_t num) noexcept override {
    for (size_t i = 0; i < num; ++i)
      if (!live.erase(reinterpret_cast<char*>(pages[i]))) errors.push_back("bad_page_free page returned that is not out");
    up->deallocate(pages, num);
  }
};

static int run_pageheap(unsigned seed, size_t ps, size_t cap, int cycles) {
  int failures = 0;
  auto fail = [&](const std::string& s) {
    if (failures < 20) std::printf("!ORACLE(%s)\n", s.c_str());
    ++failures;
  };
  long nblocks = 0, nreleases = 0, ndrains = 0;
  {
    PageHeap real_heap {cap == 0 ? 1 : cap, ps};
    NewDeletePageAllocator plain;
    plain.set_page_size(ps);
    SpyPA heap;
    heap.up = cap == 0 ? static_cast<PageAllocator*>(&plain) : static_cast<PageAllocator*>(&real_heap);
    ps = heap.page_size();
    auto spy_errors = [&]() {
      for (auto& e : heap.errors) fail(e);
      heap.errors.clear();
    };
    struct Owner {
      std::unique_ptr<MonotonicBufferResource> res;
      std::vector<Blk> blocks;
    };
    std::vector<Owner> owners(4);
    for (int i = 0; i < 3; ++i) {
      auto* r = new ExclusiveMonotonicBufferResource;
      r->set_page_allocator(heap);
      owners[i].res.reset(r);
    }
    {
      auto* r = new SwissMemoryResource;
      r->set_page_allocator(heap);
      owners[3].res.reset(r);
    }
    std::mt19937 rng(seed);
    auto verify = [&](Owner& o) {
      for (auto& b : o.blocks)
        if (!canary_ok(b)) fail("canary block lost its contents, bytes " + std::to_string(b.bytes));
    };
    auto drain_check = [&]() {
      ++ndrains;
      size_t n = cap == 0 ? 0 : real_heap.free_page_num();
      if (n == 0) return;
      std::vector<void*> pg(n);
      heap.allocate(pg.data(), n);
      std::vector<char*> sorted;
      for (auto q : pg) sorted.push_back(reinterpret_cast<char*>(q));
      std::sort(sorted.begin(), sorted.end());
      for (size_t i = 1; i < sorted.size(); ++i)
        if (sorted[i] == sorted[i - 1]) fail("page_twice the page allocator hands out one page twice");
      for (auto& o : owners)
        for (auto& b : o.blocks)
          for (auto q : sorted)
            if (Seg {b.p, b.bytes}.overlaps({q, ps})) fail("page_twice a free page of the allocator holds a live block");
      heap.deallocate(pg.data(), n);
    };
    for (int c = 0; c < cycles; ++c) {
      Owner& o = owners[rng() % owners.size()];
      if (!o.blocks.empty() && rng() % 3 == 0) {
        for (auto& x : owners) verify(x);
        o.res->release();
        o.blocks.clear();
        ++nreleases;
        drain_check();
        spy_errors();
        if (failures) {
          // the allocator's cache is corrupt: stop here, skipping destructors that would free pages twice
          std::printf("pageheap seed=%u ps=%zu cap=%zu cycles=%d stopped at cycle %d blocks=%ld releases=%ld failures=%d\n", seed, ps,
                      cap, cycles, c, nblocks, nreleases, failures);
          std::fflush(stdout);
          _exit(1);
        }
        continue;
      }
      int k = 1 + static_cast<int>(rng() % 6);
      for (int j = 0; j < k; ++j) {
        size_t bytes;
        switch (rng() % 4) {
          case 0: { size_t off = rng() % 137; bytes = ps > off ? ps - off : 1; break; }
          case 1: bytes = ps / 2 + 1; break;
          case 2: bytes = ps; break;
          default: bytes = 1 + rng() % 64;
        }
        // alignments 1 .. page size (and sometimes 2 * page size, which goes upstream)
        size_t lg = 0;
        while ((size_t(1) << lg) < ps) ++lg;
        size_t align;
        switch (rng() % 4) {
          case 0: align = ps; break;
          case 1: align = ps >> (1 + rng() % 2); break;
          case 2: align = rng() % 8 == 0 ? 2 * ps : size_t(1) << (rng() % (lg + 1)); break;
          default: align = size_t(1) << (rng() % 7);
        }
        if (align == 0) align = 1;
        char* p = reinterpret_cast<char*>(o.res->allocate(bytes, align));
        Blk b {p, bytes, align, static_cast<uint8_t>(rng())};
        ++nblocks;
        spy_errors();
        if (reinterpret_cast<uintptr_t>(p) % align != 0)
          fail("misaligned block at page offset " + std::to_string(reinterpret_cast<uintptr_t>(p) % ps) + " not aligned to the requested " +
               std::to_string(align) + " (page_size " + std::to_string(ps) + ")");
        if (align <= ps) {  // bytes <= ps here: the block must lie inside a page that is out
          auto it = heap.live.upper_bound(p);
          bool in = false;
          if (it != heap.live.begin()) { --it; in = *it <= p && p + bytes <= *it + ps; }
          if (!in) fail("not_owned block outside every page the allocator handed out");
        }
        bool clash = false;
        for (auto& x : owners)
          for (auto& y : x.blocks)
            if (Seg {p, bytes}.overlaps({y.p, y.bytes})) clash = true;
        if (clash) {
          fail("overlap_block a block overlaps a live block (of this or another resource on the same PageHeap)");
          b.bytes = 0;  // do not scribble over somebody else's block
        } else {
          canary_fill(b);
        }
        o.blocks.push_back(b);
      }
      if (failures >= 3) {  // enough evidence; do not flood the replay
        std::printf("pageheap seed=%u ps=%zu cap=%zu cycles=%d stopped at cycle %d blocks=%ld releases=%ld failures=%d\n", seed, ps,
                    cap, cycles, c, nblocks, nreleases, failures);
        std::fflush(stdout);
        _exit(1);
      }
    }
    for (auto& x : owners) verify(x);
    for (auto& x : owners) {
      x.res->release();
      x.blocks.clear();
    }
    drain_check();
    spy_errors();
    if (!heap.live.empty()) fail("leak_page " + std::to_string(heap.live.size()) + " pages still out after every resource was released");
    if (cap != 0 && real_heap.allocate_page_num() != 0) fail("leak_page PageHeap still counts pages as allocated after every resource was released");
    owners.clear();
  }
  std::printf("pageheap seed=%u ps=%zu cap=%zu cycles=%d blocks=%ld releases=%ld drains=%ld failures=%d\n", seed, ps, cap, cycles,
              nblocks, nreleases, ndrains, failures);
  return failures ? 1 : 0;
}

int main(int argc, char** argv) {
  if (argc >= 6 && std::string(argv[1]) == "pageheap") {
    return run_pageheap(static_cast<unsigned>(std::atoi(argv[2])), static_cast<size_t>(std::atoll(argv[3])),
                        static_cast<size_t>(std::atoll(argv[4])), std::atoi(argv[5]));
  }
  if (argc >= 6 && std::string(argv[1]) == "threads") {
    std::string kind = argv[2];
    int n = std::atoi(argv[3]);
    unsigned seed = static_cast<unsigned>(std::atoi(argv[4]));
    int rounds = std::atoi(argv[5]);
    if (kind == "shared") return run_threads<SharedMonotonicBufferResource>("shared", n, seed, rounds);
    return run_threads<SwissMemoryResource>("swiss", n, seed, rounds);
  }
  init_arena();
  return line_protocol();
}
