// smoke test of VRT: bounded queue ping-pong + std::mutex/condvar + futex
#include "../../vrt/vrt.h"
#include <babylon/concurrent/bounded_queue.h>
#include <atomic>
#include <condition_variable>
#include <mutex>
#include <thread>
#include <vector>
#include <cstdlib>
using namespace babylon;
int main(int argc, char** argv) {
  uint64_t seed = argc > 1 ? strtoull(argv[1], 0, 10) : 1;
  int runs = argc > 2 ? atoi(argv[2]) : 1;
  for (int r = 0; r < runs; ++r) {
    ConcurrentBoundedQueue<uint64_t> q(2);
    std::atomic<int> counter{0};
    std::mutex mu; std::condition_variable cv; bool flag = false;
    vrt_unname_all();
    vrt_name(&counter, sizeof(counter), "counter");
    vrt_begin(seed + r);
    uint64_t sum = 0;
    std::thread p([&] { for (uint64_t i = 1; i <= 5; ++i) { q.push<true,true,true>(i); counter.fetch_add(1, std::memory_order_relaxed);} 
                        std::lock_guard<std::mutex> g(mu); flag = true; cv.notify_all(); });
    std::thread c([&] { for (int i = 0; i < 5; ++i) { uint64_t v; q.pop<true,true,true>(v); sum += v; vrt_event("popped %lu", v);} });
    { std::unique_lock<std::mutex> l(mu); cv.wait(l, [&]{return flag;}); }
    p.join(); c.join();
    vrt_event("sum %lu steps %lu switches %lu", sum, vrt_steps(), vrt_switches());
    vrt_end();
    printf("RUN %lu\n", seed + r);
    vrt_dump(stdout);
  }
  return 0;
}
