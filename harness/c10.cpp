// probe version
#include "../vrt/vrt.h"

#include <babylon/concurrent/garbage_collector.h>

#include <cstdio>
#include <cstdlib>
#include <cstring>
#include <string>
#include <thread>
#include <vector>

using namespace babylon;

struct Rec {
  int id {-1};
  Rec() = default;
  explicit Rec(int i) : id(i) {}
  Rec(Rec&& o) noexcept : id(o.id) { o.id = -1; }
  Rec& operator=(Rec&& o) noexcept { id = o.id; o.id = -1; return *this; }
  void operator()() { vrt_event("reclaim %d", id); }
};

int main(int argc, char** argv) {
  uint64_t seed = argc > 1 ? strtoull(argv[1], 0, 10) : 1;
  GarbageCollector<Rec> gc;
  gc.set_queue_capacity(2);
  auto& ep = gc._epoch;
  ep._slots.ensure(15);
  vrt_unname_all();
  vrt_name(&ep._version, 8, "ep.ver");
  for (int i = 0; i < 16; ++i) vrt_namef(&ep._slots[i].version, 8, "ep.s%d", i);
  vrt_name(&ep._id_allocator._next_value, sizeof(ep._id_allocator._next_value), "ep.idend");
  vrt_name(&gc._queue._next_push_index, 8, "q.push");
  vrt_name(&gc._queue._next_pop_index, 8, "q.pop");
  for (size_t i = 0; i < gc._queue.capacity(); ++i) vrt_namef(&gc._queue._slots.futex(i), 4, "q.f%zu", i);
  vrt_begin(seed);
  printf("RUN %lu cap=%zu\n", (unsigned long)seed, gc._queue.capacity());
  gc.start();
  std::thread t1([&] {
    ep.lock();
    vrt_event("region_open 0");
    usleep(5000);
    vrt_event("region_close 0");
    ep.unlock();
  });
  for (int i = 0; i < 3; ++i) {
    vrt_event("retire_begin %d", i);
    gc.retire(Rec(i));
    vrt_event("retire_end %d", i);
  }
  vrt_event("stop_begin");
  gc.stop();
  vrt_event("stop_end");
  t1.join();
  vrt_end();
  vrt_dump(stdout);
  return 0;
}
