// E-CONC harness for C10 (GarbageCollector) under VRT.
// usage: c10 <mode> <seed0> <nruns>
//   mode tl   : critical regions in thread-local style (Epoch::lock / unlock)
//   mode acc  : critical regions through Epoch::Accessor, opened by one thread and closed by another
//   mode big  : capacity 128 / 256 and hundreds of retirements (passes that reclaim >= 100 and >= batch)
//   mode fix-open-stop : the fixed schedule "one region open, one retire, stop()" (DESIGN section 7 #2)
//   mode rr-tl / rr-acc : reader-retirer threads: a thread opens a region, retires inside it, then takes NESTED
//                         locks (depth 2-3) after that retire / tick, holds, unwinds; its own outer region is open
//                         at its retirements (total retirements <= capacity, so a retire inside a region never
//                         waits for its own region)
//   mode life : the life cycle — retire while NO collector thread exists (before the first start(), between a
//               stop() and the next start(); at most `capacity` of them, so nothing blocks), start(), a concurrent
//               phase, stop(); 1-3 such cycles on one collector; in a third of the cases the default capacity of one
//               slot; redundant start() on a running collector and stop() on a stopped one (both no-ops)
//   mode wrap : capacity 1-2 with the queue's push / pop indices and slot versions preset to round 32766, so that
//               the 16-bit slot version wraps while the queue is full (a collector batch held back by an open
//               region + a full ring + one more retire, which must block across the wrap)
// One case = one seeded program (queue capacity 1-8, 1-3 retiring threads using retire(r), retire(r, tick())
// and batch retirement, 0-2 threads holding long regions, stop() after the retiring threads returned and a
// PRNG-chosen delay, regions still open at stop() close later from their own / another thread) under one
// seeded schedule.  Output per run:  RUN <seed> cap=<n> gc=<tid> ...\n <trace lines> END
// The trace (harness events + atomic operations on the epoch version, epoch slots, queue indices and queue
// slot versions + sleeps) is replayed by lean/Drivers/C10.lean against the event-level model.
// ORACLE on the real code (events `ev ORACLE <kind> ...`):
//   twice      a reclaimer was invoked a second time
//   early      a reclaimer was invoked while a region that was open when it was retired is still open
//   lost       stop() returned and a reclaimer retired before stop() was called has not been invoked
//   foreign    a reclaimer was invoked by a thread other than the collector
//   destroyed  a reclaimer object was destroyed without having been invoked
#include "../vrt/vrt.h"

#include <babylon/concurrent/garbage_collector.h>

#include <atomic>
#include <cstdio>
#include <cstdlib>
#include <cstring>
#include <memory>
#include <string>
#include <thread>
#include <vector>

using namespace babylon;

struct Rng {
  uint64_t s;
  explicit Rng(uint64_t x) : s(x * 0x9E3779B97F4A7C15ull + 1) {}
  uint64_t next() {
    s ^= s << 13;
    s ^= s >> 7;
    s ^= s << 17;
    return s * 0x2545F4914F6CDD1Dull;
  }
  uint64_t below(uint64_t n) { return n ? (next() >> 11) % n : 0; }
};

// ---- oracle state (plain memory: exactly one thread runs at a time under VRT)
struct Oracle {
  std::vector<int> invoked;                  // per reclaimer id
  std::vector<int> returned_before_stop;     // retire(id) returned before stop() was called
  std::vector<std::vector<int>> blockers;    // region instances open when id was retired
  std::vector<int> region_open;              // per region instance: 1 open, 0 not yet / closed
  std::vector<int> retire_returned;
  int stop_called = 0;
  int gc_tid = 1;
  void reset(int nids, int nregions) {
    invoked.assign(nids, 0);
    returned_before_stop.assign(nids, 0);
    retire_returned.assign(nids, 0);
    blockers.assign(nids, {});
    region_open.assign(nregions, 0);
    stop_called = 0;
  }
  std::vector<int> open_now() const {
    std::vector<int> r;
    for (size_t i = 0; i < region_open.size(); ++i)
      if (region_open[i]) r.push_back((int)i);
    return r;
  }
};
static Oracle g_or;

struct Rec {
  int id {-1};
  Rec() = default;
  explicit Rec(int i) : id(i) {}
  Rec(Rec&& o) noexcept : id(o.id) { o.id = -1; }
  Rec& operator=(Rec&& o) noexcept {
    drop();
    id = o.id;
    o.id = -1;
    return *this;
  }
  ~Rec() { drop(); }
  void drop() {
    if (id >= 0 && !g_or.invoked[id]) vrt_event("ORACLE destroyed reclaimer %d destroyed without having been invoked", id);
    id = -1;
  }
  void operator()() {
    vrt_event("reclaim %d", id);
    if (id < 0 || id >= (int)g_or.invoked.size()) {
      vrt_event("ORACLE twice invalid reclaimer object invoked (id %d)", id);
      return;
    }
    if (vrt_tid() != g_or.gc_tid) vrt_event("ORACLE foreign reclaimer %d invoked by thread %d", id, vrt_tid());
    if (g_or.invoked[id]++) vrt_event("ORACLE twice reclaimer %d invoked %d times", id, g_or.invoked[id]);
    for (int r : g_or.blockers[id])
      if (g_or.region_open[r]) vrt_event("ORACLE early reclaimer %d invoked while region %d, open at its retirement, is still open", id, r);
  }
};

using GC = GarbageCollector<Rec>;

static void name_all(GC& gc) {
  auto& ep = gc._epoch;
  ep._slots.ensure(63);
  vrt_unname_all();
  vrt_name(&ep._version, 8, "ep.ver");
  for (int i = 0; i < 64; ++i) vrt_namef(&ep._slots[i].version, 8, "ep.s%d", i);
  vrt_name(&ep._id_allocator._next_value, sizeof(ep._id_allocator._next_value), "ep.idend");
  vrt_name(&gc._queue._next_push_index, 8, "q.push");
  vrt_name(&gc._queue._next_pop_index, 8, "q.pop");
  for (size_t i = 0; i < gc._queue.capacity(); ++i) {
    vrt_namef(&gc._queue._slots.futex(i), 4, "q.f%zu", i);
    vrt_payload(&gc._queue._slots.value(i), sizeof(gc._queue._slots.value(i)), "cell");
  }
}

// ---- client actions
static void do_retire(GC& gc, int id) {
  g_or.blockers[id] = g_or.open_now();
  vrt_event("retire_begin %d", id);
  gc.retire(Rec(id));
  g_or.retire_returned[id] = 1;
  vrt_event("retire_end %d", id);
}
static uint64_t do_tick(GC& gc, std::vector<int>& open_at_tick) {
  open_at_tick = g_or.open_now();
  vrt_event("tick");
  return gc.epoch().tick();
}
static void do_retire_at(GC& gc, int id, uint64_t e, const std::vector<int>& open_at_tick) {
  g_or.blockers[id] = open_at_tick;
  vrt_event("retire_at_begin %d %lu", id, (unsigned long)e);
  gc.retire(Rec(id), e);
  g_or.retire_returned[id] = 1;
  vrt_event("retire_end %d", id);
}
static int g_spawned = 0;   // threads created in the controlled section so far (= tid of the latest one)
template <typename F>
static void spawn(std::vector<std::thread>& v, F&& f) {
  ++g_spawned;
  v.emplace_back(std::forward<F>(f));
}
static void do_start(GC& gc) {
  bool launches = !gc._gc_thread.joinable();
  if (launches) g_or.gc_tid = ++g_spawned;
  vrt_event("start");
  gc.start();
  vrt_event("start_end");
}
static void do_stop(GC& gc) {
  bool running = gc._gc_thread.joinable();
  for (size_t i = 0; i < g_or.invoked.size(); ++i) g_or.returned_before_stop[i] = g_or.retire_returned[i];
  g_or.stop_called = 1;
  vrt_event("stop_begin");
  gc.stop();
  vrt_event("stop_end");
  if (!running) return;   // stop() without a collector thread is a no-op by contract: whoever retires must start()
  for (size_t i = 0; i < g_or.invoked.size(); ++i)
    if (g_or.returned_before_stop[i] && g_or.invoked[i] != 1)
      vrt_event("ORACLE lost stop() returned, reclaimer %zu retired before stop() was invoked %d times", i, g_or.invoked[i]);
}

struct RetirePlan {
  // kind 0: retire(r)   1: tick + retire(r, e)   2: batch: one tick, then `n` retire(r, e)
  struct Op { int kind; int n; unsigned pause_us; };
  std::vector<Op> ops;
  int first_id = 0;
};
// reader-retirer: lock; retire `first` items; nested lock(s) after a tick; retire `second` items; hold; unwind
struct RRPlan {
  struct It { unsigned pause_us; int first; int depth; int second; bool tick_between; unsigned hold_us; int region; int first_id; };
  std::vector<It> its;
};
struct RegionPlan {
  unsigned start_us;     // delay before opening
  unsigned hold_us;      // how long it stays open
  bool nested;
  int region;            // region instance id
};

static void run_retirer(GC& gc, const RetirePlan& p) {
  int id = p.first_id;
  for (auto& op : p.ops) {
    if (op.pause_us) usleep(op.pause_us);
    if (op.kind == 0) {
      do_retire(gc, id++);
    } else {
      std::vector<int> open_at_tick;
      uint64_t e = do_tick(gc, open_at_tick);
      for (int i = 0; i < op.n; ++i) do_retire_at(gc, id++, e, open_at_tick);
    }
  }
}

static void final_checks() {
  for (size_t i = 0; i < g_or.invoked.size(); ++i)
    if (g_or.invoked[i] > 1) vrt_event("ORACLE twice reclaimer %zu invoked %d times in total", i, g_or.invoked[i]);
}

// life cycle: retire with no collector thread, start(), concurrent phase, stop(); several cycles on one collector
static void run_life(uint64_t seed) {
  Rng rng(seed);
  bool default_cap = rng.below(3) == 0;
  size_t want_cap = 1 + rng.below(8);
  int cycles = 1 + (int)rng.below(3);
  auto gcp = std::make_unique<GC>();
  GC& gc = *gcp;
  if (!default_cap) gc.set_queue_capacity(want_cap);
  size_t cap = gc._queue.capacity();
  struct Cycle { int pre; bool noop_stop_before; bool double_start; std::vector<RetirePlan> rplans; std::vector<RegionPlan> regions; unsigned stop_delay_us; };
  std::vector<Cycle> plan(cycles);
  int nids = 0, nregions = 0;
  for (auto& cy : plan) {
    cy.pre = (int)rng.below(std::min<size_t>(cap, 3) + 1);
    nids += cy.pre;
    cy.noop_stop_before = rng.below(4) == 0;
    cy.double_start = rng.below(4) == 0;
    int nret = (int)rng.below(3);
    cy.rplans.resize(nret);
    for (auto& p : cy.rplans) {
      p.first_id = nids;
      int nops = 1 + (int)rng.below(4);
      for (int i = 0; i < nops; ++i) {
        RetirePlan::Op op;
        unsigned k = (unsigned)rng.below(10);
        op.kind = k < 6 ? 0 : k < 8 ? 1 : 2;
        op.n = op.kind == 2 ? 2 : 1;
        op.pause_us = rng.below(4) == 0 ? 200 + (unsigned)rng.below(2500) : 0;
        p.ops.push_back(op);
        nids += op.n;
      }
    }
    if (rng.below(2)) {
      int n = 1 + (int)rng.below(2);
      for (int i = 0; i < n; ++i) {
        RegionPlan r;
        r.start_us = (unsigned)rng.below(2000);
        r.hold_us = 500 + (unsigned)rng.below(9000);
        r.nested = false;
        r.region = nregions++;
        cy.regions.push_back(r);
      }
    }
    cy.stop_delay_us = rng.below(3) == 0 ? 0 : (unsigned)rng.below(6000);
  }
  bool final_noop_stop = rng.below(2);
  g_or.reset(nids, nregions);
  name_all(gc);
  auto& ep = gc.epoch();
  vrt_trace_sleep(1);
  vrt_begin(seed);
  g_spawned = 0;
  printf("RUN %lu cap=%zu gc=0 base=0 mode=life cycles=%d defaultcap=%d ids=%d regions=%d\n", (unsigned long)seed, cap, cycles,
         (int)default_cap, nids, nregions);
  int id = 0;
  for (auto& cy : plan) {
    // nobody collects: the tasks wait in the queue
    for (int i = 0; i < cy.pre; ++i) do_retire(gc, id++);
    if (cy.noop_stop_before) do_stop(gc);
    do_start(gc);
    if (cy.double_start) do_start(gc);
    std::vector<std::thread> regs, rets;
    if (!cy.regions.empty())
      spawn(regs, [&] {
        for (auto& r : cy.regions) {
          if (r.start_us) usleep(r.start_us);
          unsigned slot = ThreadId::current_thread_id<Epoch>().value;
          vrt_event("region_enter %u", slot);
          ep.lock();
          g_or.region_open[r.region] = 1;
          vrt_event("region_open %u", slot);
          if (r.hold_us) usleep(r.hold_us);
          g_or.region_open[r.region] = 0;
          vrt_event("region_close %u", slot);
          ep.unlock();
        }
      });
    for (auto& p : cy.rplans) {
      spawn(rets, [&, pp = &p] { run_retirer(gc, *pp); });
      for (auto& op : p.ops) id += op.n;
    }
    for (auto& t : rets) t.join();
    if (cy.stop_delay_us) usleep(cy.stop_delay_us);
    do_stop(gc);
    for (auto& t : regs) t.join();
  }
  if (final_noop_stop) do_stop(gc);
  final_checks();
  vrt_event("stats steps %lu switches %lu races %lu", vrt_steps(), vrt_switches(), vrt_races());
  vrt_end();
  vrt_dump(stdout);
  gcp.reset();
}

static void run_case(uint64_t seed, const std::string& mode) {
  Rng rng(seed);
  bool big = mode == "big";
  bool rr = mode == "rr-tl" || mode == "rr-acc";
  bool wrap = mode == "wrap";
  bool acc_style = mode == "acc" || mode == "rr-acc";
  bool fix = mode == "fix-open-stop";
  if (mode == "life") { run_life(seed); return; }
  size_t want_cap = big ? (rng.below(2) ? 128 : 256) : 1 + rng.below(8);
  int nret = big ? 1 + (int)rng.below(2) : 1 + (int)rng.below(3);
  int nreg_threads = big ? (int)rng.below(2) : (int)rng.below(3);
  if (fix) { want_cap = 1 + rng.below(4); nret = 1; nreg_threads = 1; acc_style = false; }
  int nrr = 0;
  if (rr) { want_cap = 3 + rng.below(6); nret = 0; nreg_threads = (int)rng.below(2); nrr = 1 + (int)rng.below(2); }
  if (wrap) { want_cap = 1 + rng.below(2); nret = 1; nreg_threads = 1; acc_style = rng.below(2); }
  size_t real_cap = 1;
  while (real_cap < want_cap) real_cap <<= 1;

  // plans
  std::vector<RetirePlan> rplans(nret);
  int nids = 0;
  for (auto& p : rplans) {
    p.first_id = nids;
    int nops = big ? 60 + (int)rng.below(120) : 1 + (int)rng.below(6);
    if (fix) nops = 1;
    if (wrap) nops = 2 * (int)real_cap + 1 + (int)rng.below(3);   // batch held + full ring + at least one that must block
    for (int i = 0; i < nops; ++i) {
      RetirePlan::Op op;
      unsigned k = (unsigned)rng.below(10);
      op.kind = fix ? 0 : (k < 6 ? 0 : k < 8 ? 1 : 2);
      if (wrap) op.kind = k < 7 ? 0 : 1;
      op.n = op.kind == 2 ? 2 + (int)rng.below(3) : 1;
      op.pause_us = (!big && rng.below(4) == 0) ? 200 + (unsigned)rng.below(4000) : 0;
      if (fix) op.pause_us = 2000;   // let the region open first
      if (wrap) op.pause_us = i == 0 ? 2500 : 0;
      p.ops.push_back(op);
      nids += op.n;
    }
  }
  std::vector<std::vector<RegionPlan>> gplans(nreg_threads);
  int nregions = 0;
  for (auto& g : gplans) {
    int n = fix ? 1 : 1 + (int)rng.below(3);
    for (int i = 0; i < n; ++i) {
      RegionPlan r;
      r.start_us = (unsigned)rng.below(3000);
      r.hold_us = rng.below(3) == 0 ? (unsigned)rng.below(800) : 2000 + (unsigned)rng.below(40000);
      r.nested = rng.below(5) == 0;
      if (fix) { r.start_us = 0; r.hold_us = 30000; r.nested = false; }
      if (wrap) { r.start_us = 0; r.hold_us = 20000 + (unsigned)rng.below(20000); }
      r.region = nregions++;
      g.push_back(r);
      if (wrap) break;
    }
  }
  // reader-retirer plans: never more retirements in total than the ring holds
  std::vector<RRPlan> rrplans(nrr);
  {
    int budget = (int)real_cap;
    for (auto& p : rrplans) {
      int nit = 1 + (int)rng.below(3);
      for (int i = 0; i < nit && budget > 0; ++i) {
        RRPlan::It it;
        it.pause_us = (unsigned)rng.below(2500);
        // the collector's k-th sleep ends at start + sum_{i<=k}(1000 + 10 i) us of virtual time: waking at exactly
        // that moment (or not sleeping at all before the first pass) puts lock() + retire() INSIDE a collector pass,
        // e.g. between its epoch scan and its pop
        if (i == 0 && rng.below(4) != 0) {
          unsigned k = (unsigned)rng.below(4);
          it.pause_us = 1000 * k + 10 * (k * (k + 1) / 2);
        }
        it.first = 1 + (int)rng.below(2);
        if (it.first > budget) it.first = budget;
        budget -= it.first;
        it.depth = 1 + (int)rng.below(3);           // 1 = no nesting, 2-3 = nested locks after the retirement
        it.tick_between = rng.below(3) == 0;
        it.second = (it.depth > 1 && budget > 0 && rng.below(2)) ? 1 : 0;
        budget -= it.second;
        it.hold_us = rng.below(4) == 0 ? 0 : 1200 + (unsigned)rng.below(6000);
        it.region = nregions++;
        it.first_id = nids;
        nids += it.first + it.second;
        p.its.push_back(it);
      }
    }
  }
  unsigned stop_delay_us = rng.below(3) == 0 ? 0 : (unsigned)rng.below(big ? 3000 : 25000);
  if (fix) stop_delay_us = 0;

  g_or.reset(nids, nregions);
  auto gcp = std::make_unique<GC>();
  GC& gc = *gcp;
  gc.set_queue_capacity(want_cap);
  name_all(gc);
  auto& ep = gc.epoch();
  // accessor style: accessors are created up front (before the controlled section the id allocator is
  // not traced); region k of thread g uses accessor g, opened by thread g and closed by a helper thread
  std::vector<Epoch::Accessor> accs;
  if (acc_style)
    for (int g = 0; g < nreg_threads + nrr; ++g) accs.push_back(ep.create_accessor());
  // idle accessors behind the used ones only make the collector's scan longer (more steps between its read of a
  // reader's slot and its pop of the queue)
  if (rr && acc_style)
    for (int g = (int)rng.below(3) * 8; g > 0; --g) accs.push_back(ep.create_accessor());
  // wrap mode: start the ring two rounds before the 16-bit slot version wraps
  size_t base = 0;
  if (wrap) {
    base = (size_t)32766 * gc._queue.capacity();
    gc._queue._next_push_index.store(base);
    gc._queue._next_pop_index.store(base);
    for (size_t i = 0; i < gc._queue.capacity(); ++i)
      gc._queue._slots.futex(i)._futex.value().store((uint16_t)(2 * 32766));
  }

  vrt_trace_sleep(1);
  vrt_begin(seed);
  g_spawned = 0;
  printf("RUN %lu cap=%zu gc=1 base=%zu mode=%s retirers=%d regionthreads=%d readerretirers=%d ids=%d regions=%d\n", (unsigned long)seed,
         gc._queue.capacity(), base, mode.c_str(), nret, nreg_threads, nrr, nids, nregions);
  do_start(gc);   // first thread created in the section: tid 1
  std::vector<std::thread> reg_threads, ret_threads, closers;
  std::vector<std::unique_ptr<std::atomic<int>>> handoff;
  for (int i = 0; i < nregions; ++i) handoff.emplace_back(new std::atomic<int>(0));
  for (int g = 0; g < nreg_threads; ++g) {
    if (!acc_style) {
      spawn(reg_threads, [&, g] {
        for (auto& r : gplans[g]) {
          if (r.start_us) usleep(r.start_us);
          unsigned slot = ThreadId::current_thread_id<Epoch>().value;
          vrt_event("region_enter %u", slot);
          ep.lock();
          g_or.region_open[r.region] = 1;
          vrt_event("region_open %u", slot);
          if (r.nested) { ep.lock(); }
          if (r.hold_us) usleep(r.hold_us);
          if (r.nested) { ep.unlock(); }
          g_or.region_open[r.region] = 0;
          vrt_event("region_close %u", slot);
          ep.unlock();
        }
      });
    } else {
      // opener
      spawn(reg_threads, [&, g] {
        for (auto& r : gplans[g]) {
          if (r.start_us) usleep(r.start_us);
          unsigned slot = (unsigned)accs[g]._index;
          vrt_event("region_enter %u", slot);
          accs[g].lock();
          g_or.region_open[r.region] = 1;
          vrt_event("region_open %u", slot);
          handoff[r.region]->store(1, std::memory_order_release);
          // wait until the closer thread has closed it before reusing the accessor
          while (handoff[r.region]->load(std::memory_order_acquire) != 2) usleep(300);
        }
      });
      // closer: another thread ends the region
      spawn(closers, [&, g] {
        for (auto& r : gplans[g]) {
          while (handoff[r.region]->load(std::memory_order_acquire) != 1) usleep(300);
          if (r.hold_us) usleep(r.hold_us);
          unsigned slot = (unsigned)accs[g]._index;
          g_or.region_open[r.region] = 0;
          vrt_event("region_close %u", slot);
          accs[g].unlock();
          handoff[r.region]->store(2, std::memory_order_release);
        }
      });
    }
  }
  // reader-retirers: retire inside their own region, then nest
  for (int q = 0; q < nrr; ++q) {
    spawn(ret_threads, [&, q] {
      Epoch::Accessor* acc = acc_style ? &accs[nreg_threads + q] : nullptr;
      auto lock = [&] { if (acc) acc->lock(); else ep.lock(); };
      auto unlock = [&] { if (acc) acc->unlock(); else ep.unlock(); };
      for (auto& it : rrplans[q].its) {
        if (it.pause_us) usleep(it.pause_us);
        unsigned slot = acc ? (unsigned)acc->_index : (unsigned)ThreadId::current_thread_id<Epoch>().value;
        int id = it.first_id;
        vrt_event("region_enter %u", slot);
        lock();
        g_or.region_open[it.region] = 1;
        vrt_event("region_open %u", slot);
        for (int i = 0; i < it.first; ++i) do_retire(gc, id++);
        if (it.tick_between) { std::vector<int> dummy; (void)do_tick(gc, dummy); }
        for (int d = 1; d < it.depth; ++d) lock();          // nested, after the retirement / tick
        for (int i = 0; i < it.second; ++i) do_retire(gc, id++);
        if (it.hold_us) usleep(it.hold_us);
        for (int d = 1; d < it.depth; ++d) unlock();
        if (it.depth > 1 && it.hold_us && (it.hold_us & 1)) usleep(it.hold_us / 2);   // outer region alone again
        g_or.region_open[it.region] = 0;
        vrt_event("region_close %u", slot);
        unlock();
      }
    });
  }
  for (int t = 0; t < nret; ++t) spawn(ret_threads, [&, t] { run_retirer(gc, rplans[t]); });
  for (auto& t : ret_threads) t.join();
  if (stop_delay_us) usleep(stop_delay_us);
  do_stop(gc);
  for (auto& t : reg_threads) t.join();
  for (auto& t : closers) t.join();
  final_checks();
  vrt_event("stats steps %lu switches %lu races %lu", vrt_steps(), vrt_switches(), vrt_races());
  vrt_end();
  vrt_dump(stdout);
  accs.clear();
  gcp.reset();   // destructor: stop() again (no-op)
}

int main(int argc, char** argv) {
  std::string mode = argc > 1 ? argv[1] : "tl";
  uint64_t seed0 = argc > 2 ? strtoull(argv[2], 0, 10) : 1;
  int nruns = argc > 3 ? atoi(argv[3]) : 1;
  if (mode != "tl" && mode != "acc" && mode != "big" && mode != "fix-open-stop" && mode != "rr-tl" && mode != "rr-acc" && mode != "wrap" && mode != "life") return 2;
  for (int i = 0; i < nruns; ++i) run_case(seed0 + i, mode);
  return 0;
}
