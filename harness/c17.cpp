// E-CONC / E-SEQ harness for C17 (page allocators / object pool) — real code + property ORACLE.
// usage: c17 <mode> <seed0> <nruns>
//   mode cached | heap | counting | batch | batchheap : CachedPageAllocator (alone / inside PageHeap /
//        under CountingPageAllocator / under BatchPageAllocator / Batch over PageHeap) over a RECORDING
//        upstream allocator; sequential prefix (cache exactly empty / exactly full / random), then 2-4
//        threads x 2-5 allocate / deallocate calls (batched and single, num below / equal / above the
//        cache capacity), quiescent checks, optional final drain, destructor(s)
//   mode fullrace : cached / heap / counting with the cache EXACTLY FULL and every thread holding pages: the
//        threads deallocate (batches) concurrently into the full cache -> concurrent compensating evictions
//   mode strict | auto : ObjectPool in strict mode (blocking pop) / auto-create mode (creator, recycler,
//        overflow destruction), capacity 1-4
//   mode seq : one thread, long random history over a random configuration of the above (also built
//        WITHOUT VRT under ASan+UBSan: -DC17_NOVRT, events only)
// Output per run:  RUN <seed> mode=<m> cap=<c> batch=<b> count=<off|pre|post> pool=<cap> threads=<n> base=<round>
//                  (base != 0: the queue was preset to the start of that round, just below the 16-bit version wrap)
//                  <trace lines> END
// Trace = every atomic operation on the queue's ticket counters (`pushi`, `popi`) and slot futex words
// (`slot+off`), every fence, and harness events:
//   ev call alloc n | ev ret alloc p…      ev call dealloc p… | ev ret dealloc
//   ev up_alloc p | ev up_free p           (recording upstream / pool creator / object destructor)
//   ev call dtor|bdtor t… | ev ret dtor|bdtor      ev cached n | ev count n | ev hits s n
//   ev inject o | ev call pop|trypop | ev ret pop|trypop o|null | ev call push o | ev recycle o | ev ret push
// replayed in lock-step by lean/Drivers/C17.lean.  Oracle verdicts are `ev ORACLE <kind> …` lines.
#ifndef C17_NOVRT
#include "../vrt/vrt.h"
#define L2TAG ""
#else
#define L2TAG " L2=1"
#include <cstdarg>
#include <cstdint>
#include <cstdio>
#include <string>
static std::string g_trace;
extern "C" {
static void vrt_name(const void*, size_t, const char*) {}
static void vrt_unname_all() {}
static void vrt_payload(const void*, size_t, const char*) {}
static void vrt_event(const char* fmt, ...) {
  char buf[400];
  va_list ap;
  va_start(ap, fmt);
  vsnprintf(buf, sizeof buf, fmt, ap);
  va_end(ap);
  g_trace += "0 ev ";
  g_trace += buf;
  g_trace += "\n";
}
static void vrt_begin(uint64_t) { g_trace.clear(); }
static void vrt_end() {}
static int vrt_tid() { return 0; }
static void vrt_dump(FILE* out) {
  fputs(g_trace.c_str(), out);
  fputs("END\n", out);
  fflush(out);
}
static uint64_t vrt_steps() { return 0; }
static uint64_t vrt_switches() { return 0; }
}
#endif

#include <babylon/concurrent/object_pool.h>
#include <babylon/reusable/page_allocator.h>

#include <sched.h>

#include <algorithm>
#include <atomic>
#include <cstdio>
#include <cstdlib>
#include <cstring>
#include <map>
#include <memory>
#include <set>
#include <string>
#include <thread>
#include <vector>

using namespace babylon;

struct Rng {
  uint64_t s;
  explicit Rng(uint64_t x) : s(x * 0x9E3779B97F4A7C15ull + 1) {}
  uint64_t next() {
    s ^= s << 13;
    s ^= s >> 7;
    s ^= s << 17;
    return s * 0x2545F4914F6CDD1Dull;
  }
  uint64_t below(uint64_t n) { return n ? (next() >> 11) % n : 0; }
  bool coin(int pct = 50) { return (int)below(100) < pct; }
};

static std::string ids_str(const std::vector<int>& v) {
  std::string s;
  for (int x : v) s += " " + std::to_string(x);
  return s;
}

// ------------------------------------------------------------------------------------------------
// recording upstream + ownership map (the property's oracle lives here)
constexpr size_t PAGE = 64;
enum Where { UPSTREAM = 0, INSIDE = 1, CALLER = 2 };
struct Ledger {
  std::map<void*, int> id_of;      // live pages (obtained, not yet returned upstream)
  std::map<int, Where> where;      // every id ever issued
  std::map<int, int> holder;       // id -> thread while CALLER
  int next_id = 0;
  long obtained = 0, returned = 0;
  long callers() const {
    long n = 0;
    for (auto& kv : where) n += kv.second == CALLER;
    return n;
  }
  long inside() const {
    long n = 0;
    for (auto& kv : where) n += kv.second == INSIDE;
    return n;
  }
};
static Ledger* L = nullptr;

struct Recorder : public PageAllocator {
  size_t page_size() const noexcept override { return PAGE; }
  using PageAllocator::allocate;
  using PageAllocator::deallocate;
  void allocate(void** pages, size_t num) noexcept override {
    for (size_t i = 0; i < num; ++i) {
      sched_yield();   // scheduling point inside the (reverse) callback
      void* p = ::operator new(PAGE);
      int id = ++L->next_id;
      L->id_of[p] = id;
      L->where[id] = INSIDE;
      ++L->obtained;
      memset(p, 0, PAGE);
      *(int*)p = -id;   // stamp: not owned by a caller
      pages[i] = p;
      vrt_event("up_alloc %d", id);
    }
  }
  void deallocate(void** pages, size_t num) noexcept override {
    for (size_t i = 0; i < num; ++i) {
      sched_yield();
      void* p = pages[i];
      auto it = L->id_of.find(p);
      if (it == L->id_of.end()) {
        vrt_event("ORACLE unknown-or-double-free page returned upstream");
        vrt_event("up_free 0");
        continue;
      }
      int id = it->second;
      if (L->where[id] == CALLER) vrt_event("ORACLE page %d returned upstream while held by caller t%d", id, L->holder[id]);
      if (*(int*)p != -id) vrt_event("ORACLE page %d returned upstream with a caller's stamp %d", id, *(int*)p);
      L->where[id] = UPSTREAM;
      L->id_of.erase(it);
      ++L->returned;
      vrt_event("up_free %d", id);
      ::operator delete(p);
    }
  }
};

// caller side bookkeeping: a page handed out must be INSIDE (not with a caller, not returned upstream)
static int take_page(void* p, int me) {
  auto it = L->id_of.find(p);
  if (it == L->id_of.end()) {
    vrt_event("ORACLE allocate returned a page that is not live (never obtained or already returned upstream)");
    return 0;
  }
  int id = it->second;
  if (L->where[id] == CALLER) vrt_event("ORACLE dup page %d handed to t%d while held by t%d", id, me, L->holder[id]);
  if (*(int*)p != -id) vrt_event("ORACLE page %d handed out carrying stamp %d", id, *(int*)p);
  L->where[id] = CALLER;
  L->holder[id] = me;
  *(int*)p = id;   // caller's stamp
  return id;
}
static void give_page(void* p, int id) {
  if (*(int*)p != id) vrt_event("ORACLE page %d was overwritten while held (stamp %d)", id, *(int*)p);
  *(int*)p = -id;
  L->where[id] = INSIDE;
}

struct Held {
  void* p;
  int id;
};

// Start a run just below the wrap of the 16-bit slot version: put the (empty) queue at the start of round
// `round` — both ticket counters at round * capacity, every slot word at the push version of that round.
// Done before the controlled section; the model starts from State.initAt c round (header `base=`).
template <typename Q>
static void preset_round(Q& fq, size_t round) {
  if (round == 0) return;
  size_t cap = fq.capacity();
  fq._next_push_index.store(round * cap, std::memory_order_relaxed);
  fq._next_pop_index.store(round * cap, std::memory_order_relaxed);
  for (size_t k = 0; k < cap; ++k) fq._slots.futex(k)._futex.value().store((uint16_t)(round << 1), std::memory_order_relaxed);
}
static size_t pick_round(uint64_t seed, int pct) {
  Rng r(seed ^ 0x5eedba5eull);
  if ((int)r.below(100) >= pct) return 0;
  const size_t rounds[] = {32766, 32767, 65534, 65535, 32767, 65535};
  return rounds[r.below(6)];
}

struct PageRig {
  Recorder rec;
  std::unique_ptr<CachedPageAllocator> cached;
  std::unique_ptr<PageHeap> heap;
  std::unique_ptr<CountingPageAllocator> counting;
  std::unique_ptr<BatchPageAllocator> batch;
  PageAllocator* top = nullptr;
  CachedPageAllocator* q = nullptr;   // the cached allocator whose queue is observed
  size_t cap = 0, batchn = 0;
  const char* count = "off";
  std::map<const void*, int> slot_tid;   // BatchPageAllocator thread slot -> harness thread

  void build(const std::string& mode, size_t want_cap, size_t want_batch) {
    if (mode == "heap" || mode == "batchheap") {
      heap.reset(new PageHeap);
      heap->_cached_allocator.set_upstream(rec);
      heap->set_free_page_capacity(want_cap);
      q = &heap->_cached_allocator;
      top = heap.get();
      count = "post";
    } else {
      cached.reset(new CachedPageAllocator);
      cached->set_upstream(rec);
      cached->set_free_page_capacity(want_cap);
      q = cached.get();
      top = cached.get();
      if (mode == "counting") {
        counting.reset(new CountingPageAllocator);
        counting->set_upstream(*cached);
        top = counting.get();
        count = "pre";
      }
    }
    if (mode == "batch" || mode == "batchheap") {
      batch.reset(new BatchPageAllocator);
      batch->set_upstream(*top);
      batch->set_batch_size(want_batch);
      batchn = want_batch;
      top = batch.get();
    }
    cap = q->free_page_capacity();
    auto& fq = q->_free_pages;
    using Slot = std::remove_reference<decltype(fq)>::type::Slot;
    vrt_name(&fq._next_push_index, sizeof(fq._next_push_index), "pushi");
    vrt_name(&fq._next_pop_index, sizeof(fq._next_pop_index), "popi");
    vrt_name(fq._slots._slots, cap * sizeof(Slot), "slot");
    for (size_t k = 0; k < cap; ++k) vrt_payload(&fq._slots._slots[k].value, sizeof(void*), "slotval");
  }

  void do_alloc(int me, size_t n, std::vector<Held>& mine) {
    std::vector<void*> pages(n + 1, nullptr);
    vrt_event("call alloc %zu", n);
    if (n == 1 && (L->next_id & 1)) pages[0] = top->allocate(); else top->allocate(pages.data(), n);
    std::vector<int> ids;
    for (size_t i = 0; i < n; ++i) {
      int id = take_page(pages[i], me);
      ids.push_back(id);
      mine.push_back({pages[i], id});
    }
    vrt_event("ret alloc%s", ids_str(ids).c_str());
  }
  void do_dealloc(int, std::vector<Held>& mine, std::vector<size_t> idx) {
    std::vector<void*> pages;
    std::vector<int> ids;
    std::sort(idx.rbegin(), idx.rend());
    for (size_t k : idx) {
      pages.push_back(mine[k].p);
      ids.push_back(mine[k].id);
      give_page(mine[k].p, mine[k].id);
      mine.erase(mine.begin() + (long)k);
    }
    vrt_event("call dealloc%s", ids_str(ids).c_str());
    if (pages.size() == 1 && (ids[0] & 1)) top->deallocate(pages[0]); else top->deallocate(pages.data(), pages.size());
    vrt_event("ret dealloc");
  }
  void note_thread_slot(int me) {
    if (batch) slot_tid[&batch->_cache.local()] = me;
  }
  long buffered() {
    long n = 0;
    if (batch)
      batch->_cache.for_each([&](BatchPageAllocator::Slot* it, BatchPageAllocator::Slot* end) {
        for (; it != end; ++it)
          if (it->next_page < it->buffer.end()) n += it->buffer.end() - it->next_page;
      });
    return n;
  }
  // quiescent point: conservation, cache content, counters
  void quiescent(long callers_expected) {
    long cachedn = (long)q->free_page_num();
    vrt_event("cached %ld", cachedn);
    long buf = buffered();
    if (L->obtained - L->returned != L->callers() + cachedn + buf)
      vrt_event("ORACLE conservation: obtained %ld - returned %ld != callers %ld + cached %ld + buffered %ld", L->obtained,
                L->returned, L->callers(), cachedn, buf);
    if (L->callers() != callers_expected) vrt_event("ORACLE harness bookkeeping: callers %ld vs %ld", L->callers(), callers_expected);
    // direct look at the queue: every cached pointer is a live page that no caller holds, no duplicates
    auto& fq = q->_free_pages;
    size_t pop = fq._next_pop_index.load(std::memory_order_relaxed), push = fq._next_push_index.load(std::memory_order_relaxed);
    std::set<int> seen;
    for (size_t i = pop; i < push; ++i) {
      void* p = fq._slots._slots[i & fq._slot_mask].value;
      auto it = L->id_of.find(p);
      if (it == L->id_of.end()) vrt_event("ORACLE cache holds a page that was returned upstream");
      else if (L->where[it->second] != INSIDE) vrt_event("ORACLE page %d is cached and held by caller t%d", it->second, L->holder[it->second]);
      else if (!seen.insert(it->second).second) vrt_event("ORACLE page %d is cached twice", it->second);
    }
    if (counting) {
      long c = (long)counting->allocated_page_num();
      vrt_event("count %ld", c);
      if (c != L->callers() + buf) vrt_event("ORACLE counting: allocated_page_num %ld != callers %ld + buffered %ld", c, L->callers(), buf);
    }
    if (heap) {
      long c = (long)heap->allocate_page_num();
      vrt_event("count %ld", c);
      if (c != L->callers() + buf) vrt_event("ORACLE counting: allocate_page_num %ld != callers %ld + buffered %ld", c, L->callers(), buf);
    }
    auto h = q->cache_hit_summary();
    vrt_event("hits %ld %zu", (long)h.sum, h.num);
  }
  void destroy_all() {
    if (batch) {
      std::vector<int> order;
      batch->_cache.for_each([&](BatchPageAllocator::Slot* it, BatchPageAllocator::Slot* end) {
        for (; it != end; ++it)
          if (it->next_page < it->buffer.end()) order.push_back(slot_tid.count(it) ? slot_tid[it] : 99);
      });
      vrt_event("call bdtor%s", ids_str(order).c_str());
      batch.reset();
      vrt_event("ret bdtor");
      if (buffered() != 0) vrt_event("ORACLE batch destructor left pages in thread buffers");
      if (L->obtained - L->returned != L->callers() + (long)q->free_page_num())
        vrt_event("ORACLE batch destructor: obtained %ld - returned %ld != callers %ld + cached %zu", L->obtained, L->returned,
                  L->callers(), q->free_page_num());
    }
    counting.reset();
    vrt_event("call dtor");
    cached.reset();
    heap.reset();
    vrt_event("ret dtor");
    if (L->inside() != 0 || L->obtained - L->returned != L->callers())
      vrt_event("ORACLE destructor did not return the cache upstream: obtained %ld returned %ld callers %ld still-inside %ld", L->obtained,
                L->returned, L->callers(), L->inside());
  }
};

static void page_program(PageRig& rig, Rng& r, int me, int nops, std::vector<Held>& mine, int dealloc_pct = 45) {
  for (int i = 0; i < nops; ++i) {
    bool dealloc = !mine.empty() && (r.coin(dealloc_pct) || (dealloc_pct > 45 && i == 0));
    if (dealloc) {
      size_t k = 1 + r.below(std::min<size_t>(mine.size(), 6));
      std::vector<size_t> idx;
      std::set<size_t> pick;
      while (pick.size() < k) pick.insert(r.below(mine.size()));
      idx.assign(pick.begin(), pick.end());
      rig.do_dealloc(me, mine, idx);
    } else {
      size_t n;
      switch (r.below(5)) {
        case 0: n = 1; break;
        case 1: n = rig.cap; break;
        case 2: n = rig.cap + 1 + r.below(2); break;
        default: n = 1 + r.below(6); break;
      }
      if (n > 6) n = 6 + r.below(3);
      rig.do_alloc(me, n, mine);
    }
  }
}

static void run_pages(uint64_t seed, std::string mode, bool seq) {
  Ledger ledger;
  L = &ledger;
  Rng rng(seed);
  std::string m = mode;
  bool fullrace = mode == "fullrace";   // cache exactly full, every thread starts holding pages and deallocates first
  if (fullrace) {
    const char* ms[] = {"cached", "cached", "heap", "counting"};
    m = ms[rng.below(4)];
  }
  if (seq) {
    const char* ms[] = {"cached", "heap", "counting", "batch", "batchheap"};
    m = ms[rng.below(5)];
  }
  size_t want_cap = fullrace ? 1 + rng.below(4) : 1 + rng.below(8);
  size_t want_batch = 1 + rng.below(6);
  if (rng.coin(25)) want_batch = want_cap + rng.below(3);
  int nthreads = seq ? 0 : 2 + (int)rng.below(3);
  int nops = 2 + (int)rng.below(4);
  vrt_unname_all();
  PageRig rig;
  rig.build(m, want_cap, want_batch);
  size_t base = pick_round(seed, fullrace ? 60 : 25);
  preset_round(rig.q->_free_pages, base);
  vrt_begin(seed);
  printf("RUN %lu mode=%s cap=%zu batch=%zu count=%s pool=0 threads=%d base=%zu%s\n", (unsigned long)seed, m.c_str(), rig.cap, rig.batchn,
         rig.count, nthreads + 1, base, L2TAG);
  std::vector<std::vector<Held>> held((size_t)nthreads + 1);
  if (fullrace) {
    // obtain cap + k pages, give cap of them back (cache exactly full), hand the other k to the threads
    size_t k = (size_t)nthreads * (1 + rng.below(4));
    size_t total = rig.cap + k, done = 0;
    while (done < total) {
      size_t n = 1 + rng.below(std::min<size_t>(total - done, 6));
      rig.do_alloc(0, n, held[0]);
      done += n;
    }
    size_t back = rig.cap;
    while (back > 0) {
      size_t n = 1 + rng.below(std::min<size_t>(back, 6));
      std::vector<size_t> idx;
      for (size_t i = 0; i < n; ++i) idx.push_back(held[0].size() - 1 - i);
      rig.do_dealloc(0, held[0], idx);
      back -= n;
    }
    for (size_t i = 0; !held[0].empty(); ++i) {
      held[1 + i % (size_t)nthreads].push_back(held[0].back());
      L->holder[held[0].back().id] = 1 + (int)(i % (size_t)nthreads);
      held[0].pop_back();
    }
  } else
  // sequential prefix: leave the cache exactly empty, exactly full, or anywhere
  {
    int style = (int)rng.below(4);
    size_t fill = style == 0 ? 0 : style == 1 ? rig.cap : rng.below(rig.cap + 2);
    if (fill > 0) {
      size_t done = 0;
      while (done < fill) {
        size_t n = 1 + rng.below(std::min<size_t>(fill - done, 6));
        rig.do_alloc(0, n, held[0]);
        done += n;
      }
      while (!held[0].empty()) {
        size_t k = 1 + rng.below(std::min<size_t>(held[0].size(), 6));
        std::vector<size_t> idx;
        for (size_t i = 0; i < k; ++i) idx.push_back(i);
        rig.do_dealloc(0, held[0], idx);
      }
    }
    if (rng.coin(30)) rig.do_alloc(0, 1 + rng.below(3), held[0]);
  }
  if (seq) {
    Rng r(rng.next());
    page_program(rig, r, 0, 8 + (int)rng.below(24), held[0]);
  } else {
    // all threads (and main) take their babylon ThreadId / BatchPageAllocator slot while everybody is
    // alive, so the ids are distinct: "threadBuffer tid" of the model is keyed by the harness thread
    rig.note_thread_slot(0);
    std::atomic<int> ready {0};
    std::vector<std::thread> ts;
    for (int t = 1; t <= nthreads; ++t) {
      uint64_t tseed = rng.next();
      ts.emplace_back([&, t, tseed] {
        rig.note_thread_slot(vrt_tid());
        ready.fetch_add(1);
        while (ready.load() < nthreads) sched_yield();
        Rng r(tseed);
        page_program(rig, r, vrt_tid(), nops, held[(size_t)t], fullrace ? 70 : 45);
      });
    }
    for (auto& t : ts) t.join();
  }
  rig.note_thread_slot(0);
  long callers = 0;
  for (auto& h : held) callers += (long)h.size();
  rig.quiescent(callers);
  // final phase: hand some / all pages back from the main thread, then destroy
  int drain = (int)rng.below(3);   // 0 nothing, 1 some, 2 all
  std::vector<Held> all;
  for (auto& h : held) {
    all.insert(all.end(), h.begin(), h.end());
    h.clear();
  }
  if (drain) {
    size_t target = drain == 2 ? 0 : all.size() / 2;
    while (all.size() > target) {
      size_t k = 1 + rng.below(std::min<size_t>(all.size() - target, 6));
      std::vector<size_t> idx;
      for (size_t i = 0; i < k; ++i) idx.push_back(all.size() - 1 - i);
      rig.do_dealloc(0, all, idx);
    }
    rig.quiescent((long)all.size());
  }
  rig.destroy_all();
  vrt_event("stats steps %lu switches %lu", (unsigned long)vrt_steps(), (unsigned long)vrt_switches());
  vrt_end();
  vrt_dump(stdout);
  for (auto& h : all) ::operator delete(h.p);
  L = nullptr;
}

// ------------------------------------------------------------------------------------------------
// object pool
struct PoolLedger {
  int next_id = 0;
  std::map<int, int> state;       // 0 destroyed, 1 alive in pool / in flight, 2 held by a caller
  std::map<int, int> recycled, pushed;
  long created = 0, destroyed = 0, injected = 0;
  long outstanding() const {
    long n = 0;
    for (auto& kv : state) n += kv.second == 2;
    return n;
  }
};
static PoolLedger* P = nullptr;
struct Obj {
  int id;
  explicit Obj(int i) : id(i) {}
  ~Obj() {
    if (P == nullptr) return;
    if (P->state[id] == 0) vrt_event("ORACLE object %d destroyed twice", id);
    if (P->state[id] == 2) vrt_event("ORACLE object %d destroyed while held by a caller", id);
    P->state[id] = 0;
    ++P->destroyed;
    vrt_event("up_free %d", id);
  }
};
using Pool = ObjectPool<Obj>;
using Handle = std::unique_ptr<Obj, Pool::Deleter>;

struct PoolRig {
  std::unique_ptr<Pool> pool;
  bool strict = true;
  size_t capacity = 0, qcap = 0;
  void build(bool is_strict, size_t cap) {
    strict = is_strict;
    capacity = cap;
    pool.reset(new Pool);
    pool->reserve_and_clear(cap);
    if (!strict)
      pool->set_creator([] {
        sched_yield();
        int id = ++P->next_id;
        P->state[id] = 1;
        ++P->created;
        vrt_event("up_alloc %d", id);
        return std::unique_ptr<Obj>(new Obj(id));
      });
    pool->set_recycler([](Obj& o) {
      sched_yield();
      ++P->recycled[o.id];
      vrt_event("recycle %d", o.id);
    });
    auto& fq = pool->_free_objects;
    using Slot = std::remove_reference<decltype(fq)>::type::Slot;
    qcap = fq.capacity();
    vrt_name(&fq._next_push_index, sizeof(fq._next_push_index), "pushi");
    vrt_name(&fq._next_pop_index, sizeof(fq._next_pop_index), "popi");
    vrt_name(fq._slots._slots, qcap * sizeof(Slot), "slot");
    for (size_t k = 0; k < qcap; ++k) vrt_payload(&fq._slots._slots[k].value, sizeof(void*), "slotval");
  }
  void got(Handle& h, int me, const char* what, std::vector<std::unique_ptr<Handle>>& mine) {
    if (!h) {
      vrt_event("ret %s null", what);
      return;
    }
    int id = h->id;
    if (P->state[id] == 0) vrt_event("ORACLE %s returned destroyed object %d", what, id);
    if (P->state[id] == 2) vrt_event("ORACLE %s handed object %d to t%d while another caller holds it", what, id, me);
    P->state[id] = 2;
    if (strict && P->outstanding() > P->injected) vrt_event("ORACLE strict pool has %ld objects outstanding, %ld injected", P->outstanding(), P->injected);
    vrt_event("ret %s %d", what, id);
    mine.push_back(std::unique_ptr<Handle>(new Handle(std::move(h))));
  }
  void do_pop(int me, std::vector<std::unique_ptr<Handle>>& mine) {
    vrt_event("call pop");
    Handle h = pool->pop();
    got(h, me, "pop", mine);
  }
  void do_trypop(int me, std::vector<std::unique_ptr<Handle>>& mine) {
    vrt_event("call trypop");
    Handle h = pool->try_pop();
    got(h, me, "trypop", mine);
  }
  void do_push(int, std::vector<std::unique_ptr<Handle>>& mine, size_t k, bool explicit_push) {
    std::unique_ptr<Handle> hp = std::move(mine[k]);
    mine.erase(mine.begin() + (long)k);
    Handle& h = *hp;
    int id = h->id;
    P->state[id] = 1;
    ++P->pushed[id];
    vrt_event("call push %d", id);
    if (explicit_push) pool->push(std::move(h)); else h.reset();
    vrt_event("ret push");
  }
  void inject() {
    int id = ++P->next_id;
    P->state[id] = 1;
    ++P->created;
    ++P->injected;
    ++P->pushed[id];
    vrt_event("inject %d", id);
    vrt_event("call push %d", id);
    pool->push(std::unique_ptr<Obj>(new Obj(id)));
    vrt_event("ret push");
  }
  void quiescent() {
    long freen = (long)pool->free_object_number();
    vrt_event("cached %ld", freen);
    if (P->created - P->destroyed != P->outstanding() + freen)
      vrt_event("ORACLE pool conservation: created %ld - destroyed %ld != outstanding %ld + free %ld", P->created, P->destroyed,
                P->outstanding(), freen);
    for (auto& kv : P->pushed)
      if (P->recycled[kv.first] != kv.second) vrt_event("ORACLE object %d pushed %d times but recycled %d times", kv.first, kv.second, P->recycled[kv.first]);
    for (auto& kv : P->recycled)
      if (P->pushed[kv.first] != kv.second) vrt_event("ORACLE object %d recycled %d times but pushed %d times", kv.first, kv.second, P->pushed[kv.first]);
    if (!strict && freen > (long)(2 * capacity > qcap ? 2 * capacity : qcap)) vrt_event("ORACLE auto pool caches %ld objects, queue capacity %zu", freen, qcap);
  }
};

static void pool_program(PoolRig& rig, Rng& r, int me, int nops, std::vector<std::unique_ptr<Handle>>& mine) {
  for (int i = 0; i < nops; ++i) {
    int c = (int)r.below(100);
    if (rig.strict) {
      if (mine.empty()) {
        if (c < 70) rig.do_pop(me, mine); else rig.do_trypop(me, mine);
      } else {
        if (c < 25) rig.do_trypop(me, mine); else rig.do_push(me, mine, r.below(mine.size()), r.coin(30));
      }
    } else {
      if (mine.empty() || (c < 45 && mine.size() < 4)) {
        if (c % 3 == 0) rig.do_trypop(me, mine); else rig.do_pop(me, mine);
      } else {
        rig.do_push(me, mine, r.below(mine.size()), r.coin(30));
      }
    }
  }
  // strict mode: never exit holding objects other threads may be blocked on
  if (rig.strict)
    while (!mine.empty()) rig.do_push(me, mine, mine.size() - 1, false);
}

static void run_pool(uint64_t seed, bool strict, bool seq) {
  PoolLedger ledger;
  P = &ledger;
  Rng rng(seed);
  if (seq) strict = rng.coin();
  size_t cap = 1 + rng.below(4);
  int nthreads = seq ? 0 : 2 + (int)rng.below(3);
  int nops = 2 + (int)rng.below(5);
  vrt_unname_all();
  PoolRig rig;
  rig.build(strict, cap);
  size_t base = pick_round(seed, 25);
  preset_round(rig.pool->_free_objects, base);
  vrt_begin(seed);
  printf("RUN %lu mode=%s cap=%zu batch=0 count=off pool=%zu threads=%d base=%zu%s\n", (unsigned long)seed, strict ? "strict" : "auto", rig.qcap, cap,
         nthreads + 1, base, L2TAG);
  std::vector<std::vector<std::unique_ptr<Handle>>> held((size_t)nthreads + 1);
  if (strict) {
    size_t inj = 1 + rng.below(cap);
    for (size_t i = 0; i < inj; ++i) rig.inject();
  } else {
    // start exactly empty, exactly at capacity, or anywhere: pop k objects, then give them back
    int style = (int)rng.below(3);
    size_t k = style == 0 ? 0 : style == 1 ? cap : rng.below(cap + 2);
    for (size_t i = 0; i < k; ++i) rig.do_pop(0, held[0]);
    while (!held[0].empty()) rig.do_push(0, held[0], held[0].size() - 1, false);
  }
  if (seq) {
    Rng r(rng.next());
    pool_program(rig, r, 0, 8 + (int)rng.below(24), held[0]);
  } else {
    std::vector<std::thread> ts;
    for (int t = 1; t <= nthreads; ++t) {
      uint64_t tseed = rng.next();
      ts.emplace_back([&, t, tseed] {
        Rng r(tseed);
        pool_program(rig, r, vrt_tid(), nops, held[(size_t)t]);
      });
    }
    for (auto& t : ts) t.join();
  }
  rig.quiescent();
  // give everything back from the main thread, check again, destroy the pool
  for (auto& h : held)
    while (!h.empty()) rig.do_push(0, h, h.size() - 1, rng.coin(30));
  rig.quiescent();
  vrt_event("call pooldtor");
  rig.pool.reset();
  vrt_event("ret pooldtor");
  if (P->created != P->destroyed) vrt_event("ORACLE leak: %ld objects created, %ld destroyed after the pool is gone", P->created, P->destroyed);
  vrt_event("stats steps %lu switches %lu", (unsigned long)vrt_steps(), (unsigned long)vrt_switches());
  vrt_end();
  vrt_dump(stdout);
  P = nullptr;
}

// ------------------------------------------------------------------------------------------------
// fixed cases outside the token model (no lock-step replay; a crash / sanitizer abort is the verdict)
// handles: a pooled handle (unique_ptr<T, ObjectPool<T>::Deleter>) is move-assigned, swapped, erased from a
//          vector: the object of the overwritten handle must go back to its pool, the moved one must arrive
static void run_handles(uint64_t seed) {
  PoolLedger ledger;
  P = &ledger;
  printf("RUN %lu mode=handles cap=0 batch=0 count=off pool=4 threads=1\n", (unsigned long)seed);
  fflush(stdout);
  {
    Pool pool;
    pool.reserve_and_clear(4);
    pool.set_creator([] {
      int id = ++P->next_id;
      P->state[id] = 1;
      ++P->created;
      return std::unique_ptr<Obj>(new Obj(id));
    });
    Handle a = pool.pop();
    Handle b = pool.pop();
    int ida = a->id, idb = b->id;
    a = std::move(b);   // Deleter::operator=(Deleter&&)
    if (!a || a->id != idb) printf("0 ev ORACLE handle move-assign: target does not hold the moved object\n");
    if (b) printf("0 ev ORACLE handle move-assign: source still holds an object\n");
    if (pool.free_object_number() != 1) printf("0 ev ORACLE handle move-assign: overwritten object %d not returned to the pool (free=%zu)\n", ida, pool.free_object_number());
    std::vector<Handle> v;
    for (int i = 0; i < 3; ++i) v.push_back(pool.pop());
    v.erase(v.begin());   // move-assigns the tail down
    if (v.size() != 2 || !v[0] || !v[1]) printf("0 ev ORACLE handle vector erase lost a handle\n");
    if (pool.free_object_number() != 1) printf("0 ev ORACLE handle vector erase: free=%zu, expected 1\n", pool.free_object_number());
    v.clear();
    a.reset();
    if (pool.free_object_number() != 4) printf("0 ev ORACLE handles: %zu objects back in the pool, expected 4\n", pool.free_object_number());
  }
  if (P->created != P->destroyed) printf("0 ev ORACLE handles leak: created %ld destroyed %ld\n", P->created, P->destroyed);
  printf("END\n");
  fflush(stdout);
  P = nullptr;
}

// batchdefault: BatchPageAllocator used with its default batch size (set_batch_size never called)
static void run_batchdefault(uint64_t seed) {
  Ledger ledger;
  L = &ledger;
  printf("RUN %lu mode=batchdefault cap=0 batch=16 count=off pool=0 threads=1\n", (unsigned long)seed);
  fflush(stdout);
  {
    Recorder rec;
    BatchPageAllocator b;
    b.set_upstream(rec);
    std::vector<void*> pages;
    for (int i = 0; i < 20; ++i) pages.push_back(b.allocate());
    std::set<void*> distinct(pages.begin(), pages.end());
    if (distinct.size() != pages.size()) printf("0 ev ORACLE default batch allocator handed out a page twice\n");
    for (void* p : pages) b.deallocate(p);
  }
  if (ledger.obtained != ledger.returned) printf("0 ev ORACLE default batch allocator: obtained %ld returned %ld after destruction\n", ledger.obtained, ledger.returned);
  printf("END\n");
  fflush(stdout);
  L = nullptr;
}

int main(int argc, char** argv) {
  std::string mode = argc > 1 ? argv[1] : "cached";
  uint64_t seed0 = argc > 2 ? strtoull(argv[2], 0, 10) : 1;
  int nruns = argc > 3 ? atoi(argv[3]) : 1;
  for (int i = 0; i < nruns; ++i) {
    uint64_t seed = seed0 + (uint64_t)i;
    if (mode == "strict") run_pool(seed, true, false);
    else if (mode == "auto") run_pool(seed, false, false);
    else if (mode == "handles") run_handles(seed);
    else if (mode == "batchdefault") run_batchdefault(seed);
    else if (mode == "seq") {
      if (seed % 3 == 0) run_pool(seed, true, true); else run_pages(seed, "", true);
    } else if (mode == "cached" || mode == "heap" || mode == "counting" || mode == "batch" || mode == "batchheap" || mode == "fullrace") run_pages(seed, mode, false);
    else return 2;
  }
  return 0;
}
