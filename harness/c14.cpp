// E-CONC harness for C14 (IdAllocator / DepositBox / ThreadId) under VRT.
// usage: c14 <mode> <seed0> <nruns>
//   mode alloc32 | alloc16 : random allocate/deallocate programs on 2-4 threads, atomic-level trace
//                            (replayed in lock-step by lean/Drivers/C14.lean) + ownership oracle
//   mode box               : DepositBox emplace / concurrent take / finish / stale-id take, oracle only
//   mode threadid          : ThreadId across real thread birth/death waves, oracle only
// Output per run:  RUN <seed> W=<bits> mode=<mode>\n <trace lines> END
// Oracle verdicts are harness events `ev ORACLE <kind> ...` in the trace.
#include "../vrt/vrt.h"

#include <babylon/concurrent/deposit_box.h>
#include <babylon/concurrent/id_allocator.h>

#include <cstdio>
#include <cstdlib>
#include <cstring>
#include <set>
#include <string>
#include <thread>
#include <vector>

using namespace babylon;

struct Rng {
  uint64_t s;
  explicit Rng(uint64_t x) : s(x * 0x9E3779B97F4A7C15ull + 1) {}
  uint64_t next() {
    s ^= s << 13;
    s ^= s >> 7;
    s ^= s << 17;
    return s * 0x2545F4914F6CDD1Dull;
  }
  uint64_t below(uint64_t n) { return (next() >> 11) % n; }
};

template <typename T>
void run_alloc(uint64_t seed, const char* mode) {
  constexpr int W = sizeof(T) * 8;
  IdAllocator<T> alloc;
  alloc._free_next_value.ensure(127);
  vrt_unname_all();
  vrt_name(&alloc._free_head, sizeof(alloc._free_head), "head");
  vrt_name(&alloc._next_value, sizeof(alloc._next_value), "nv");
  vrt_name(&alloc._free_next_value.ensure(0), 128 * sizeof(T), "next");
  Rng rng(seed);
  int nthreads = 2 + (int)rng.below(3);
  int nops = 2 + (int)rng.below(7);
  // a sequential prefix so the free list is non-trivial when the threads start
  int prefix_alloc = (int)rng.below(5), prefix_free = 0;
  std::vector<int> owner(128, -1);   // oracle: who holds id v (-1 nobody)
  std::vector<std::vector<VersionedValue<T>>> held(nthreads + 1);

  auto do_alloc = [&](int me, std::vector<VersionedValue<T>>& mine) {
    vrt_event("call alloc");
    auto id = alloc.allocate();
    vrt_event("ret alloc %u %u", (unsigned)id.value, (unsigned)id.version);
    if (id.value >= 128) {
      vrt_event("ORACLE out-of-range %u", (unsigned)id.value);
      return;
    }
    if (owner[id.value] != -1) {
      vrt_event("ORACLE dup id %u handed to t%d while held by t%d", (unsigned)id.value, me, owner[id.value]);
    }
    owner[id.value] = me;
    mine.push_back(id);
  };
  auto do_free = [&](int, std::vector<VersionedValue<T>>& mine, size_t k) {
    auto id = mine[k];
    mine.erase(mine.begin() + k);
    owner[id.value] = -1;
    vrt_event("call dealloc %u", (unsigned)id.value);
    alloc.deallocate(id);
    vrt_event("ret dealloc");
  };

  vrt_begin(seed);
  printf("RUN %lu W=%d mode=%s threads=%d\n", (unsigned long)seed, W, mode, nthreads);
  for (int i = 0; i < prefix_alloc; ++i) do_alloc(0, held[0]);
  prefix_free = held[0].empty() ? 0 : (int)rng.below(held[0].size() + 1);
  for (int i = 0; i < prefix_free; ++i) do_free(0, held[0], rng.below(held[0].size()));
  std::vector<std::thread> ts;
  for (int t = 1; t <= nthreads; ++t) {
    uint64_t tseed = rng.next();
    ts.emplace_back([&, t, tseed] {
      Rng r(tseed);
      auto& mine = held[t];
      for (int i = 0; i < nops; ++i) {
        if (!mine.empty() && r.below(100) < 45) {
          do_free(vrt_tid(), mine, r.below(mine.size()));
        } else {
          do_alloc(vrt_tid(), mine);
        }
      }
    });
  }
  for (auto& t : ts) t.join();
  // quiescent checks: for_each reports exactly the live ids; an allocation with freed ids available
  // and nobody else running reuses one
  std::set<unsigned> live, reported;
  for (int v = 0; v < 128; ++v)
    if (owner[v] != -1) live.insert(v);
  vrt_event("call foreach");
  alloc.for_each([&](T b, T e) {
    for (unsigned v = b; v < e; ++v)
      if (!reported.insert(v).second) vrt_event("ORACLE for_each reports %u twice", v);
  });
  {
    std::string ids;
    for (unsigned v : reported) ids += " " + std::to_string(v);
    vrt_event("ret foreach%s", ids.c_str());
  }
  if (reported != live) vrt_event("ORACLE for_each reports %zu ids, %zu are live", reported.size(), live.size());
  vrt_event("call end");
  unsigned minted = alloc.end();
  vrt_event("ret end %u", minted);
  if (live.size() < minted) {
    vrt_event("call alloc");
    auto id = alloc.allocate();
    vrt_event("ret alloc %u %u", (unsigned)id.value, (unsigned)id.version);
    if (id.value >= minted) vrt_event("ORACLE minted new id %u although %zu freed ids exist", (unsigned)id.value, minted - live.size());
    if (id.value < 128 && owner[id.value] != -1) vrt_event("ORACLE dup id %u at quiescence", (unsigned)id.value);
  }
  vrt_event("stats steps %lu switches %lu", vrt_steps(), vrt_switches());
  vrt_end();
  vrt_dump(stdout);
}

// DepositBox: several threads race to take the same id; losers must fail; after finish and re-emplace
// (slot reuse) the stale id must never match
void run_box(uint64_t seed) {
  auto& box = DepositBox<std::string>::instance();
  vrt_unname_all();
  Rng rng(seed);
  int rounds = 1 + (int)rng.below(4);
  int takers = 2 + (int)rng.below(3);
  vrt_begin(seed);
  printf("RUN %lu W=32 mode=box threads=%d\n", (unsigned long)seed, takers);
  std::vector<VersionedValue<uint32_t>> stale;
  for (int r = 0; r < rounds; ++r) {
    char buf[32];
    snprintf(buf, sizeof buf, "item-%lu-%d", (unsigned long)seed, r);
    std::string expect = buf;
    auto id = box.emplace(expect);
    int winners = 0;
    bool finish_early = rng.below(2);
    std::vector<std::thread> ts;
    std::vector<VersionedValue<uint32_t>> stale_now = stale;
    for (int t = 0; t < takers; ++t) {
      ts.emplace_back([&, t] {
        // stale ids from earlier rounds must never match, even when they name the reused slot
        for (auto s : stale_now) {
          if (box.take_released(s) != nullptr) vrt_event("ORACLE stale id %u@%u matched again", s.value, s.version);
        }
        auto* p = box.take_released(id);
        if (p != nullptr) {
          ++winners;
          if (*p != expect) vrt_event("ORACLE taker got wrong item");
          if (finish_early) box.finish_released(id);
        }
      });
    }
    for (auto& t : ts) t.join();
    if (winners != 1) vrt_event("ORACLE %d takers obtained the item of one emplace", winners);
    if (!finish_early) box.finish_released(id);
    stale.push_back(id);
  }
  vrt_event("stats steps %lu switches %lu", vrt_steps(), vrt_switches());
  vrt_end();
  vrt_dump(stdout);
}

// per-thread ids across thread creation and exit
void run_threadid(uint64_t seed) {
  vrt_unname_all();
  Rng rng(seed);
  int waves = 2 + (int)rng.below(3);
  vrt_begin(seed);
  printf("RUN %lu W=16 mode=threadid\n", (unsigned long)seed);
  (void)ThreadId::current_thread_id();
  for (int w = 0; w < waves; ++w) {
    int n = 1 + (int)rng.below(4);
    std::vector<int> ids(n, -1);
    std::vector<int> live(n, 0);
    std::vector<std::thread> ts;
    for (int t = 0; t < n; ++t) {
      ts.emplace_back([&, t] {
        ids[t] = ThreadId::current_thread_id().value;
        live[t] = 1;
        for (int o = 0; o < n; ++o)
          if (o != t && live[o] && ids[o] == ids[t]) vrt_event("ORACLE two live threads share thread id %d", ids[t]);
        if (ThreadId::current_thread_id().value != ids[t]) vrt_event("ORACLE thread id not stable");
        sched_yield();
        live[t] = 0;
      });
    }
    for (auto& t : ts) t.join();
    // quiescent: only the main thread is alive; for_each must report exactly its id
    unsigned count = 0;
    ThreadId::for_each([&](uint16_t b, uint16_t e) { count += e - b; });
    if (count != 1) vrt_event("ORACLE for_each reports %u live thread ids at quiescence, expected 1", count);
    if (ThreadId::end() > 1 + 4) vrt_event("ORACLE thread ids not reused: end=%u", (unsigned)ThreadId::end());
  }
  vrt_event("stats steps %lu switches %lu", vrt_steps(), vrt_switches());
  vrt_end();
  vrt_dump(stdout);
}

int main(int argc, char** argv) {
  std::string mode = argc > 1 ? argv[1] : "alloc32";
  uint64_t seed0 = argc > 2 ? strtoull(argv[2], 0, 10) : 1;
  int nruns = argc > 3 ? atoi(argv[3]) : 1;
  for (int i = 0; i < nruns; ++i) {
    uint64_t seed = seed0 + i;
    if (mode == "alloc32") run_alloc<uint32_t>(seed, "alloc32");
    else if (mode == "alloc16") run_alloc<uint16_t>(seed, "alloc16");
    else if (mode == "box") run_box(seed);
    else if (mode == "threadid") run_threadid(seed);
    else return 2;
  }
  return 0;
}
