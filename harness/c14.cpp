// E-CONC harness for C14 (IdAllocator / DepositBox / ThreadId) under VRT.
// usage: c14 <mode> <seed0> <nruns>
//   mode alloc32 | alloc16 : random allocate/deallocate programs on 2-4 threads, atomic-level trace
//                            (replayed in lock-step by lean/Drivers/C14.lean) + ownership oracle
//   mode boxhot            : as box, but 3-4 threads in tight emplace/take/finish cycles + stale ids of the same slot
//   mode big16             : IdAllocator<uint16_t> with > 65408 ids: for_each / end / reuse at the top of the range
//   mode box               : DepositBox emplace / concurrent take / finish / stale-id take programs, atomic-level
//                            trace (replayed in lock-step against Babylon/IdAlloc/Box.lean) + single-taker oracles
//   mode threadid          : ThreadId across real thread birth/death waves, oracle only
// Output per run:  RUN <seed> W=<bits> mode=<mode>\n <trace lines> END
// Oracle verdicts are harness events `ev ORACLE <kind> ...` in the trace.
#include "../vrt/vrt.h"

#include <babylon/concurrent/deposit_box.h>
#include <babylon/concurrent/id_allocator.h>

#include <cstdio>
#include <cstdlib>
#include <cstring>
#include <set>
#include <string>
#include <thread>
#include <vector>

using namespace babylon;

struct Rng {
  uint64_t s;
  explicit Rng(uint64_t x) : s(x * 0x9E3779B97F4A7C15ull + 1) {}
  uint64_t next() {
    s ^= s << 13;
    s ^= s >> 7;
    s ^= s << 17;
    return s * 0x2545F4914F6CDD1Dull;
  }
  uint64_t below(uint64_t n) { return (next() >> 11) % n; }
};

template <typename T>
void run_alloc(uint64_t seed, const char* mode) {
  constexpr int W = sizeof(T) * 8;
  IdAllocator<T> alloc;
  alloc._free_next_value.ensure(127);
  vrt_unname_all();
  vrt_name(&alloc._free_head, sizeof(alloc._free_head), "head");
  vrt_name(&alloc._next_value, sizeof(alloc._next_value), "nv");
  vrt_name(&alloc._free_next_value.ensure(0), 128 * sizeof(T), "next");
  Rng rng(seed);
  int nthreads = 2 + (int)rng.below(3);
  int nops = 2 + (int)rng.below(7);
  // a sequential prefix so the free list is non-trivial when the threads start
  int prefix_alloc = (int)rng.below(5), prefix_free = 0;
  std::vector<int> owner(128, -1);   // oracle: who holds id v (-1 nobody)
  std::vector<std::vector<VersionedValue<T>>> held(nthreads + 1);

  auto do_alloc = [&](int me, std::vector<VersionedValue<T>>& mine) {
    vrt_event("call alloc");
    auto id = alloc.allocate();
    vrt_event("ret alloc %u %u", (unsigned)id.value, (unsigned)id.version);
    if (id.value >= 128) {
      vrt_event("ORACLE out-of-range %u", (unsigned)id.value);
      return;
    }
    if (owner[id.value] != -1) {
      vrt_event("ORACLE dup id %u handed to t%d while held by t%d", (unsigned)id.value, me, owner[id.value]);
    }
    owner[id.value] = me;
    mine.push_back(id);
  };
  auto do_free = [&](int, std::vector<VersionedValue<T>>& mine, size_t k) {
    auto id = mine[k];
    mine.erase(mine.begin() + k);
    owner[id.value] = -1;
    vrt_event("call dealloc %u", (unsigned)id.value);
    alloc.deallocate(id);
    vrt_event("ret dealloc");
  };

  vrt_begin(seed);
  printf("RUN %lu W=%d mode=%s threads=%d\n", (unsigned long)seed, W, mode, nthreads);
  for (int i = 0; i < prefix_alloc; ++i) do_alloc(0, held[0]);
  prefix_free = held[0].empty() ? 0 : (int)rng.below(held[0].size() + 1);
  for (int i = 0; i < prefix_free; ++i) do_free(0, held[0], rng.below(held[0].size()));
  std::vector<std::thread> ts;
  for (int t = 1; t <= nthreads; ++t) {
    uint64_t tseed = rng.next();
    ts.emplace_back([&, t, tseed] {
      Rng r(tseed);
      auto& mine = held[t];
      for (int i = 0; i < nops; ++i) {
        if (!mine.empty() && r.below(100) < 45) {
          do_free(vrt_tid(), mine, r.below(mine.size()));
        } else {
          do_alloc(vrt_tid(), mine);
        }
      }
    });
  }
  for (auto& t : ts) t.join();
  // quiescent checks: for_each reports exactly the live ids; an allocation with freed ids available
  // and nobody else running reuses one
  std::set<unsigned> live, reported;
  for (int v = 0; v < 128; ++v)
    if (owner[v] != -1) live.insert(v);
  vrt_event("call foreach");
  alloc.for_each([&](T b, T e) {
    for (unsigned v = b; v < e; ++v)
      if (!reported.insert(v).second) vrt_event("ORACLE for_each reports %u twice", v);
  });
  {
    std::string ids;
    for (unsigned v : reported) ids += " " + std::to_string(v);
    vrt_event("ret foreach%s", ids.c_str());
  }
  if (reported != live) vrt_event("ORACLE for_each reports %zu ids, %zu are live", reported.size(), live.size());
  vrt_event("call end");
  unsigned minted = alloc.end();
  vrt_event("ret end %u", minted);
  if (live.size() < minted) {
    vrt_event("call alloc");
    auto id = alloc.allocate();
    vrt_event("ret alloc %u %u", (unsigned)id.value, (unsigned)id.version);
    if (id.value >= minted) vrt_event("ORACLE minted new id %u although %zu freed ids exist", (unsigned)id.value, minted - live.size());
    if (id.value < 128 && owner[id.value] != -1) vrt_event("ORACLE dup id %u at quiescence", (unsigned)id.value);
  }
  vrt_event("stats steps %lu switches %lu stale %lu", vrt_steps(), vrt_switches(), vrt_stale_reads());
  vrt_end();
  vrt_dump(stdout);
}

// DepositBox, atomic-level trace replayed in lock-step against Babylon/IdAlloc/Box.lean.
// A fresh box per run (private constructor; the harness is built with -fno-access-control), pre-grown so
// that every traced location has a stable address: head / nv / next (slot id allocator, W=32) and
// ver<i> (the version word of slot i).  Random programs of emplace / take / finish on 2-4 threads:
// takers race on the same fresh id, retry already-taken ids and stale ids whose slot was reused.
// Events: `call emplace <x>` .. `ret emplace <v> <r>`; `call take <v> <r>` .. `ret take 1 <x>` | `ret take 0`;
// `call finish <v>` .. `ret finish`.  x = numeric token, the stored item is the string "item-<x>".
struct BoxPub {
  VersionedValue<uint32_t> id;
  unsigned token;
  int winners = 0;           // takes of this id that returned an item
  int returned = 0;          // takes of this id that returned at all
  bool known_taken = false;  // a successful take has already returned
};

// hot = true (`box hot`): 3-4 threads in tight emplace / take / finish cycles on very few slots, so that
// allocate()'s CAS is retried while another thread completes a whole round of the slot just popped; every
// thread re-tries the stale ids of EARLIER ROUNDS OF THE SAME SLOT right after each emplace returns.
void run_box(uint64_t seed, bool hot) {
  constexpr unsigned NSLOT = 64;
  DepositBox<std::string> box;
  box._slot_id_allocator._free_next_value.ensure(NSLOT - 1);
  box._slots.ensure(NSLOT - 1);
  vrt_unname_all();
  auto& alloc = box._slot_id_allocator;
  vrt_name(&alloc._free_head, sizeof(alloc._free_head), "head");
  vrt_name(&alloc._next_value, sizeof(alloc._next_value), "nv");
  vrt_name(&alloc._free_next_value.ensure(0), NSLOT * sizeof(uint32_t), "next");
  for (unsigned i = 0; i < NSLOT; ++i) vrt_namef(&box._slots.ensure(i).version, sizeof(uint32_t), "ver%u", i);
  Rng rng(seed);
  int nthreads = hot ? 3 + (int)rng.below(2) : 2 + (int)rng.below(3);
  std::vector<BoxPub> published;                     // shared bookkeeping (plain accesses are not scheduling points)
  std::vector<std::vector<size_t>> held(nthreads + 1);  // per thread: indices into published of the ids it took
  unsigned next_token = 1;

  auto do_emplace = [&]() {
    unsigned x = next_token++;
    std::string item = "item-" + std::to_string(x);
    vrt_event("call emplace %u", x);
    auto id = box.emplace(item);
    vrt_event("ret emplace %u %u", (unsigned)id.value, (unsigned)id.version);
    if (id.value >= NSLOT) {
      vrt_event("ORACLE out-of-range slot %u", (unsigned)id.value);
      return;
    }
    for (auto& q : published)
      if (q.id.value == id.value && q.id.version == id.version)
        vrt_event("ORACLE id %u@%u issued twice (items %u and %u)", (unsigned)id.value, (unsigned)id.version, q.token, x);
    BoxPub p;
    p.id = id;
    p.token = x;
    published.push_back(p);
  };
  // which published id to try: mostly the newest one nobody is known to have taken (so that the threads
  // race on it), often a stale id whose slot has been handed out again, otherwise anything
  auto pick = [&](Rng& r) -> size_t {
    size_t n = published.size();
    unsigned dice = (unsigned)r.below(100);
    if (dice < 45) {
      for (size_t k = n; k-- > 0;)
        if (!published[k].known_taken) return k;
    } else if (dice < 75) {
      std::vector<size_t> reused, taken;
      for (size_t k = 0; k < n; ++k) {
        if (!published[k].known_taken) continue;
        taken.push_back(k);
        for (size_t j = k + 1; j < n; ++j)
          if (published[j].id.value == published[k].id.value) {
            reused.push_back(k);
            break;
          }
      }
      if (!reused.empty()) return reused[r.below(reused.size())];
      if (!taken.empty()) return taken[r.below(taken.size())];
    } else if (dice < 85) {
      return n - 1 - r.below(n < 3 ? n : 3);
    }
    return r.below(n);
  };
  auto do_take = [&](std::vector<size_t>& mine, size_t k) -> bool {
    auto id = published[k].id;
    unsigned token = published[k].token;
    bool stale_at_call = published[k].known_taken;
    vrt_event("call take %u %u", (unsigned)id.value, (unsigned)id.version);
    std::string* p = box.take_released(id);
    if (p == nullptr) {
      vrt_event("ret take 0");
      published[k].returned++;
      return false;
    }
    unsigned x = 4294967295u;
    if (p->compare(0, 5, "item-") == 0 && p->size() > 5) x = (unsigned)strtoul(p->c_str() + 5, nullptr, 10);
    vrt_event("ret take 1 %u", x);
    if (x != token) vrt_event("ORACLE taker got wrong item %u for id %u@%u holding %u", x, (unsigned)id.value, (unsigned)id.version, token);
    bool second = published[k].winners >= 1;
    if (stale_at_call)
      vrt_event("ORACLE stale id %u@%u matched again", (unsigned)id.value, (unsigned)id.version);
    else if (second)
      vrt_event("ORACLE id %u@%u obtained by two takers", (unsigned)id.value, (unsigned)id.version);
    published[k].winners++;
    published[k].returned++;
    published[k].known_taken = true;
    // a second winner does not finish: releasing the slot id twice corrupts the allocator's free list,
    // and the violation has been reported already
    if (second) return false;
    mine.push_back(k);
    return true;
  };
  auto do_finish = [&](std::vector<size_t>& mine, size_t j) {
    auto id = published[mine[j]].id;
    mine.erase(mine.begin() + j);
    vrt_event("call finish %u", (unsigned)id.value);
    box.finish_released(id);
    vrt_event("ret finish");
  };

  vrt_begin(seed);
  printf("RUN %lu W=32 mode=box threads=%d%s\n", (unsigned long)seed, nthreads, hot ? " variant=hot" : "");
  // sequential prefix: a few emplace / take / finish rounds so that the free list, the versions and the
  // set of stale ids are non-trivial when the threads start; the main thread may keep some items held
  {
    int rounds = (int)rng.below(5);
    for (int i = 0; i < rounds; ++i) {
      do_emplace();
      if (!published.empty() && rng.below(100) < 70) do_take(held[0], pick(rng));
      if (!held[0].empty() && rng.below(100) < 60) do_finish(held[0], rng.below(held[0].size()));
    }
  }
  std::vector<std::thread> ts;
  for (int t = 1; t <= nthreads; ++t) {
    uint64_t tseed = rng.next();
    ts.emplace_back([&, t, tseed] {
      Rng r(tseed);
      auto& mine = held[t];
      if (hot) {
        int cycles = 4 + (int)r.below(6);
        for (int i = 0; i < cycles; ++i) {
          do_emplace();
          size_t own = published.size() - 1;   // may already be somebody else's newer id: fine
          // stale ids of earlier rounds of the slot just issued (and of any reused slot) must not match
          unsigned slot = published[own].id.value;
          int tried = 0;
          for (size_t k = published.size(); k-- > 0 && tried < 2;)
            if (published[k].known_taken && published[k].id.value == slot) {
              do_take(mine, k);
              ++tried;
            }
          if (r.below(100) < 80) do_take(mine, r.below(100) < 70 ? own : pick(r));
          if (!mine.empty() && r.below(100) < 85) do_finish(mine, r.below(mine.size()));
        }
        while (!mine.empty()) do_finish(mine, r.below(mine.size()));
        return;
      }
      int nops = 3 + (int)r.below(6);
      for (int i = 0; i < nops; ++i) {
        unsigned dice = (unsigned)r.below(100);
        if (!mine.empty() && dice < 25) {
          do_finish(mine, r.below(mine.size()));
        } else if (published.empty() || (dice >= 25 && dice < 50)) {
          do_emplace();
        } else {
          if (do_take(mine, pick(r)) && r.below(100) < 40) do_finish(mine, mine.size() - 1);
        }
      }
      while (!mine.empty()) do_finish(mine, r.below(mine.size()));
    });
  }
  for (auto& t : ts) t.join();
  while (!held[0].empty()) do_finish(held[0], held[0].size() - 1);
  // every id somebody tried to take was obtained by exactly one taker
  for (auto& p : published)
    if (p.returned > 0 && p.winners != 1)
      vrt_event("ORACLE %d takers obtained id %u@%u (%d takes returned)", p.winners, (unsigned)p.id.value, (unsigned)p.id.version, p.returned);
  vrt_event("stats steps %lu switches %lu stale %lu", vrt_steps(), vrt_switches(), vrt_stale_reads());
  vrt_end();
  vrt_dump(stdout);
}

// per-thread ids across thread creation and exit
template <typename TID>
void run_threadid(uint64_t seed, const char* mode) {
  vrt_unname_all();
  Rng rng(seed);
  int waves = 2 + (int)rng.below(3);
  vrt_begin(seed);
  printf("RUN %lu W=16 mode=%s\n", (unsigned long)seed, mode);
  (void)TID::current_thread_id();
  for (int w = 0; w < waves; ++w) {
    int n = 1 + (int)rng.below(4);
    std::vector<int> ids(n, -1);
    std::vector<int> live(n, 0);
    std::vector<std::thread> ts;
    for (int t = 0; t < n; ++t) {
      ts.emplace_back([&, t] {
        ids[t] = TID::current_thread_id().value;
        live[t] = 1;
        for (int o = 0; o < n; ++o)
          if (o != t && live[o] && ids[o] == ids[t]) vrt_event("ORACLE two live threads share thread id %d", ids[t]);
        if (TID::current_thread_id().value != ids[t]) vrt_event("ORACLE thread id not stable");
        sched_yield();
        live[t] = 0;
      });
    }
    for (auto& t : ts) t.join();
    // quiescent: only the main thread is alive; for_each must report exactly its id
    unsigned count = 0;
    TID::for_each([&](uint16_t b, uint16_t e) { count += e - b; });
    if (count != 1) vrt_event("ORACLE for_each reports %u live thread ids at quiescence, expected 1", count);
    if (TID::end() > 1 + 4) vrt_event("ORACLE thread ids not reused: end=%u", (unsigned)TID::end());
  }
  vrt_event("stats steps %lu switches %lu stale %lu", vrt_steps(), vrt_switches(), vrt_stale_reads());
  vrt_end();
  vrt_dump(stdout);
}


// DepositBox through the public Accessor API (take() -> Accessor, moved around, destroyed): the glue
// around take_released / finish_released.  Live (untaken) items must never be disturbed by slot
// recycling: a slot finished twice would be handed to a new emplace while its item is still owned.
void run_boxacc(uint64_t seed) {
  using Box = DepositBox<std::string>;
  auto& box = Box::instance();
  vrt_unname_all();
  Rng rng(seed);
  vrt_begin(seed);
  printf("RUN %lu W=32 mode=boxacc\n", (unsigned long)seed);
  int rounds = 2 + (int)rng.below(4);
  std::vector<std::pair<VersionedValue<uint32_t>, std::string>> live;   // emplaced, not yet taken
  auto check_live = [&](const char* when) {
    for (auto& kv : live) {
      if (box.unsafe_get(kv.first) != kv.second) vrt_event("ORACLE live item of slot %u disturbed (%s)", kv.first.value, when);
      for (auto& o : live)
        if (&o != &kv && o.first.value == kv.first.value) vrt_event("ORACLE slot %u handed out by emplace while an earlier emplace still owns it", kv.first.value);
    }
  };
  // the slot allocator's free list, walked through the private members: no slot twice, no cycle, no slot that
  // is still owned (a slot released twice shows up here before a later emplace trips over it)
  bool corrupt = false;
  auto check_freelist = [&](const char* when, const std::vector<unsigned>& owned) {
    auto& al = box._slot_id_allocator;
    unsigned end = al.end();
    std::vector<char> seen(end + 1, 0);
    unsigned cur = al._free_head.value, steps = 0;
    while (cur != 0xffffffffu) {
      if (cur >= end || seen[cur] || ++steps > end) {
        vrt_event("ORACLE free list of the slot allocator is corrupt at slot %u (released twice / cycle) (%s)", cur, when);
        corrupt = true;
        return;
      }
      seen[cur] = 1;
      for (unsigned o : owned)
        if (o == cur) {
          vrt_event("ORACLE slot %u is in the free list while still owned (%s)", cur, when);
          corrupt = true;
          return;
        }
      cur = al._free_next_value[cur].load(std::memory_order_relaxed);
    }
  };
  for (int r = 0; r < rounds && !corrupt; ++r) {
    int nnew = 1 + (int)rng.below(4);
    for (int i = 0; i < nnew; ++i) {
      char buf[48];
      snprintf(buf, sizeof buf, "acc-%lu-%d-%d", (unsigned long)seed, r, i);
      auto id = box.emplace(std::string(buf));
      live.emplace_back(id, buf);
    }
    check_live("after emplace");
    // take some of them from two threads through Accessors that get moved
    int ntake = (int)rng.below(live.size() + 1);
    std::vector<std::pair<VersionedValue<uint32_t>, std::string>> victims(live.begin(), live.begin() + ntake);
    live.erase(live.begin(), live.begin() + ntake);
    std::vector<int> wins(victims.size(), 0);
    auto taker = [&](int how) {
      std::vector<Box::Accessor> keep;
      for (size_t k = 0; k < victims.size(); ++k) {
        auto acc = box.take(victims[k].first);
        if (acc) {
          ++wins[k];
          if (*acc != victims[k].second) vrt_event("ORACLE accessor sees wrong item");
          if (how == 0) keep.push_back(std::move(acc));                  // move construction
          else if (how == 1) { Box::Accessor other; other = std::move(acc); }   // move assignment
        }
      }
    };
    std::thread t1(taker, (int)rng.below(3)), t2(taker, (int)rng.below(3));
    t1.join();
    t2.join();
    for (size_t k = 0; k < victims.size(); ++k)
      if (wins[k] != 1) vrt_event("ORACLE %d accessors obtained the item of one emplace", wins[k]);
    check_live("after accessors died");
    // Accessors kept in a vector: self move-assignment and the in-place compaction idiom
    // `v[w++] = std::move(v[r])` (a self move while w == r), some accessors empty, some holding; the kept
    // ones must still see their item, the dropped ones release their slot exactly once, and emplace
    // calls made afterwards must never get a slot that is still owned
    {
      std::vector<Box::Accessor> v;
      std::vector<std::string> expect;          // "" = empty accessor
      int nhold = (int)rng.below(live.size() + 1);
      for (int i = 0; i < nhold; ++i) {
        if (rng.below(3) == 0) { v.emplace_back(); expect.push_back(""); }
        auto kv = live.front();
        live.erase(live.begin());
        v.push_back(box.take(kv.first));
        expect.push_back(kv.second);
        if (!v.back() || *v.back() != kv.second) vrt_event("ORACLE take of a live item through an accessor failed");
      }
      if (rng.below(2)) { v.emplace_back(); expect.push_back(""); }
      auto check_vec = [&](const char* when) {
        for (size_t k = 0; k < v.size(); ++k) {
          if (expect[k].empty()) {
            if (v[k]) vrt_event("ORACLE empty accessor became valid (%s)", when);
          } else if (!v[k]) {
            vrt_event("ORACLE holding accessor lost its item (%s)", when);
          } else if (*v[k] != expect[k]) {
            vrt_event("ORACLE accessor sees wrong item (%s)", when);
          }
        }
      };
      for (size_t k = 0; k < v.size(); ++k)
        if (rng.below(2)) {
          auto& self = v[k];
          v[k] = std::move(self);                 // self move-assignment
        }
      check_vec("after self move-assignment");
      size_t w = 0;
      for (size_t rd = 0; rd < v.size(); ++rd) {
        bool keep = rng.below(100) < 60;
        if (keep) {
          v[w] = std::move(v[rd]);                // w == rd for the leading kept run
          expect[w] = expect[rd];
          ++w;
        }
      }
      v.resize(w);                                // dropped accessors release their slots here
      expect.resize(w);
      check_vec("after compaction");
      auto owned_now = [&] {
        std::vector<unsigned> o;
        for (auto& kv : live) o.push_back(kv.first.value);
        for (auto& a : v)
          if (a) o.push_back(a._id.value);
        return o;
      };
      check_freelist("after compaction", owned_now());
      if (corrupt) {
        for (auto& a : v) a._object = nullptr;    // do not release anything again: the run stops here
        break;
      }
      int extra = 2 + (int)rng.below(4) + nhold;
      for (int i = 0; i < extra; ++i) {
        char buf[48];
        snprintf(buf, sizeof buf, "cmp-%lu-%d-%d", (unsigned long)seed, r, i);
        auto id = box.emplace(std::string(buf));
        for (size_t k = 0; k < v.size(); ++k)
          if (v[k] && v[k]._id.value == id.value) vrt_event("ORACLE slot %u handed out by emplace while an accessor still holds it", id.value);
        live.emplace_back(id, buf);
        check_live("emplace after compaction");
      }
      check_vec("after later emplaces");
      v.clear();                                  // the kept accessors release their slots
      check_freelist("after the kept accessors were released", owned_now());
      if (corrupt) break;
      for (int i = 0; i < 3; ++i) {
        char buf[48];
        snprintf(buf, sizeof buf, "end-%lu-%d-%d", (unsigned long)seed, r, i);
        live.emplace_back(box.emplace(std::string(buf)), buf);
        check_live("emplace after accessors released");
      }
    }
  }
  // drain (not after a corrupted free list: the singleton is unusable, the process ends after this run)
  if (!corrupt)
    for (auto& kv : live) {
      auto acc = box.take(kv.first);
      if (!acc || *acc != kv.second) vrt_event("ORACLE final take of a live item failed");
    }
  vrt_event("stats steps %lu switches %lu stale %lu", vrt_steps(), vrt_switches(), vrt_stale_reads());
  vrt_end();
  vrt_dump(stdout);
  if (corrupt) exit(0);   // the box singleton cannot serve further runs of this process
}

// IdAllocator<uint16_t> at the top of its documented range (ThreadId: "at most 65534 live threads"): more than
// 65408 ids minted sequentially (the link vector's capacity reaches 65536 = 2^16), then for_each at quiescence
// must report exactly the live ids: all of them, then a few survivors (block and range boundaries), then after
// some are reused.  Single thread inside VRT (no interleaving needed), oracle only.
void run_big16(uint64_t seed) {
  IdAllocator<uint16_t> alloc;
  vrt_unname_all();
  Rng rng(seed);
  vrt_begin(seed);
  unsigned total = 65409 + (unsigned)rng.below(65534 - 65409 + 1);
  if (seed % 3 == 0) total = 65534;
  printf("RUN %lu W=16 mode=big16 total=%u\n", (unsigned long)seed, total);
  std::vector<char> live(65536, 0);
  auto check = [&](const char* when) {
    std::vector<char> rep(65536, 0);
    unsigned nrep = 0, nlive = 0, bad = 0;
    alloc.for_each([&](uint16_t b, uint16_t e) {
      for (unsigned v = b; v < e; ++v) {
        if (rep[v]) ++bad;
        rep[v] = 1;
        ++nrep;
      }
    });
    for (unsigned v = 0; v < 65536; ++v) {
      nlive += live[v];
      if (rep[v] != live[v]) ++bad;
    }
    if (bad) vrt_event("ORACLE for_each reports %u ids, %u are live (%u wrong; end=%u, %s)", nrep, nlive, bad, (unsigned)alloc.end(), when);
  };
  std::vector<VersionedValue<uint16_t>> ids;
  for (unsigned i = 0; i < total; ++i) {
    auto id = alloc.allocate();
    if (live[id.value]) vrt_event("ORACLE dup id %u minted twice", (unsigned)id.value);
    live[id.value] = 1;
    ids.push_back(id);
    if (i == 65407 || i == 65408 || i == 300) check("while growing");
  }
  if (alloc.end() != total) vrt_event("ORACLE end() = %u after %u allocations", (unsigned)alloc.end(), total);
  check("all live");
  std::vector<char> keep(65536, 0);
  for (unsigned v : {0u, 1u, 127u, 128u, 65407u, 65408u, total - 1}) keep[v] = 1;
  for (int i = 0; i < 12; ++i) keep[rng.below(total)] = 1;
  if (rng.below(3) == 0) std::fill(keep.begin(), keep.end(), 0);
  for (auto id : ids)
    if (!keep[id.value]) {
      live[id.value] = 0;
      alloc.deallocate(id);
    }
  check("survivors");
  for (int i = 0; i < 40; ++i) {
    auto id = alloc.allocate();
    if (id.value >= total) vrt_event("ORACLE minted new id %u although freed ids exist", (unsigned)id.value);
    if (live[id.value]) vrt_event("ORACLE dup id %u handed out while live", (unsigned)id.value);
    live[id.value] = 1;
  }
  check("after reuse");
  vrt_event("stats steps %lu switches %lu stale %lu", vrt_steps(), vrt_switches(), vrt_stale_reads());
  vrt_end();
  vrt_dump(stdout);
}

int main(int argc, char** argv) {
  std::string mode = argc > 1 ? argv[1] : "alloc32";
  uint64_t seed0 = argc > 2 ? strtoull(argv[2], 0, 10) : 1;
  int nruns = argc > 3 ? atoi(argv[3]) : 1;
  for (int i = 0; i < nruns; ++i) {
    uint64_t seed = seed0 + i;
    if (mode == "alloc32") run_alloc<uint32_t>(seed, "alloc32");
    else if (mode == "alloc16") run_alloc<uint16_t>(seed, "alloc16");
    else if (mode == "box") run_box(seed, false);
    else if (mode == "boxhot") run_box(seed, true);
    else if (mode == "threadid") run_threadid<ThreadId>(seed, "threadid");
    else if (mode == "leakyid") run_threadid<LeakyThreadId>(seed, "leakyid");
    else if (mode == "boxacc") run_boxacc(seed);
    else if (mode == "big16") run_big16(seed);
    else return 2;
  }
  return 0;
}
