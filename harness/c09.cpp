// E-CONC harness for C09 (Epoch) under VRT.
// usage: c09 <mode> <seed0> <nruns>
//   mode acc      Accessor style, atomic-level trace replayed in lock-step by lean/Drivers/C09.lean
//   mode tls      thread-local style (Epoch::lock()/unlock()), lock-step
//                 per seed either `_slots` is pre-reserved (4 slots per block) or it starts EMPTY with
//                 2 slots per block so that ensure() growth races with the scan (slots are then named
//                 through a VRT resolver that walks the current block table)
//   mode relock   regression for fix 6566b0b: an Accessor released INSIDE a region closes the region; the slot
//                 is reused by the next accessor; sequential, lock-step replayed like mode acc
//   mode big      65535 … 131072 accessors ever created (bulk, outside the controlled section), regions on a few
//                 probe accessors (first / middle / last / around the 2^16 wrap), sequential; oracle only
//   With VRT_MEM=view in the environment the same programs run under VRT's stale-read simulation
//   (oracle only, no lock-step replay).
// One run = one seeded program on one seeded schedule:
//   1-3 readers opening regions (nesting <= 3), loading the shared cell `ptr`, dereferencing the
//   object it names twice (with a yield in between), closing; Accessor style readers also release /
//   re-create their accessor and may hand a LOCKED accessor over to a helper thread that finishes the
//   region; 1-3 concurrent writers that unlink (exchange on `ptr`), tick and retire, 0-2 threads that only tick;
//   a reclaimer (the writer itself
//   or a separate thread fed through a release/acquire channel) that calls low_water_mark() and frees
//   every retired object whose epoch it has reached.
// Property oracle (evaluated on the real code, `ev ORACLE <kind> …`):
//   uaf        a reader inside a region dereferences an object the reclaimer already freed
//   held-back  after unlock to depth 0 the slot still publishes a version / at quiescence
//              low_water_mark() != UINT64_MAX
//   nesting    a nested lock / unlock changed the published version
//   tick-rollback  a tick() that starts after another one returned does not return a larger value
//   mark-passed    (mode big) low_water_mark() reached the tick although a region opened before the unlink is open
// Output per run:  RUN <seed> mode=acc|tls bs=<slots per block> n0=<thread ids minted before> nb0=<blocks> tbl0=<table ptr> …
#include "../vrt/vrt.h"

#include <babylon/concurrent/epoch.h>

#include <atomic>
#include <cstdio>
#include <cstdlib>
#include <cstring>
#include <memory>
#include <string>
#include <thread>
#include <vector>

using namespace babylon;
using Accessor = Epoch::Accessor;

struct Rng {
  uint64_t s;
  explicit Rng(uint64_t x) : s(x * 0x9E3779B97F4A7C15ull + 1) {}
  uint64_t next() {
    s ^= s << 13;
    s ^= s >> 7;
    s ^= s << 17;
    return s * 0x2545F4914F6CDD1Dull;
  }
  uint64_t below(uint64_t n) { return (next() >> 11) % n; }
};

static uint64_t peek(const std::atomic<uint64_t>& a) {   // plain read: not a traced atomic action
  uint64_t v;
  memcpy(&v, (const void*)&a, sizeof v);
  return v;
}

struct Obj {
  uint64_t data = 0;
  bool freed = false;
};

struct World {
  Epoch epoch;
  bool tls = false;
  std::atomic<uint64_t> ptr {0};        // cl+0: the shared cell, holds an object id
  std::atomic<uint64_t> chan_retire {0};  // cl+1: writer -> reclaimer: highest epoch retired so far
  std::atomic<uint64_t> chan_xfer[4];   // cl+2..5: accessor hand-over mailboxes
  Obj objs[64];
  uint64_t next_obj = 1;
  struct Retired { uint64_t obj, epoch; bool freed; };
  std::vector<Retired> retired;         // written by the writer before the release store on chan_retire
  struct Xfer { Accessor acc; uint64_t id; int depth; bool used; } xfer[4];
  uint64_t max_tick = 0;                // largest value any completed tick() returned so far
  // the slot may legitimately publish again right after a release if another thread re-created an
  // accessor on it and locked; the post-release check is therefore made on the nesting counter
  bool reused_since(size_t idx);
};

static Epoch::Slot& slot_of(World& w, size_t idx) {
  // plain walk of the block table (no atomic action)
  auto* table = *reinterpret_cast<ConcurrentVector<Epoch::Slot>::BlockTable**>(&w.epoch._slots._block_table);
  size_t bs = w.epoch._slots._meta.block_size();
  return table->blocks[idx / bs][idx % bs];
}

bool World::reused_since(size_t idx) { return slot_of(*this, idx).lock_times != 0; }

// names for slots created during the run: walk the current block table (plain reads)
static World* g_world = nullptr;
static bool resolve_slot(const void* addr, char* out, size_t cap) {
  if (!g_world) return false;
  World& w = *g_world;
  auto* table = *reinterpret_cast<ConcurrentVector<Epoch::Slot>::BlockTable**>(&w.epoch._slots._block_table);
  if (table == nullptr) return false;
  size_t bs = w.epoch._slots._meta.block_size();
  uintptr_t p = (uintptr_t)addr;
  for (size_t b = 0; b < table->size; ++b) {
    uintptr_t base = (uintptr_t)table->blocks[b];
    if (p >= base && p < base + bs * sizeof(Epoch::Slot)) {
      size_t k = (p - base) / sizeof(Epoch::Slot);
      if ((p - base) % sizeof(Epoch::Slot) != offsetof(Epoch::Slot, version)) return false;
      size_t idx = b * bs + k;
      if (idx == 0) snprintf(out, cap, "slot"); else snprintf(out, cap, "slot+%zu", idx);
      return true;
    }
  }
  return false;
}

// ---- wrappers emitting call / ret events -----------------------------------------------------
static void do_lock(World& w, Accessor* acc, size_t idx, int depth_before) {
  uint64_t before = depth_before > 0 ? peek(slot_of(w, idx).version) : 0;
  vrt_event("call lock %zu", idx);
  if (w.tls) w.epoch.lock(); else acc->lock();
  vrt_event("ret lock");
  uint64_t after = peek(slot_of(w, idx).version);
  if (depth_before > 0 && after != before) vrt_event("ORACLE nesting lock at depth %d changed slot %zu from %lu to %lu", depth_before, idx, before, after);
  if (after == UINT64_MAX) vrt_event("ORACLE unpublished region of slot %zu open but version is MAX", idx);
}
static void do_unlock(World& w, Accessor* acc, size_t idx, int depth_before) {
  uint64_t before = peek(slot_of(w, idx).version);
  vrt_event("call unlock %zu", idx);
  if (w.tls) w.epoch.unlock(); else acc->unlock();
  vrt_event("ret unlock");
  uint64_t after = peek(slot_of(w, idx).version);
  if (depth_before > 1 && after != before) vrt_event("ORACLE nesting unlock at depth %d changed slot %zu from %lu to %lu", depth_before, idx, before, after);
  if (depth_before == 1 && after != UINT64_MAX) vrt_event("ORACLE held-back slot %zu still publishes %lu after unlock", idx, after);
}
static void deref(World& w, uint64_t id, const char* where) {
  vrt_event("deref %lu %s", id, where);
  if (id >= 64 || w.objs[id].freed) vrt_event("ORACLE uaf object %lu dereferenced inside a region after it was freed (%s)", id, where);
  else if (w.objs[id].data != 1000 + id) vrt_event("ORACLE uaf object %lu payload clobbered (%s)", id, where);
}

// ---- threads ---------------------------------------------------------------------------------
static void reader_acc(World& w, uint64_t seed, int me) {
  Rng r(seed);
  int rounds = 1 + (int)r.below(3);
  Accessor acc;
  for (int k = 0; k < rounds; ++k) {
    if (!acc) {
      vrt_event("call create");
      acc = w.epoch.create_accessor();
      vrt_event("ret create %zu", acc._index);
    }
    size_t idx = acc._index;
    int depth = 1 + (int)r.below(3);
    for (int d = 0; d < depth; ++d) do_lock(w, &acc, idx, d);
    uint64_t id = w.ptr.load(std::memory_order_acquire);
    deref(w, id, "first");
    if (r.below(2)) sched_yield();
    // hand the locked accessor over to the helper thread?
    int box = me;   // mailbox of this reader
    if (!w.xfer[box].used && r.below(4) == 0) {
      w.xfer[box].acc = std::move(acc);
      w.xfer[box].id = id;
      w.xfer[box].depth = depth;
      w.xfer[box].used = true;
      w.chan_xfer[box].store(1, std::memory_order_release);
      continue;   // acc is empty now; next round creates a new one
    }
    deref(w, id, "second");
    if (r.below(8) == 0) {
      // release (or destroy) the accessor inside the region: unregister_accessor closes the region
      vrt_event("call release %zu", idx);
      acc.release();
      vrt_event("ret release");
      uint64_t after = peek(slot_of(w, idx).version);
      if (after != UINT64_MAX && !w.reused_since(idx)) vrt_event("ORACLE held-back slot %zu still publishes %lu after release inside a region", idx, after);
      continue;
    }
    for (int d = depth; d > 0; --d) do_unlock(w, &acc, idx, d);
    if (r.below(2)) {
      vrt_event("call release %zu", idx);
      acc.release();
      vrt_event("ret release");
    }
  }
  if (acc) {
    vrt_event("call release %zu", acc._index);
    acc.release();
    vrt_event("ret release");
  }
  if (!w.xfer[me].used) w.chan_xfer[me].store(2, std::memory_order_release);   // nothing to hand over
}

// finishes the regions handed over by the readers
static void helper(World& w, int nreaders) {
  for (int box = 0; box < nreaders; ++box) {
    uint64_t v;
    while ((v = w.chan_xfer[box].load(std::memory_order_acquire)) == 0) sched_yield();
    if (v != 1) continue;
    auto& x = w.xfer[box];
    Accessor acc = std::move(x.acc);
    size_t idx = acc._index;
    vrt_event("move %zu", idx);
    deref(w, x.id, "moved");
    sched_yield();
    deref(w, x.id, "moved-second");
    for (int d = x.depth; d > 0; --d) do_unlock(w, &acc, idx, d);
    vrt_event("call release %zu", idx);
    acc.release();
    vrt_event("ret release");
  }
}

static void reader_tls(World& w, uint64_t seed) {
  Rng r(seed);
  vrt_event("call tlsinit");
  size_t idx = ThreadId::current_thread_id<Epoch>().value;
  vrt_event("ret tlsinit %zu", idx);
  int rounds = 1 + (int)r.below(3);
  for (int k = 0; k < rounds; ++k) {
    int depth = 1 + (int)r.below(3);
    for (int d = 0; d < depth; ++d) do_lock(w, nullptr, idx, d);
    uint64_t id = w.ptr.load(std::memory_order_acquire);
    deref(w, id, "first");
    if (r.below(2)) sched_yield();
    deref(w, id, "second");
    for (int d = depth; d > 0; --d) do_unlock(w, nullptr, idx, d);
    if (r.below(3) == 0) sched_yield();
  }
  vrt_event("call tlsexit %zu", idx);   // the id itself is returned by the thread_local destructor
}

static void reclaim(World& w, uint64_t known) {
  vrt_event("call lwm");
  uint64_t m = w.epoch.low_water_mark();
  vrt_event("ret lwm %lu", m);
  for (auto& it : w.retired) {
    if (!it.freed && it.epoch <= known && it.epoch <= m) {
      it.freed = true;
      w.objs[it.obj].freed = true;
      w.objs[it.obj].data = 0xdead;
      vrt_event("free %lu %lu", it.obj, it.epoch);
    }
  }
}

// tick() values strictly increase in real time: a call that starts after another one returned gets a
// larger value (several threads tick concurrently: every retiring thread of the GC does)
static uint64_t do_tick(World& w) {
  uint64_t before = w.max_tick;
  vrt_event("call tick");
  uint64_t e = w.epoch.tick();
  vrt_event("ret tick %lu", e);
  if (e <= before) vrt_event("ORACLE tick-rollback tick() returned %lu although %lu had already been returned", e, before);
  if (e > w.max_tick) w.max_tick = e;
  return e;
}

// a thread that only advances the epoch (like a retiring thread whose reclamation is done elsewhere)
static void ticker(World& w, uint64_t seed) {
  Rng r(seed);
  int n = 1 + (int)r.below(3);
  for (int i = 0; i < n; ++i) {
    do_tick(w);
    if (r.below(2)) sched_yield();
  }
}

static void writer(World& w, uint64_t seed, bool self_reclaim) {
  Rng r(seed);
  int unlinks = 1 + (int)r.below(3);
  for (int k = 0; k < unlinks; ++k) {
    uint64_t fresh = w.next_obj++;
    w.objs[fresh].data = 1000 + fresh;
    uint64_t old = w.ptr.exchange(fresh, std::memory_order_acq_rel);
    vrt_event("unlink %lu new %lu", old, fresh);
    uint64_t e = do_tick(w);
    w.retired.push_back({old, e, false});
    w.chan_retire.store(e, std::memory_order_release);
    if (self_reclaim) {
      int tries = 1 + (int)r.below(2);
      for (int i = 0; i < tries; ++i) {
        reclaim(w, e);
        if (r.below(2)) sched_yield();
      }
    } else if (r.below(2)) {
      sched_yield();
    }
  }
}

static void reclaimer(World& w, uint64_t seed) {
  Rng r(seed);
  int tries = 2 + (int)r.below(4);
  for (int i = 0; i < tries; ++i) {
    uint64_t known = w.chan_retire.load(std::memory_order_acquire);
    if (known > 0) reclaim(w, known);
    sched_yield();
  }
}

// ---- one run ---------------------------------------------------------------------------------
static void name_all(World& w, size_t nslots) {
  vrt_unname_all();
  vrt_name(&w.epoch._version, 8, "gver");
  vrt_name(&w.epoch._id_allocator._next_value, sizeof(w.epoch._id_allocator._next_value), "nacc");
  auto& tid_alloc = internal::concurrent_id_allocator::IdAllocatorFotType<Epoch, false>::instance();
  vrt_name(&tid_alloc._next_value, sizeof(tid_alloc._next_value), "ntid");
  vrt_name(&w.epoch._slots._block_table, 8, "tbl");
  vrt_name(&w.ptr, 8, "cl");
  vrt_name(&w.chan_retire, 8, "cl+1");
  for (int i = 0; i < 4; ++i) vrt_namef(&w.chan_xfer[i], 8, "cl+%d", 2 + i);
  for (size_t i = 0; i < nslots; ++i) {
    auto& s = slot_of(w, i);
    if (i == 0) vrt_name(&s.version, 8, "slot"); else vrt_namef(&s.version, 8, "slot+%zu", i);
    vrt_payload(&s.lock_times, sizeof(s.lock_times), "lock_times");
  }
}

static void run(const std::string& mode, uint64_t seed) {
  bool tls = mode == "tls";
  Rng rng(seed);
  bool grow = rng.below(2) == 0;
  auto wp = std::make_unique<World>();
  World& w = *wp;
  w.tls = tls;
  for (auto& c : w.chan_xfer) c.store(0);
  for (auto& x : w.xfer) x.used = false;
  w.objs[0].data = 1000;
  size_t bs = grow ? 2 : 4;
  w.epoch._slots = ConcurrentVector<Epoch::Slot>(bs);
  auto& tid_alloc = internal::concurrent_id_allocator::IdAllocatorFotType<Epoch, false>::instance();
  unsigned n0 = tid_alloc.end();
  size_t nslots = 0;
  if (!grow) {
    nslots = tls ? ((n0 + 8 + bs - 1) / bs) * bs : 16;
    w.epoch._slots.reserve(nslots);
  }
  name_all(w, nslots);
  g_world = &w;
  vrt_set_resolver(resolve_slot);
  int nreaders = 1 + (int)rng.below(3);
  bool self_reclaim = rng.below(2) == 0;
  bool with_helper = !tls;
  uint64_t rs[3] = {rng.next(), rng.next(), rng.next()};
  uint64_t ws = rng.next(), cs = rng.next();
  int nwriters = 1 + (int)rng.below(3);     // 1-3 concurrent writers (unlink + tick + retire)
  int ntickers = (int)rng.below(3);         // 0-2 threads that only tick
  uint64_t ws2[2] = {rng.next(), rng.next()}, tks[2] = {rng.next(), rng.next()};
  uint64_t tbl0 = (uint64_t)(uintptr_t)*reinterpret_cast<void**>(&w.epoch._slots._block_table);
  size_t nb0 = nslots / bs;

  vrt_begin(seed);
  printf("RUN %lu mode=%s bs=%zu n0=%u nb0=%zu tbl0=%lu readers=%d writers=%d tickers=%d selfreclaim=%d\n", (unsigned long)seed,
         tls ? "tls" : "acc", bs, tls ? n0 : 0u, nb0, (unsigned long)tbl0, nreaders, nwriters, ntickers, (int)self_reclaim);
  {
    std::vector<std::thread> ts;
    for (int i = 0; i < nreaders; ++i) {
      if (tls) ts.emplace_back([&w, s = rs[i]] { reader_tls(w, s); });
      else ts.emplace_back([&w, s = rs[i], i] { reader_acc(w, s, i); });
    }
    ts.emplace_back([&w, ws, self_reclaim] { writer(w, ws, self_reclaim); });
    for (int i = 1; i < nwriters; ++i) ts.emplace_back([&w, s = ws2[i - 1], self_reclaim] { writer(w, s, self_reclaim); });
    for (int i = 0; i < ntickers; ++i) ts.emplace_back([&w, s = tks[i]] { ticker(w, s); });
    if (!self_reclaim) ts.emplace_back([&w, cs] { reclaimer(w, cs); });
    if (with_helper) ts.emplace_back([&w, nreaders] { helper(w, nreaders); });
    for (auto& t : ts) t.join();
  }
  // quiescence: every region closed, every accessor released: nothing may hold the mark back, and
  // everything retired is reclaimable now
  vrt_event("call lwm");
  uint64_t m = w.epoch.low_water_mark();
  vrt_event("ret lwm %lu", m);
  if (m != UINT64_MAX) vrt_event("ORACLE held-back low_water_mark is %lu at quiescence", m);
  vrt_event("stats steps %lu switches %lu stale %lu", vrt_steps(), vrt_switches(), vrt_stale_reads());
  vrt_end();
  vrt_dump(stdout);
  vrt_set_resolver(nullptr);
  g_world = nullptr;
}

// Regression for fix 6566b0b: an Accessor released while its region is open must not hold the mark back,
// and the next accessor reusing the slot must publish when it locks.
static void run_relock(uint64_t seed) {
  auto wp = std::make_unique<World>();
  World& w = *wp;
  size_t bs = 4;
  w.epoch._slots = ConcurrentVector<Epoch::Slot>(bs);
  w.epoch._slots.reserve(4);
  name_all(w, 4);
  g_world = &w;
  vrt_set_resolver(resolve_slot);
  uint64_t tbl0 = (uint64_t)(uintptr_t)*reinterpret_cast<void**>(&w.epoch._slots._block_table);
  vrt_begin(seed);
  printf("RUN %lu mode=acc bs=%zu n0=0 nb0=1 tbl0=%lu relock\n", (unsigned long)seed, bs, (unsigned long)tbl0);
  auto lwm = [&](uint64_t expect, const char* what) {
    vrt_event("call lwm");
    uint64_t m = w.epoch.low_water_mark();
    vrt_event("ret lwm %lu", m);
    if (m != expect) vrt_event("ORACLE held-back low_water_mark is %lu, expected %lu (%s)", m, expect, what);
  };
  vrt_event("call create");
  auto a = w.epoch.create_accessor();
  vrt_event("ret create %zu", a._index);
  size_t idx = a._index;
  do_lock(w, &a, idx, 0);
  do_lock(w, &a, idx, 1);
  lwm(0, "region open");
  vrt_event("call release %zu", idx);
  a.release();                               // inside the (nested) region
  vrt_event("ret release");
  lwm(UINT64_MAX, "after release inside a region");
  vrt_event("call create");
  auto b = w.epoch.create_accessor();        // reuses the slot
  vrt_event("ret create %zu", b._index);
  if (b._index != idx) vrt_event("ORACLE relock slot %zu not reused (got %zu)", idx, b._index);
  for (int k = 0; k < 2; ++k) {
    vrt_event("call tick");
    uint64_t e = w.epoch.tick();
    vrt_event("ret tick %lu", e);
  }
  do_lock(w, &b, b._index, 0);
  lwm(2, "reused slot locked at epoch 2");
  do_unlock(w, &b, b._index, 1);
  lwm(UINT64_MAX, "reused slot unlocked");
  vrt_event("call release %zu", b._index);
  b.release();
  vrt_event("ret release");
  vrt_event("stats steps %lu switches %lu stale %lu", vrt_steps(), vrt_switches(), vrt_stale_reads());
  vrt_end();
  vrt_dump(stdout);
  vrt_set_resolver(nullptr);
  g_world = nullptr;
}

// Many accessors: `accessor_number()` (ids ever created) at / beyond 2^16, so that a scan bound kept in
// a narrower type than the id allocator's counter would wrap.  N accessors are created in bulk OUTSIDE the
// controlled section, all but a few probes released again; then, under VRT, for each probe: open a region on
// it, unlink, tick, low_water_mark, reclaim what the mark allows, dereference.  Oracle only.
static void run_big(uint64_t seed) {
  auto wp = std::make_unique<World>();
  World& w = *wp;
  w.objs[0].data = 1000;
  Rng rng(seed);
  static const size_t sizes[] = {65536, 65537, 65536 + 7, 70000, 65535, 131072};
  size_t n = sizes[rng.below(6)];
  std::vector<size_t> probes = {0, n / 2, n - 1, n % 65536, (n % 65536 + n - 1) % n, (size_t)rng.below(n)};
  std::vector<Accessor> live(probes.size());
  {
    std::vector<Accessor> all;
    all.reserve(n);
    for (size_t i = 0; i < n; ++i) all.emplace_back(w.epoch.create_accessor());
    for (size_t k = 0; k < probes.size(); ++k)
      if (!live[k] && all[probes[k]]._index == probes[k]) {
        bool dup = false;
        for (size_t j = 0; j < k; ++j) dup = dup || probes[j] == probes[k];
        if (!dup) live[k] = std::move(all[probes[k]]);
      }
  }   // the others are released here
  vrt_unname_all();
  vrt_set_resolver(nullptr);
  vrt_begin(seed);
  printf("RUN %lu mode=big accessors=%zu\n", (unsigned long)seed, n);
  for (size_t k = 0; k < live.size(); ++k) {
    if (!live[k]) continue;
    size_t idx = live[k]._index;
    do_lock(w, &live[k], idx, 0);
    uint64_t id = w.ptr.load(std::memory_order_acquire);
    deref(w, id, "first");
    uint64_t fresh = w.next_obj++;
    w.objs[fresh].data = 1000 + fresh;
    uint64_t old = w.ptr.exchange(fresh, std::memory_order_acq_rel);
    vrt_event("unlink %lu new %lu", old, fresh);
    uint64_t e = do_tick(w);
    w.retired.push_back({old, e, false});
    vrt_event("call lwm");
    uint64_t m = w.epoch.low_water_mark();
    vrt_event("ret lwm %lu", m);
    if (m >= e) vrt_event("ORACLE mark-passed low_water_mark()=%lu reached tick %lu with %zu accessors while the region of accessor %zu, opened before the unlink, is open", m, e, n, idx);
    for (auto& it : w.retired)
      if (!it.freed && it.epoch <= m) {
        it.freed = true;
        w.objs[it.obj].freed = true;
        w.objs[it.obj].data = 0xdead;
        vrt_event("free %lu %lu", it.obj, it.epoch);
      }
    deref(w, id, "second");
    do_unlock(w, &live[k], idx, 1);
  }
  vrt_event("call lwm");
  uint64_t m = w.epoch.low_water_mark();
  vrt_event("ret lwm %lu", m);
  if (m != UINT64_MAX) vrt_event("ORACLE held-back low_water_mark is %lu at quiescence", m);
  vrt_event("stats steps %lu switches %lu stale %lu", vrt_steps(), vrt_switches(), vrt_stale_reads());
  vrt_end();
  vrt_dump(stdout);
}

int main(int argc, char** argv) {
  std::string mode = argc > 1 ? argv[1] : "acc";
  uint64_t seed0 = argc > 2 ? strtoull(argv[2], 0, 10) : 1;
  int nruns = argc > 3 ? atoi(argv[3]) : 1;
  if (mode != "acc" && mode != "tls" && mode != "relock" && mode != "big") return 2;
  for (int i = 0; i < nruns; ++i) {
    if (mode == "relock") run_relock(seed0 + i);
    else if (mode == "big") run_big(seed0 + i);
    else run(mode, seed0 + i);
  }
  return 0;
}
