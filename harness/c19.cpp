// History harness for C19 (counters / enumerable thread-locals) on the REAL code under VRT.
// usage: c19 <mode> <seed0> <nruns>
//   mode hist : one seeded history per run — counters of every kind (ConcurrentAdder, ConcurrentSummer,
//               ConcurrentMaxer, ConcurrentMiner, a bare EnumerableThreadLocal<uint64_t>, a bare
//               CompactEnumerableThreadLocal<uint64_t,1>) are created / destroyed / moved / reset by the main
//               thread in waves; 3-6 generations of 1-6 REAL threads (created / joined here, thread ids and
//               TLS destructors are the library's own) count into them, some threads live for several
//               generations; every live counter is read at every quiescent point; in some phases the main
//               thread reads, creates and destroys counters WHILE the workers count.
//   mode wfea : witness — for_each_alive on an instance whose storage no live thread has touched
//   mode wext : witness — comparer fed only its EXTREMUM / only non-positive floating samples
// The library's static allocators persist inside a process and the model starts from the initial state,
// so every run executes in its own forked child.
// Output per run: RUN <seed> mode=<mode>\n <VRT trace: `<tid> ev …` harness events> END
// The events are the history the Lean driver (lean/Drivers/C19.lean) replays on the model:
//   tstart | texit | new h kind id | drop h | mvnew h' h id' | mvasg h' h | call add h v.. |
//   ret add h v.. k slot off | local h k slot off | reset h | read h vals.. | aread h sum slots.. |
//   acread h sum slots.. | call cread h | ret cread h vals..
// ORACLE (reference arithmetic kept here, on the real code): `ev ORACLE <kind> …`.
#include "../vrt/vrt.h"

#include <babylon/concurrent/counter.h>
#include <babylon/concurrent/thread_local.h>

#include <sched.h>
#include <sys/wait.h>
#include <unistd.h>

#include <algorithm>
#include <atomic>
#include <condition_variable>
#include <mutex>
#include <climits>
#include <cstdio>
#include <cstdlib>
#include <cstring>
#include <map>
#include <memory>
#include <set>
#include <string>
#include <thread>
#include <utility>
#include <vector>

using namespace babylon;

#define NOTSAN __attribute__((no_sanitize("thread")))

struct Rng {
  uint64_t s;
  explicit Rng(uint64_t x) : s(x * 0x9E3779B97F4A7C15ull + 1) { for (int i = 0; i < 3; ++i) next(); }
  uint64_t next() {
    s ^= s << 13;
    s ^= s >> 7;
    s ^= s << 17;
    return s * 0x2545F4914F6CDD1Dull;
  }
  uint64_t below(uint64_t n) { return n ? (next() >> 11) % n : 0; }
  bool chance(int pct) { return (int)below(100) < pct; }
};

enum Kind { ADDER, SUMMER, MAXER, MINER, ETL, CETL, NKIND };
const char* kind_name[] = {"adder", "summer", "maxer", "miner", "etl", "cetl"};
using EtlT = EnumerableThreadLocal<uint64_t>;
using CetlT = CompactEnumerableThreadLocal<uint64_t, 1, false>;

struct Loc {
  long k = -1, tid = -1, off = -1;
};

// ---- canonical location of a cell: (storage, slot, offset), read without instrumentation ------
template <typename V>
NOTSAN static auto* raw_table(V& vec) {
  using BT = typename V::BlockTable;
  return *reinterpret_cast<BT* const*>(reinterpret_cast<const void*>(&vec._block_table));
}
template <typename C>
NOTSAN static bool locate_compact(C& c, const void* addr, Loc& out) {
  using CL = typename C::CacheLine;
  auto* bt = raw_table(c._storage->_storage);
  for (size_t b = 0; b < bt->size; ++b) {
    CL* blk = bt->blocks[b];
    const char* a = (const char*)addr;
    if (a >= (const char*)blk && a < (const char*)(blk + 128)) {
      size_t idx = (a - (const char*)blk) / sizeof(CL);
      out.tid = (long)(b * 128 + idx);
      out.off = (long)((a - (const char*)blk[idx].value) / sizeof(blk[idx].value[0]));
      out.k = (long)(c._instance_id / C::NUM_PER_CACHELINE);
      return true;
    }
  }
  return false;
}
NOTSAN static bool locate_etl(EtlT& e, const void* addr, Loc& out) {
  auto* bt = raw_table(e._storage);
  for (size_t b = 0; b < bt->size; ++b) {
    uint64_t* blk = bt->blocks[b];
    const char* a = (const char*)addr;
    if (a >= (const char*)blk && a < (const char*)(blk + 128)) {
      out.tid = (long)(b * 128 + (a - (const char*)blk) / sizeof(uint64_t));
      out.off = 0;
      out.k = (long)e._id;
      return true;
    }
  }
  return false;
}
template <typename V>
NOTSAN static void collect_blocks(V& vec, size_t elem, std::vector<std::pair<const void*, size_t>>& out) {
  auto* bt = raw_table(vec);
  for (size_t b = 0; b < bt->size; ++b) out.push_back({bt->blocks[b], elem * 128});
}

// ---- one counter / thread-local instance + its reference ---------------------------------------
struct Obj {
  Kind kind;
  std::unique_ptr<ConcurrentAdder> adder;
  std::unique_ptr<ConcurrentSummer> summer;
  std::unique_ptr<ConcurrentMaxer> maxer;
  std::unique_ptr<ConcurrentMiner> miner;
  std::unique_ptr<EtlT> etl;
  std::unique_ptr<CetlT> cetl;
  // reference arithmetic
  long total = 0;                 // adder, etl, cetl
  long sum = 0;                   // summer
  unsigned long num = 0;
  bool has = false;               // maxer / miner: a sample in the current period
  long ext = 0;
  std::map<long, long> per_slot;  // etl / cetl: contribution per slot (thread id)
  std::map<int, const void*> addr_of;   // live thread -> address local() returned (stability)
  bool busy = false;              // workers may use it in the current phase
  // reads that overlap adds: which contributions may a concurrent value() contain?
  struct Contribution { long v, n; };
  std::map<int, Contribution> inflight;                 // thread -> its add in progress
  bool reading = false;                                 // a concurrent read is in progress
  long base_sum = 0, base_num = 0;                      // completed when the read was called
  std::map<int, std::vector<Contribution>> window;      // per thread, in order: in flight at the call, or started before the return
};

struct World {
  std::map<int, std::unique_ptr<Obj>> objs;    // handle -> object
  int next_handle = 1;
  std::map<int, long> fam_tid[NKIND];          // live thread (vrt tid) -> thread id of the family
  std::map<const void*, std::pair<int, int>> cell_owner;   // address -> (handle, thread) of live pairs
  std::set<int> live_threads;
  uint64_t n_add = 0, n_read = 0, n_cread = 0, n_new = 0, n_drop = 0, n_move = 0, n_reset = 0, n_alive = 0,
           n_reuse_inst = 0, n_reuse_tid = 0, n_probe = 0, n_cross = 0, n_local = 0, n_doomed = 0, n_mvprobe = 0;
  std::set<long> inst_seen[NKIND];
  std::set<long> tid_seen[NKIND];
};
static World* W;

static long instance_id(Obj& o) {
  switch (o.kind) {
    case ADDER: return o.adder->_storage._instance_id;
    case SUMMER: return o.summer->_storage._instance_id;
    case MAXER: return o.maxer->_storage._instance_id;
    case MINER: return o.miner->_storage._instance_id;
    case ETL: return (long)o.etl->_id;
    default: return o.cetl->_instance_id;
  }
}

static bool locate(Obj& o, const void* a, Loc& l) {
  switch (o.kind) {
    case ADDER: return locate_compact(o.adder->_storage, a, l);
    case SUMMER: return locate_compact(o.summer->_storage, a, l);
    case MAXER: return locate_compact(o.maxer->_storage, a, l);
    case MINER: return locate_compact(o.miner->_storage, a, l);
    case ETL: return locate_etl(*o.etl, a, l);
    default: return locate_compact(*o.cetl, a, l);
  }
}

static const void* local_addr(Obj& o) {
  switch (o.kind) {
    case ADDER: return &o.adder->_storage.local();
    case SUMMER: return &o.summer->_storage.local();
    case MAXER: return &o.maxer->_storage.local();
    case MINER: return &o.miner->_storage.local();
    case ETL: return &o.etl->local();
    default: return &o.cetl->local();
  }
}

// privacy / stability bookkeeping after thread `me` obtained `addr` from local() of handle h
static void check_local(int h, Obj& o, int me, const void* addr, const Loc& l, bool found) {
  if (!found) {
    vrt_event("ORACLE local-outside-storage handle %d thread %d: local() returned a cell outside the instance's own storage", h, me);
    return;
  }
  auto it = o.addr_of.find(me);
  if (it != o.addr_of.end() && it->second != addr)
    vrt_event("ORACLE local-unstable handle %d thread %d: local() moved during the thread's lifetime", h, me);
  o.addr_of[me] = addr;
  auto& own = W->cell_owner[addr];
  if (own.first != 0 && (own.first != h || own.second != me))
    vrt_event("ORACLE local-shared handle %d thread %d got the cell of live handle %d thread %d", h, me, own.first, own.second);
  own = {h, me};
  auto& ft = W->fam_tid[o.kind];
  auto f = ft.find(me);
  if (f == ft.end()) {
    for (auto& kv : ft)
      if (kv.second == l.tid) vrt_event("ORACLE slot-shared %s: live threads %d and %d both use slot %ld", kind_name[o.kind], kv.first, me, l.tid);
    ft[me] = l.tid;
    if (!W->tid_seen[o.kind].insert(l.tid).second) ++W->n_reuse_tid;
  } else if (f->second != l.tid) {
    vrt_event("ORACLE slot-unstable %s thread %d: slot %ld then %ld", kind_name[o.kind], me, f->second, l.tid);
  }
}

struct Op {
  int h;
  long v, n;
  bool probe;
  int local_kind = -1;   // >= 0: construct a counter of that kind in THIS thread, count, read, destroy
};

static void do_op(const Op& op) {
  int me = vrt_tid();
  Obj& o = *W->objs[op.h];
  if (op.probe) {
    const void* a1 = local_addr(o);
    const void* a2 = local_addr(o);
    Loc l;
    bool f = locate(o, a1, l);
    if (a1 != a2) vrt_event("ORACLE local-unstable handle %d thread %d: two consecutive local() differ", op.h, me);
    check_local(op.h, o, me, a1, l, f);
    vrt_event("local %d %ld %ld %ld", op.h, l.k, l.tid, l.off);
    ++W->n_probe;
    return;
  }
  if (o.kind == SUMMER) vrt_event("call add %d %ld %ld", op.h, op.v, op.n);
  else vrt_event("call add %d %ld", op.h, op.v);
  {
    Obj::Contribution c {op.v, o.kind == SUMMER ? op.n : 1};
    o.inflight[me] = c;
    if (o.reading) o.window[me].push_back(c);
  }
  switch (o.kind) {
    case ADDER: *o.adder << op.v; o.total += op.v; break;
    case SUMMER:
      if (op.n == 1 && (op.v & 1)) *o.summer << op.v;
      else *o.summer << ConcurrentSummer::Summary {op.v, (size_t)op.n};
      o.sum += op.v;
      o.num += (unsigned long)op.n;
      break;
    case MAXER:
      *o.maxer << op.v;
      if (!o.has || op.v > o.ext) o.ext = op.v;
      o.has = true;
      break;
    case MINER:
      *o.miner << op.v;
      if (!o.has || op.v < o.ext) o.ext = op.v;
      o.has = true;
      break;
    case ETL: o.etl->local() += (uint64_t)op.v; o.total += op.v; break;
    default: o.cetl->local() += (uint64_t)op.v; o.total += op.v; break;
  }
  o.inflight.erase(me);            // completed (no scheduling point since the store)
  const void* a = local_addr(o);   // fast path now: the cell the operation used
  Loc l;
  bool f = locate(o, a, l);
  check_local(op.h, o, me, a, l, f);
  if (o.kind == ETL || o.kind == CETL) o.per_slot[l.tid] += op.v;
  if (o.kind == SUMMER) vrt_event("ret add %d %ld %ld %ld %ld %ld", op.h, op.v, op.n, l.k, l.tid, l.off);
  else vrt_event("ret add %d %ld %ld %ld %ld", op.h, op.v, l.k, l.tid, l.off);
  ++W->n_add;
}

// ---- main-thread operations ------------------------------------------------------------------------
static long pick_value(Rng& r, Kind k) {
  switch (k) {
    case ADDER: {
      int c = (int)r.below(10);
      if (c == 0) return (long)(r.next() >> 20) - (1l << 43);
      if (c < 4) return (long)r.below(2000);
      return (long)r.below(2001) - 1000;
    }
    case SUMMER: return (long)r.below(4001) - 2000;
    case MAXER:
    case MINER: {
      int c = (int)r.below(20);
      if (c == 0) return LONG_MIN;
      if (c == 1) return LONG_MAX;
      if (c == 2) return 0;
      return (long)r.below(200001) - 100000;
    }
    default: return (long)r.below(1000);
  }
}

static int do_new(Kind k) {
  int h = W->next_handle++;
  auto o = std::make_unique<Obj>();
  o->kind = k;
  switch (k) {
    case ADDER: o->adder = std::make_unique<ConcurrentAdder>(); break;
    case SUMMER: o->summer = std::make_unique<ConcurrentSummer>(); break;
    case MAXER: o->maxer = std::make_unique<ConcurrentMaxer>(); break;
    case MINER: o->miner = std::make_unique<ConcurrentMiner>(); break;
    case ETL: o->etl = std::make_unique<EtlT>(); break;
    default: o->cetl = std::make_unique<CetlT>(); break;
  }
  long id = instance_id(*o);
  for (auto& kv : W->objs)
    if (kv.second->kind == k && instance_id(*kv.second) == id)
      vrt_event("ORACLE instance-id-shared %s: new handle %d got id %ld of live handle %d", kind_name[k], h, id, kv.first);
  if (!W->inst_seen[k].insert(id).second) ++W->n_reuse_inst;
  W->objs[h] = std::move(o);
  vrt_event("new %d %s %ld", h, kind_name[k], id);
  ++W->n_new;
  return h;
}

static void do_drop(int h) {
  vrt_event("drop %d", h);
  for (auto it = W->cell_owner.begin(); it != W->cell_owner.end();)
    it = (it->second.first == h) ? W->cell_owner.erase(it) : std::next(it);
  auto victim = std::move(W->objs[h]);
  W->objs.erase(h);
  victim.reset();   // the destructor has scheduling points: run it with the table already consistent
  ++W->n_drop;
}

struct Visit {
  long sum = 0;
  std::vector<long> slots;
};

// quiescent (or concurrent, `conc`) read of handle h; prints the event and checks the reference
static void do_read(int h, bool conc, bool local) {
  Obj& o = *W->objs[h];
  if (conc) {
    vrt_event("call cread %d", h);
    o.reading = true;
    o.base_sum = o.kind == SUMMER ? o.sum : o.total;
    o.base_num = (long)o.num;
    o.window.clear();
    for (auto& kv : o.inflight) o.window[kv.first].push_back(kv.second);
  }
  // a value() that overlaps adds must equal (Σ_{i∈S} v_i, Σ_{i∈S} n_i) + (what was complete at the call) for a
  // set S of the overlapping contributions that is a prefix of every thread's sequence (a thread's
  // contributions take effect in order, each one indivisibly: {sum, num} is one 128-bit store)
  auto explained = [&](long sum, long num, bool with_num) {
    o.reading = false;
    std::set<std::pair<long, long>> cur {{o.base_sum, o.base_num}};
    for (auto& kv : o.window) {
      std::set<std::pair<long, long>> nxt;
      for (auto& b : cur) {
        long ds = 0, dn = 0;
        nxt.insert(b);
        for (auto& c : kv.second) {
          ds += c.v;
          dn += c.n;
          nxt.insert({b.first + ds, b.second + dn});
        }
      }
      cur.swap(nxt);
    }
    for (auto& b : cur)
      if (b.first == sum && (!with_num || b.second == num)) return true;
    return false;
  };
  const char* ev = conc ? "ret cread" : "read";
  switch (o.kind) {
    case ADDER: {
      long v = o.adder->value();
      vrt_event("%s %d %ld", ev, h, v);
      if (!conc && v != o.total) vrt_event("ORACLE adder-sum handle %d: value() = %ld, added %ld", h, v, o.total);
      if (conc && !explained(v, 0, false))
        vrt_event("ORACLE concurrent-read handle %d adder: value() = %ld is not (completed at the call) + a per-thread prefix of the overlapping adds", h, v);
      break;
    }
    case SUMMER: {
      auto s = o.summer->value();
      vrt_event("%s %d %ld %lu", ev, h, (long)s.sum, (unsigned long)s.num);
      if (conc && !explained((long)s.sum, (long)s.num, true))
        vrt_event("ORACLE concurrent-read handle %d summer: value() = (%ld, %lu) is not (Σ v, Σ n) of (completed at the call) + a per-thread prefix of the overlapping contributions (base (%ld, %ld)): sum and count of one contribution were read apart",
                  h, (long)s.sum, (unsigned long)s.num, o.base_sum, o.base_num);
      if (!conc && (s.sum != o.sum || s.num != o.num))
        vrt_event("ORACLE summer-sum handle %d: value() = (%ld, %lu), added (%ld, %lu)", h, (long)s.sum, (unsigned long)s.num, o.sum, o.num);
      break;
    }
    case MAXER:
    case MINER: {
      ssize_t v = 0;
      bool has = o.kind == MAXER ? o.maxer->value(v) : o.miner->value(v);
      if (!has) v = 0;
      vrt_event("%s %d %d %ld", ev, h, (int)has, (long)v);
      if (has != o.has || (has && v != o.ext))
        vrt_event("ORACLE extreme handle %d %s: value() = (%d, %ld), extreme of the period is (%d, %ld)", h, kind_name[o.kind], (int)has, (long)v,
                  (int)o.has, o.has ? o.ext : 0);
      ssize_t v0 = o.kind == MAXER ? o.maxer->value() : o.miner->value();
      if (v0 != (o.has ? o.ext : 0)) vrt_event("ORACLE extreme handle %d %s: value() = %ld, expected %ld", h, kind_name[o.kind], (long)v0, o.has ? o.ext : 0);
      break;
    }
    default: {
      Visit vis;
      auto see = [&](const uint64_t& x) {
        vis.sum += (long)x;
        Loc l;
        if (locate(o, &x, l)) vis.slots.push_back(l.tid); else vis.slots.push_back(-1);
      };
      if (o.kind == ETL) {
        o.etl->for_each([&](uint64_t* b, uint64_t* e) { for (; b != e; ++b) see(*b); });
      } else {
        o.cetl->for_each([&](uint64_t& x) { see(x); });
      }
      // (on a worker thread the number of slots walked depends on which other threads have taken their
      // first slot meanwhile: only the sum is a quiescent observation there)
      if (local) vrt_event("%s %d %ld _", ev, h, vis.sum);
      else vrt_event("%s %d %ld %zu", ev, h, vis.sum, vis.slots.size());
      if (conc && !explained(vis.sum, 0, false))
        vrt_event("ORACLE concurrent-read handle %d %s: for_each sum %ld is not (completed at the call) + a per-thread prefix of the overlapping adds", h, kind_name[o.kind], vis.sum);
      if (!conc) {
        if (vis.sum != o.total) vrt_event("ORACLE for_each-sum handle %d: %ld, added %ld", h, vis.sum, o.total);
        std::set<long> seen(vis.slots.begin(), vis.slots.end());
        if (seen.size() != vis.slots.size()) vrt_event("ORACLE for_each-twice handle %d: a slot was visited twice", h);
        for (auto& kv : o.per_slot)
          if (!seen.count(kv.first)) vrt_event("ORACLE for_each-miss handle %d: slot %ld was used and is not visited", h, kv.first);
      }
      break;
    }
  }
  if (conc) ++W->n_cread; else ++W->n_read;
}

// for_each_alive of a bare thread-local at a quiescent point
static void do_alive(int h, bool constv) {
  Obj& o = *W->objs[h];
  Visit vis;
  size_t size = 0;
  auto see = [&](const uint64_t& x) {
    vis.sum += (long)x;
    Loc l;
    vis.slots.push_back(locate(o, &x, l) ? l.tid : -1);
  };
  if (o.kind == ETL) {
    size = raw_table(o.etl->_storage)->size * 128;
    if (constv) std::as_const(*o.etl).for_each_alive([&](const uint64_t* b, const uint64_t* e) { for (; b != e; ++b) see(*b); });
    else o.etl->for_each_alive([&](uint64_t* b, uint64_t* e) { for (; b != e; ++b) see(*b); });
  } else {
    size = raw_table(o.cetl->_storage->_storage)->size * 128;
    if (constv) std::as_const(*o.cetl).for_each_alive([&](const uint64_t& x) { see(x); });
    else o.cetl->for_each_alive([&](uint64_t& x) { see(x); });
  }
  std::string s;
  for (long t : vis.slots) s += " " + std::to_string(t);
  vrt_event("%s %d %ld%s", constv ? "acread" : "aread", h, vis.sum, s.c_str());
  // reference: exactly the slots of the live threads (that exist in this instance's storage)
  std::set<long> want;
  long wsum = 0;
  for (auto& kv : W->fam_tid[o.kind])
    if ((size_t)kv.second < size) {
      want.insert(kv.second);
      auto p = o.per_slot.find(kv.second);
      if (p != o.per_slot.end()) wsum += p->second;
    }
  std::set<long> got(vis.slots.begin(), vis.slots.end());
  if (got != want || got.size() != vis.slots.size())
    vrt_event("ORACLE for_each_alive-slots handle %d: visited %zu slots, %zu live threads have a slot", h, vis.slots.size(), want.size());
  else if (vis.sum != wsum)
    vrt_event("ORACLE for_each_alive-sum handle %d: %ld, live slots hold %ld", h, vis.sum, wsum);
  ++W->n_alive;
}

static void check_zero_after_new(int h) {
  Obj& o = *W->objs[h];
  bool zero = true;
  switch (o.kind) {
    case ADDER: zero = o.adder->value() == 0; break;
    case SUMMER: { auto s = o.summer->value(); zero = s.sum == 0 && s.num == 0; break; }
    case MAXER: { ssize_t v = 77; zero = !o.maxer->value(v) && v == 77 && o.maxer->value() == 0; break; }
    case MINER: { ssize_t v = 77; zero = !o.miner->value(v) && v == 77 && o.miner->value() == 0; break; }
    case ETL: o.etl->for_each([&](uint64_t* b, uint64_t* e) { for (; b != e; ++b) zero = zero && *b == 0; }); break;
    default: o.cetl->for_each([&](uint64_t& x) { zero = zero && x == 0; }); break;
  }
  if (!zero) vrt_event("ORACLE new-not-zero handle %d %s (instance id %ld): a new counter does not start from zero / no-result", h, kind_name[o.kind], instance_id(o));
}

static void do_reset(int h) {
  Obj& o = *W->objs[h];
  vrt_event("reset %d", h);
  switch (o.kind) {
    case ADDER: o.adder->reset(); o.total = 0; break;
    case MAXER: o.maxer->reset(); o.has = false; break;
    case MINER: o.miner->reset(); o.has = false; break;
    case ETL: o.etl->for_each([&](uint64_t* b, uint64_t* e) { for (; b != e; ++b) *b = 0; }); o.total = 0; o.per_slot.clear(); break;
    case CETL: o.cetl->for_each([&](uint64_t& x) { x = 0; }); o.total = 0; o.per_slot.clear(); break;
    default: break;
  }
  ++W->n_reset;
}

static void swap_refs(Obj& a, Obj& b, int ha, int hb) {
  std::swap(a.total, b.total);
  std::swap(a.per_slot, b.per_slot);
  std::swap(a.addr_of, b.addr_of);
  for (auto& kv : W->cell_owner) {
    if (kv.second.first == ha) kv.second.first = hb;
    else if (kv.second.first == hb) kv.second.first = ha;
  }
}

// h' = new object move-constructed from h
static int do_mvnew(int h) {
  do_op(Op {h, 0, 1, true});   // the long-lived main thread caches its cell of h ...
  Obj& src = *W->objs[h];
  int h2 = W->next_handle++;
  auto o = std::make_unique<Obj>();
  o->kind = src.kind;
  switch (src.kind) {
    case ADDER: o->adder = std::make_unique<ConcurrentAdder>(std::move(*src.adder)); break;
    case ETL: o->etl = std::make_unique<EtlT>(std::move(*src.etl)); break;
    default: o->cetl = std::make_unique<CetlT>(std::move(*src.cetl)); break;
  }
  long fresh = instance_id(src);   // the moved-from object now holds the id the constructor allocated
  if (!W->inst_seen[src.kind].insert(fresh).second) ++W->n_reuse_inst;
  W->objs[h2] = std::move(o);
  swap_refs(*W->objs[h2], src, h2, h);
  vrt_event("mvnew %d %d %ld", h2, h, fresh);
  ++W->n_move;
  do_op(Op {h, 0, 1, true});    // ... and must land in h's NEW storage after the move, not in the cached one
  do_op(Op {h2, 0, 1, true});
  return h2;
}

// h2 = std::move(h)
static void do_mvasg(int h2, int h) {
  do_op(Op {h, 0, 1, true});
  Obj& a = *W->objs[h2];
  Obj& b = *W->objs[h];
  switch (a.kind) {
    case ADDER: *a.adder = std::move(*b.adder); break;
    case ETL: *a.etl = std::move(*b.etl); break;
    default: *a.cetl = std::move(*b.cetl); break;
  }
  swap_refs(a, b, h2, h);
  vrt_event("mvasg %d %d", h2, h);
  ++W->n_move;
  do_op(Op {h, 0, 1, true});
  do_op(Op {h2, 0, 1, true});
}

static void do_read(int h, bool conc, bool local = false);
static void check_zero_after_new(int h);

// instance churn on the calling (worker) thread, concurrent with the other threads' counting, creating
// and destroying: { Counter c; c << v; read c; } — the new counter typically recycles the id (and the
// cells) of a counter another thread has just destroyed or is destroying
static void do_local_round(const Op& op) {
  int h = do_new((Kind)op.local_kind);
  check_zero_after_new(h);
  do_op(Op {h, op.v, 1, false});
  if (op.n & 1) sched_yield();
  do_read(h, false, true);
  do_drop(h);
  ++W->n_local;
}

struct Worker {
  int first = 0, last = 0;                     // phases it takes part in
  std::vector<Op> ops;                          // ops of the current phase
  std::thread th;
  int done_phase = -1;                          // guarded by g_mu
};

// phase barrier: blocking (VRT emulates the mutex / condition variable), so parked threads cost no steps
static std::mutex g_mu;
static std::condition_variable g_cv;
static int g_phase = -1;

static void worker_main(Worker* w) {
  vrt_event("tstart");
  W->live_threads.insert(vrt_tid());
  Rng yr((uint64_t)vrt_tid() * 7919 + 13);
  for (int p = w->first; p <= w->last; ++p) {
    {
      std::unique_lock<std::mutex> lk(g_mu);
      g_cv.wait(lk, [&] { return g_phase >= p; });
    }
    for (auto& op : w->ops) {
      if (op.local_kind >= 0) do_local_round(op); else do_op(op);
      if (yr.chance(25)) sched_yield();
    }
    {
      std::lock_guard<std::mutex> lk(g_mu);
      w->done_phase = p;
    }
    g_cv.notify_all();
  }
  int me = vrt_tid();
  W->live_threads.erase(me);
  for (int k = 0; k < NKIND; ++k) W->fam_tid[k].erase(me);
  for (auto it = W->cell_owner.begin(); it != W->cell_owner.end();)
    it = (it->second.second == me) ? W->cell_owner.erase(it) : std::next(it);
  for (auto& kv : W->objs) kv.second->addr_of.erase(me);
  vrt_event("texit");
}

template <typename C>
static void add_storage_blocks(C& compact, std::set<const void*>& seen, std::vector<std::pair<const void*, size_t>>& out) {
  if (!seen.insert(compact._storage).second) return;
  collect_blocks(compact._storage->_storage, sizeof(typename C::CacheLine), out);
}

// `dying`: handles the main thread destroys during the phase.  The blocks of a bare thread-local are
// freed with it; if they stayed registered, the allocator could hand the memory to this harness's own
// tables and every plain access to those would become a scheduling point (races on harness data).
static void register_payload(const std::vector<int>& dying) {
  vrt_unname_all();
  std::set<const void*> seen;
  std::vector<std::pair<const void*, size_t>> blocks;
  for (auto& kv : W->objs) {
    Obj& o = *kv.second;
    if (o.kind == ETL && std::find(dying.begin(), dying.end(), kv.first) != dying.end()) continue;
    switch (o.kind) {
      case ADDER: add_storage_blocks(o.adder->_storage, seen, blocks); break;
      case SUMMER: add_storage_blocks(o.summer->_storage, seen, blocks); break;
      case MAXER: add_storage_blocks(o.maxer->_storage, seen, blocks); break;
      case MINER: add_storage_blocks(o.miner->_storage, seen, blocks); break;
      case ETL: collect_blocks(o.etl->_storage, sizeof(uint64_t), blocks); break;
      default: add_storage_blocks(*o.cetl, seen, blocks); break;
    }
  }
  for (auto& b : blocks) vrt_payload(b.first, b.second, "cells");
}

static std::vector<int> handles_of(bool movable_only) {
  std::vector<int> v;
  for (auto& kv : W->objs) {
    Kind k = kv.second->kind;
    if (!movable_only || k == ADDER || k == ETL || k == CETL) v.push_back(kv.first);
  }
  return v;
}

static void quiescent_reads(Rng& rng) {
  for (int h : handles_of(false)) {
    do_read(h, false);
    Kind k = W->objs[h]->kind;
    if ((k == ETL || k == CETL) && rng.chance(70)) do_alive(h, false);
    if ((k == ETL || k == CETL) && rng.chance(30)) do_alive(h, true);
  }
}

static Kind pick_kind(Rng& rng) {
  static const Kind ks[] = {ADDER, ADDER, ADDER, SUMMER, SUMMER, MAXER, MINER, ETL, ETL, CETL, CETL, CETL};
  return ks[rng.below(sizeof(ks) / sizeof(ks[0]))];
}

static void admin(Rng& rng, int intensity, int wide) {
  if (wide) {
    // wide burst: more live counters than fit one storage (NUM_PER_CACHELINE = 512 summers / 1024 adders)
    std::vector<int> made;
    int m = wide == 2 ? 1030 : 516;
    for (int j = 0; j < m; ++j) made.push_back(do_new(wide == 2 ? ADDER : SUMMER));
    ++W->n_cross;
    check_zero_after_new(made.back());
    for (size_t j = 0; j + 3 < made.size(); ++j) do_drop(made[j]);
  }
  int n = 1 + (int)rng.below(intensity);
  for (int i = 0; i < n; ++i) {
    int c = (int)rng.below(100);
    auto hs = handles_of(false);
    if (c < 35 || hs.size() < 3) {
      int h = do_new(pick_kind(rng));
      check_zero_after_new(h);
      do_read(h, false);
    } else if (c < 60) {
      int h = hs[rng.below(hs.size())];
      do_drop(h);
      if (rng.chance(60)) {   // recycle the id at once
        int h2 = do_new(pick_kind(rng));
        check_zero_after_new(h2);
        do_read(h2, false);
      }
    } else if (c < 72) {
      auto ms = handles_of(true);
      if (!ms.empty()) {
        int h = ms[rng.below(ms.size())];
        int h2 = do_mvnew(h);
        do_read(h2, false);
        do_read(h, false);
      }
    } else if (c < 82) {
      auto ms = handles_of(true);
      if (ms.size() >= 2) {
        int a = ms[rng.below(ms.size())], b = ms[rng.below(ms.size())];
        if (a != b && W->objs[a]->kind == W->objs[b]->kind) {
          do_mvasg(a, b);
          do_read(a, false);
          do_read(b, false);
        }
      }
    } else if (c < 92) {
      int h = hs[rng.below(hs.size())];
      if (W->objs[h]->kind != SUMMER) {
        do_reset(h);
        do_read(h, false);
      }
    } else {
      // burst of bare compact thread-locals: crosses the NUM_PER_CACHELINE boundary (several storages)
      int m = 10 + (int)rng.below(30);
      std::vector<int> made;
      for (int j = 0; j < m; ++j) made.push_back(do_new(CETL));
      ++W->n_cross;
      for (int h : made) check_zero_after_new(h);
      for (int h : made)
        if (rng.chance(75)) do_drop(h);
    }
  }
}

static void run_hist(uint64_t seed) {
  World world;
  W = &world;
  Rng rng(seed);
  int phases = 3 + (int)rng.below(4);
  int wide = seed % 64 == 0 ? 2 : seed % 16 == 0 ? 1 : 0;   // 2: adders, 1: summers
  g_phase = -1;
  vrt_unname_all();
  vrt_payload_sched(1);
  vrt_begin(seed);
  printf("RUN %lu mode=hist phases=%d\n", (unsigned long)seed, phases);
  W->live_threads.insert(0);
  admin(rng, 6, 0);
  std::vector<std::unique_ptr<Worker>> workers;
  std::vector<int> moved_last;   // handles involved in the move at the end of the previous phase
  for (int p = 0; p < phases; ++p) {
    // new generation
    int born = 1 + (int)rng.below(6);
    for (int i = 0; i < born && workers.size() < 40; ++i) {
      auto w = std::make_unique<Worker>();
      w->first = p;
      w->last = std::min(phases - 1, p + (rng.chance(45) ? 1 + (int)rng.below(3) : 0));
      workers.push_back(std::move(w));
      Worker* wp = workers.back().get();
      wp->th = std::thread(worker_main, wp);
    }
    // plan the phase: which handles the workers (and main) count into
    auto hs = handles_of(false);
    for (auto& kv : W->objs) kv.second->busy = false;
    std::vector<int> busy;
    for (int h : hs)
      if (rng.chance(75)) { busy.push_back(h); W->objs[h]->busy = true; }
    bool concurrent = rng.chance(50) && !busy.empty();
    // a move planned for the end of this phase: threads that live on touch the instance last thing
    // before it and first thing after it (their per-thread cache then names the moved-from object)
    int mv_a = 0, mv_b = 0;
    {
      auto ms = handles_of(true);
      if (!ms.empty() && rng.chance(60)) {
        mv_a = ms[rng.below(ms.size())];
        if (rng.chance(50)) {
          int b = ms[rng.below(ms.size())];
          if (b != mv_a && W->objs[b]->kind == W->objs[mv_a]->kind) mv_b = b;
        }
      }
    }
    // counters the main thread destroys WHILE the workers count / create / destroy elsewhere
    std::vector<int> doomed;
    for (int h : hs)
      if (!W->objs[h]->busy && h != mv_a && h != mv_b && doomed.size() < 4 && rng.chance(60) &&
          std::find(moved_last.begin(), moved_last.end(), h) == moved_last.end())
        doomed.push_back(h);
    static const Kind local_kinds[] = {ADDER, ADDER, SUMMER, MAXER, MINER, CETL};
    // a "hot" counter for the concurrent phases: the workers hammer it while the main thread reads it
    int hot = 0;
    if (concurrent) {
      std::vector<int> summers, others;
      for (int h : busy) {
        Kind k = W->objs[h]->kind;
        if (k == SUMMER) summers.push_back(h);
        else if (k != MAXER && k != MINER) others.push_back(h);
      }
      if (!summers.empty() && rng.chance(70)) hot = summers[rng.below(summers.size())];
      else if (!others.empty()) hot = others[rng.below(others.size())];
      else if (!summers.empty()) hot = summers[rng.below(summers.size())];
    }
    for (auto& w : workers) {
      w->ops.clear();
      if (w->last < p || w->first > p) continue;
      // first thing after the previous phase's move: the surviving thread touches both objects again
      if (w->first < p) {
        for (int h : moved_last)
          if (W->objs.count(h)) { w->ops.push_back(Op {h, 0, 1, true}); ++W->n_mvprobe; }
      }
      int n = busy.empty() ? 0 : 1 + (int)rng.below(12);
      for (int i = 0; i < n; ++i) {
        int h = busy[rng.below(busy.size())];
        Kind k = W->objs[h]->kind;
        Op op {h, pick_value(rng, k), 1, rng.chance(8)};
        if (k == SUMMER && rng.chance(40)) op.n = (long)rng.below(5);
        if (concurrent && (k == ADDER || k == SUMMER) && rng.chance(60)) op.v = std::labs(op.v) % 5000;
        w->ops.push_back(op);
      }
      if (hot) {
        Kind k = W->objs[hot]->kind;
        int extra = 3 + (int)rng.below(8);
        for (int i = 0; i < extra; ++i) {
          Op op {hot, pick_value(rng, k), 1, false};
          if (k == SUMMER && rng.chance(40)) op.n = (long)rng.below(5);
          w->ops.insert(w->ops.begin() + rng.below(w->ops.size() + 1), op);
        }
      }
      int locals = (int)rng.below(4);
      for (int i = 0; i < locals; ++i) {
        Kind k = local_kinds[rng.below(sizeof(local_kinds) / sizeof(local_kinds[0]))];
        Op op {0, pick_value(rng, k), (long)rng.below(2), false};
        op.local_kind = (int)k;
        w->ops.insert(w->ops.begin() + rng.below(w->ops.size() + 1), op);
      }
      if (mv_a && w->last > p) { w->ops.push_back(Op {mv_a, 0, 1, true}); ++W->n_mvprobe; }
    }
    register_payload(doomed);
    {
      std::lock_guard<std::mutex> lk(g_mu);
      g_phase = p;
    }
    g_cv.notify_all();
    // the main thread is a counting thread too, and in concurrent phases a reader / creator / destroyer
    int mine = (int)rng.below(5);
    for (int i = 0; i < mine && !busy.empty(); ++i) {
      int h = busy[rng.below(busy.size())];
      do_op(Op {h, pick_value(rng, W->objs[h]->kind), 1, rng.chance(10)});
      sched_yield();
    }
    for (int h : doomed) {
      do_drop(h);
      ++W->n_doomed;
      sched_yield();
      if (rng.chance(50)) {   // and recycle at once, on this thread, while the workers churn too
        Op op {0, pick_value(rng, ADDER), 1, false};
        op.local_kind = (int)local_kinds[rng.below(sizeof(local_kinds) / sizeof(local_kinds[0]))];
        op.v = pick_value(rng, (Kind)op.local_kind);
        do_local_round(op);
      }
    }
    if (hot) {
      int reads = 4 + (int)rng.below(8);
      for (int i = 0; i < reads; ++i) {
        do_read(hot, true);
        sched_yield();
      }
    }
    if (concurrent) {
      int n = 1 + (int)rng.below(5);
      std::vector<int> temp;
      for (int i = 0; i < n; ++i) {
        int c = (int)rng.below(10);
        if (c < 6) {
          int h = busy[rng.below(busy.size())];
          Kind k = W->objs[h]->kind;
          if (k != MAXER && k != MINER) do_read(h, true);
        } else if (c < 8 || temp.empty()) {
          int h = do_new(pick_kind(rng));   // instance churn while the workers count elsewhere
          check_zero_after_new(h);
          temp.push_back(h);
        } else {
          do_drop(temp.back());
          temp.pop_back();
        }
        sched_yield();
      }
    }
    {
      std::unique_lock<std::mutex> lk(g_mu);
      g_cv.wait(lk, [&] {
        for (auto& w : workers)
          if (w->first <= p && p <= w->last && w->done_phase < p) return false;
        return true;
      });
    }
    for (auto& w : workers)
      if (w->last == p && w->th.joinable()) w->th.join();
    vrt_unname_all();   // the quiescent section needs no extra scheduling points
    // quiescent point
    quiescent_reads(rng);
    moved_last.clear();
    if (mv_a && W->objs.count(mv_a)) {
      if (mv_b && W->objs.count(mv_b)) {
        do_mvasg(mv_b, mv_a);
        moved_last = {mv_a, mv_b};
      } else {
        int h2 = do_mvnew(mv_a);
        moved_last = {mv_a, h2};
      }
    }
    admin(rng, 5, p == 1 ? wide : 0);
    quiescent_reads(rng);
  }
  for (int h : handles_of(false)) do_drop(h);
  vrt_event("stats phases %d threads %zu adds %lu reads %lu creads %lu alive %lu new %lu drop %lu move %lu reset %lu probe %lu reuse_inst %lu reuse_tid %lu cross %lu local %lu doomed %lu mvprobe %lu steps %lu switches %lu",
            phases, workers.size(), W->n_add, W->n_read, W->n_cread, W->n_alive, W->n_new, W->n_drop, W->n_move, W->n_reset, W->n_probe,
            W->n_reuse_inst, W->n_reuse_tid, W->n_cross, W->n_local, W->n_doomed, W->n_mvprobe, vrt_steps(), vrt_switches());
  vrt_end();
  vrt_payload_sched(0);
  vrt_dump(stdout);
  W = nullptr;
}

// witness: a live thread holds a thread id of the type but never touched THIS instance's storage
static void run_wfea(uint64_t seed) {
  vrt_unname_all();
  vrt_begin(seed);
  printf("RUN %lu mode=wfea\n", (unsigned long)seed);
  {
    EtlT a, b;
    a.local() = 5;
    size_t n = 0, k = 0;
    b.for_each_alive([&](uint64_t* i, uint64_t* e) { for (; i != e; ++i) { n += *i; ++k; } });
    vrt_event("wfea etl visited %zu sum %zu", k, n);
    if (k != 0 || n != 0) vrt_event("ORACLE for_each_alive-untouched etl: visited %zu slots of a storage nobody touched", k);
  }
  {
    std::vector<std::unique_ptr<CetlT>> c;
    for (unsigned i = 0; i < CetlT::NUM_PER_CACHELINE + 1; ++i) c.push_back(std::make_unique<CetlT>());
    c[0]->local() = 5;
    size_t n = 0, k = 0;
    c.back()->for_each_alive([&](uint64_t& v) { n += v; ++k; });
    vrt_event("wfea cetl visited %zu sum %zu", k, n);
    if (k != 0 || n != 0) vrt_event("ORACLE for_each_alive-untouched cetl: visited %zu slots of a storage nobody touched", k);
  }
  vrt_end();
  vrt_dump(stdout);
}

// witness: the only sample of the period equals EXTREMUM (or, floating point, is not positive)
static void run_wext(uint64_t seed) {
  vrt_unname_all();
  vrt_begin(seed);
  printf("RUN %lu mode=wext\n", (unsigned long)seed);
  {
    ConcurrentMaxer m;
    m << LONG_MIN;
    ssize_t v = 7;
    bool r = m.value(v);
    vrt_event("wext maxer %d %ld", (int)r, (long)v);
    if (!r || v != LONG_MIN || m.value() != LONG_MIN) vrt_event("ORACLE extremum-sample maxer << SSIZE_MIN reports (%d, %ld)", (int)r, (long)v);
  }
  {
    ConcurrentMiner m;
    m << LONG_MAX;
    ssize_t v = 7;
    bool r = m.value(v);
    vrt_event("wext miner %d %ld", (int)r, (long)v);
    if (!r || v != LONG_MAX) vrt_event("ORACLE extremum-sample miner << SSIZE_MAX reports (%d, %ld)", (int)r, (long)v);
  }
  {
    GenericsConcurrentMaxer<double> m;
    m << -1.5;
    double v = 7;
    bool r = m.value(v);
    vrt_event("wext maxer-double %d %d", (int)r, (int)(v * 10));
    if (!r || v != -1.5) vrt_event("ORACLE extremum-sample maxer<double> << -1.5 reports (%d, %f)", (int)r, v);
  }
  {
    GenericsConcurrentMaxer<uint64_t> m;
    m << 0;
    uint64_t v = 7;
    bool r = m.value(v);
    vrt_event("wext maxer-u64 %d %lu", (int)r, (unsigned long)v);
    if (!r || v != 0) vrt_event("ORACLE extremum-sample maxer<uint64_t> << 0 reports (%d, %lu)", (int)r, (unsigned long)v);
  }
  vrt_end();
  vrt_dump(stdout);
}

int main(int argc, char** argv) {
  std::string mode = argc > 1 ? argv[1] : "hist";
  uint64_t seed0 = argc > 2 ? strtoull(argv[2], 0, 10) : 1;
  int nruns = argc > 3 ? atoi(argv[3]) : 1;
  for (int i = 0; i < nruns; ++i) {
    uint64_t seed = seed0 + i;
    // the library's static allocators persist inside a process and the model starts from the initial
    // state, so every run gets a fresh (forked, still single-threaded) process
    fflush(stdout);
    pid_t pid = fork();
    if (pid == 0) {
      if (mode == "hist") run_hist(seed);
      else if (mode == "wfea") run_wfea(seed);
      else if (mode == "wext") run_wext(seed);
      else _exit(2);
      fflush(stdout);
      _exit(0);
    }
    int st = 0;
    waitpid(pid, &st, 0);
    if (WIFSIGNALED(st)) {
      // the child died without flushing anything (VRT's own verdicts flush a complete run and exit 42)
      printf("RUN %lu mode=%s\nVERDICT crash signal=%d\nEND\n", (unsigned long)seed, mode.c_str(), WTERMSIG(st));
    } else if (WIFEXITED(st) && WEXITSTATUS(st) != 0 && WEXITSTATUS(st) != 42) {
      printf("RUN %lu mode=%s\nVERDICT crash exit=%d\nEND\n", (unsigned long)seed, mode.c_str(), WEXITSTATUS(st));
    }
  }
  return 0;
}
