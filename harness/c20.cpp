// Harness for C20 (logging) on the real LogStreamBuffer / LogEntry / AsyncFileAppender.
//
// usage: c20 entry      E-SEQ op-line interpreter (same protocol as lean/Drivers/C20.lean)
//        c20 appender   multi-threaded runs of the real AsyncFileAppender, one per input line
//
// entry mode, one op per line, one canonical output line per op:
//   reset | ps N | begin | put N | putc | sync | end | discard
// Pages are printed as the sequence number of the allocate() call that returned them (the
// recording allocator hands out exactly page_size bytes per page, so ASan sees any overrun).
// The property ORACLE is evaluated on the implementation at `end` (bytes described by the scatter
// list == bytes streamed; every page allocated for the entry appears exactly once) and at `discard`
// (multiset freed == multiset allocated); a failure appends " !ORACLE(kind ...)".
#include <babylon/logging/async_file_appender.h>
#include <babylon/logging/log_entry.h>

#include <fcntl.h>
#include <sys/mman.h>
#include <sys/syscall.h>
#include <sys/uio.h>
#include <unistd.h>

#include <algorithm>
#include <atomic>
#include <cstdint>
#include <cstdio>
#include <cstring>
#include <iostream>
#include <map>
#include <mutex>
#include <new>
#include <sstream>
#include <string>
#include <thread>
#include <unordered_map>
#include <vector>

using namespace babylon;

// ------------------------------------------------------------------------------------------
// recording page allocator: exact-size pages, numbered by allocation order
class RecAllocator : public PageAllocator {
 public:
  explicit RecAllocator(size_t ps) : _ps(ps) {}
  ~RecAllocator() noexcept override {
    for (auto& e : _live) {
      ::operator delete(e.first, std::align_val_t(8));
    }
  }
  size_t page_size() const noexcept override { return _ps; }
  using PageAllocator::allocate;
  using PageAllocator::deallocate;
  void allocate(void** pages, size_t num) noexcept override {
    std::lock_guard<std::mutex> g(_mu);
    for (size_t i = 0; i < num; ++i) {
      void* p = ::operator new(_ps ? _ps : 1, std::align_val_t(8));
      std::memset(p, 0xEE, _ps);
      _live[p] = _next;
      _ever[p] = _next;
      _allocated.push_back(_next);
      ++_next;
      pages[i] = p;
    }
  }
  void deallocate(void** pages, size_t num) noexcept override {
    std::lock_guard<std::mutex> g(_mu);
    ++_dealloc_calls;
    for (size_t i = 0; i < num; ++i) {
      auto it = _live.find(pages[i]);
      if (it == _live.end()) {
        ++_bad_free;  // double free or a pointer that is not a live page
        _freed.push_back(SIZE_MAX);
        continue;
      }
      _freed.push_back(it->second);
      ::operator delete(pages[i], std::align_val_t(8));
      _live.erase(it);
    }
  }
  // page number of a live page (SIZE_MAX when unknown)
  size_t number(const void* p) {
    std::lock_guard<std::mutex> g(_mu);
    auto it = _live.find(const_cast<void*>(p));
    return it == _live.end() ? SIZE_MAX : it->second;
  }
  size_t live() {
    std::lock_guard<std::mutex> g(_mu);
    return _live.size();
  }
  size_t _ps;
  std::mutex _mu;
  std::unordered_map<void*, size_t> _live;
  std::unordered_map<void*, size_t> _ever;
  std::vector<size_t> _allocated;  // all page numbers handed out (in order)
  std::vector<size_t> _freed;      // page numbers returned (in order)
  size_t _next {0};
  size_t _bad_free {0};
  size_t _dealloc_calls {0};
};

static inline unsigned char pat(uint64_t e, uint64_t k) {
  return static_cast<unsigned char>((k * 131 + (k / 256) * 7 + e * 13 + 1) % 251);
}
static inline uint64_t fnv(const std::string& s) {
  uint64_t h = 14695981039346656037ull;
  for (unsigned char c : s) {
    h ^= c;
    h *= 1099511628211ull;
  }
  return h;
}

// ------------------------------------------------------------------------------------------
// entry mode
struct EntryRunner {
  std::unique_ptr<RecAllocator> alloc;
  std::unique_ptr<AsyncFileAppender> app;  // never initialized: only discard() is used
  std::unique_ptr<LogStreamBuffer> buf;
  uint64_t entry_no {0};
  uint64_t k {0};
  std::string streamed;
  size_t alloc_mark {0};  // alloc->_allocated.size() at begin()
  LogEntry* ended {nullptr};

  void set_ps(size_t ps) {
    buf.reset();
    app.reset();
    alloc.reset(new RecAllocator(ps));
    app.reset(new AsyncFileAppender);
    app->set_page_allocator(*alloc);
    buf.reset(new LogStreamBuffer);
    buf->set_page_allocator(*alloc);
    entry_no = 0;
    k = 0;
    streamed.clear();
    alloc_mark = 0;
    ended = nullptr;
  }

  std::string status() {
    std::ostringstream os;
    os << "sz " << buf->_log.size << " np " << (alloc->_allocated.size() - alloc_mark);
    return os.str();
  }

  std::string step(const std::vector<std::string>& w) {
    std::ostringstream os;
    if (w.size() == 1 && w[0] == "reset") {
      buf.reset();
      app.reset();
      alloc.reset();
      return "ok";
    }
    if (w.size() == 2 && w[0] == "ps") {
      set_ps(std::stoull(w[1]));
      return "ok";
    }
    if (!buf) {
      return "bad-op";
    }
    if (w.size() == 1 && w[0] == "begin") {
      buf->begin();
      ++entry_no;
      k = 0;
      streamed.clear();
      alloc_mark = alloc->_allocated.size();
      ended = nullptr;
      return "ok";
    }
    if (w.size() == 2 && w[0] == "put") {
      size_t n = std::stoull(w[1]);
      std::string data(n, '\0');
      for (size_t i = 0; i < n; ++i) {
        data[i] = static_cast<char>(pat(entry_no, k + i));
      }
      auto r = buf->sputn(data.data(), static_cast<std::streamsize>(n));
      k += n;
      streamed += data;
      std::string s = status();
      if (static_cast<size_t>(r) != n) {
        s += " !ORACLE(sputn accepted " + std::to_string(r) + " of " + std::to_string(n) + ")";
      }
      return s;
    }
    if (w.size() == 1 && w[0] == "putc") {
      char c = static_cast<char>(pat(entry_no, k));
      buf->sputc(c);
      ++k;
      streamed.push_back(c);
      return status();
    }
    if (w.size() == 1 && w[0] == "sync") {
      buf->pubsync();
      return status();
    }
    if (w.size() == 1 && w[0] == "end") {
      LogEntry& e = buf->end();
      ended = &e;
      std::vector<struct ::iovec> iov;
      e.append_to_iovec(alloc->page_size(), iov);
      std::string got;
      std::map<size_t, size_t> seen;
      os << "size " << e.size << " n " << iov.size() << " iov";
      bool unknown = false;
      for (auto& v : iov) {
        size_t num = alloc->number(v.iov_base);
        if (num == SIZE_MAX) {
          unknown = true;
          os << " ?:" << v.iov_len;
          continue;
        }
        os << " " << num << ":" << v.iov_len;
        ++seen[num];
        got.append(static_cast<const char*>(v.iov_base), v.iov_len);
      }
      os << " hash " << fnv(got);
      if (unknown) {
        os << " !ORACLE(pages scatter list names memory that is not a live page)";
      }
      if (e.size != streamed.size() || got != streamed) {
        os << " !ORACLE(bytes scatter list describes " << got.size() << " bytes, size field " << e.size
           << ", streamed " << streamed.size() << (got.size() == streamed.size() ? ", content differs" : "") << ")";
      }
      bool once = true;
      for (size_t i = alloc_mark; i < alloc->_allocated.size(); ++i) {
        once &= seen.count(alloc->_allocated[i]) && seen[alloc->_allocated[i]] == 1;
      }
      if (!once || seen.size() != alloc->_allocated.size() - alloc_mark) {
        os << " !ORACLE(pages " << (alloc->_allocated.size() - alloc_mark) << " pages allocated for the entry, "
           << seen.size() << " distinct pages in the scatter list of " << iov.size() << " elements)";
      }
      return os.str();
    }
    if (w.size() == 1 && w[0] == "discard") {
      if (!ended) {
        return "bad-op";
      }
      size_t mark = alloc->_freed.size();
      app->discard(*ended);
      ended = nullptr;
      os << "freed";
      std::vector<size_t> freed(alloc->_freed.begin() + static_cast<ptrdiff_t>(mark), alloc->_freed.end());
      for (auto p : freed) {
        if (p == SIZE_MAX) {
          os << " ?";
        } else {
          os << " " << p;
        }
      }
      std::vector<size_t> want(alloc->_allocated.begin() + static_cast<ptrdiff_t>(alloc_mark), alloc->_allocated.end());
      std::sort(freed.begin(), freed.end());
      std::sort(want.begin(), want.end());
      if (freed != want || alloc->live() != 0) {
        os << " !ORACLE(returned " << freed.size() << " pages freed, " << want.size() << " allocated for the entry, "
           << alloc->live() << " still live, " << alloc->_bad_free << " bad frees)";
      }
      alloc_mark = alloc->_allocated.size();
      return os.str();
    }
    return "bad-op";
  }

  void run() {
    std::string line;
    while (std::getline(std::cin, line)) {
      std::istringstream is(line);
      std::vector<std::string> w;
      std::string t;
      while (is >> t) {
        w.push_back(t);
      }
      std::cout << step(w) << "\n" << std::flush;
    }
  }
};

int run_appender_mode();

int main(int argc, char** argv) {
  std::string mode = argc > 1 ? argv[1] : "entry";
  if (mode == "entry") {
    EntryRunner().run();
    return 0;
  }
  if (mode == "appender") {
    return run_appender_mode();
  }
  return 2;
}

int run_appender_mode() {
  return 2;
}
