// Harness for C20 (logging) on the real LogStreamBuffer / LogEntry / AsyncFileAppender.
//
// usage: c20 entry      E-SEQ op-line interpreter (same protocol as lean/Drivers/C20.lean)
//        c20 appender   multi-threaded runs of the real AsyncFileAppender, one per input line
//
// entry mode, one op per line, one canonical output line per op:
//   reset | ps N | begin | put N | putc | sync | end | discard
// Pages are printed as the sequence number of the allocate() call that returned them (the
// recording allocator hands out exactly page_size bytes per page, so ASan sees any overrun).
// The property ORACLE is evaluated on the implementation at `end` (bytes described by the scatter
// list == bytes streamed; every page allocated for the entry appears exactly once) and at `discard`
// (multiset freed == multiset allocated); a failure appends " !ORACLE(kind ...)".
#include <babylon/logging/async_file_appender.h>
#include <babylon/logging/log_entry.h>

#include <fcntl.h>
#include <sys/mman.h>
#include <sys/syscall.h>
#include <sys/uio.h>
#include <unistd.h>

#include <algorithm>
#include <atomic>
#include <cstdint>
#include <cstdio>
#include <cstring>
#include <iostream>
#include <map>
#include <mutex>
#include <new>
#include <sstream>
#include <string>
#include <thread>
#include <unordered_map>
#include <vector>

using namespace babylon;

// ------------------------------------------------------------------------------------------
// recording page allocator: exact-size pages, numbered by allocation order
class RecAllocator : public PageAllocator {
 public:
  explicit RecAllocator(size_t ps) : _ps(ps) {}
  ~RecAllocator() noexcept override {
    for (auto& e : _live) {
      ::operator delete(e.first, std::align_val_t(8));
    }
  }
  size_t page_size() const noexcept override { return _ps; }
  using PageAllocator::allocate;
  using PageAllocator::deallocate;
  void allocate(void** pages, size_t num) noexcept override {
    std::lock_guard<std::mutex> g(_mu);
    for (size_t i = 0; i < num; ++i) {
      void* p = ::operator new(_ps ? _ps : 1, std::align_val_t(8));
      std::memset(p, 0xEE, _ps);
      _live[p] = _next;
      _ever[p] = _next;
      _allocated.push_back(_next);
      ++_next;
      pages[i] = p;
    }
  }
  void deallocate(void** pages, size_t num) noexcept override {
    std::lock_guard<std::mutex> g(_mu);
    ++_dealloc_calls;
    for (size_t i = 0; i < num; ++i) {
      auto it = _live.find(pages[i]);
      if (it == _live.end()) {
        ++_bad_free;  // double free or a pointer that is not a live page
        _freed.push_back(SIZE_MAX);
        continue;
      }
      _freed.push_back(it->second);
      ::operator delete(pages[i], std::align_val_t(8));
      _live.erase(it);
    }
  }
  // page number of a live page (SIZE_MAX when unknown)
  size_t number(const void* p) {
    std::lock_guard<std::mutex> g(_mu);
    auto it = _live.find(const_cast<void*>(p));
    return it == _live.end() ? SIZE_MAX : it->second;
  }
  size_t live() {
    std::lock_guard<std::mutex> g(_mu);
    return _live.size();
  }
  size_t _ps;
  std::mutex _mu;
  std::unordered_map<void*, size_t> _live;
  std::unordered_map<void*, size_t> _ever;
  std::vector<size_t> _allocated;  // all page numbers handed out (in order)
  std::vector<size_t> _freed;      // page numbers returned (in order)
  size_t _next {0};
  size_t _bad_free {0};
  size_t _dealloc_calls {0};
};

static inline unsigned char pat(uint64_t e, uint64_t k) {
  return static_cast<unsigned char>((k * 131 + (k / 256) * 7 + e * 13 + 1) % 251);
}
static inline uint64_t fnv(const std::string& s) {
  uint64_t h = 14695981039346656037ull;
  for (unsigned char c : s) {
    h ^= c;
    h *= 1099511628211ull;
  }
  return h;
}

// ------------------------------------------------------------------------------------------
// entry mode
struct EntryRunner {
  std::unique_ptr<RecAllocator> alloc;
  std::unique_ptr<AsyncFileAppender> app;  // never initialized: only discard() is used
  std::unique_ptr<LogStreamBuffer> buf;
  uint64_t entry_no {0};
  uint64_t k {0};
  std::string streamed;
  size_t alloc_mark {0};  // alloc->_allocated.size() at begin()
  LogEntry* ended {nullptr};

  void set_ps(size_t ps) {
    buf.reset();
    app.reset();
    alloc.reset(new RecAllocator(ps));
    app.reset(new AsyncFileAppender);
    app->set_page_allocator(*alloc);
    buf.reset(new LogStreamBuffer);
    buf->set_page_allocator(*alloc);
    entry_no = 0;
    k = 0;
    streamed.clear();
    alloc_mark = 0;
    ended = nullptr;
  }

  std::string status() {
    std::ostringstream os;
    os << "sz " << buf->_log.size << " np " << (alloc->_allocated.size() - alloc_mark);
    return os.str();
  }

  // Running oracle, evaluated after every op: the size field plus the bytes written since the last
  // sync point is the number of bytes streamed so far; after an op that flushes (pubsync / end) the
  // size field alone is, and the scatter list describes exactly the bytes streamed so far.
  std::string progress_oracle(bool flushed) {
    std::ostringstream os;
    size_t pending = 0;
    if (buf->pptr() != nullptr && buf->_sync_point != nullptr && buf->pptr() > buf->_sync_point) {
      pending = static_cast<size_t>(buf->pptr() - buf->_sync_point);
    }
    if (buf->_log.size + pending != streamed.size() || (flushed && buf->_log.size != streamed.size())) {
      os << " !ORACLE(bytes size field " << buf->_log.size << " + " << pending << " unsynchronised != "
         << streamed.size() << " bytes streamed so far)";
      return os.str();
    }
    if (flushed) {
      std::vector<struct ::iovec> iov;
      buf->_log.append_to_iovec(alloc->page_size(), iov);
      std::string got;
      for (auto& v : iov) {
        if (alloc->number(v.iov_base) == SIZE_MAX) {
          return " !ORACLE(pages scatter list names memory that is not a live page)";
        }
        got.append(static_cast<const char*>(v.iov_base), v.iov_len);
      }
      if (got != streamed) {
        os << " !ORACLE(bytes after flush the scatter list describes " << got.size() << " bytes, streamed "
           << streamed.size() << (got.size() == streamed.size() ? ", content differs" : "") << ")";
      }
    }
    return os.str();
  }

  std::string step(const std::vector<std::string>& w) {
    std::ostringstream os;
    if (w.size() == 1 && w[0] == "reset") {
      buf.reset();
      app.reset();
      alloc.reset();
      return "ok";
    }
    if (w.size() == 2 && w[0] == "ps") {
      set_ps(std::stoull(w[1]));
      return "ok";
    }
    if (!buf) {
      return "bad-op";
    }
    if (w.size() == 1 && w[0] == "begin") {
      buf->begin();
      ++entry_no;
      k = 0;
      streamed.clear();
      alloc_mark = alloc->_allocated.size();
      ended = nullptr;
      return "ok";
    }
    if (w.size() == 2 && w[0] == "put") {
      size_t n = std::stoull(w[1]);
      std::string data(n, '\0');
      for (size_t i = 0; i < n; ++i) {
        data[i] = static_cast<char>(pat(entry_no, k + i));
      }
      auto r = buf->sputn(data.data(), static_cast<std::streamsize>(n));
      k += n;
      streamed += data;
      std::string s = status();
      if (static_cast<size_t>(r) != n) {
        s += " !ORACLE(sputn accepted " + std::to_string(r) + " of " + std::to_string(n) + ")";
      }
      return s + progress_oracle(false);
    }
    if (w.size() == 1 && w[0] == "putc") {
      char c = static_cast<char>(pat(entry_no, k));
      buf->sputc(c);
      ++k;
      streamed.push_back(c);
      return status() + progress_oracle(false);
    }
    if (w.size() == 1 && w[0] == "sync") {
      buf->pubsync();
      return status() + progress_oracle(true);
    }
    if (w.size() == 1 && w[0] == "end") {
      LogEntry& e = buf->end();
      ended = &e;
      std::vector<struct ::iovec> iov;
      e.append_to_iovec(alloc->page_size(), iov);
      std::string got;
      std::map<size_t, size_t> seen;
      os << "size " << e.size << " n " << iov.size() << " iov";
      bool unknown = false;
      for (auto& v : iov) {
        size_t num = alloc->number(v.iov_base);
        if (num == SIZE_MAX) {
          unknown = true;
          os << " ?:" << v.iov_len;
          continue;
        }
        os << " " << num << ":" << v.iov_len;
        ++seen[num];
        got.append(static_cast<const char*>(v.iov_base), v.iov_len);
      }
      os << " hash " << fnv(got);
      if (unknown) {
        os << " !ORACLE(pages scatter list names memory that is not a live page)";
      }
      if (e.size != streamed.size() || got != streamed) {
        os << " !ORACLE(bytes scatter list describes " << got.size() << " bytes, size field " << e.size
           << ", streamed " << streamed.size() << (got.size() == streamed.size() ? ", content differs" : "") << ")";
      }
      bool once = true;
      for (size_t i = alloc_mark; i < alloc->_allocated.size(); ++i) {
        once &= seen.count(alloc->_allocated[i]) && seen[alloc->_allocated[i]] == 1;
      }
      if (!once || seen.size() != alloc->_allocated.size() - alloc_mark) {
        os << " !ORACLE(pages " << (alloc->_allocated.size() - alloc_mark) << " pages allocated for the entry, "
           << seen.size() << " distinct pages in the scatter list of " << iov.size() << " elements)";
      }
      return os.str();
    }
    if (w.size() == 1 && w[0] == "discard") {
      if (!ended) {
        return "bad-op";
      }
      size_t mark = alloc->_freed.size();
      app->discard(*ended);
      ended = nullptr;
      os << "freed";
      std::vector<size_t> freed(alloc->_freed.begin() + static_cast<ptrdiff_t>(mark), alloc->_freed.end());
      for (auto p : freed) {
        if (p == SIZE_MAX) {
          os << " ?";
        } else {
          os << " " << p;
        }
      }
      std::vector<size_t> want(alloc->_allocated.begin() + static_cast<ptrdiff_t>(alloc_mark), alloc->_allocated.end());
      std::sort(freed.begin(), freed.end());
      std::sort(want.begin(), want.end());
      if (freed != want || alloc->live() != 0) {
        os << " !ORACLE(returned " << freed.size() << " pages freed, " << want.size() << " allocated for the entry, "
           << alloc->live() << " still live, " << alloc->_bad_free << " bad frees)";
      }
      alloc_mark = alloc->_allocated.size();
      return os.str();
    }
    return "bad-op";
  }

  void run() {
    std::string line;
    while (std::getline(std::cin, line)) {
      std::istringstream is(line);
      std::vector<std::string> w;
      std::string t;
      while (is >> t) {
        w.push_back(t);
      }
      std::cout << step(w) << "\n" << std::flush;
    }
  }
};

int run_appender_mode();

int main(int argc, char** argv) {
  std::string mode = argc > 1 ? argv[1] : "entry";
  if (mode == "entry") {
    EntryRunner().run();
    return 0;
  }
  if (mode == "appender") {
    return run_appender_mode();
  }
  return 2;
}

// ------------------------------------------------------------------------------------------
// appender mode: the real AsyncFileAppender under 1..4 logging threads.
//
// input, one run per line:   run threads=T ps=P cap=Q files=F rot=R n=N seed=S
//   T logging threads write N entries each into F recording file objects (memfd-backed; every R-th
//   check_and_get_file_descriptor of a file object returns a fresh descriptor = rotation, R=0: never),
//   queue capacity Q, page size P; close() after the writers have joined.
//   discard=PCT: each logging thread discard()s PCT % of its entries instead of writing them (several
//   threads inside AsyncFileAppender::discard at the same time); nosleep=1: no pauses between entries.
//   sessions=S: initialize(); threads; close() repeated S times on the SAME appender and file objects.
//   outage=1: while thread 0 writes the middle third of its entries every file object returns fd < 0
//   (entries flushed then are lost by design - writev to a bad descriptor - but their pages must come back).
//   burst=1 tiny=1: every thread first builds its n entries, then all threads call write() back to back
//   from a spin barrier (contention on the queue's push index).
//   drain=1 (default): wait until pending_size()==0 before close().  close() on a FULL queue sleeps in
//   futex_wait and is never woken (the consumer pops without futex wake): see patches/C20-close-lost-wakeup.diff.
//   drain=0 slow=MS: no draining, and the first descriptor check sleeps MS milliseconds, so that the
//   queue is full when close() is called (the probe for that hang; run under a timeout).
// output per run:
//   RUN <line>
//   T <model op line>     the recorded run as events of the abstract model (lean/Drivers/C20.lean `app …`)
//   O <observed line>     what the implementation did for that op, in the model driver's output format
//   STATS …
//   ORACLE ok | ORACLE !ORACLE(kind …)    property oracle on the files read back + the allocator
//   END
struct RecEvent {
  enum Kind { CHECK, WRITEV, DEALLOC, SESSION_END } kind;
  size_t file {0};
  size_t fdidx {0};
  std::vector<std::pair<size_t, size_t>> iov;  // WRITEV: (page#, len)
  std::vector<size_t> pages;                   // DEALLOC
};

struct Recorder {
  std::mutex mu;
  std::vector<RecEvent> events;
  std::map<int, std::pair<size_t, size_t>> fdmap;  // live fd -> (file, fd index)
  RecAllocator* alloc {nullptr};
};
static Recorder* g_rec = nullptr;
static const size_t BAD_FD = 999999;                // canonical name of "no descriptor" (fd < 0)
static std::atomic<bool> g_outage {false};          // file objects currently return fd < 0
static std::atomic<long> g_last_check_file {-1};    // file object of the writer's latest descriptor check
static thread_local bool t_logging_thread = false;  // deallocate() from a logging thread = discard()

extern "C" ssize_t writev(int fd, const struct iovec* iov, int cnt) {
  Recorder* rec = g_rec;
  if (rec != nullptr) {
    std::lock_guard<std::mutex> g(rec->mu);
    auto it = rec->fdmap.find(fd);
    if (it != rec->fdmap.end() || (fd < 0 && g_last_check_file.load() >= 0)) {
      RecEvent e;
      e.kind = RecEvent::WRITEV;
      // fd < 0: the file object had no descriptor this round; the data goes nowhere (EBADF)
      e.file = fd < 0 ? static_cast<size_t>(g_last_check_file.load()) : it->second.first;
      e.fdidx = fd < 0 ? BAD_FD : it->second.second;
      for (int i = 0; i < cnt; ++i) {
        e.iov.emplace_back(rec->alloc->number(iov[i].iov_base), iov[i].iov_len);
      }
      rec->events.push_back(std::move(e));
    }
  }
  return ::syscall(SYS_writev, fd, iov, cnt);
}

// allocator that also reports deallocate() calls to the recorder
class RecAllocator2 : public RecAllocator {
 public:
  using RecAllocator::RecAllocator;
  using PageAllocator::allocate;
  using PageAllocator::deallocate;
  void deallocate(void** pages, size_t num) noexcept override {
    RecEvent e;
    e.kind = RecEvent::DEALLOC;
    for (size_t i = 0; i < num; ++i) {
      e.pages.push_back(number(pages[i]));
    }
    RecAllocator::deallocate(pages, num);
    if (t_logging_thread) {
      return;  // discard() by a logging thread: not an event of the writer's rounds
    }
    if (g_rec != nullptr) {
      std::lock_guard<std::mutex> g(g_rec->mu);
      g_rec->events.push_back(std::move(e));
    }
  }
};

struct MemFile : public FileObject {
  size_t id {0};
  int cur {-1};
  std::vector<int> keep;  // dup()s of every descriptor handed out, for reading back
  size_t calls {0};
  size_t rot_every {0};
  size_t slow_ms {0};
  std::tuple<int, int> check_and_get_file_descriptor() noexcept override {
    int old = -1;
    if (slow_ms != 0 && calls == 0) {
      ::usleep(static_cast<useconds_t>(slow_ms * 1000));
    }
    g_last_check_file.store(static_cast<long>(id));
    if (g_outage.load()) {
      // outage: no usable descriptor; whatever is queued for this file in this round is lost, but
      // its pages must still go back to the allocator
      ++calls;
      std::lock_guard<std::mutex> g(g_rec->mu);
      RecEvent e;
      e.kind = RecEvent::CHECK;
      e.file = id;
      e.fdidx = BAD_FD;
      g_rec->events.push_back(std::move(e));
      return std::tuple<int, int>(-1, -1);
    }
    if (cur < 0 || (rot_every != 0 && calls % rot_every == 0)) {
      old = cur;
      cur = static_cast<int>(::syscall(SYS_memfd_create, "c20", 0));
      keep.push_back(::dup(cur));
      std::lock_guard<std::mutex> g(g_rec->mu);
      if (old >= 0) {
        g_rec->fdmap.erase(old);
      }
      g_rec->fdmap[cur] = {id, keep.size() - 1};
    }
    ++calls;
    {
      std::lock_guard<std::mutex> g(g_rec->mu);
      RecEvent e;
      e.kind = RecEvent::CHECK;
      e.file = id;
      e.fdidx = keep.size() - 1;
      g_rec->events.push_back(std::move(e));
    }
    return std::tuple<int, int>(cur, old);
  }
};

struct Written {
  size_t tid, seq, file, size;
  std::vector<std::pair<size_t, size_t>> iov;
  long round {-1};
  bool discarded {false};
  bool lost {false};  // written during an outage of its file object (fd < 0): legitimately absent from the file
  LogEntry entry;     // burst mode: the finished entry, pushed later
};

static inline uint64_t mix(uint64_t& x) {
  x ^= x << 13;
  x ^= x >> 7;
  x ^= x << 17;
  return x;
}

static std::string payload(size_t tid, size_t seq, size_t len) {
  std::string s(16 + len, '\0');
  uint32_t h[4] = {0x31474f4cu, static_cast<uint32_t>(tid), static_cast<uint32_t>(seq), static_cast<uint32_t>(len)};
  std::memcpy(&s[0], h, 16);
  for (size_t k = 0; k < len; ++k) {
    s[16 + k] = static_cast<char>(pat(tid * 1000003 + seq, k));
  }
  return s;
}

static std::string run_one(const std::string& line) {
  std::map<std::string, size_t> cfg {{"threads", 2}, {"ps", 64}, {"cap", 64}, {"files", 1}, {"rot", 0}, {"n", 10}, {"seed", 1}, {"drain", 1}, {"slow", 0}, {"discard", 0}, {"nosleep", 0},
                                     {"sessions", 1}, {"outage", 0}, {"burst", 0}, {"tiny", 0}};
  {
    std::istringstream is(line);
    std::string w;
    is >> w;
    while (is >> w) {
      auto eq = w.find('=');
      if (eq != std::string::npos) {
        cfg[w.substr(0, eq)] = std::stoull(w.substr(eq + 1));
      }
    }
  }
  size_t T = cfg["threads"], P = cfg["ps"], Q = cfg["cap"], F = cfg["files"], R = cfg["rot"], N = cfg["n"], S = cfg["seed"];
  std::ostringstream out;
  out << "RUN " << line << "\n";
  Recorder rec;
  RecAllocator2 alloc(P);
  rec.alloc = &alloc;
  g_rec = &rec;
  std::vector<std::unique_ptr<MemFile>> files;
  for (size_t f = 0; f < F; ++f) {
    files.emplace_back(new MemFile);
    files.back()->id = f;
    files.back()->rot_every = R;
    files.back()->slow_ms = cfg["slow"];
  }
  std::vector<std::vector<Written>> per_thread(T);
  size_t capacity = 0;
  {
    AsyncFileAppender app;
    app.set_page_allocator(alloc);
    app.set_queue_capacity(Q);
    capacity = app._queue.capacity();
    size_t K = LogEntry::INLINE_PAGE_CAPACITY;
    size_t E = P >= 16 ? (P - 8) / 8 : 1;
    const size_t sessions = cfg["sessions"];
    const bool burst = cfg["burst"] != 0;
    for (auto& v : per_thread) {
      v.reserve(N * sessions);
    }
    // one session = initialize(); the logging threads run; close().  The appender and the file objects
    // are reused by the next session (close() keeps _destinations, every FileObject keeps its index).
    for (size_t ses = 0; ses < sessions; ++ses) {
    app.initialize();
    std::atomic<size_t> at_barrier {0};
    std::vector<std::thread> threads;
    for (size_t t = 0; t < T; ++t) {
      threads.emplace_back([&, t] {
        t_logging_thread = true;
        uint64_t x = S * 0x9E3779B97F4A7C15ull + t * 0xD1B54A32D192ED03ull + ses * 0x2545F4914F6CDD1Dull + 1;
        LogStreamBuffer buf;
        buf.set_page_allocator(alloc);
        for (size_t i = 0; i < N; ++i) {
          if (t == 0 && cfg.at("outage") != 0) {
            if (i == N / 3) {
              g_outage.store(true);   // the file objects lose their descriptors ...
            } else if (i == (2 * N) / 3) {
              g_outage.store(false);  // ... and recover
            }
          }
          size_t kind = mix(x) % 16;
          size_t len;
          if (cfg.at("tiny") != 0) {
            len = mix(x) % 8;
          } else if (kind < 6) {
            len = mix(x) % (P + 2);
          } else if (kind < 10) {
            len = mix(x) % (4 * P);
          } else if (kind < 12) {
            len = K * P - 16 - 1 + mix(x) % 3;  // total at K*P-1 .. K*P+1
          } else if (kind < 14) {
            len = (K - 1 + E) * P - 16 - 1 + mix(x) % 3;
          } else if (kind < 15) {
            len = mix(x) % ((K + 2 * E + 2) * P);
          } else {
            len = 0;
          }
          if (P > 512 && len > 40 * P) {
            len = mix(x) % (20 * P);
          }
          std::string data = payload(t + 1, ses * N + i, len);
          buf.begin();
          size_t pos = 0;
          while (pos < data.size()) {
            size_t c = 1 + mix(x) % (2 * P + 3);
            c = std::min(c, data.size() - pos);
            buf.sputn(data.data() + pos, static_cast<std::streamsize>(c));
            pos += c;
          }
          LogEntry& e = buf.end();
          Written w;
          w.tid = t + 1;
          w.seq = ses * N + i;
          w.file = mix(x) % F;
          w.size = e.size;
          std::vector<struct ::iovec> iov;
          e.append_to_iovec(P, iov);
          for (auto& v : iov) {
            w.iov.emplace_back(alloc.number(v.iov_base), v.iov_len);
          }
          w.discarded = mix(x) % 100 < cfg.at("discard");
          if (burst) {
            w.discarded = false;
            w.entry = e;  // pushed after the barrier; the pages stay allocated until the writer returns them
            per_thread[t].push_back(w);
            continue;
          }
          per_thread[t].push_back(w);
          if (w.discarded) {
            app.discard(e);  // several logging threads are inside discard() at the same time
          } else {
            app.write(e, files[w.file].get());
          }
          size_t z = cfg.at("nosleep") != 0 ? 7 : mix(x) % 8;
          if (z == 0) {
            ::usleep(static_cast<useconds_t>(mix(x) % 300));
          } else if (z < 3) {
            ::sched_yield();
          }
        }
        if (burst) {
          // all threads enter write() at the same instant and keep hammering it: the queue index must
          // be claimed atomically (push<CONCURRENT = true>)
          at_barrier.fetch_add(1);
          while (at_barrier.load() < T) {
          }
          for (size_t i = 0; i < N; ++i) {
            Written& w = per_thread[t][ses * N + i];
            app.write(w.entry, files[w.file].get());
          }
        }
      });
    }
    for (auto& th : threads) {
      th.join();
    }
    g_outage.store(false);
    if (cfg["drain"] != 0) {
      while (app.pending_size() != 0) {
        ::usleep(50);
      }
    }
    app.close();
    {
      std::lock_guard<std::mutex> g(rec.mu);
      RecEvent e;
      e.kind = RecEvent::SESSION_END;
      rec.events.push_back(std::move(e));
    }
    }  // sessions
  }
  g_rec = nullptr;
  g_last_check_file.store(-1);

  // ---- index the entries by their first page
  std::map<size_t, Written*> by_first_page;
  size_t total_entries = 0, discards = 0;
  for (auto& v : per_thread) {
    for (auto& w : v) {
      if (w.discarded) {
        ++discards;
        continue;
      }
      ++total_entries;
      if (!w.iov.empty()) {
        by_first_page[w.iov[0].first] = &w;
      }
    }
  }
  std::vector<std::string> oracle;
  // ---- split the recorded events into rounds
  struct FlushRec {
    size_t file, fdidx;
    std::vector<std::vector<std::pair<size_t, size_t>>> calls;
    std::vector<size_t> freed;
  };
  struct Round {
    std::vector<size_t> fds;  // one per destination, in destination order
    std::vector<FlushRec> flushes;
    std::vector<Written*> entries;
    size_t session {0};
  };
  std::vector<Round> rounds;
  long first_dest = -1;
  size_t cur_session = 0;
  for (auto& e : rec.events) {
    if (e.kind == RecEvent::SESSION_END) {
      ++cur_session;
      continue;
    }
    if (e.kind == RecEvent::CHECK) {
      if (first_dest < 0) {
        first_dest = static_cast<long>(e.file);
      }
      if (static_cast<long>(e.file) == first_dest) {
        rounds.emplace_back();
        rounds.back().session = cur_session;
      }
      rounds.back().fds.push_back(e.fdidx);
    } else if (e.kind == RecEvent::WRITEV) {
      if (rounds.empty()) {
        oracle.push_back("!ORACLE(trace writev before any descriptor check)");
        continue;
      }
      auto& fl = rounds.back().flushes;
      if (fl.empty() || fl.back().file != e.file || !fl.back().freed.empty()) {
        fl.push_back(FlushRec {e.file, e.fdidx, {}, {}});
      }
      if (fl.back().fdidx != e.fdidx) {
        oracle.push_back("!ORACLE(mixed one destination written through two descriptors in one round)");
      }
      fl.back().calls.push_back(e.iov);
    } else {
      if (rounds.empty() || rounds.back().flushes.empty()) {
        oracle.push_back("!ORACLE(trace deallocate without a preceding writev)");
        continue;
      }
      rounds.back().flushes.back().freed = e.pages;
    }
  }
  // ---- which entries did each round write (consumption order per destination)
  size_t spans = 0, maxbatch = 0, rotations = 0, maxcall = 0;
  for (size_t r = 0; r < rounds.size(); ++r) {
    for (auto& fl : rounds[r].flushes) {
      std::vector<std::pair<size_t, size_t>> flat;
      std::vector<size_t> call_of;  // element index -> call number
      for (size_t c = 0; c < fl.calls.size(); ++c) {
        maxcall = std::max(maxcall, fl.calls[c].size());
        for (auto& v : fl.calls[c]) {
          flat.push_back(v);
          call_of.push_back(c);
        }
      }
      size_t pos = 0;
      while (pos < flat.size()) {
        auto it = by_first_page.find(flat[pos].first);
        if (it == by_first_page.end() || it->second->round >= 0 || pos + it->second->iov.size() > flat.size() ||
            !std::equal(it->second->iov.begin(), it->second->iov.end(), flat.begin() + static_cast<ptrdiff_t>(pos)) ||
            it->second->file != fl.file) {
          oracle.push_back("!ORACLE(mixed writev stream of file " + std::to_string(fl.file) + " in round " +
                           std::to_string(r) + " is not a sequence of whole entries at element " + std::to_string(pos) + ")");
          break;
        }
        it->second->round = static_cast<long>(r);
        it->second->lost = fl.fdidx == BAD_FD;
        rounds[r].entries.push_back(it->second);
        if (call_of[pos] != call_of[pos + it->second->iov.size() - 1]) {
          ++spans;
        }
        pos += it->second->iov.size();
      }
    }
    maxbatch = std::max(maxbatch, rounds[r].entries.size());
  }
  for (auto& f : files) {
    rotations += f->keep.empty() ? 0 : f->keep.size() - 1;
  }
  // ---- the run as model events + what was observed
  auto commas = [](const std::vector<size_t>& v) {
    std::string s;
    for (size_t i = 0; i < v.size(); ++i) {
      s += (i ? "," : "") + std::to_string(v[i]);
    }
    return s;
  };
  out << "T app init " << capacity << "\nO ok\n";
  const size_t sessions = cfg["sessions"];
  size_t outage_flushes = 0;
  for (size_t ses = 0; ses < sessions; ++ses) {
    if (ses != 0) {
      out << "T app reopen\nO ok\n";
    }
    size_t ses_freed = 0, ses_entries = 0;
    for (auto& v : per_thread) {
      for (auto& w : v) {
        ses_entries += (!w.discarded && w.seq / std::max<size_t>(N, 1) == ses) ? 1 : 0;
      }
    }
    long last_round = -1;
    for (size_t r = 0; r < rounds.size(); ++r) {
      if (rounds[r].session == ses) {
        last_round = static_cast<long>(r);
      }
    }
    for (size_t r = 0; r < rounds.size(); ++r) {
      if (rounds[r].session != ses) {
        continue;
      }
      bool last = static_cast<long>(r) == last_round;
      for (auto* w : rounds[r].entries) {
        out << "T app w " << w->tid << " " << w->file << " " << w->size;
        for (auto& v : w->iov) {
          out << " " << v.first << ":" << v.second;
        }
        out << "\nO ok\n";
      }
      if (last) {
        out << "T app close\nO ok\n";
      }
      out << "T app round " << (rounds[r].entries.size() + (last ? 1 : 0)) << " 0";
      for (auto fd : rounds[r].fds) {
        out << " " << fd;
      }
      out << "\nO exited=" << (last ? 1 : 0) << " flushes=" << rounds[r].flushes.size();
      for (auto& fl : rounds[r].flushes) {
        std::vector<size_t> lens;
        std::string iov;
        for (auto& c : fl.calls) {
          lens.push_back(c.size());
          for (auto& v : c) {
            iov += (iov.empty() ? "" : ",") + std::to_string(v.first) + ":" + std::to_string(v.second);
          }
        }
        ses_freed += fl.freed.size();
        outage_flushes += fl.fdidx == BAD_FD ? 1 : 0;
        out << " | f=" << fl.file << " fd=" << fl.fdidx << " calls=" << commas(lens) << " iov=" << iov
            << " freed=" << commas(fl.freed);
      }
      out << "\n";
    }
    if (last_round < 0) {
      // no destination exists yet (every entry so far was discarded): the writer's rounds are not
      // observable, the only thing it did was to pop the stop marker
      out << "T app close\nO ok\nT app round 1 0\nO exited=1 flushes=0\n";
    }
    out << "T app end\nO exited=1 queue=0 processed=" << ses_entries << " freed=" << ses_freed << "\n";
  }
  // ---- property oracle on the files read back
  std::map<std::pair<size_t, size_t>, size_t> seen;  // (tid, seq) -> times
  for (auto& f : files) {
    std::map<size_t, long> last_seq;
    for (size_t k = 0; k < f->keep.size(); ++k) {
      int fd = f->keep[k];
      off_t sz = ::lseek(fd, 0, SEEK_END);
      std::string content(static_cast<size_t>(sz), '\0');
      if (sz > 0 && ::pread(fd, &content[0], static_cast<size_t>(sz), 0) != sz) {
        oracle.push_back("!ORACLE(io cannot read back file)");
      }
      ::close(fd);
      size_t pos = 0;
      while (pos < content.size()) {
        uint32_t h[4];
        if (pos + 16 > content.size()) {
          oracle.push_back("!ORACLE(mixed truncated header in file " + std::to_string(f->id) + " descriptor " + std::to_string(k) + ")");
          break;
        }
        std::memcpy(h, &content[pos], 16);
        if (h[0] != 0x31474f4cu || pos + 16 + h[3] > content.size() ||
            content.compare(pos, 16 + h[3], payload(h[1], h[2], h[3])) != 0) {
          oracle.push_back("!ORACLE(mixed file " + std::to_string(f->id) + " descriptor " + std::to_string(k) +
                           " offset " + std::to_string(pos) + " is not the start of an intact entry)");
          break;
        }
        ++seen[{h[1], h[2]}];
        auto ls = last_seq.find(h[1]);
        if (ls != last_seq.end() && ls->second >= static_cast<long>(h[2])) {
          oracle.push_back("!ORACLE(order file " + std::to_string(f->id) + ": thread " + std::to_string(h[1]) + " entry " +
                           std::to_string(h[2]) + " after entry " + std::to_string(ls->second) + ")");
        }
        last_seq[h[1]] = static_cast<long>(h[2]);
        if (h[1] >= 1 && h[1] <= T && h[2] < per_thread[h[1] - 1].size() && per_thread[h[1] - 1][h[2]].file != f->id) {
          oracle.push_back("!ORACLE(once entry written to a file object it was not addressed to)");
        }
        if (h[1] >= 1 && h[1] <= T && h[2] < per_thread[h[1] - 1].size() && per_thread[h[1] - 1][h[2]].discarded) {
          oracle.push_back("!ORACLE(once a discarded entry reached a file)");
        }
        pos += 16 + h[3];
      }
    }
  }
  size_t missing = 0, dup = 0, lost = 0;
  for (size_t t = 0; t < T; ++t) {
    long last_round = -1;
    for (size_t i = 0; i < per_thread[t].size(); ++i) {
      if (per_thread[t][i].discarded) {
        continue;
      }
      auto it = seen.find({t + 1, i});
      if (per_thread[t][i].lost) {
        // written while its file object had no descriptor: must not be anywhere, pages returned all the same
        if (it != seen.end()) {
          oracle.push_back("!ORACLE(once an entry flushed to fd < 0 appears in a file)");
        }
        ++lost;
        continue;
      }
      if (it == seen.end()) {
        ++missing;
      } else if (it->second != 1) {
        ++dup;
      }
      long r = per_thread[t][i].round;
      if (r >= 0 && r < last_round) {
        oracle.push_back("!ORACLE(order thread " + std::to_string(t + 1) + " entry " + std::to_string(i) +
                         " written in an earlier round than its predecessor)");
      }
      last_round = std::max(last_round, r);
    }
  }
  if (missing || dup || seen.size() + lost != total_entries) {
    oracle.push_back("!ORACLE(once " + std::to_string(missing) + " entries missing, " + std::to_string(dup) +
                     " duplicated, " + std::to_string(seen.size()) + " distinct found of " + std::to_string(total_entries) + ")");
  }
  if (alloc.live() != 0 || alloc._bad_free != 0 || alloc._freed.size() != alloc._allocated.size()) {
    oracle.push_back("!ORACLE(returned " + std::to_string(alloc.live()) + " pages still live of " +
                     std::to_string(alloc._allocated.size()) + " allocated, " + std::to_string(alloc._freed.size()) +
                     " returned, " + std::to_string(alloc._bad_free) + " of them not live pages (returned twice), " +
                     std::to_string(discards) + " entries discarded by the logging threads)");
  }
  if (maxcall > IOV_MAX) {
    oracle.push_back("!ORACLE(iovmax writev with " + std::to_string(maxcall) + " elements)");
  }
  out << "STATS entries=" << total_entries << " rounds=" << rounds.size() << " maxbatch=" << maxbatch
      << " rotations=" << rotations << " spans=" << spans << " maxcall=" << maxcall << " pages=" << alloc._allocated.size()
      << " capacity=" << capacity << " discards=" << discards << " sessions=" << sessions << " outage_flushes=" << outage_flushes
      << " lost_in_outage=" << lost << "\n";
  if (oracle.empty()) {
    out << "ORACLE ok\n";
  } else {
    out << "ORACLE";
    for (size_t i = 0; i < oracle.size() && i < 5; ++i) {
      out << " " << oracle[i];
    }
    out << "\n";
  }
  out << "END\n";
  return out.str();
}

int run_appender_mode() {
  ::alarm(300);  // a wedged appender must not hang the check
  std::string line;
  while (std::getline(std::cin, line)) {
    if (line.compare(0, 3, "run") != 0) {
      continue;
    }
    std::cout << run_one(line) << std::flush;
  }
  return 0;
}
