// E-CONC harness for C04 (ConcurrentVector + RetireList) under VRT.
//
// usage: c04 rand   <seed0> <nruns>      seeded programs (2-4 threads, ensure / reserve / snapshot / use /
//                                        get / gc / for_each / sleep, random stalls after clock reads)
//        c04 script <file> [seed]        one run described by a script (corpus, witnesses)
//
// What is observed (no source hooks):
//   * every atomic on `_block_table` (trace name `tbl`) and on `RetireList::_head` (`head`) via the
//     TSan ABI (VRT), every clock_gettime (`ev clock <ns>`, virtual clock);
//   * every aligned operator new / delete (block tables and blocks) through the replaced global
//     allocation functions below: `ev new <id> <size> @<ns>` / `ev del <id> <size> @<ns>`; memory
//     comes from an arena that is never reused inside a run, ids are allocation ordinals;
//   * element construction / destruction through the vector's constructor function and ~Elem:
//     `ev ctor <block id> <n>` / `ev dtor <block id> <n>` when all n = block_size elements are done.
// Pointer values in `tbl` / `head` trace lines are rewritten to ids before printing (table id,
// 0 = EMPTY_BLOCK_TABLE; head word = stamp << 48 | (id of the table the node carries + 1)).
//
// ORACLE (evaluated here on the implementation, independent of the Lean model):
//   addr        the same index was mapped to two different addresses (any thread / snapshot)
//   ctor/dtor   an element constructed twice, returned before it was constructed, destroyed twice or
//               never, destroyed while the vector lives
//   early-free  a block table freed (not by the destructor) less than 64 s of virtual time after the
//               growth (successful CAS on `_block_table`) that superseded it
//   uaf         a snapshot used less than 64 s after its table was superseded finds the table freed
//   leak/double aligned allocations not freed exactly once with the size they were allocated with
//   block-freed a published block freed before the destructor
// Output per run:  RUN <seed> bits=<b> mode=<..> ...\n <trace lines> END
#include "../vrt/vrt.h"

#include <babylon/concurrent/vector.h>

#include <sys/mman.h>
#include <time.h>
#include <unistd.h>

#include <cstdio>
#include <cstdlib>
#include <cstring>
#include <map>
#include <new>
#include <sstream>
#include <string>
#include <thread>
#include <vector>

using namespace babylon;

// ------------------------------------------------------------------------------------------------
// arena + allocation registry (fixed arrays: no allocation inside the allocation functions)
namespace {
constexpr size_t ARENA = 64ull << 20;
constexpr int MAXA = 1 << 15;
char* g_arena = nullptr;
size_t g_pos = 0;
bool g_track = false;
thread_local bool t_api = false;

struct Alloc {
  char* p;
  size_t size;
  bool aligned;
  int id;          // ordinal among aligned allocations (1, 2, ...); 0 for node chunks
  int frees;
  int ctor[16], dtor[16];
  bool ctor_ev, dtor_ev;
};
Alloc g_allocs[MAXA];
int g_nalloc = 0, g_nid = 0;
int g_oracle = 0;
size_t g_bs = 1;              // block size of the vector under test
bool g_destroying = false;

Alloc* find_alloc(const void* q) {
  const char* c = (const char*)q;
  if (c < g_arena || c >= g_arena + g_pos) return nullptr;
  int lo = 0, hi = g_nalloc - 1;
  while (lo < hi) {
    int mid = (lo + hi + 1) / 2;
    if (g_allocs[mid].p <= c) lo = mid; else hi = mid - 1;
  }
  Alloc* a = &g_allocs[lo];
  return (c >= a->p && c < a->p + a->size) ? a : nullptr;
}

void* arena_alloc(size_t n, size_t align, bool aligned) {
  size_t pos = (g_pos + align - 1) & ~(align - 1);
  if (pos + n > ARENA || g_nalloc >= MAXA) { fprintf(stderr, "arena exhausted\n"); abort(); }
  Alloc& a = g_allocs[g_nalloc++];
  memset(&a, 0, sizeof(a));
  a.p = g_arena + pos;
  a.size = n;
  a.aligned = aligned;
  a.id = aligned ? ++g_nid : 0;
  g_pos = pos + n;
  memset(a.p, 0xA5, n);
  return a.p;
}

inline bool in_arena(void* p) { return (char*)p >= g_arena && (char*)p < g_arena + ARENA && g_arena; }

void arena_free(void* p, size_t size_or_0) {
  Alloc* a = find_alloc(p);
  if (!a || a->p != p) { vrt_event("ORACLE bad-free pointer not at the start of an allocation"); ++g_oracle; return; }
  a->frees++;
  if (!a->aligned) return;   // node chunk: contents stay readable, address never reused
  if (a->frees > 1) { vrt_event("ORACLE double-free a%d", a->id); ++g_oracle; }
  if (size_or_0 && size_or_0 != a->size) { vrt_event("ORACLE sized-delete a%d allocated %zu freed as %zu", a->id, a->size, size_or_0); ++g_oracle; }
  vrt_event("del %d %zu @%llu", a->id, a->size, (unsigned long long)vrt_now());
}
}  // namespace

void* operator new(size_t n) {
  if (g_track && t_api && n == 16 && vrt_tid() >= 0) return arena_alloc(16, 16, false);
  void* p = malloc(n ? n : 1);
  if (!p) abort();
  return p;
}
void* operator new[](size_t n) { return operator new(n); }
void* operator new(size_t n, std::align_val_t al) {
  if (g_track && t_api && vrt_tid() >= 0) {
    void* p = arena_alloc(n, (size_t)al, true);
    int id = find_alloc(p)->id;
    vrt_event("new %d %zu @%llu", id, n, (unsigned long long)vrt_now());
    // happens-before race monitor: plain accesses to blocks (element payload) and to table entries must be
    // ordered by the release / acquire edges the code really has (publication through `_block_table`)
    char nm[24];
    snprintf(nm, sizeof nm, "a%d", id);
    vrt_payload(p, n, nm);
    return p;
  }
  void* p = aligned_alloc((size_t)al, (n + (size_t)al - 1) / (size_t)al * (size_t)al);
  if (!p) abort();
  return p;
}
void* operator new[](size_t n, std::align_val_t al) { return operator new(n, al); }
void operator delete(void* p) noexcept { if (!p) return; if (in_arena(p)) arena_free(p, 0); else free(p); }
void operator delete[](void* p) noexcept { operator delete(p); }
void operator delete(void* p, size_t) noexcept { operator delete(p); }
void operator delete[](void* p, size_t) noexcept { operator delete(p); }
void operator delete(void* p, std::align_val_t) noexcept { operator delete(p); }
void operator delete[](void* p, std::align_val_t) noexcept { operator delete(p); }
void operator delete(void* p, size_t n, std::align_val_t) noexcept { if (!p) return; if (in_arena(p)) arena_free(p, n); else free(p); }
void operator delete[](void* p, size_t n, std::align_val_t al) noexcept { operator delete(p, n, al); }

// ------------------------------------------------------------------------------------------------
struct Elem {
  uint64_t val;
  Elem() : val(0x5EED) {}
  explicit Elem(uint64_t v) : val(v) {}
  Elem(const Elem&) = default;
  Elem& operator=(const Elem&) = default;
  ~Elem();
};

static void on_ctor(Elem* p) {
  Alloc* a = find_alloc(p);
  if (!a || !a->aligned) return;
  size_t k = ((char*)p - a->p) / sizeof(Elem);
  if (k >= 16) return;
  if (++a->ctor[k] > 1) { vrt_event("ORACLE ctor element a%d[%zu] constructed %d times", a->id, k, a->ctor[k]); ++g_oracle; }
  size_t done = 0;
  for (size_t i = 0; i < g_bs; ++i) done += a->ctor[i] >= 1;
  if (done == g_bs && !a->ctor_ev) { a->ctor_ev = true; vrt_event("ctor %d %zu", a->id, g_bs); }
}
Elem::~Elem() {
  if (!g_track) return;
  Alloc* a = find_alloc(this);
  if (!a || !a->aligned) return;
  size_t k = ((char*)this - a->p) / sizeof(Elem);
  if (k >= 16) return;
  if (a->ctor[k] != 1) { vrt_event("ORACLE dtor element a%d[%zu] destroyed but constructed %d times", a->id, k, a->ctor[k]); ++g_oracle; }
  if (++a->dtor[k] > 1) { vrt_event("ORACLE dtor element a%d[%zu] destroyed %d times", a->id, k, a->dtor[k]); ++g_oracle; }
  size_t done = 0;
  for (size_t i = 0; i < g_bs; ++i) done += a->dtor[i] >= 1;
  if (done == g_bs && !a->dtor_ev) { a->dtor_ev = true; vrt_event("dtor %d %zu", a->id, g_bs); }
}

struct Rng {
  uint64_t s;
  explicit Rng(uint64_t x) : s(x * 0x9E3779B97F4A7C15ull + 1) { next(); next(); }
  uint64_t next() {
    s ^= s << 13;
    s ^= s >> 7;
    s ^= s << 17;
    return s * 0x2545F4914F6CDD1Dull;
  }
  uint64_t below(uint64_t n) { return n ? (next() >> 11) % n : 0; }
};

// ------------------------------------------------------------------------------------------------
// programs
enum Kind { ENSURE, RESERVE, SNAP, USE, GET, GC, SLEEP, STALL, FOREACH, FILL, COPY, JOIN };
struct Op {
  Kind k;
  long a = 0, b = 0, c = 0;
};
struct Program {
  int hint = 1;             // block size hint; 0 = static block size 4
  long start_ms = 1000;     // virtual clock (ms) the main thread sleeps to before anything else
  std::vector<std::vector<Op>> th;   // th[0] = main thread: ops before JOIN run first, the rest after the workers
  bool destroy_gc = true;
};

static const char* kind_name[] = {"ensure", "reserve", "snap", "use", "get", "gc", "sleep", "stall", "foreach", "fill", "copy", "join"};

static std::string show(const Program& p) {
  std::ostringstream o;
  o << "bs " << p.hint << "\nstart " << p.start_ms << "\n";
  for (size_t t = 0; t < p.th.size(); ++t)
    for (auto& op : p.th[t]) {
      o << "T" << t << " " << kind_name[op.k];
      if (op.k != SNAP && op.k != GC && op.k != JOIN) o << " " << op.a;
      if (op.k == STALL || op.k == FOREACH || op.k == FILL || op.k == COPY) o << " " << op.b;
      if (op.k == FILL) o << " " << op.c;
      o << "\n";
    }
  return o.str();
}

static bool parse(const char* path, Program& p) {
  FILE* f = fopen(path, "r");
  if (!f) return false;
  char line[256];
  while (fgets(line, sizeof line, f)) {
    if (line[0] == '#' || line[0] == '\n') continue;
    char w[32];
    long a = 0, b = 0, c = 0;
    int t = 0;
    if (sscanf(line, "bs %ld", &a) == 1) { p.hint = (int)a; continue; }
    if (sscanf(line, "start %ld", &a) == 1) { p.start_ms = a; continue; }
    int n = sscanf(line, "T%d %31s %ld %ld %ld", &t, w, &a, &b, &c);
    if (n < 2) continue;
    if ((int)p.th.size() <= t) p.th.resize(t + 1);
    for (int k = 0; k <= JOIN; ++k)
      if (!strcmp(w, kind_name[k])) p.th[t].push_back(Op {(Kind)k, a, b, c});
  }
  fclose(f);
  if (p.th.empty()) p.th.resize(1);
  return true;
}

static const long DURS[] = {1, 500, 1000, 20000, 40000, 63000, 63999, 64000, 64001, 65000, 70000, 127000, 128000, 129000, 200000};

static Program generate(uint64_t seed) {
  Rng r(seed ^ 0xC04C04);
  Program p;
  static const int hints[] = {1, 2, 8, 0, 1, 2, 3, 5, 0, 4};
  p.hint = hints[r.below(10)];
  int bs = p.hint == 0 ? 4 : p.hint <= 1 ? 1 : p.hint <= 2 ? 2 : p.hint <= 4 ? 4 : 8;
  switch (r.below(5)) {
    case 0: p.start_ms = 1000; break;
    case 1: p.start_ms = 64000 * (2 + (long)r.below(5)) - (long)r.below(3000); break;
    case 2: p.start_ms = 64000L * 65536 - 64000 * (long)r.below(4) - (long)r.below(70000); break;   // 16-bit stamp wrap
    case 3: p.start_ms = 64000L * 65536 * 2 - (long)r.below(200000); break;
    default: p.start_ms = 1000 + (long)r.below(300000); break;
  }
  if (r.below(6) == 0) {
    // directed family: gc() is descheduled between its clock read and its CAS on the head while another thread
    // grows the vector (retire lands in the window) and a third one holds a snapshot of the superseded table
    if (p.start_ms < 129000) p.start_ms += 129000;       // an empty head (stamp 0) is judged expired
    p.th.resize(4 + (int)r.below(2));
    long first = (long)r.below(2 * bs);
    bool pre = r.below(3) != 0;
    if (pre) p.th[0].push_back(Op {ENSURE, first});      // one old entry in the retire list, a table to snapshot
    p.th[0].push_back(Op {JOIN});
    long wait = pre ? 129000 + (long)r.below(80000) : (long)r.below(3) * 500;   // old enough to expire
    long park = 1 + (long)r.below(3000);
    long land = (long)r.below(park);
    p.th[1] = {Op {SLEEP, std::max(1L, wait)}, Op {STALL, 1, park}, Op {GC}};
    if (r.below(2)) p.th[1].push_back(Op {GC});
    long grow = (pre ? (first / bs + 1) * bs : 0) + (long)r.below(2 * bs);
    p.th[2] = {Op {SLEEP, std::max(1L, wait + land)}, Op {ENSURE, grow}};
    if (r.below(2)) p.th[2].push_back(Op {ENSURE, grow + bs + (long)r.below(bs)});
    p.th[3] = {Op {SLEEP, std::max(1L, wait > 300 ? wait - 300 : 1)}, Op {SNAP}, Op {SLEEP, park + 500 + (long)r.below(2000)}};
    if (pre) p.th[3].push_back(Op {USE, first});
    p.th[3].push_back(Op {GC});
    if (p.th.size() > 4) p.th[4] = {Op {SLEEP, std::max(1L, wait + (long)r.below(park + 1))}, Op {RESERVE, grow + 2 * bs}, Op {GC}};
    return p;
  }
  int nth = 2 + (int)r.below(3);
  p.th.resize(nth + 1);
  long maxidx = bs * (3 + (long)r.below(4));
  long ensured0 = 0;
  auto dur = [&] { return DURS[r.below(sizeof(DURS) / sizeof(DURS[0]))] + (long)r.below(3) - 1; };
  // main prefix
  int pre = (int)r.below(3);
  for (int i = 0; i < pre; ++i) {
    long idx = r.below(maxidx);
    p.th[0].push_back(Op {ENSURE, idx});
    ensured0 = std::max(ensured0, idx + 1);
    if (r.below(3) == 0) p.th[0].push_back(Op {SLEEP, std::max(1L, dur())});
  }
  if (ensured0 > 0 && r.below(3) == 0) p.th[0].push_back(Op {FILL, (long)r.below(ensured0), 1 + (long)r.below(2 * bs + 1), 100 + (long)r.below(50)});
  p.th[0].push_back(Op {JOIN});
  for (int t = 1; t <= nth; ++t) {
    int nops = 2 + (int)r.below(6);
    long ensured = ensured0;   // what this thread may index without ensuring first
    bool has_snap = false;
    long snap_bound = 0;
    for (int i = 0; i < nops; ++i) {
      unsigned c = (unsigned)r.below(100);
      if (c < 34) {
        if (r.below(4) == 0) p.th[t].push_back(Op {STALL, 1 + (long)r.below(2), std::max(1L, dur())});
        long idx = r.below(maxidx);
        p.th[t].push_back(Op {ENSURE, idx});
        ensured = std::max(ensured, idx + 1);
      } else if (c < 42) {
        long n = r.below(maxidx + 1);
        if (r.below(4) == 0) p.th[t].push_back(Op {STALL, 1 + (long)r.below(2), std::max(1L, dur())});
        p.th[t].push_back(Op {RESERVE, n});
        ensured = std::max(ensured, n);
      } else if (c < 54) {
        p.th[t].push_back(Op {SNAP});
        has_snap = true;
        snap_bound = ensured;
      } else if (c < 64 && has_snap && snap_bound > 0) {
        p.th[t].push_back(Op {USE, (long)r.below(snap_bound)});
      } else if (c < 70 && ensured > 0) {
        p.th[t].push_back(Op {GET, (long)r.below(ensured)});
      } else if (c < 84) {
        if (r.below(4) == 0) p.th[t].push_back(Op {STALL, 1, std::max(1L, dur())});
        p.th[t].push_back(Op {GC});
      } else if (c < 90) {
        long b = r.below(maxidx), e = b + r.below(2 * bs + 2);
        p.th[t].push_back(Op {FOREACH, b, e});
        ensured = std::max(ensured, e);
      } else {
        p.th[t].push_back(Op {SLEEP, std::max(1L, dur())});
      }
    }
  }
  // main suffix
  int suf = (int)r.below(5);
  for (int i = 0; i < suf; ++i) {
    switch (r.below(5)) {
      case 0: p.th[0].push_back(Op {SLEEP, std::max(1L, dur())}); break;
      case 1: p.th[0].push_back(Op {GC}); break;
      case 2: p.th[0].push_back(Op {ENSURE, (long)r.below(maxidx + bs)}); break;
      case 3: { long b = r.below(maxidx); p.th[0].push_back(Op {FOREACH, b, b + (long)r.below(3 * bs)}); break; }
      default: { long b = r.below(maxidx); p.th[0].push_back(Op {COPY, b, 1 + (long)r.below(2 * bs + 1)}); break; }
    }
  }
  return p;
}

// ------------------------------------------------------------------------------------------------
static void vsleep_ms(long ms) {
  struct timespec ts;
  ts.tv_sec = ms / 1000;
  ts.tv_nsec = (ms % 1000) * 1000000L;
  nanosleep(&ts, nullptr);
}

thread_local int t_stall_k = 0;
thread_local long t_stall_ms = 0;
static void clock_hook(int, uint64_t) {
  if (t_stall_k > 0 && --t_stall_k == 0) {
    vrt_event("stall %ld", t_stall_ms);
    vsleep_ms(t_stall_ms);
    vrt_event("woke @%llu", (unsigned long long)vrt_now());
  }
}

template <typename V>
struct Run {
  V* v = nullptr;
  const void* empty_table = nullptr;
  std::map<long, Elem*> addr_of;      // oracle: index -> address first seen
  std::map<long, uint64_t> value_of;  // sequential shadow of values written by fill / copy (main thread only)

  int table_id(const void* p) {
    if (p == empty_table) return 0;
    Alloc* a = find_alloc(p);
    return (a && a->aligned && a->p == p) ? a->id : -1;
  }
  void check_elem(long idx, Elem* e, const char* who) {
    Alloc* a = find_alloc(e);
    if (!a || !a->aligned) { vrt_event("ORACLE addr %s index %ld maps outside any block", who, idx); ++g_oracle; return; }
    size_t k = ((char*)e - a->p) / sizeof(Elem);
    auto it = addr_of.find(idx);
    if (it == addr_of.end()) addr_of[idx] = e;
    else if (it->second != e) {
      Alloc* b = find_alloc(it->second);
      vrt_event("ORACLE addr %s index %ld designates a%d[%zu], earlier a%d[%zu]", who, idx, a->id, k, b ? b->id : -1,
                b ? ((char*)it->second - b->p) / sizeof(Elem) : 0);
      ++g_oracle;
    }
    if (a->frees) { vrt_event("ORACLE block-freed %s index %ld lives in freed block a%d", who, idx, a->id); ++g_oracle; return; }
    if (k < 16 && (a->ctor[k] != 1 || a->dtor[k] != 0)) {
      vrt_event("ORACLE ctor %s index %ld element a%d[%zu] visible with ctor=%d dtor=%d", who, idx, a->id, k, a->ctor[k], a->dtor[k]);
      ++g_oracle;
    }
    volatile uint64_t x = e->val;   // plain read: the HB race monitor checks it against the constructing thread's writes
    (void)x;
  }
  std::pair<int, size_t> where(Elem* e) {
    Alloc* a = find_alloc(e);
    if (!a) return {-1, 0};
    return {a->id, ((char*)e - a->p) / sizeof(Elem)};
  }

  void exec(const std::vector<Op>& ops, size_t from, size_t to) {
    typename V::Snapshot snap;
    bool has = false;
    for (size_t i = from; i < to; ++i) {
      const Op& op = ops[i];
      switch (op.k) {
        case ENSURE: {
          vrt_event("call ensure %ld", op.a);
          t_api = true;
          Elem& e = v->ensure(op.a);
          t_api = false;
          auto w = where(&e);
          vrt_event("ret ensure %d %zu", w.first, w.second);
          check_elem(op.a, &e, "ensure");
          break;
        }
        case RESERVE: {
          vrt_event("call reserve %ld", op.a);
          t_api = true;
          v->reserve(op.a);
          t_api = false;
          vrt_event("ret reserve");
          break;
        }
        case SNAP: {
          vrt_event("call snap");
          t_api = true;
          snap = v->snapshot();
          t_api = false;
          has = true;
          vrt_event("ret snap %d", table_id(snap._block_table));
          break;
        }
        case USE: {
          if (!has) break;
          int tid = table_id(snap._block_table);
          Alloc* a = find_alloc(snap._block_table);
          if (a && a->frees) {
            // never dereference: the post-processing pass decides whether this is inside the cooling period
            vrt_event("usefreed %d %ld @%llu", tid, op.a, (unsigned long long)vrt_now());
            break;
          }
          if ((size_t)op.a >= snap.size()) break;
          Elem& e = snap[op.a];
          auto w = where(&e);
          vrt_event("use %d %ld %d %zu @%llu", tid, op.a, w.first, w.second, (unsigned long long)vrt_now());
          check_elem(op.a, &e, "snapshot");
          break;
        }
        case GET: {
          vrt_event("call get %ld", op.a);
          t_api = true;
          Elem& e = (*v)[op.a];
          t_api = false;
          auto w = where(&e);
          vrt_event("ret get %d %zu", w.first, w.second);
          check_elem(op.a, &e, "operator[]");
          auto it = value_of.find(op.a);
          if (it != value_of.end() && vrt_tid() == 0 && e.val != it->second) { vrt_event("ORACLE value index %ld holds %llu, written %llu", op.a, (unsigned long long)e.val, (unsigned long long)it->second); ++g_oracle; }
          break;
        }
        case GC: {
          vrt_event("call gc");
          t_api = true;
          v->gc();
          t_api = false;
          vrt_event("ret gc");
          break;
        }
        case SLEEP: {
          vrt_event("sleep %ld", op.a);
          vsleep_ms(op.a);
          vrt_event("woke @%llu", (unsigned long long)vrt_now());
          break;
        }
        case STALL: {
          t_stall_k = (int)op.a;
          t_stall_ms = op.b;
          break;
        }
        case FOREACH: {
          vrt_event("call foreach %ld %ld", op.a, op.b);
          std::string segs;
          long idx = op.a;
          t_api = true;
          v->for_each((size_t)op.a, (size_t)op.b, [&](Elem* it, Elem* end) {
            auto w = where(it);
            char buf[64];
            snprintf(buf, sizeof buf, " %d:%zu:%ld", w.first, w.second, (long)(end - it));
            segs += buf;
            for (; it != end; ++it, ++idx) check_elem(idx, it, "for_each");
          });
          t_api = false;
          if (idx != std::max(op.a, op.b)) { vrt_event("ORACLE range for_each [%ld,%ld) visited up to %ld", op.a, op.b, idx); ++g_oracle; }
          vrt_event("ret foreach%s", segs.c_str());
          break;
        }
        case FILL: {
          vrt_event("call fill %ld %ld", op.a, op.b);
          {
            Elem val((uint64_t)op.c);
            t_api = true;
            v->fill_n((size_t)op.a, (size_t)op.b, val);
            t_api = false;
          }
          vrt_event("ret fill");
          for (long j = 0; j < op.b; ++j) value_of[op.a + j] = (uint64_t)op.c;
          readback(op.a, op.b);
          break;
        }
        case COPY: {
          vrt_event("call copy %ld %ld", op.a, op.b);
          {
            std::vector<Elem> src;
            for (long j = 0; j < op.b; ++j) src.emplace_back((uint64_t)(7000 + op.a + j));
            t_api = true;
            v->copy_n(src.begin(), (size_t)op.b, (size_t)op.a);
            t_api = false;
          }
          vrt_event("ret copy");
          for (long j = 0; j < op.b; ++j) value_of[op.a + j] = (uint64_t)(7000 + op.a + j);
          readback(op.a, op.b);
          break;
        }
        case JOIN: break;
      }
    }
  }
  // sequential read-back through the addresses the oracle already knows or through a fresh snapshot's
  // raw pointers (plain reads only: adds no atomic to the trace)
  void readback(long off, long n) {
    void* raw;
    memcpy(&raw, (void*)&v->_block_table, sizeof raw);
    auto* bt = (typename V::BlockTable*)raw;
    for (long j = 0; j < n; ++j) {
      long i = off + j;
      size_t bi = (size_t)i / g_bs, bo = (size_t)i % g_bs;
      if (bi >= bt->size) { vrt_event("ORACLE range index %ld not covered after fill/copy (size %zu blocks)", i, bt->size); ++g_oracle; return; }
      Elem* e = &bt->blocks[bi][bo];
      check_elem(i, e, "fill/copy");
      if (e->val != value_of[i]) { vrt_event("ORACLE value index %ld holds %llu, written %llu", i, (unsigned long long)e->val, (unsigned long long)value_of[i]); ++g_oracle; }
    }
  }
};

// ------------------------------------------------------------------------------------------------
// post-processing: pointers -> ids, early-free / use-after-free oracle over the virtual clock
struct Post {
  const void* empty_table;
  std::string out;
  uint64_t now = 0;
  std::map<int, uint64_t> sup_at;     // table id -> time of the CAS that superseded it
  std::map<int, uint64_t> freed_at;
  bool destroying = false;
  int oracle = 0;

  std::string table(uint64_t raw) {
    if ((const void*)raw == empty_table) return "0";
    Alloc* a = find_alloc((void*)raw);
    if (a && a->aligned && a->p == (char*)raw) return std::to_string(a->id);
    return "?" + std::to_string(raw);
  }
  std::string headw(uint64_t raw) {
    uint64_t ts = raw >> 48, ptr = raw & 0x0000FFFFFFFFFFFFull;
    uint64_t node = 0;
    if (ptr) {
      Alloc* a = find_alloc((void*)ptr);
      if (!a || a->aligned) return "?" + std::to_string(raw);
      void* data;
      memcpy(&data, a->p, sizeof data);
      std::string t = table((uint64_t)data);
      if (t[0] == '?') return "?" + std::to_string(raw);
      node = strtoull(t.c_str(), nullptr, 10) + 1;
    }
    return std::to_string((ts << 48) | node);
  }
  void line(const std::string& l) {
    std::istringstream is(l);
    std::vector<std::string> w;
    std::string x;
    while (is >> x) w.push_back(x);
    if (w.size() >= 2 && w[1] == "ev") {
      if (w.size() >= 4 && w[2] == "clock") now = strtoull(w[3].c_str(), nullptr, 10);
      if (!w.back().empty() && w.back()[0] == '@') now = strtoull(w.back().c_str() + 1, nullptr, 10);
      if (w.size() >= 4 && w[2] == "call" && w[3] == "destroy") destroying = true;
      if (w.size() >= 4 && w[2] == "del") {
        int id = atoi(w[3].c_str());
        freed_at[id] = now;
        auto it = sup_at.find(id);
        if (!destroying && it != sup_at.end() && now - it->second < 64000000000ull) {
          char b[200];
          snprintf(b, sizeof b, "%s ev ORACLE early-free table %d superseded at %llu ns freed at %llu ns (%llu ms later)\n", w[0].c_str(), id,
                   (unsigned long long)it->second, (unsigned long long)now, (unsigned long long)((now - it->second) / 1000000));
          out += l + "\n" + b;
          ++oracle;
          return;
        }
      }
      if (w.size() >= 5 && w[2] == "usefreed") {
        int id = atoi(w[3].c_str());
        auto it = sup_at.find(id);
        if (it == sup_at.end() || now - it->second < 64000000000ull) {
          char b[200];
          snprintf(b, sizeof b, "%s ev ORACLE uaf snapshot of table %d used %llu ms after it was superseded finds it freed\n", w[0].c_str(), id,
                   it == sup_at.end() ? 0ull : (unsigned long long)((now - it->second) / 1000000));
          out += l + "\n" + b;
          ++oracle;
          return;
        }
      }
      out += l + "\n";
      return;
    }
    if (w.size() >= 3 && (w[2] == "tbl" || w[2] == "head")) {
      bool tb = w[2] == "tbl";
      auto conv = [&](std::string& s) { uint64_t raw = strtoull(s.c_str(), nullptr, 10); s = tb ? table(raw) : headw(raw); };
      if ((w[1] == "ld" || w[1] == "st") && w.size() == 5) conv(w[4]);
      else if (w[1] == "xchg" && w.size() == 6) { conv(w[4]); conv(w[5]); }
      else if ((w[1] == "cas" || w[1] == "casw") && w.size() == 9) {
        conv(w[5]); conv(w[6]); conv(w[8]);
        if (tb && w[7] == "1") sup_at[atoi(w[5].c_str())] = now;
      }
      std::string j;
      for (size_t i = 0; i < w.size(); ++i) j += (i ? " " : "") + w[i];
      out += j + "\n";
      return;
    }
    out += l + "\n";
  }
};

template <typename V>
static int run_program(uint64_t seed, const Program& p, const char* mode) {
  if (!g_arena) {
    g_arena = (char*)mmap(nullptr, ARENA, PROT_READ | PROT_WRITE, MAP_PRIVATE | MAP_ANONYMOUS | MAP_NORESERVE, -1, 0);
    if (g_arena == MAP_FAILED) abort();
  }
  g_pos = 0;
  g_nalloc = 0;
  g_nid = 0;
  g_oracle = 0;
  g_destroying = false;
  Run<V> R;
  R.empty_table = &V::EMPTY_BLOCK_TABLE;
  vrt_unname_all();
  vrt_trace_clock(1);
  vrt_clock_hook(clock_hook);
  vrt_begin(seed);
  g_track = true;
  {
    V* v = new V((size_t)(p.hint == 0 ? 4 : p.hint), [](Elem* e) { new (e) Elem; on_ctor(e); });
    R.v = v;
    g_bs = v->block_size();
    unsigned bits = v->_meta.block_mask_bits();
    printf("RUN %lu bits=%u bs=%zu mode=%s hint=%d threads=%zu start=%ld\n", (unsigned long)seed, bits, g_bs, mode, p.hint, p.th.size() - 1, p.start_ms);
    vrt_name(&v->_block_table, sizeof(v->_block_table), "tbl");
    vrt_name(&v->_retire_list._head, sizeof(v->_retire_list._head), "head");
    long cur_ms = (long)(vrt_now() / 1000000);
    if (p.start_ms > cur_ms) vsleep_ms(p.start_ms - cur_ms);
    vrt_event("woke @%llu", (unsigned long long)vrt_now());
    const auto& m = p.th[0];
    size_t jn = 0;
    while (jn < m.size() && m[jn].k != JOIN) ++jn;
    R.exec(m, 0, jn);
    std::vector<std::thread> ts;
    for (size_t t = 1; t < p.th.size(); ++t) ts.emplace_back([&, t] { R.exec(p.th[t], 0, p.th[t].size()); });
    for (auto& t : ts) t.join();
    if (jn < m.size()) R.exec(m, jn + 1, m.size());
    vrt_event("call destroy");
    g_destroying = true;
    t_api = true;
    delete v;
    t_api = false;
    vrt_event("ret destroy");
  }
  // quiescent oracles: everything allocated freed exactly once, every element built and destroyed once
  for (int i = 0; i < g_nalloc; ++i) {
    Alloc& a = g_allocs[i];
    if (!a.aligned) {
      if (a.frees > 1) { vrt_event("ORACLE double-free 16-byte chunk"); ++g_oracle; }
      continue;
    }
    if (a.frees != 1) { vrt_event("ORACLE leak a%d (%zu bytes) freed %d times", a.id, a.size, a.frees); ++g_oracle; }
    bool any = false;
    for (size_t k = 0; k < 16; ++k) any |= a.ctor[k] || a.dtor[k];
    if (any)
      for (size_t k = 0; k < g_bs; ++k)
        if (a.ctor[k] != 1 || a.dtor[k] != 1) { vrt_event("ORACLE ctor/dtor element a%d[%zu] ctor=%d dtor=%d at the end", a.id, k, a.ctor[k], a.dtor[k]); ++g_oracle; }
  }
  vrt_event("stats steps %lu switches %lu allocs %d stale %lu", vrt_steps(), vrt_switches(), g_nid, (unsigned long)vrt_stale_reads());
  g_track = false;
  vrt_end();
  vrt_clock_hook(nullptr);
  Post post;
  post.empty_table = R.empty_table;
  std::string tr = vrt_trace();
  size_t i = 0;
  while (i < tr.size()) {
    size_t j = tr.find('\n', i);
    if (j == std::string::npos) j = tr.size();
    post.line(tr.substr(i, j - i));
    i = j + 1;
  }
  fputs(post.out.c_str(), stdout);
  fputs("END\n", stdout);
  fflush(stdout);
  return g_oracle + post.oracle;
}

static int run_any(uint64_t seed, const Program& p, const char* mode) {
  if (p.hint == 0) return run_program<ConcurrentVector<Elem, 4>>(seed, p, mode);
  return run_program<ConcurrentVector<Elem>>(seed, p, mode);
}

int main(int argc, char** argv) {
  std::string mode = argc > 1 ? argv[1] : "rand";
  if (mode == "script") {
    Program p;
    if (argc < 3 || !parse(argv[2], p)) return 2;
    uint64_t seed = argc > 3 ? strtoull(argv[3], 0, 10) : 1;
    run_any(seed, p, "script");
    return 0;
  }
  if (mode == "show") {
    uint64_t seed = argc > 2 ? strtoull(argv[2], 0, 10) : 1;
    fputs(show(generate(seed)).c_str(), stdout);
    return 0;
  }
  uint64_t seed0 = argc > 2 ? strtoull(argv[2], 0, 10) : 1;
  int nruns = argc > 3 ? atoi(argv[3]) : 1;
  for (int i = 0; i < nruns; ++i) {
    uint64_t seed = seed0 + i;
    run_any(seed, generate(seed), "rand");
  }
  return 0;
}
