// E-CONC harness for C01 / C02 (ConcurrentBoundedQueue) under VRT.
// usage: bq <mode> <seed0> <nruns>
//   mode mix   : 1-4 producers, 1-4 consumers, balanced programs drawn from push / try_push / push_n /
//                try_push_n and pop / try_pop / pop_n / try_pop_n with every CONCURRENT / USE_FUTEX_WAIT /
//                USE_FUTEX_WAKE combination the documented pairing rules allow
//   mode comp  : 2-4 threads mixing compensating push_n / pop_n with try_ operations, final drain
//   mode timed : one exclusive consumer using try_pop_n_exclusively_until (+ non-concurrent pops),
//                1-3 waking producers
// Output per run:  RUN <seed> bits=<b> P=<payload words> mode=<m> ...\n <trace lines> END
// Every atomic operation on the ticket counters and the slot futex words is a trace line replayed in
// lock-step by lean/Drivers/C01.lean; `ev call|cbb|cbe|ret|clock …` are harness events the model also
// checks.  The property ORACLE (multiset, FIFO between ordered operations, callback overlap, torn
// payload, try-failure justification, timed-pop deadline) is evaluated here on the real code and
// reported as `ev ORACLE <kind> …`.  Slot payloads are registered with vrt_payload so the
// happens-before monitor checks publication under the memory orders the code really uses.
#include "../vrt/vrt.h"

#include <babylon/concurrent/bounded_queue.h>

#include <sched.h>
#include <time.h>

#include <algorithm>
#include <cstdio>
#include <cstdlib>
#include <cstring>
#include <map>
#include <string>
#include <thread>
#include <vector>

// absl's GetCurrentTimeNanos uses a calibrated cycle counter; route it to the (virtual) clock so the
// timed wait is deterministic; vrt_trace_clock(1) makes every reading an `ev clock <ns>` trace line.
namespace absl {
ABSL_NAMESPACE_BEGIN
int64_t GetCurrentTimeNanos() {
  struct timespec ts;
  clock_gettime(CLOCK_REALTIME, &ts);
  int64_t ns = (int64_t)ts.tv_sec * 1000000000ll + ts.tv_nsec;
  return ns;
}
ABSL_NAMESPACE_END
}  // namespace absl

using namespace babylon;

struct Rng {
  uint64_t s;
  explicit Rng(uint64_t x) : s(x * 0x9E3779B97F4A7C15ull + 1) {}
  uint64_t next() {
    s ^= s << 13;
    s ^= s >> 7;
    s ^= s << 17;
    return s * 0x2545F4914F6CDD1Dull;
  }
  uint64_t below(uint64_t n) { return n ? (next() >> 11) % n : 0; }
  bool coin(int pct = 50) { return (int)below(100) < pct; }
};

constexpr uint64_t MAGIC = 0x5bd1e9955bd1e995ull;
struct One {
  uint64_t a = 0;
  void set(uint64_t v) {
    sched_yield();
    a = v;
  }
  // returns the value, sets torn when the words disagree
  uint64_t get(bool& torn, bool yield) const {
    (void)torn;
    if (yield) sched_yield();
    return a;
  }
};
struct Two {
  uint64_t a = 0, b = 0;
  void set(uint64_t v) {
    a = v;
    sched_yield();   // a scheduling point between the two words: tearing / overlap becomes observable
    b = v ^ MAGIC;
  }
  uint64_t get(bool& torn, bool) const {
    uint64_t x = a;
    sched_yield();
    uint64_t y = b;
    if ((x ^ MAGIC) != y) torn = true;
    return x;
  }
};

// In VRT's weak-memory mode a try_ operation may legitimately read a stale slot version unless the
// operations that filled / emptied the queue happen-before it; the harness can only vouch for that on the
// main thread after it joined everybody, so the justification oracle is restricted to that case there.
static bool g_view = false;
static bool justify_here() { return !g_view || vrt_tid() == 0; }

enum Kind { PUSH, TRY_PUSH, PUSH_N, TRY_PUSH_N, POP, TRY_POP, POP_N, TRY_POP_N, CPUSH_N, CPOP_N, TIMED_POP_N };

struct OpRec {           // one element handed in / out, with the stamps of the call that did it
  uint64_t v;
  uint64_t call, ret;
  int tid;
};

template <typename P>
struct Run {
  using Q = ConcurrentBoundedQueue<P>;
  using It = typename Q::Iterator;
  Q q;
  size_t cap;
  std::vector<int> busy;                 // callbacks currently running per slot
  uint64_t stamp = 0;                    // global event counter (call / ret)
  int active = 0;                        // queue operations in flight
  uint64_t started = 0;                  // queue operations ever started
  std::vector<OpRec> pushed, popped;
  uint64_t push_done = 0, pop_done = 0;  // elements whose push / pop callback finished
  std::vector<std::vector<uint64_t>> fill_time;   // per slot: virtual time at which each push callback on it finished
  size_t base_round = 0;

  explicit Run(size_t c) : q(c), cap(q.capacity()), busy(cap, 0), fill_time(cap) {}

  size_t slot_of(const P* p) { return ((const char*)p - (const char*)&q._slots._slots[0]) / sizeof(typename Q::Slot); }

  // ---- callbacks -------------------------------------------------------------------------
  struct Ctx {
    uint64_t call;
    std::vector<uint64_t> vals;   // values to push (consumed front to back) / values popped
    size_t next = 0;
    uint64_t* gen = nullptr;      // compensation pushes as many fresh values as it needs
    uint64_t take() {
      if (next >= vals.size() && gen) vals.push_back(++*gen);
      return vals[next++];
    }
  };
  void cb_push1(Ctx& c, P& t) {
    size_t s = slot_of(&t);
    vrt_event("cbb %zu 1", s);
    if (busy[s]++) vrt_event("ORACLE overlap push callback on slot %zu while another callback runs", s);
    uint64_t v = c.take();
    t.set(v);
    busy[s]--;
    ++push_done;
    fill_time[s].push_back(vrt_now());
    vrt_event("cbe %lu", (unsigned long)v);
  }
  void cb_pop1(Ctx& c, P& t) {
    size_t s = slot_of(&t);
    vrt_event("cbb %zu 1", s);
    if (busy[s]++) vrt_event("ORACLE overlap pop callback on slot %zu while another callback runs", s);
    bool torn = false;
    uint64_t v = t.get(torn, true);
    if (torn) vrt_event("ORACLE torn payload read on slot %zu", s);
    busy[s]--;
    ++pop_done;
    c.vals.push_back(v);
    vrt_event("cbe %lu", (unsigned long)v);
  }
  void cb_pushn(Ctx& c, It b, It e) {
    size_t s = slot_of(&*b), n = (size_t)(e - b);
    vrt_event("cbb %zu %zu", s, n);
    std::string vs;
    for (size_t i = 0; i < n; ++i)
      if (busy[s + i]++) vrt_event("ORACLE overlap push callback on slot %zu while another callback runs", s + i);
    for (size_t i = 0; i < n; ++i) {
      uint64_t v = c.take();
      (*(b + (ssize_t)i)).set(v);
      vs += " " + std::to_string(v);
    }
    if (n > 0) sched_yield();
    for (size_t i = 0; i < n; ++i) busy[s + i]--;
    for (size_t i = 0; i < n; ++i) fill_time[s + i].push_back(vrt_now());
    push_done += n;
    vrt_event("cbe%s", vs.c_str());
  }
  void cb_popn(Ctx& c, It b, It e) {
    size_t s = slot_of(&*b), n = (size_t)(e - b);
    vrt_event("cbb %zu %zu", s, n);
    std::string vs;
    for (size_t i = 0; i < n; ++i)
      if (busy[s + i]++) vrt_event("ORACLE overlap pop callback on slot %zu while another callback runs", s + i);
    if (n > 0) sched_yield();
    for (size_t i = 0; i < n; ++i) {
      bool torn = false;
      uint64_t v = (*(b + (ssize_t)i)).get(torn, false);
      if (torn) vrt_event("ORACLE torn payload read on slot %zu", s + i);
      c.vals.push_back(v);
      vs += " " + std::to_string(v);
    }
    for (size_t i = 0; i < n; ++i) busy[s + i]--;
    pop_done += n;
    vrt_event("cbe%s", vs.c_str());
  }

  // ---- bookkeeping around a call ---------------------------------------------------------
  struct Win {
    uint64_t call;
    int others;           // operations of other threads in flight at the call
    uint64_t started0;
    uint64_t push_done0, pop_done0;
  };
  Win enter() {
    Win w {++stamp, active, 0, push_done, pop_done};
    ++active;
    w.started0 = ++started;
    return w;
  }
  // true when no other queue operation overlapped the window
  bool leave(const Win& w) {
    --active;
    ++stamp;
    return justify_here() && w.others == 0 && started == w.started0;
  }
  void rec_push(const Ctx& c, size_t from, size_t to, uint64_t call) {
    for (size_t i = from; i < to; ++i) pushed.push_back({c.vals[i], call, stamp, vrt_tid()});
  }
  void rec_pop(const Ctx& c, size_t from, uint64_t call) {
    for (size_t i = from; i < c.vals.size(); ++i) popped.push_back({c.vals[i], call, stamp, vrt_tid()});
  }

  // ---- operations (template flags chosen at run time) --------------------------------------
#define FLAGS3(C, W, K, EXPR)                                                     \
  do {                                                                            \
    int f_ = ((C) ? 4 : 0) | ((W) ? 2 : 0) | ((K) ? 1 : 0);                        \
    switch (f_) {                                                                 \
      case 0: { constexpr bool CC = false, WW = false, KK = false; EXPR; } break; \
      case 1: { constexpr bool CC = false, WW = false, KK = true; EXPR; } break;  \
      case 2: { constexpr bool CC = false, WW = true, KK = false; EXPR; } break;  \
      case 3: { constexpr bool CC = false, WW = true, KK = true; EXPR; } break;   \
      case 4: { constexpr bool CC = true, WW = false, KK = false; EXPR; } break;  \
      case 5: { constexpr bool CC = true, WW = false, KK = true; EXPR; } break;   \
      case 6: { constexpr bool CC = true, WW = true, KK = false; EXPR; } break;   \
      default: { constexpr bool CC = true, WW = true, KK = true; EXPR; } break;   \
    }                                                                             \
  } while (0)

  void push(bool C, bool W, bool K, uint64_t v) {
    Ctx c {0, {v}};
    Win w = enter();
    vrt_event("call push %d %d %d", C, W, K);
    FLAGS3(C, W, K, (q.template push<CC, WW, KK>([&](P& t) { cb_push1(c, t); })));
    leave(w);
    vrt_event("ret push");
    rec_push(c, 0, 1, w.call);
  }
  bool try_push(bool C, bool K, uint64_t v) {
    Ctx c {0, {v}};
    Win w = enter();
    vrt_event("call try_push %d %d", C, K);
    bool ok = false;
    FLAGS3(C, false, K, (ok = q.template try_push<CC, KK>([&](P& t) { cb_push1(c, t); })));
    bool alone = leave(w);
    vrt_event("ret try_push %d", ok);
    if (ok) rec_push(c, 0, 1, w.call);
    // unjustified failure: nobody overlapped and the queue was not full
    if (!ok && alone && w.push_done0 - w.pop_done0 < cap)
      vrt_event("ORACLE try-unjustified try_push failed with %lu of %zu slots used and no overlapping operation",
                (unsigned long)(w.push_done0 - w.pop_done0), cap);
    return ok;
  }
  void push_n(bool C, bool W, bool K, const std::vector<uint64_t>& vs) {
    Ctx c {0, vs};
    Win w = enter();
    vrt_event("call push_n %d %d %d %zu", C, W, K, vs.size());
    FLAGS3(C, W, K, (q.template push_n<CC, WW, KK>([&](It b, It e) { cb_pushn(c, b, e); }, vs.size())));
    leave(w);
    vrt_event("ret push_n");
    if (c.next != vs.size()) vrt_event("ORACLE push_n callback ranges sum to %zu, asked %zu", c.next, vs.size());
    rec_push(c, 0, c.next, w.call);
  }
  size_t try_push_n(bool C, bool K, const std::vector<uint64_t>& vs) {
    Ctx c {0, vs};
    Win w = enter();
    vrt_event("call try_push_n %d %d %zu", C, K, vs.size());
    size_t n = 0;
    FLAGS3(C, false, K, (n = q.template try_push_n<CC, KK>([&](It b, It e) { cb_pushn(c, b, e); }, vs.size())));
    bool alone = leave(w);
    vrt_event("ret try_push_n %zu", n);
    if (c.next != n) vrt_event("ORACLE try_push_n returned %zu but its callbacks covered %zu", n, c.next);
    rec_push(c, 0, c.next, w.call);
    size_t room = cap - (size_t)(w.push_done0 - w.pop_done0);
    if (alone && n < std::min(vs.size(), room))
      vrt_event("ORACLE try-unjustified try_push_n pushed %zu of %zu with room %zu and no overlapping operation", n, vs.size(), room);
    return n;
  }
  uint64_t pop(bool C, bool W, bool K) {
    Ctx c {0, {}};
    Win w = enter();
    vrt_event("call pop %d %d %d", C, W, K);
    FLAGS3(C, W, K, (q.template pop<CC, WW, KK>([&](P& t) { cb_pop1(c, t); })));
    leave(w);
    vrt_event("ret pop");
    rec_pop(c, 0, w.call);
    return c.vals.empty() ? 0 : c.vals[0];
  }
  bool try_pop(bool C, bool K) {
    Ctx c {0, {}};
    Win w = enter();
    vrt_event("call try_pop %d %d", C, K);
    bool ok = false;
    FLAGS3(C, false, K, (ok = q.template try_pop<CC, KK>([&](P& t) { cb_pop1(c, t); })));
    bool alone = leave(w);
    vrt_event("ret try_pop %d", ok);
    rec_pop(c, 0, w.call);
    if (ok != (c.vals.size() == 1)) vrt_event("ORACLE try_pop returned %d with %zu callbacks", ok, c.vals.size());
    if (!ok && alone && w.push_done0 > w.pop_done0)
      vrt_event("ORACLE try-unjustified try_pop failed with %lu elements queued and no overlapping operation",
                (unsigned long)(w.push_done0 - w.pop_done0));
    return ok;
  }
  size_t pop_n(bool C, bool W, bool K, size_t num) {
    Ctx c {0, {}};
    Win w = enter();
    vrt_event("call pop_n %d %d %d %zu", C, W, K, num);
    FLAGS3(C, W, K, (q.template pop_n<CC, WW, KK>([&](It b, It e) { cb_popn(c, b, e); }, num)));
    leave(w);
    vrt_event("ret pop_n");
    if (c.vals.size() != num) vrt_event("ORACLE pop_n callback ranges sum to %zu, asked %zu", c.vals.size(), num);
    rec_pop(c, 0, w.call);
    return c.vals.size();
  }
  size_t try_pop_n(bool C, bool K, size_t num) {
    Ctx c {0, {}};
    Win w = enter();
    vrt_event("call try_pop_n %d %d %zu", C, K, num);
    size_t n = 0;
    FLAGS3(C, false, K, (n = q.template try_pop_n<CC, KK>([&](It b, It e) { cb_popn(c, b, e); }, num)));
    bool alone = leave(w);
    vrt_event("ret try_pop_n %zu", n);
    if (c.vals.size() != n) vrt_event("ORACLE try_pop_n returned %zu but its callbacks covered %zu", n, c.vals.size());
    rec_pop(c, 0, w.call);
    size_t avail = (size_t)(w.push_done0 - w.pop_done0);
    if (alone && n < std::min(num, avail))
      vrt_event("ORACLE try-unjustified try_pop_n popped %zu of %zu with %zu queued and no overlapping operation", n, num, avail);
    return n;
  }
  // compensating variants: `own` are the values this call pushes (push_n) / `spare` the values its
  // compensation pushes (pop_n); returns elements popped by the call (its own or by compensation)
  void cpush_n(const std::vector<uint64_t>& vs) {
    Ctx c {0, vs}, r {0, {}};
    Win w = enter();
    vrt_event("call cpush_n %zu", vs.size());
    q.push_n([&](It b, It e) { cb_pushn(c, b, e); }, [&](It b, It e) { cb_popn(r, b, e); }, vs.size());
    leave(w);
    vrt_event("ret cpush_n");
    if (c.next != vs.size()) vrt_event("ORACLE compensating push_n callback ranges sum to %zu, asked %zu", c.next, vs.size());
    rec_push(c, 0, c.next, w.call);
    rec_pop(r, 0, w.call);
  }
  void cpop_n(size_t num, uint64_t& gen) {
    Ctx c {0, {}}, r {0, {}};
    r.gen = &gen;
    Win w = enter();
    vrt_event("call cpop_n %zu", num);
    q.pop_n([&](It b, It e) { cb_popn(c, b, e); }, [&](It b, It e) { cb_pushn(r, b, e); }, num);
    leave(w);
    vrt_event("ret cpop_n");
    if (c.vals.size() != num) vrt_event("ORACLE compensating pop_n callback ranges sum to %zu, asked %zu", c.vals.size(), num);
    rec_pop(c, 0, w.call);
    rec_push(r, 0, r.next, w.call);
  }
  size_t timed_pop_n(bool K, size_t num, uint64_t timeout_ns) {
    Ctx c {0, {}};
    struct timespec ts {(time_t)(timeout_ns / 1000000000ull), (long)(timeout_ns % 1000000000ull)};
    Win w = enter();
    uint64_t t0 = vrt_now();
    size_t idx0;                       // plain read of the dispenser (this consumer is exclusive): not an atomic operation
    memcpy(&idx0, (const void*)&q._next_pop_index, sizeof idx0);
    vrt_event("call timed_pop_n %d %zu %lu", K, num, (unsigned long)timeout_ns);
    size_t n = 0;
    if (K) n = q.template try_pop_n_exclusively_until<true>([&](It b, It e) { cb_popn(c, b, e); }, num, &ts);
    else n = q.template try_pop_n_exclusively_until<false>([&](It b, It e) { cb_popn(c, b, e); }, num, &ts);
    bool alone = leave(w);
    uint64_t t1 = vrt_now();
    vrt_event("ret timed_pop_n %zu", n);
    if (c.vals.size() != n) vrt_event("ORACLE timed pop returned %zu but its callbacks covered %zu", n, c.vals.size());
    rec_pop(c, 0, w.call);
    // deadline: relative timeout from the call; slack = virtual cost of the clock readings / wake-up
    if (t1 > t0 + timeout_ns + 100000)
      vrt_event("ORACLE timed-late timed pop returned %lu ns after the call, timeout %lu ns", (unsigned long)(t1 - t0), (unsigned long)timeout_ns);
    size_t avail = (size_t)(w.push_done0 - w.pop_done0);
    if (alone && n < std::min(num, avail))
      vrt_event("ORACLE try-unjustified timed pop returned %zu of %zu with %zu queued and no overlapping operation", n, num, avail);
    // woken by the producer that fills the awaited slot: the call sleeps on the slot of ticket idx0 + num; once the push
    // callback of that ticket has finished (its release + wake-up follow without virtual delay) the call must return
    // promptly, not at its deadline
    {
      size_t tk = idx0 + num, sl = tk & (cap - 1), ord = tk / cap - base_round;   // ord-th fill (0-based) of that slot
      if (ord < fill_time[sl].size()) {
        uint64_t ta = std::max(fill_time[sl][ord], t0);
        if (t1 > ta + 100000)
          vrt_event("ORACLE timed-unwoken timed pop returned %lu ns after the awaited slot was filled (timeout %lu ns)",
                    (unsigned long)(t1 - ta), (unsigned long)timeout_ns);
      }
    }
    return n;
  }

  // ---- end-of-run oracle -----------------------------------------------------------------
  void final_oracle(bool expect_empty) {
    std::map<uint64_t, int> ms;
    for (auto& p : pushed) ms[p.v]++;
    for (auto& p : popped) ms[p.v]--;
    for (auto& kv : ms) {
      if (kv.second > 0 && expect_empty) vrt_event("ORACLE lost value %lu pushed but never popped", (unsigned long)kv.first);
      if (kv.second < 0) {
        bool known = false;
        for (auto& p : pushed) known |= p.v == kv.first;
        vrt_event("ORACLE %s value %lu", known ? "duplicated" : "invented", (unsigned long)kv.first);
      }
    }
    // FIFO between ordered operations: push a returned before push b was called, pop y (of b) returned
    // before pop x (of a) was called  =>  violation
    std::map<uint64_t, const OpRec*> popof;
    for (auto& p : popped) popof[p.v] = &p;
    for (auto& a : pushed)
      for (auto& b : pushed) {
        if (!(a.ret < b.call)) continue;
        auto x = popof.find(a.v), y = popof.find(b.v);
        if (x == popof.end() || y == popof.end()) continue;
        if (y->second->ret < x->second->call)
          vrt_event("ORACLE fifo value %lu pushed before %lu but popped after it by ordered pops", (unsigned long)a.v, (unsigned long)b.v);
      }
    if (vrt_races() > 0) vrt_event("ORACLE race %lu unordered payload accesses", (unsigned long)vrt_races());
  }
};

static std::vector<size_t> split(Rng& r, size_t total, int parts) {
  std::vector<size_t> out(parts, 0);
  for (size_t i = 0; i < total; ++i) out[r.below(parts)]++;
  return out;
}

template <typename P>
void name_queue(Run<P>& R) {
  using Q = ConcurrentBoundedQueue<P>;
  vrt_unname_all();
  vrt_name(&R.q._next_push_index, 8, "pushidx");
  vrt_name(&R.q._next_pop_index, 8, "popidx");
  vrt_name(&R.q._slots._slots[0], R.cap * sizeof(typename Q::Slot), "slot");
  for (size_t i = 0; i < R.cap; ++i) {
    char nm[32];
    snprintf(nm, sizeof nm, "val%zu", i);
    vrt_payload(&R.q._slots._slots[i].value, sizeof(P), nm);
  }
}

// Start the queue as if `round` full rounds of the ring had already gone through it: both dispensers at
// round * capacity and every slot word at the version an empty slot has then (2 * round, truncated to 16 bits).
// Rounds 32766/32767 and 65534/65535 put the 16-bit slot version just before its wrap (65532/65534 -> 0), which
// a run from 0 would only reach after 32768 * capacity operations.  The replay driver gets `base=<round>`.
template <typename P>
size_t preset_round(Run<P>& R, Rng& rng, int pct) {
  if (!rng.coin(pct)) return 0;
  size_t round = (size_t[]) {32766, 32767, 65534, 65535}[rng.below(4)];
  R.q._next_push_index.store(round * R.cap, std::memory_order_relaxed);
  R.q._next_pop_index.store(round * R.cap, std::memory_order_relaxed);
  for (size_t i = 0; i < R.cap; ++i)
    R.q._slots.futex(i)._futex.value().store((uint16_t)(2 * round), std::memory_order_relaxed);
  R.base_round = round;
  return round;
}

// ---------------------------------------------------------------------------------------------
template <typename P>
void run_mix(uint64_t seed, int words) {
  Rng rng(seed);
  int bits = (int)rng.below(4);
  // style 3: blocking futex-waiting pushers run ahead of delayed consumers on a tiny queue (pushers must SLEEP on full slots)
  int style = rng.coin(40) ? 1 + (int)rng.below(3) : 0;
  if (style == 3 && bits > 1) bits = (int)rng.below(2);
  Run<P> R((size_t)1 << bits);
  name_queue(R);
  int nprod = 1 + (int)rng.below(4), ncons = 1 + (int)rng.below(4);
  if (rng.coin(40)) { nprod = 1 + (int)rng.below(2); ncons = 1 + (int)rng.below(2); }
  size_t total = 1 + rng.below(rng.coin(30) ? 4 * R.cap + 3 : 12);
  // style 1: one exclusive (CONCURRENT=false) producer issuing mostly large try_push_n batches against 2-3 consumers
  // popping one element at a time (pops complete out of order, so a batch crossing the ring end meets a hole);
  // style 2: the mirror image for try_pop_n
  if (style == 1) { nprod = 1; ncons = 2 + (int)rng.below(2); }
  if (style == 2) { ncons = 1; nprod = 2 + (int)rng.below(2); }
  if (style) total = 2 * R.cap + 1 + rng.below(3 * R.cap + 2);
  size_t round = preset_round(R, rng, style == 3 ? 70 : 40);
  if (round && total < 2 * R.cap + 2) total = 2 * R.cap + 2 + rng.below(2 * R.cap + 2);   // cross the version wrap
  bool push_wake_all = rng.coin(70), pop_wake_all = rng.coin(70);
  if (style == 3) { pop_wake_all = true; total = 2 * R.cap + 2 + rng.below(4); }
  auto pq = split(rng, total, nprod), cq = split(rng, total, ncons);
  vrt_begin(seed);
  printf("RUN %lu bits=%d P=%d mode=mix prod=%d cons=%d total=%zu pushwake=%d popwake=%d base=%zu style=%d\n", (unsigned long)seed, bits,
         words, nprod, ncons, total, push_wake_all, pop_wake_all, round, style);
  std::vector<std::thread> ts;
  for (int p = 0; p < nprod; ++p) {
    uint64_t tseed = rng.next();
    size_t quota = pq[p];
    ts.emplace_back([&, p, tseed, quota] {
      Rng r(tseed);
      uint64_t nextv = (uint64_t)(p + 1) * 1000;
      size_t left = quota;
      while (left > 0) {
        bool C = nprod > 1 ? true : r.coin(50);
        bool W = pop_wake_all ? r.coin(60) : false;
        bool K = push_wake_all ? true : r.coin(40);
        size_t n = 1 + r.below(std::min(left, R.cap));
        int kind = (int)r.below(4);
        if (style == 1) {
          C = false;
          if (r.coin(75)) { kind = 3; n = std::min(left, R.cap - r.below(R.cap / 2 + 1)); }
        } else if (style == 2) {
          if (r.coin(70)) kind = (int)r.below(2);
        } else if (style == 3) {
          W = true;
          kind = r.coin(70) ? 0 : 2;
        }
        std::vector<uint64_t> vs;
        switch (kind) {
          case 0: R.push(C, W, K, ++nextv); left -= 1; break;
          case 1:
            ++nextv;
            if (!R.try_push(C, K, nextv)) R.push(C, W, K, nextv);
            left -= 1;
            break;
          case 2:
            for (size_t i = 0; i < n; ++i) vs.push_back(++nextv);
            R.push_n(C, W, K, vs);
            left -= n;
            break;
          default: {
            for (size_t i = 0; i < n; ++i) vs.push_back(++nextv);
            size_t done = R.try_push_n(C, K, vs);
            if (done < n) {
              std::vector<uint64_t> rest(vs.begin() + (ssize_t)done, vs.end());
              R.push_n(C, W, K, rest);
            }
            left -= n;
          }
        }
      }
    });
  }
  for (int c = 0; c < ncons; ++c) {
    uint64_t tseed = rng.next();
    size_t quota = cq[c];
    ts.emplace_back([&, tseed, quota] {
      Rng r(tseed);
      size_t left = quota;
      if (style == 3) usleep(200 + (useconds_t)r.below(2000));   // let the pushers fill the queue and fall asleep
      while (left > 0) {
        if (style == 3 && r.coin(60)) usleep(50 + (useconds_t)r.below(500));
        bool C = ncons > 1 ? true : r.coin(50);
        bool W = push_wake_all ? r.coin(60) : false;
        bool K = pop_wake_all ? true : r.coin(40);
        size_t n = 1 + r.below(std::min(left, R.cap));
        int kind = (int)r.below(4);
        if (style == 2) {
          C = false;
          if (r.coin(75)) { kind = 3; n = std::min(left, R.cap - r.below(R.cap / 2 + 1)); }
        } else if (style == 1) {
          if (r.coin(70)) kind = (int)r.below(2);
        }
        switch (kind) {
          case 0: R.pop(C, W, K); left -= 1; break;
          case 1:
            if (!R.try_pop(C, K)) R.pop(C, W, K);
            left -= 1;
            break;
          case 2: R.pop_n(C, W, K, n); left -= n; break;
          default: {
            size_t done = R.try_pop_n(C, K, n);
            if (done < n) R.pop_n(C, W, K, n - done);
            left -= n;
          }
        }
      }
    });
  }
  for (auto& t : ts) t.join();
  vrt_event("call size");
  size_t sz = R.q.size();
  vrt_event("ret size %zu", sz);
  if (sz != 0) vrt_event("ORACLE size() = %zu at quiescence after balanced programs", sz);
  if (R.try_pop(false, true)) vrt_event("ORACLE queue not empty after balanced programs");
  {
    // idle queue, nobody else running: try_ operations must succeed / clear() (= try_pop_n<true,true>(capacity)) must
    // drain — the justification oracle inside the wrappers applies because no other operation overlaps
    size_t m = 1 + rng.below(R.cap);
    std::vector<uint64_t> vs;
    for (size_t i = 0; i < m; ++i) vs.push_back(900000 + i);
    if (rng.coin()) R.try_push_n(rng.coin(), true, vs);
    else for (size_t i = 0; i < m; ++i) R.try_push(rng.coin(), true, vs[i]);
    if (rng.coin()) R.try_pop_n(true, true, R.cap);
    else for (size_t i = 0; i < m; ++i) R.try_pop(rng.coin(), true);
    if (R.try_pop(false, true)) vrt_event("ORACLE queue not empty after clear");
  }
  R.final_oracle(true);
  vrt_event("stats steps %lu switches %lu stale %lu", vrt_steps(), vrt_switches(), (unsigned long)vrt_stale_reads());
  vrt_end();
  vrt_dump(stdout);
}

template <typename P>
void run_comp(uint64_t seed, int words) {
  Rng rng(seed);
  int bits = (int)rng.below(4);
  Run<P> R((size_t)1 << bits);
  name_queue(R);
  int nthreads = 2 + (int)rng.below(3);
  int nops = 1 + (int)rng.below(4);
  size_t round = preset_round(R, rng, 40);
  if (round) nops += 2;
  vrt_begin(seed);
  printf("RUN %lu bits=%d P=%d mode=comp threads=%d ops=%d base=%zu\n", (unsigned long)seed, bits, words, nthreads, nops, round);
  std::vector<std::thread> ts;
  for (int t = 0; t < nthreads; ++t) {
    uint64_t tseed = rng.next();
    ts.emplace_back([&, t, tseed] {
      Rng r(tseed);
      uint64_t nextv = (uint64_t)(t + 1) * 1000;
      for (int i = 0; i < nops; ++i) {
        size_t n = 1 + r.below(R.cap);
        std::vector<uint64_t> vs;
        switch (r.below(6)) {
          case 0:
          case 1:
            for (size_t k = 0; k < n; ++k) vs.push_back(++nextv);
            R.cpush_n(vs);
            break;
          case 2:
          case 3:
            R.cpop_n(n, nextv);
            break;
          case 4:
            if (r.coin()) R.try_push(true, r.coin(), ++nextv);
            else {
              for (size_t k = 0; k < n; ++k) vs.push_back(++nextv);
              R.try_push_n(true, r.coin(), vs);
            }
            break;
          default:
            if (r.coin()) R.try_pop(true, r.coin());
            else R.try_pop_n(true, r.coin(), n);
        }
      }
    });
  }
  for (auto& t : ts) t.join();
  // drain
  for (;;) {
    size_t got = R.try_pop_n(false, false, R.cap);
    if (got == 0) break;
  }
  vrt_event("call size");
  size_t sz = R.q.size();
  vrt_event("ret size %zu", sz);
  if (sz != 0) vrt_event("ORACLE size() = %zu after draining", sz);
  R.final_oracle(true);
  vrt_event("stats steps %lu switches %lu stale %lu", vrt_steps(), vrt_switches(), (unsigned long)vrt_stale_reads());
  vrt_end();
  vrt_dump(stdout);
}

template <typename P>
void run_timed(uint64_t seed, int words) {
  Rng rng(seed);
  int bits = (int)rng.below(4);
  Run<P> R((size_t)1 << bits);
  name_queue(R);
  int nprod = 1 + (int)rng.below(3);
  size_t total = 1 + rng.below(10);
  size_t round = preset_round(R, rng, 40);
  if (round) total += 2 * R.cap;
  auto pq = split(rng, total, nprod);
  bool slow_producers = rng.coin(50);
  vrt_begin(seed);
  printf("RUN %lu bits=%d P=%d mode=timed prod=%d total=%zu slow=%d base=%zu\n", (unsigned long)seed, bits, words, nprod, total, slow_producers,
         round);
  std::vector<std::thread> ts;
  for (int p = 0; p < nprod; ++p) {
    uint64_t tseed = rng.next();
    size_t quota = pq[p];
    ts.emplace_back([&, p, tseed, quota] {
      Rng r(tseed);
      uint64_t nextv = (uint64_t)(p + 1) * 1000;
      size_t left = quota;
      while (left > 0) {
        if (slow_producers && r.coin(50)) usleep(100 + (useconds_t)r.below(3000));
        bool C = nprod > 1 ? true : r.coin(50);
        bool W = r.coin(50);   // the consumer always wakes (see below)
        size_t n = 1 + r.below(std::min(left, R.cap));
        std::vector<uint64_t> vs;
        if (r.coin(50)) {
          R.push(C, W, true, ++nextv);
          left -= 1;
        } else {
          for (size_t i = 0; i < n; ++i) vs.push_back(++nextv);
          R.push_n(C, W, true, vs);
          left -= n;
        }
      }
    });
  }
  {
    uint64_t tseed = rng.next();
    ts.emplace_back([&, tseed] {
      Rng r(tseed);
      size_t left = total;
      while (left > 0) {
        size_t n = 1 + r.below(std::min(left, R.cap));
        switch (r.below(4)) {
          case 0: R.pop(false, r.coin(), true); left -= 1; break;
          default: {
            uint64_t to = (uint64_t[]) {1000, 200000, 1500000, 5000000}[r.below(4)];
            left -= R.timed_pop_n(true, n, to);
          }
        }
      }
    });
  }
  for (auto& t : ts) t.join();
  if (R.try_pop(false, true)) vrt_event("ORACLE queue not empty after balanced programs");
  R.final_oracle(true);
  vrt_event("stats steps %lu switches %lu stale %lu", vrt_steps(), vrt_switches(), (unsigned long)vrt_stale_reads());
  vrt_end();
  vrt_dump(stdout);
}

int main(int argc, char** argv) {
  std::string mode = argc > 1 ? argv[1] : "mix";
  uint64_t seed0 = argc > 2 ? strtoull(argv[2], 0, 10) : 1;
  int nruns = argc > 3 ? atoi(argv[3]) : 1;
  g_view = getenv("VRT_MEM") && !strcmp(getenv("VRT_MEM"), "view");
  vrt_trace_clock(1);     // `ev clock <ns>` per clock reading, ` to=<ns>` on timed futex waits
  vrt_payload_sched(1);   // plain accesses to slot payloads are scheduling points
  for (int i = 0; i < nruns; ++i) {
    uint64_t seed = seed0 + i;
    bool two = (seed % 3) == 0;
    if (mode == "mix") { if (two) run_mix<Two>(seed, 2); else run_mix<One>(seed, 1); }
    else if (mode == "comp") { if (two) run_comp<Two>(seed, 2); else run_comp<One>(seed, 1); }
    else if (mode == "timed") { if (two) run_timed<Two>(seed, 2); else run_timed<One>(seed, 1); }
    else return 2;
  }
  return 0;
}
