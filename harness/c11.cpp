// E-SEQ harness for C11: interprets op lines on the real babylon::Serialization / SerializeTraits
// (same protocol as lean/Drivers/C11.lean) over a fixed table of concrete C++ types, and evaluates the
// property's own ORACLE on the implementation:
//   * calculated size == number of bytes produced (standalone serialize_to_string, and the
//     calculate-then-serialize_with_cached_size path must produce the same bytes)
//   * round trip: parse(serialize(v)) into a fresh object == v, where a smart pointer to a value with an
//     empty encoding reads back as null (`norm`)
//   * whenever parsing arbitrary bytes reports success, the result serializes and parses back to itself
//   * parsing terminates (the interpreter runs in a supervised worker process: allocation budget, 30 s answer timeout; a crash is a result) and is memory-safe
//     (ASan + UBSan; the input lives in an exactly-sized heap block)
// A broken oracle appends " !ORACLE(<kind> …)" to the output line.
//
//   type <id> <type-expr>            -> ok | mismatch <real descriptor>
//   types                            -> one line: <id>=<descriptor> …
//   enc  <id> <value>                -> ok <size> <hex|->
//   encu <id> <value>                -> ok <size> <hex of the SORTED bytes>   (types with unordered containers)
//   enc2 <id> <value1> <value2>      -> ok <size> <hex|->       (same object serialized, mutated, serialized again)
//   enc2u …                          -> like enc2, bytes printed sorted (types with unordered containers)
//   pb   <id> <value>                -> ok <hex of PROTOBUF's encoding>   (A1, A5, A6: structs of the documented-compatible
//                                       kinds; protobuf's writer / generic parser as independent oracle both ways)
//   rt   <id> <value> <pres>         -> ok <value parsed back>  (serialize, parse through <pres> into a fresh object)
//   dec  <id> <hex|-> <pres>         -> ok <value> | fail
//   deci <id> <value> <hex|-> <pres> -> ok <value> | fail       (parse into an object holding <value>)
// pres: f (parse_from_array) | g (parse_from_string) | fL<n> (array-backed CodedInputStream + PushLimit(n))
//     | s<c> (CodedInputStream over ArrayInputStream with block size c) | s<c>L<n> (… + PushLimit(n))
#include <babylon/serialization.h>

#include <google/protobuf/unknown_field_set.h>
#include <google/protobuf/wire_format_lite.h>

#include <poll.h>
#include <signal.h>
#include <sys/wait.h>
#include <unistd.h>

#include <algorithm>
#include <cstdint>
#include <cstdio>
#include <cstring>
#include <iostream>
#include <list>
#include <map>
#include <memory>
#include <sstream>
#include <string>
#include <unordered_map>
#include <unordered_set>
#include <vector>

using ::babylon::Serialization;
using ::babylon::SerializeTraits;
using ::google::protobuf::io::ArrayInputStream;
using ::google::protobuf::io::ArrayOutputStream;
using ::google::protobuf::io::CodedInputStream;
using ::google::protobuf::io::CodedOutputStream;

// ------------------------------------------------------------------------------------------------
// allocation budget (a parse loop that never ends allocates until bad_alloc)
static size_t g_alloc_budget = 0;  // 0 = unlimited
static size_t g_allocated = 0;
static void budget_exceeded() {
  static const char msg[] = "noret !ORACLE(nonterminating allocation budget exceeded)\n";
  (void)!write(1, msg, sizeof(msg) - 1);
  _exit(0);
}
void* operator new(size_t n) {
  if (g_alloc_budget) {
    g_allocated += n;
    if (g_allocated > g_alloc_budget) budget_exceeded();
  }
  void* p = malloc(n ? n : 1);
  if (!p) throw std::bad_alloc();
  return p;
}
void operator delete(void* p) noexcept { free(p); }
void operator delete(void* p, size_t) noexcept { free(p); }

// ------------------------------------------------------------------------------------------------
// value expressions
struct Node {
  char kind = 'n';  // n number, x string, [ sequence, : pair, ~ null, & pointer, ( record
  bool neg = false;
  uint64_t num = 0;
  std::string str;
  std::vector<Node> kids;
};
struct ParseError {};
static int hexv(char c) {
  if (c >= '0' && c <= '9') return c - '0';
  if (c >= 'a' && c <= 'f') return c - 'a' + 10;
  if (c >= 'A' && c <= 'F') return c - 'A' + 10;
  return -1;
}
static Node parse_node(const char*& p) {
  Node n;
  if (*p == '~') { n.kind = '~'; ++p; return n; }
  if (*p == '&') { n.kind = '&'; ++p; n.kids.push_back(parse_node(p)); return n; }
  if (*p == 'x') {
    n.kind = 'x'; ++p;
    while (hexv(p[0]) >= 0 && hexv(p[1]) >= 0) { n.str.push_back(char(hexv(p[0]) * 16 + hexv(p[1]))); p += 2; }
    return n;
  }
  if (*p == '[' || *p == '(') {
    char close = *p == '[' ? ']' : ')';
    n.kind = *p; ++p;
    while (*p != close) {
      if (!*p) throw ParseError();
      Node k = parse_node(p);
      if (*p == ':') {
        ++p;
        Node pr; pr.kind = ':'; pr.kids.push_back(std::move(k)); pr.kids.push_back(parse_node(p));
        n.kids.push_back(std::move(pr));
      } else {
        n.kids.push_back(std::move(k));
      }
      if (*p == ',') ++p;
    }
    ++p;
    return n;
  }
  if (*p == '-') { n.neg = true; ++p; }
  if (!(*p >= '0' && *p <= '9')) throw ParseError();
  while (*p >= '0' && *p <= '9') { n.num = n.num * 10 + uint64_t(*p - '0'); ++p; }
  return n;
}
static Node parse_value(const std::string& s) {
  const char* p = s.c_str();
  Node n = parse_node(p);
  if (*p) throw ParseError();
  return n;
}
static std::string hex(const std::string& s) {
  static const char* d = "0123456789abcdef";
  std::string o;
  for (unsigned char c : s) { o.push_back(d[c >> 4]); o.push_back(d[c & 15]); }
  return o;
}
static std::string hex_or_dash(const std::string& s) { return s.empty() ? "-" : hex(s); }
static bool unhex(const std::string& h, std::string& out) {
  out.clear();
  if (h == "-") return true;
  if (h.size() % 2) return false;
  for (size_t i = 0; i < h.size(); i += 2) {
    int a = hexv(h[i]), b = hexv(h[i + 1]);
    if (a < 0 || b < 0) return false;
    out.push_back(char(a * 16 + b));
  }
  return true;
}

// ------------------------------------------------------------------------------------------------
// the concrete types
enum class E32 : int32_t { A = 0, B = 1, N = -1 };
enum E8u : uint8_t { E8_A = 0, E8_B = 200 };
enum class E64 : int64_t { A = 0, Big = (1LL << 40), Neg = -(1LL << 40) };
enum class EU64 : uint64_t { A = 0, Big = (1ULL << 63) };
enum class E16 : int16_t { A = 0, N = -1 };

#define AGG using is_agg = void;

struct A1 {  // scalars + string + vector, explicit numbers
  AGG int32_t a {0};
  std::string s;
  std::vector<int32_t> v;
  BABYLON_SERIALIZABLE((a, 1)(s, 2)(v, 3));
  template <class F> void members(F&& f) { f(1, a); f(2, s); f(3, v); }
};
struct A2 {  // nested aggregate, pointer to aggregate, vector of aggregates; sparse numbers
  AGG A1 inner;
  uint64_t x {0};
  std::unique_ptr<A1> p;
  std::vector<A1> r;
  BABYLON_SERIALIZABLE((inner, 1)(x, 5)(p, 7)(r, 9));
  template <class F> void members(F&& f) { f(1, inner); f(5, x); f(7, p); f(9, r); }
};
struct A3 : public A1 {  // with base class
  AGG static constexpr bool has_base = true;
  double d {0};
  std::string t;
  BABYLON_SERIALIZABLE_WITH_BASE((A1, 1), (d, 2)(t, 3));
  template <class F> void members(F&& f) { f(1, static_cast<A1&>(*this)); f(2, d); f(3, t); }
};
struct A4 {  // >= 10 SIMPLE members: whole-object size cache
  AGG bool b {false};
  int8_t i8 {0};
  int16_t i16 {0};
  int32_t i32 {0};
  int64_t i64 {0};
  uint8_t u8 {0};
  uint16_t u16 {0};
  uint32_t u32 {0};
  uint64_t u64 {0};
  E32 e {E32::A};
  E8u e8 {E8_A};
  std::string s;
  float f {0};
  BABYLON_SERIALIZABLE((b, 1)(i8, 2)(i16, 3)(i32, 4)(i64, 5)(u8, 6)(u16, 7)(u32, 8)(u64, 9)(e, 10)(e8, 11)(s, 12)(f, 13));
  template <class F> void members(F&& f_) {
    f_(1, b); f_(2, i8); f_(3, i16); f_(4, i32); f_(5, i64); f_(6, u8); f_(7, u16); f_(8, u32); f_(9, u64);
    f_(10, e); f_(11, e8); f_(12, s); f_(13, f);
  }
};
struct A5 {  // all members TRIVIAL: the aggregate is TRIVIAL
  AGG float a {0};
  double b {0};
  float c {0};
  BABYLON_SERIALIZABLE((a, 1)(b, 2)(c, 3));
  template <class F> void members(F&& f) { f(1, a); f(2, b); f(3, c); }
};
struct A6 {  // the struct of docs/serialization "Protocol Buffer Compatibility" (documented-compatible kinds)
  AGG bool b {false};
  int32_t i32 {0};
  int64_t i64 {0};
  uint32_t u32 {0};
  uint64_t u64 {0};
  float f {0};
  double d {0};
  E32 e {E32::A};
  std::string s;
  std::string by;
  A1 m;
  std::vector<bool> rpb;
  std::vector<int32_t> rpi32;
  std::vector<int64_t> rpi64;
  std::vector<uint32_t> rpu32;
  std::vector<uint64_t> rpu64;
  std::vector<float> rpf;
  std::vector<double> rpd;
  std::vector<E32> rpe;
  BABYLON_COMPATIBLE((b, 1)(i32, 4)(i64, 5)(u32, 8)(u64, 9)(f, 16)(d, 17)(e, 18)(s, 19)(by, 20)(m, 21)(rpb, 44)(rpi32, 47)(
      rpi64, 48)(rpu32, 51)(rpu64, 52)(rpf, 59)(rpd, 60)(rpe, 61));
  template <class F> void members(F&& f_) {
    f_(1, b); f_(4, i32); f_(5, i64); f_(8, u32); f_(9, u64); f_(16, f); f_(17, d); f_(18, e); f_(19, s); f_(20, by);
    f_(21, m); f_(44, rpb); f_(47, rpi32); f_(48, rpi64); f_(51, rpu32); f_(52, rpu64); f_(59, rpf); f_(60, rpd);
    f_(61, rpe);
  }
};
struct A7 {  // containers and pointers inside an aggregate; large field numbers (multi-byte tags)
  AGG std::unordered_map<int32_t, A1> m;
  std::unordered_set<std::string> st;
  std::list<std::unique_ptr<A1>> l;
  int32_t arr[2] {0, 0};
  std::shared_ptr<A1> sp;
  std::vector<A5> tv;
  BABYLON_SERIALIZABLE((m, 1)(st, 15)(l, 16)(arr, 300)(sp, 70000)(tv, 2));
  template <class F> void members(F&& f) { f(1, m); f(15, st); f(16, l); f(300, arr); f(70000, sp); f(2, tv); }
};
struct A10 {  // enums of every width, also as container elements
  AGG E64 a {E64::A};
  EU64 b {EU64::A};
  E16 c {E16::A};
  E8u d {E8_A};
  std::vector<E64> v;
  BABYLON_SERIALIZABLE((a, 1)(b, 2)(c, 3)(d, 4)(v, 5));
  template <class F> void members(F&& f) { f(1, a); f(2, b); f(3, c); f(4, d); f(5, v); }
};
struct A8 {  // automatic numbering
  AGG int64_t a {0};
  std::string b;
  std::vector<std::string> c;
  BABYLON_SERIALIZABLE(a, b, c);
  template <class F> void members(F&& f) { f(1, a); f(2, b); f(3, c); }
};
struct A9 : public A8 {  // automatic numbering with base
  AGG static constexpr bool has_base = true;
  uint8_t z {0};
  BABYLON_SERIALIZABLE_WITH_BASE(A8, z);
  template <class F> void members(F&& f) { f(1, static_cast<A8&>(*this)); f(2, z); }
};
// six levels of nesting
struct N1 { AGG std::string s; int32_t v {0}; BABYLON_SERIALIZABLE((s, 1)(v, 2)); template <class F> void members(F&& f) { f(1, s); f(2, v); } };
struct N2 { AGG N1 n; std::vector<N1> r; BABYLON_SERIALIZABLE((n, 1)(r, 2)); template <class F> void members(F&& f) { f(1, n); f(2, r); } };
struct N3 { AGG std::unique_ptr<N2> n; int8_t k {0}; BABYLON_SERIALIZABLE((n, 1)(k, 2)); template <class F> void members(F&& f) { f(1, n); f(2, k); } };
struct N4 { AGG std::vector<N3> r; BABYLON_SERIALIZABLE((r, 1)); template <class F> void members(F&& f) { f(1, r); } };
struct N5 { AGG N4 n; std::string t; BABYLON_SERIALIZABLE((n, 3)(t, 1)); template <class F> void members(F&& f) { f(3, n); f(1, t); } };
struct N6 { AGG std::shared_ptr<N5> n; std::vector<N5> r; BABYLON_SERIALIZABLE((n, 1)(r, 2)); template <class F> void members(F&& f) { f(1, n); f(2, r); } };
// a size-CACHED aggregate usable as a set element / map key
struct K1 {
  AGG int32_t id {0};
  std::vector<int32_t> v;
  BABYLON_SERIALIZABLE((id, 1)(v, 2));
  template <class F> void members(F&& f) { f(1, id); f(2, v); }
  bool operator==(const K1& o) const { return id == o.id && v == o.v; }
};
struct K1Hash {
  size_t operator()(const K1& k) const noexcept { size_t h = size_t(k.id); for (auto x : k.v) h = h * 31 + size_t(x); return h; }
};
// an aggregate that is TRIVIAL only because its pointer member inherits TRIVIAL from float
struct PT { AGG std::unique_ptr<float> p; BABYLON_SERIALIZABLE((p, 1)); template <class F> void members(F&& f) { f(1, p); } };
// ---- shapes recorded as known findings ---------------------------------------------------------
struct D1 {  // non-empty default member initialisers
  AGG std::string s {"abc"};
  std::vector<int32_t> v {1, 2};
  int32_t x {5};
  BABYLON_SERIALIZABLE((s, 1)(v, 2)(x, 3));
  template <class F> void members(F&& f) { f(1, s); f(2, v); f(3, x); }
};
struct Custom {  // hand-written protocol (docs: "Custom Serialization Function Implementation"): COMPLEX by default
  std::string s;
  void serialize(CodedOutputStream& os) const { os.WriteString(s); }
  bool deserialize(CodedInputStream& is) { return SerializeTraits<std::string>::deserialize(is, s); }
  size_t calculate_serialized_size() const noexcept { return s.size(); }
};
struct B1 : public Custom {  // COMPLEX base class, few simple members
  AGG static constexpr bool has_base = true;
  int32_t a {0};
  BABYLON_SERIALIZABLE_WITH_BASE((Custom, 1), (a, 2));
  template <class F> void members(F&& f) { f(1, static_cast<Custom&>(*this)); f(2, a); }
};

// ------------------------------------------------------------------------------------------------
// descriptor / fill / show per C++ type
template <class T, class E = void> struct C;
template <class T> concept IsAgg = requires { typename T::is_agg; };
template <class T> concept HasBase = requires { T::has_base; };

template <class T> struct Holder { T v {}; };

template <> struct C<bool> {
  static std::string desc() { return "bool"; }
  static void fill(bool& v, const Node& n) { v = n.num != 0; }
  static std::string show(const bool& v, bool) { return v ? "1" : "0"; }
};
template <class T> struct C<T, std::enable_if_t<std::is_integral_v<T> && !std::is_same_v<T, bool>>> {
  static std::string desc() { return std::string(std::is_signed_v<T> ? "i" : "u") + std::to_string(sizeof(T) * 8); }
  static void fill(T& v, const Node& n) { v = static_cast<T>(n.neg ? (0 - n.num) : n.num); }
  static std::string show(const T& v, bool) {
    if (std::is_signed_v<T>) return std::to_string(static_cast<long long>(v));
    return std::to_string(static_cast<unsigned long long>(v));
  }
};
template <class T> struct C<T, std::enable_if_t<std::is_enum_v<T>>> {
  using U = std::underlying_type_t<T>;
  static std::string desc() { return "e" + std::to_string(sizeof(U) * 8) + (std::is_signed_v<U> ? "s" : "u"); }
  static void fill(T& v, const Node& n) { v = static_cast<T>(static_cast<U>(n.neg ? (0 - n.num) : n.num)); }
  static std::string show(const T& v, bool) { return C<U>::show(static_cast<U>(v), false); }
};
template <> struct C<float> {
  static std::string desc() { return "f32"; }
  static void fill(float& v, const Node& n) { uint32_t b = uint32_t(n.num); memcpy(&v, &b, 4); }
  static std::string show(const float& v, bool) { uint32_t b; memcpy(&b, &v, 4); return std::to_string(b); }
};
template <> struct C<double> {
  static std::string desc() { return "f64"; }
  static void fill(double& v, const Node& n) { uint64_t b = n.num; memcpy(&v, &b, 8); }
  static std::string show(const double& v, bool) { uint64_t b; memcpy(&b, &v, 8); return std::to_string(b); }
};
template <> struct C<std::string> {
  static std::string desc() { return "str"; }
  static void fill(std::string& v, const Node& n) { v = n.str; }
  static std::string show(const std::string& v, bool) { return "x" + hex(v); }
};
template <> struct C<Custom> {
  static std::string desc() { return "str"; }
  static void fill(Custom& v, const Node& n) { v.s = n.str; }
  static std::string show(const Custom& v, bool) { return "x" + hex(v.s); }
};
static std::string join(const std::vector<std::string>& v) {
  std::string o;
  for (size_t i = 0; i < v.size(); ++i) { if (i) o += ","; o += v[i]; }
  return o;
}
template <class T> struct C<std::vector<T>> {
  static std::string desc() { return "vec(" + C<T>::desc() + ")"; }
  static void fill(std::vector<T>& v, const Node& n) {
    v.clear();
    v.resize(n.kids.size());
    for (size_t i = 0; i < n.kids.size(); ++i) C<T>::fill(v[i], n.kids[i]);
  }
  static std::string show(const std::vector<T>& v, bool norm) {
    std::vector<std::string> o;
    for (auto& x : v) o.push_back(C<T>::show(x, norm));
    return "[" + join(o) + "]";
  }
};
template <> struct C<std::vector<bool>> {
  static std::string desc() { return "vec(bool)"; }
  static void fill(std::vector<bool>& v, const Node& n) { v.clear(); for (auto& k : n.kids) v.push_back(k.num != 0); }
  static std::string show(const std::vector<bool>& v, bool) {
    std::vector<std::string> o;
    for (bool x : v) o.push_back(x ? "1" : "0");
    return "[" + join(o) + "]";
  }
};
template <class T> struct C<std::list<T>> {
  static std::string desc() { return "list(" + C<T>::desc() + ")"; }
  static void fill(std::list<T>& v, const Node& n) {
    v.clear();
    for (auto& k : n.kids) { v.emplace_back(); C<T>::fill(v.back(), k); }
  }
  static std::string show(const std::list<T>& v, bool norm) {
    std::vector<std::string> o;
    for (auto& x : v) o.push_back(C<T>::show(x, norm));
    return "[" + join(o) + "]";
  }
};
template <class T, size_t N> struct C<T[N]> {
  static std::string desc() { return "arr(" + C<T>::desc() + "," + std::to_string(N) + ")"; }
  static void fill(T (&v)[N], const Node& n) {
    if (n.kids.size() != N) throw ParseError();
    for (size_t i = 0; i < N; ++i) C<T>::fill(v[i], n.kids[i]);
  }
  static std::string show(const T (&v)[N], bool norm) {
    std::vector<std::string> o;
    for (size_t i = 0; i < N; ++i) o.push_back(C<T>::show(v[i], norm));
    return "[" + join(o) + "]";
  }
};
template <class T, class H> struct C<std::unordered_set<T, H>> {
  static std::string desc() { return "set(" + C<T>::desc() + ")"; }
  static void fill(std::unordered_set<T, H>& v, const Node& n) {
    v.clear();
    for (auto& k : n.kids) { T x {}; C<T>::fill(x, k); v.emplace(std::move(x)); }
  }
  static std::string show(const std::unordered_set<T, H>& v, bool norm) {
    std::vector<std::string> o;
    for (auto& x : v) o.push_back(C<T>::show(x, norm));
    std::sort(o.begin(), o.end());
    return "[" + join(o) + "]";
  }
};
template <class K, class V, class H> struct C<std::unordered_map<K, V, H>> {
  static std::string desc() { return "map(" + C<K>::desc() + "," + C<V>::desc() + ")"; }
  static void fill(std::unordered_map<K, V, H>& v, const Node& n) {
    v.clear();
    for (auto& k : n.kids) {
      if (k.kind != ':') throw ParseError();
      K x {}; V y {};
      C<K>::fill(x, k.kids[0]); C<V>::fill(y, k.kids[1]);
      v.emplace(std::move(x), std::move(y));
    }
  }
  static std::string show(const std::unordered_map<K, V, H>& v, bool norm) {
    std::vector<std::string> o;
    for (auto& x : v) o.push_back(C<K>::show(x.first, norm) + ":" + C<V>::show(x.second, norm));
    std::sort(o.begin(), o.end());
    return "[" + join(o) + "]";
  }
};
template <class P, class T> struct PtrC {
  static void fill(P& v, const Node& n) {
    if (n.kind == '~') { v.reset(); return; }
    if (n.kind != '&') throw ParseError();
    if (!v) v.reset(new T());
    C<T>::fill(*v, n.kids[0]);
  }
  static std::string show(const P& v, bool norm) {
    if (!v) return "~";
    // the property's stated exception: a pointer to a value whose encoding is empty reads back as null
    if (norm && SerializeTraits<T>::calculate_serialized_size(*v) == 0) return "~";
    return "&" + C<T>::show(*v, norm);
  }
};
template <class T> struct C<std::unique_ptr<T>> : PtrC<std::unique_ptr<T>, T> {
  static std::string desc() { return "uptr(" + C<T>::desc() + ")"; }
};
template <class T> struct C<std::shared_ptr<T>> : PtrC<std::shared_ptr<T>, T> {
  static std::string desc() { return "sptr(" + C<T>::desc() + ")"; }
};
template <class T> struct C<T, std::enable_if_t<IsAgg<T>>> {
  static std::string desc() {
    Holder<T> h;
    std::vector<std::string> o;
    h.v.members([&](int num, auto& m) {
      using M = std::remove_reference_t<decltype(m)>;
      o.push_back(std::to_string(num) + ":" + C<M>::desc() + "=" + C<M>::show(m, false));
    });
    return std::string(HasBase<T> ? "aggb(" : "agg(") + join(o) + ")";
  }
  static void fill(T& v, const Node& n) {
    if (n.kind != '(') throw ParseError();
    size_t i = 0;
    v.members([&](int, auto& m) {
      using M = std::remove_reference_t<decltype(m)>;
      if (i >= n.kids.size()) throw ParseError();
      C<M>::fill(m, n.kids[i++]);
    });
    if (i != n.kids.size()) throw ParseError();
  }
  static std::string show(const T& v, bool norm) {
    std::vector<std::string> o;
    const_cast<T&>(v).members([&](int, auto& m) {
      using M = std::remove_reference_t<decltype(m)>;
      o.push_back(C<M>::show(m, norm));
    });
    return "(" + join(o) + ")";
  }
};

// ------------------------------------------------------------------------------------------------
// presentations
struct Pres {
  char kind = 'f';  // f array, g string, s stream
  int chunk = 0;
  bool has_limit = false;
  int limit = 0;
};
static bool parse_pres(const std::string& s, Pres& p) {
  const char* c = s.c_str();
  p.kind = *c++;
  if (p.kind != 'f' && p.kind != 'g' && p.kind != 's') return false;
  if (p.kind == 's') {
    if (!(*c >= '0' && *c <= '9')) return false;
    p.chunk = int(strtol(c, const_cast<char**>(&c), 10));
    if (p.chunk < 1) return false;
  }
  if (*c == 'L') { p.has_limit = true; p.limit = int(strtoll(c + 1, const_cast<char**>(&c), 10)); }
  return *c == 0 && !(p.kind == 'g' && p.has_limit);
}
template <class T> static bool parse_with(const Pres& p, const std::string& in, T& obj) {
  // exactly-sized heap copy: ASan sees any read outside the input
  std::unique_ptr<char[]> buf(new char[in.size()]);
  memcpy(buf.get(), in.data(), in.size());
  if (p.kind == 'g') return Serialization::parse_from_string(in, obj);
  if (p.kind == 'f' && !p.has_limit) return Serialization::parse_from_array(buf.get(), in.size(), obj);
  if (p.kind == 'f') {
    CodedInputStream cis(reinterpret_cast<const uint8_t*>(buf.get()), int(in.size()));
    cis.PushLimit(p.limit);
    return Serialization::parse_from_coded_stream(cis, obj);
  }
  ArrayInputStream ais(buf.get(), int(in.size()), p.chunk);
  CodedInputStream cis(&ais);
  if (p.has_limit) cis.PushLimit(p.limit);
  return Serialization::parse_from_coded_stream(cis, obj);
}

// ------------------------------------------------------------------------------------------------
// operations on one type
template <class T> struct Ops {
  // serialize standalone, then through the calculate + with_cached_size path; report oracle failures
  static std::string serialize_checked(const T& obj, std::string& out, std::string& oracle) {
    if (!Serialization::serialize_to_string(obj, out)) oracle += " !ORACLE(serialize-failed)";
    size_t size = Serialization::calculate_serialized_size(obj);
    if (size != out.size()) oracle += " !ORACLE(size calculated=" + std::to_string(size) + " produced=" + std::to_string(out.size()) + ")";
    std::string again(size, '\0');
    ArrayOutputStream as(again.data(), int(size));
    CodedOutputStream cs(&as);
    bool ok = Serialization::serialize_to_coded_stream_with_cached_size(obj, cs);
    if (!ok || size_t(cs.ByteCount()) != size || again != out)
      oracle += " !ORACLE(cached-serialize-differs " + hex_or_dash(again.substr(0, size_t(cs.ByteCount()))) + ")";
    return std::to_string(size);
  }
  static std::string enc(const Node& v) {
    auto h = std::make_unique<Holder<T>>();
    C<T>::fill(h->v, v);
    std::string out, oracle;
    std::string size = serialize_checked(h->v, out, oracle);
    return "ok " + size + " " + hex_or_dash(out) + oracle;
  }
  static std::string enc2(const Node& v1, const Node& v2) {
    auto h = std::make_unique<Holder<T>>();
    C<T>::fill(h->v, v1);
    std::string out, oracle;
    Serialization::serialize_to_string(h->v, out);
    C<T>::fill(h->v, v2);
    std::string size = serialize_checked(h->v, out, oracle);
    // the second serialization must round-trip too
    auto back = std::make_unique<Holder<T>>();
    if (!Serialization::parse_from_string(out, back->v) || C<T>::show(back->v, false) != C<T>::show(h->v, true))
      oracle += " !ORACLE(roundtrip-after-reuse)";
    return "ok " + size + " " + hex_or_dash(out) + oracle;
  }
  static std::string rt(const Node& v, const Pres& p) {
    auto h = std::make_unique<Holder<T>>();
    C<T>::fill(h->v, v);
    std::string out;
    Serialization::serialize_to_string(h->v, out);
    auto back = std::make_unique<Holder<T>>();
    if (!parse_with(p, out, back->v)) return "fail !ORACLE(roundtrip parse-failed)";
    std::string got = C<T>::show(back->v, false), want = C<T>::show(h->v, true);
    return "ok " + got + (got == want ? "" : " !ORACLE(roundtrip want=" + want + ")");
  }
  static std::string dec(const Node* init, const std::string& in, const Pres& p) {
    auto h = std::make_unique<Holder<T>>();
    if (init) C<T>::fill(h->v, *init);
    if (!parse_with(p, in, h->v)) return "fail";
    // parse success => the result serializes and parses back to itself
    std::string got = C<T>::show(h->v, false);
    std::string out, oracle;
    serialize_checked(h->v, out, oracle);
    auto back = std::make_unique<Holder<T>>();
    if (!Serialization::parse_from_string(out, back->v)) {
      oracle += " !ORACLE(fixpoint reparse-failed)";
    } else {
      std::string again = C<T>::show(back->v, false), want = C<T>::show(h->v, true);
      if (again != want) oracle += " !ORACLE(fixpoint reparsed=" + again + ")";
    }
    return "ok " + got + oracle;
  }
};

// ------------------------------------------------------------------------------------------------
// independent oracle for the protobuf-compatibility clause (documented kinds only): protobuf's own writer
// (WireFormatLite / CodedOutputStream) produces the bytes babylon must read, and protobuf's own generic wire parser
// (UnknownFieldSet) reads the bytes babylon produced
using ::google::protobuf::UnknownField;
using ::google::protobuf::UnknownFieldSet;
using WFL = ::google::protobuf::internal::WireFormatLite;

template <class T, class E = void> struct Pb;   // one compatible kind
template <class T> static std::string pb_message(const T& v);
template <class T> static bool pb_check_message(const T& v, const std::string& bytes, std::string& why);

template <> struct Pb<bool> {
  static constexpr bool repeated = false;
  static void write(int num, const bool& v, CodedOutputStream& os) { WFL::WriteBool(num, v, &os); }
  static void write_packed(const bool& v, CodedOutputStream& os) { WFL::WriteBoolNoTag(v, &os); }
  static bool read_packed(CodedInputStream& is, bool& v) { uint64_t x; if (!is.ReadVarint64(&x)) return false; v = x != 0; return true; }
  static bool check(const bool& v, const UnknownField& f) { return f.type() == UnknownField::TYPE_VARINT && (f.varint() != 0) == v; }
};
#define PB_VARINT(T, W, CAST)                                                                              \
  template <> struct Pb<T> {                                                                               \
    static constexpr bool repeated = false;                                                                \
    static void write(int num, const T& v, CodedOutputStream& os) { WFL::Write##W(num, v, &os); }           \
    static void write_packed(const T& v, CodedOutputStream& os) { WFL::Write##W##NoTag(v, &os); }           \
    static bool read_packed(CodedInputStream& is, T& v) { uint64_t x; if (!is.ReadVarint64(&x)) return false; v = CAST(x); return true; } \
    static bool check(const T& v, const UnknownField& f) { return f.type() == UnknownField::TYPE_VARINT && CAST(f.varint()) == v; } \
  };
PB_VARINT(int32_t, Int32, static_cast<int32_t>)
PB_VARINT(int64_t, Int64, static_cast<int64_t>)
PB_VARINT(uint32_t, UInt32, static_cast<uint32_t>)
PB_VARINT(uint64_t, UInt64, static_cast<uint64_t>)
template <> struct Pb<E32> {
  static constexpr bool repeated = false;
  static void write(int num, const E32& v, CodedOutputStream& os) { WFL::WriteEnum(num, static_cast<int>(v), &os); }
  static void write_packed(const E32& v, CodedOutputStream& os) { WFL::WriteEnumNoTag(static_cast<int>(v), &os); }
  static bool read_packed(CodedInputStream& is, E32& v) { uint64_t x; if (!is.ReadVarint64(&x)) return false; v = static_cast<E32>(static_cast<int32_t>(x)); return true; }
  static bool check(const E32& v, const UnknownField& f) { return f.type() == UnknownField::TYPE_VARINT && static_cast<int32_t>(f.varint()) == static_cast<int32_t>(v); }
};
template <> struct Pb<float> {
  static constexpr bool repeated = false;
  static void write(int num, const float& v, CodedOutputStream& os) { WFL::WriteFloat(num, v, &os); }
  static void write_packed(const float& v, CodedOutputStream& os) { WFL::WriteFloatNoTag(v, &os); }
  static bool read_packed(CodedInputStream& is, float& v) { uint32_t x; if (!is.ReadLittleEndian32(&x)) return false; memcpy(&v, &x, 4); return true; }
  static bool check(const float& v, const UnknownField& f) { uint32_t b; memcpy(&b, &v, 4); return f.type() == UnknownField::TYPE_FIXED32 && f.fixed32() == b; }
};
template <> struct Pb<double> {
  static constexpr bool repeated = false;
  static void write(int num, const double& v, CodedOutputStream& os) { WFL::WriteDouble(num, v, &os); }
  static void write_packed(const double& v, CodedOutputStream& os) { WFL::WriteDoubleNoTag(v, &os); }
  static bool read_packed(CodedInputStream& is, double& v) { uint64_t x; if (!is.ReadLittleEndian64(&x)) return false; memcpy(&v, &x, 8); return true; }
  static bool check(const double& v, const UnknownField& f) { uint64_t b; memcpy(&b, &v, 8); return f.type() == UnknownField::TYPE_FIXED64 && f.fixed64() == b; }
};
template <> struct Pb<std::string> {
  static constexpr bool repeated = false;
  static void write(int num, const std::string& v, CodedOutputStream& os) { WFL::WriteBytes(num, v, &os); }
  static bool check(const std::string& v, const UnknownField& f) { return f.type() == UnknownField::TYPE_LENGTH_DELIMITED && f.length_delimited() == v; }
};
template <class T> struct Pb<T, std::enable_if_t<IsAgg<T>>> {   // optional message
  static constexpr bool repeated = false;
  static void write(int num, const T& v, CodedOutputStream& os) { WFL::WriteBytes(num, pb_message(v), &os); }
  static bool check(const T& v, const UnknownField& f) {
    std::string why;
    return f.type() == UnknownField::TYPE_LENGTH_DELIMITED && pb_check_message(v, f.length_delimited(), why);
  }
};
template <class T> struct PackedOf {   // repeated … [packed = true]
  static constexpr bool repeated = true;
  template <class V> static std::string payload(const V& v) {
    std::string s;
    {
      ::google::protobuf::io::StringOutputStream so(&s);
      CodedOutputStream os(&so);
      for (const T& x : v) Pb<T>::write_packed(x, os);
    }
    return s;
  }
  template <class V> static void write(int num, const V& v, CodedOutputStream& os) {
    if (v.empty()) return;   // protobuf does not write an empty packed field
    WFL::WriteBytes(num, payload(v), &os);
  }
  template <class V> static bool check(const V& v, const UnknownField& f) {
    if (f.type() != UnknownField::TYPE_LENGTH_DELIMITED) return false;
    const std::string& p = f.length_delimited();
    CodedInputStream is(reinterpret_cast<const uint8_t*>(p.data()), int(p.size()));
    size_t i = 0;
    while (is.BytesUntilLimit() > 0) {
      T x {};
      if (!Pb<T>::read_packed(is, x) || i >= v.size()) return false;
      T want = v[i++];
      if (memcmp(&x, &want, sizeof(T)) != 0 && !(x == want)) return false;
    }
    return i == v.size();
  }
};
template <class T> struct Pb<std::vector<T>> : PackedOf<T> {};
template <> struct Pb<std::vector<bool>> {
  static constexpr bool repeated = true;
  static void write(int num, const std::vector<bool>& v, CodedOutputStream& os) {
    if (v.empty()) return;
    std::string s;
    for (bool b : v) s.push_back(b ? 1 : 0);
    WFL::WriteBytes(num, s, &os);
  }
  static bool check(const std::vector<bool>& v, const UnknownField& f) {
    if (f.type() != UnknownField::TYPE_LENGTH_DELIMITED || f.length_delimited().size() != v.size()) return false;
    for (size_t i = 0; i < v.size(); ++i) if ((f.length_delimited()[i] != 0) != v[i]) return false;
    return true;
  }
};
// protobuf's encoding of a struct of compatible kinds, every optional field set
template <class T> static std::string pb_message(const T& v) {
  std::string s;
  {
    ::google::protobuf::io::StringOutputStream so(&s);
    CodedOutputStream os(&so);
    const_cast<T&>(v).members([&](int num, auto& m) {
      using M = std::remove_reference_t<decltype(m)>;
      Pb<M>::write(num, m, os);
    });
  }
  return s;
}
// babylon's bytes, read by protobuf's generic wire parser, hold exactly the members (an omitted member must be empty)
template <class T> static bool pb_check_message(const T& v, const std::string& bytes, std::string& why) {
  UnknownFieldSet ufs;
  if (!ufs.ParseFromString(bytes)) { why = "protobuf cannot parse"; return false; }
  std::vector<bool> used(size_t(ufs.field_count()), false);
  bool ok = true;
  const_cast<T&>(v).members([&](int num, auto& m) {
    using M = std::remove_reference_t<decltype(m)>;
    int found = -1;
    for (int i = 0; i < ufs.field_count(); ++i)
      if (ufs.field(i).number() == num) { if (found >= 0) { ok = false; why = "field twice " + std::to_string(num); } found = i; }
    if (found < 0) {
      if (SerializeTraits<M>::calculate_serialized_size(m) != 0) { ok = false; why = "missing field " + std::to_string(num); }
      return;
    }
    used[size_t(found)] = true;
    if (!Pb<M>::check(m, ufs.field(found))) { ok = false; why = "wrong value in field " + std::to_string(num); }
  });
  for (size_t i = 0; i < used.size(); ++i) if (!used[i]) { ok = false; why = "stray field " + std::to_string(ufs.field(int(i)).number()); }
  return ok;
}
template <class T, class E = void> struct PbOps {
  static std::string pb(const Node&) { return "unsupported"; }
};
template <class T> struct PbOps<T, std::enable_if_t<std::is_same_v<T, A1> || std::is_same_v<T, A5> || std::is_same_v<T, A6>>> {
  static std::string pb(const Node& v) {
    auto h = std::make_unique<Holder<T>>();
    C<T>::fill(h->v, v);
    std::string oracle, mine, why;
    Serialization::serialize_to_string(h->v, mine);
    if (!pb_check_message(h->v, mine, why)) oracle += " !ORACLE(protobuf-reads-babylon " + why + ")";
    std::string theirs = pb_message(h->v);
    auto back = std::make_unique<Holder<T>>();
    if (!Serialization::parse_from_string(theirs, back->v)) oracle += " !ORACLE(babylon-reads-protobuf parse-failed)";
    else if (C<T>::show(back->v, false) != C<T>::show(h->v, false)) oracle += " !ORACLE(babylon-reads-protobuf got=" + C<T>::show(back->v, false) + ")";
    return "ok " + hex_or_dash(theirs) + oracle;
  }
};

struct Entry {
  std::string (*desc)();
  std::string (*enc)(const Node&);
  std::string (*enc2)(const Node&, const Node&);
  std::string (*rt)(const Node&, const Pres&);
  std::string (*dec)(const Node*, const std::string&, const Pres&);
  std::string (*pb)(const Node&);
};
template <class T> static Entry entry() { return Entry {&C<T>::desc, &Ops<T>::enc, &Ops<T>::enc2, &Ops<T>::rt, &Ops<T>::dec, &PbOps<T>::pb}; }

using ArrI3 = int32_t[3];
using ArrD2 = double[2];
using ArrS2 = std::string[2];
using ArrP3 = std::unique_ptr<int32_t>[3];

static const std::vector<std::pair<std::string, Entry>>& table() {
  static const std::vector<std::pair<std::string, Entry>> t = {
      {"bool", entry<bool>()}, {"i8", entry<int8_t>()}, {"i16", entry<int16_t>()}, {"i32", entry<int32_t>()},
      {"i64", entry<int64_t>()}, {"u8", entry<uint8_t>()}, {"u16", entry<uint16_t>()}, {"u32", entry<uint32_t>()},
      {"u64", entry<uint64_t>()}, {"e32", entry<E32>()}, {"e8u", entry<E8u>()}, {"e64", entry<E64>()},
      {"eu64", entry<EU64>()}, {"e16", entry<E16>()}, {"Veu64", entry<std::vector<EU64>>()}, {"A10", entry<A10>()},
      {"f32", entry<float>()},
      {"f64", entry<double>()}, {"str", entry<std::string>()},
      {"Vi32", entry<std::vector<int32_t>>()}, {"Vstr", entry<std::vector<std::string>>()},
      {"Vf32", entry<std::vector<float>>()}, {"Vf64", entry<std::vector<double>>()},
      {"Vbool", entry<std::vector<bool>>()}, {"VVi64", entry<std::vector<std::vector<int64_t>>>()},
      {"Ve32", entry<std::vector<E32>>()}, {"Lu16", entry<std::list<uint16_t>>()},
      {"Lstr", entry<std::list<std::string>>()}, {"Ri32", entry<ArrI3>()}, {"Rf64", entry<ArrD2>()},
      {"Rstr", entry<ArrS2>()}, {"Si32", entry<std::unordered_set<int32_t>>()},
      {"Sstr", entry<std::unordered_set<std::string>>()}, {"Mi32str", entry<std::unordered_map<int32_t, std::string>>()},
      {"MstrVi32", entry<std::unordered_map<std::string, std::vector<int32_t>>>()},
      {"Pi32", entry<std::unique_ptr<int32_t>>()}, {"Pstr", entry<std::unique_ptr<std::string>>()},
      {"Qstr", entry<std::shared_ptr<std::string>>()}, {"Qi64", entry<std::shared_ptr<int64_t>>()},
      {"VPstr", entry<std::vector<std::unique_ptr<std::string>>>()}, {"PVi32", entry<std::unique_ptr<std::vector<int32_t>>>()},
      {"A1", entry<A1>()}, {"A2", entry<A2>()}, {"A3", entry<A3>()}, {"A4", entry<A4>()}, {"A5", entry<A5>()},
      {"A6", entry<A6>()}, {"A7", entry<A7>()}, {"A8", entry<A8>()}, {"A9", entry<A9>()}, {"N6", entry<N6>()},
      {"VA5", entry<std::vector<A5>>()}, {"PA2", entry<std::unique_ptr<A2>>()},
      // top-level containers / pointers whose element (key, value) is a size-CACHED aggregate (A1, A4, K1), a COMPLEX
      // non-cached type (vector, list, hand-written Custom), a SIMPLE non-cached aggregate (N1) or TRIVIAL (A5, double):
      // the trait SERIALIZED_SIZE_CACHED of the container decides whether serialize_to_string calculates first
      {"MstrA1", entry<std::unordered_map<std::string, A1>>()}, {"MK1i32", entry<std::unordered_map<K1, int32_t, K1Hash>>()},
      {"MK1A4", entry<std::unordered_map<K1, A4, K1Hash>>()}, {"Mi32A5", entry<std::unordered_map<int32_t, A5>>()},
      {"Mstrf64", entry<std::unordered_map<std::string, double>>()},
      {"MstrPA1", entry<std::unordered_map<std::string, std::unique_ptr<A1>>>()},
      {"Mi32Cu", entry<std::unordered_map<int32_t, Custom>>()}, {"MstrN1", entry<std::unordered_map<std::string, N1>>()},
      {"MstrLi32", entry<std::unordered_map<std::string, std::list<int32_t>>>()},
      {"SK1", entry<std::unordered_set<K1, K1Hash>>()}, {"VA1", entry<std::vector<A1>>()}, {"VA4", entry<std::vector<A4>>()},
      {"VN1", entry<std::vector<N1>>()}, {"VCu", entry<std::vector<Custom>>()}, {"LA1", entry<std::list<A1>>()},
      {"LA5", entry<std::list<A5>>()}, {"RA1", entry<A1[2]>()}, {"RA5", entry<A5[2]>()},
      {"PA1", entry<std::unique_ptr<A1>>()}, {"QA4", entry<std::shared_ptr<A4>>()},
      {"VMstrA1", entry<std::vector<std::unordered_map<std::string, A1>>>()},
      {"PMstrA1", entry<std::unique_ptr<std::unordered_map<std::string, A1>>>()},
      // smart pointers to TRIVIAL types inside vector / T[N] / a TRIVIAL aggregate (candidate finding: the pointer is
      // declared TRIVIAL, its size is not value-independent)
      {"VPf32", entry<std::vector<std::unique_ptr<float>>>()}, {"VPA5", entry<std::vector<std::unique_ptr<A5>>>()},
      {"VQA5", entry<std::vector<std::shared_ptr<A5>>>()}, {"VPT", entry<std::vector<PT>>()},
      {"RPf64", entry<std::unique_ptr<double>[2]>()},
      // known-finding shapes
      {"D1", entry<D1>()}, {"B1", entry<B1>()}, {"VPi32", entry<std::vector<std::unique_ptr<int32_t>>>()},
      {"RPi32", entry<ArrP3>()},
  };
  return t;
}
static const Entry* find(const std::string& id) {
  for (auto& e : table()) if (e.first == id) return &e.second;
  return nullptr;
}

// hostile operations run under an allocation budget (a parse loop that never ends allocates for ever); the whole
// interpreter runs in a worker process supervised by main(), so a crash / hang / exhausted budget is a result line
template <class F> static std::string guarded(F&& fn) {
  g_allocated = 0;
  g_alloc_budget = size_t(256) << 20;
  std::string r = fn();
  g_alloc_budget = 0;
  return r;
}

// `encu`: unordered containers iterate in an unspecified order, so the bytes are printed sorted (the real bytes are
// compared through `dec` of what `enc` printed)
static std::string sort_hex(const std::string& line) {
  std::istringstream is(line);
  std::string ok, size, h, rest;
  is >> ok >> size >> h;
  std::getline(is, rest);
  std::string raw;
  if (!unhex(h, raw)) return line;
  std::sort(raw.begin(), raw.end(), [](char a, char b) { return (unsigned char)a < (unsigned char)b; });
  return ok + " " + size + " " + hex_or_dash(raw) + rest;
}

static std::string run_line(const std::vector<std::string>& w) {
  try {
    if (w.empty()) return "bad-op";
    if (w[0] == "reset") return "ok";
    if (w[0] == "types") {
      std::string o;
      for (auto& e : table()) o += (o.empty() ? "" : " ") + e.first + "=" + e.second.desc();
      return o;
    }
    if (w.size() < 2) return "bad-op";
    const Entry* e = find(w[1]);
    if (!e) return "bad-id";
    if (w[0] == "type" && w.size() == 3) {
      std::string d = e->desc();
      return d == w[2] ? "ok" : "mismatch " + d;
    }
    if (w[0] == "enc" && w.size() == 3) return e->enc(parse_value(w[2]));
    if (w[0] == "pb" && w.size() == 3) return e->pb(parse_value(w[2]));
    if (w[0] == "encu" && w.size() == 3) return sort_hex(e->enc(parse_value(w[2])));
    if (w[0] == "enc2" && w.size() == 4) return e->enc2(parse_value(w[2]), parse_value(w[3]));
    if (w[0] == "enc2u" && w.size() == 4) return sort_hex(e->enc2(parse_value(w[2]), parse_value(w[3])));
    Pres p;
    std::string in;
    if (w[0] == "rt" && w.size() == 4) {
      if (!parse_pres(w[3], p)) return "bad-op";
      Node v = parse_value(w[2]);
      return guarded([&] { return e->rt(v, p); });
    }
    if (w[0] == "dec" && w.size() == 4) {
      if (!parse_pres(w[3], p) || !unhex(w[2], in)) return "bad-op";
      return guarded([&] { return e->dec(nullptr, in, p); });
    }
    if (w[0] == "deci" && w.size() == 5) {
      if (!parse_pres(w[4], p) || !unhex(w[3], in)) return "bad-op";
      Node v = parse_value(w[2]);
      return guarded([&] { return e->dec(&v, in, p); });
    }
    return "bad-op";
  } catch (const ParseError&) {
    return "bad-value";
  }
}

static void worker_loop(int in_fd, int out_fd) {
  FILE* in = fdopen(in_fd, "r");
  char* buf = nullptr;
  size_t cap = 0;
  ssize_t n;
  while ((n = getline(&buf, &cap, in)) >= 0) {
    std::istringstream is(std::string(buf, size_t(n)));
    std::vector<std::string> w;
    std::string t;
    while (is >> t) w.push_back(t);
    std::string out = run_line(w) + "\n";
    size_t off = 0;
    while (off < out.size()) {
      ssize_t k = write(out_fd, out.data() + off, out.size() - off);
      if (k <= 0) _exit(3);
      off += size_t(k);
    }
  }
  _exit(0);
}

struct Worker {
  pid_t pid = -1;
  int to = -1, from = -1;
  void start() {
    int a[2], b[2];
    if (pipe(a) != 0 || pipe(b) != 0) { perror("pipe"); exit(2); }
    fflush(stdout);
    pid = fork();
    if (pid < 0) { perror("fork"); exit(2); }
    if (pid == 0) {
      close(a[1]); close(b[0]);
      dup2(b[1], 1);   // the budget handler writes its verdict to fd 1
      worker_loop(a[0], b[1]);
    }
    close(a[0]); close(b[1]);
    to = a[1]; from = b[0];
  }
  // -> "" when the worker died before answering
  std::string ask(const std::string& line, bool& timed_out) {
    timed_out = false;
    std::string msg = line + "\n";
    if (write(to, msg.data(), msg.size()) != ssize_t(msg.size())) return "";
    std::string out;
    for (;;) {
      struct pollfd pfd { from, POLLIN, 0 };
      int r = poll(&pfd, 1, 30000);
      if (r == 0) { timed_out = true; return ""; }
      if (r < 0) return "";
      char buf[65536];
      ssize_t n = read(from, buf, sizeof buf);
      if (n <= 0) return "";
      out.append(buf, size_t(n));
      if (!out.empty() && out.back() == '\n') { out.pop_back(); return out; }
    }
  }
  std::string stop() {
    std::string how;
    if (pid > 0) {
      int status = 0;
      if (waitpid(pid, &status, WNOHANG) == 0) { kill(pid, SIGKILL); waitpid(pid, &status, 0); how = "killed"; }
      else if (WIFSIGNALED(status)) how = "signal=" + std::to_string(WTERMSIG(status));
      else how = "exit=" + std::to_string(WEXITSTATUS(status));
    }
    close(to); close(from);
    pid = -1;
    return how;
  }
};

int main() {
  signal(SIGPIPE, SIG_IGN);
  Worker w;
  w.start();
  std::string line;
  while (std::getline(std::cin, line)) {
    bool timed_out = false;
    std::string out = w.ask(line, timed_out);
    if (out.empty()) {
      usleep(timed_out ? 0 : 200000);   // let a dying worker finish its sanitizer report
      std::string how = w.stop();
      out = timed_out ? "noret !ORACLE(nonterminating no answer in 30 s)" : "crash !ORACLE(crash " + how + ")";
      w.start();
    } else if (out.find("!ORACLE(nonterminating") != std::string::npos) {
      w.stop();   // the budget handler has left the worker
      w.start();
    }
    std::cout << out << "\n" << std::flush;
  }
  w.stop();
  return 0;
}
