"""
Shared machinery for every /verif check.

A check for property Cxx is `checks/Cxx.py` exposing `run(ctx)`; `./check Cxx --tier T`
creates a `Ctx`, calls it, writes evidence/Cxx.json and exits 0 (held) or 1 (violation).

Steps offered here (see DESIGN.md section 4):
  gen        regenerate lean/Babylon/Gen/*.lean from /repo's working tree (translator)
  lake       build the property's Lean modules + its driver exe (serialised by flock)
  audit      `#print axioms` on every property theorem + grep for sorry/admit/axiom/...
  cxx        compile harnesses and the needed /repo/src/**/*.cpp with caching keyed on the
             hash of the *preprocessed* source, so an edit to /repo is always picked up
  eseq       sequential correspondence: same op lines -> implementation harness and Lean driver
  violation  VIOLATION / KNOWN-FINDING protocol, replay files
  evidence   evidence/<id>.json writer
"""
import concurrent.futures
import fcntl
import hashlib
import json
import os
import random
import re
import shutil
import subprocess
import sys
import time
from pathlib import Path

VERIF = Path(__file__).resolve().parent.parent
REPO = Path(os.environ.get("VERIF_REPO", "/repo"))
BUILD = VERIF / "build"
LEAN = VERIF / "lean"
EVID = VERIF / "evidence"
NPROC = os.cpu_count() or 4

ALLOWED_AXIOMS = {"propext", "Classical.choice", "Quot.sound"}
FORBIDDEN = re.compile(r"\bsorry\b|\badmit\b|^\s*axiom\s|native_decide|bv_decide|implemented_by|\bunsafe\s|maxHeartbeats\s+0")

BASE_TRUSTED = [
    "Lean 4.33 kernel; axioms limited to propext, Classical.choice, Quot.sound (audited by #print axioms on every property theorem each run)",
    "gen/*.py translator (g++ -E preprocessing + tokenizer + compiled constant probes) and the statement of each theorem",
    "the correspondence check samples executions: it validates the model against the code on the cases it runs, it is not a refinement proof",
    "gcc 12 / x86-64 / libstdc++ semantics of the parts of the code that are modelled rather than verified",
]

# ---------------------------------------------------------------------------------------
# compile flags
INC = ["-I" + str(REPO / "src"), "-isystem", "/root/miniconda/include"]
STD = ["-std=gnu++20", "-Wno-error", "-w"]
FLAVORS = {
    # sequential differential harnesses: real code under ASan+UBSan
    "asan": ["-O1", "-g", "-DNDEBUG", "-fsanitize=address,undefined", "-fno-sanitize-recover=all",
             "-fno-omit-frame-pointer"],
    # production-like
    "plain": ["-O2", "-g", "-DNDEBUG"],
    # debug build (assert enabled)
    "debug": ["-O1", "-g", "-fsanitize=address,undefined", "-fno-sanitize-recover=all"],
    # VRT: every atomic / plain access becomes a __tsan_* call that vrt/ defines itself
    "vrt": ["-O1", "-g", "-DNDEBUG", "-fsanitize=thread", "-fno-omit-frame-pointer"],
}
LINK_FLAVOR = {
    "asan": ["-fsanitize=address,undefined"],
    "plain": [],
    "debug": ["-fsanitize=address,undefined"],
    "vrt": [],  # deliberately NOT -fsanitize=thread: vrt/ supplies the runtime
}
ABSL_LIBS = ["-lprotobuf", "-labsl_base", "-labsl_time", "-labsl_strings", "-labsl_int128",
             "-labsl_raw_logging_internal", "-labsl_throw_delegate", "-labsl_hash",
             "-labsl_raw_hash_set", "-labsl_city", "-labsl_low_level_hash",
             "-labsl_bad_optional_access", "-labsl_cord", "-labsl_synchronization",
             "-labsl_status", "-labsl_spinlock_wait", "-labsl_strings_internal",
             "-labsl_str_format_internal", "-lpthread", "-ldl", "-latomic"]


def sh(cmd, **kw):
    kw.setdefault("stdout", subprocess.PIPE)
    kw.setdefault("stderr", subprocess.STDOUT)
    kw.setdefault("text", True)
    return subprocess.run(cmd, **kw)


def sha(b):
    if isinstance(b, str):
        b = b.encode()
    return hashlib.sha256(b).hexdigest()[:24]


class Flock:
    def __init__(self, name):
        BUILD.mkdir(parents=True, exist_ok=True)
        self.path = BUILD / (name + ".lock")

    def __enter__(self):
        self.f = open(self.path, "w")
        fcntl.flock(self.f, fcntl.LOCK_EX)
        return self

    def __exit__(self, *a):
        fcntl.flock(self.f, fcntl.LOCK_UN)
        self.f.close()


# ---------------------------------------------------------------------------------------
# C++ building with a content-addressed object cache
def _compile_obj(src, flags, tag):
    """Compile one TU; cache key = hash(preprocessed text + flags). Returns (obj|None, log)."""
    objdir = BUILD / "obj"
    objdir.mkdir(parents=True, exist_ok=True)
    pp = sh(["g++", "-E", "-P"] + STD + flags + INC + [str(src)], stderr=subprocess.PIPE)
    if pp.returncode != 0:
        return None, "preprocess failed: %s\n%s" % (src, pp.stderr)
    key = sha(pp.stdout + "\0" + " ".join(flags))
    obj = objdir / ("%s-%s-%s.o" % (tag, Path(src).stem, key))
    if obj.exists():
        return obj, ""
    tmp = obj.with_suffix(".tmp%d.o" % os.getpid())
    r = sh(["g++", "-c"] + STD + flags + INC + [str(src), "-o", str(tmp)])
    if r.returncode != 0:
        return None, "compile failed: %s\n%s" % (src, r.stdout[-6000:])
    os.replace(tmp, obj)
    return obj, ""


def compile_many(srcs, flags, tag):
    objs, logs = [], []
    with concurrent.futures.ThreadPoolExecutor(max_workers=NPROC) as ex:
        for obj, log in ex.map(lambda s: _compile_obj(s, flags, tag), srcs):
            if obj is None:
                logs.append(log)
            else:
                objs.append(obj)
    return objs, logs


def repo_sources(patterns):
    out = []
    for p in patterns:
        out += sorted((REPO / "src").glob(p))
    return [s for s in out if s.suffix == ".cpp"]


def build_exe(name, harness_srcs, flavor="asan", repo_cpp=(), extra_flags=(), extra_link=(), extra_srcs_flags=None):
    """Build build/bin/<name> from harness sources (+ selected /repo/src cpp). Returns (exe|None, log)."""
    flags = FLAVORS[flavor] + list(extra_flags)
    srcs = [VERIF / s for s in harness_srcs] + repo_sources(repo_cpp)
    objs, logs = compile_many(srcs, flags + ["-fno-access-control"], flavor)
    if logs:
        return None, "\n".join(logs)
    more = []
    if extra_srcs_flags:
        for s, f in extra_srcs_flags:
            o, l = _compile_obj(VERIF / s, f, "x")
            if o is None:
                return None, l
            more.append(o)
    bindir = BUILD / "bin"
    bindir.mkdir(parents=True, exist_ok=True)
    key = sha(" ".join(str(o) for o in objs + more) + flavor + " ".join(extra_link))
    exe = bindir / ("%s-%s" % (name, key))
    if not exe.exists():
        tmp = exe.with_suffix(".tmp%d" % os.getpid())
        r = sh(["g++"] + LINK_FLAVOR[flavor] + [str(o) for o in objs + more] + ["-o", str(tmp)] +
               list(extra_link) + ABSL_LIBS)
        if r.returncode != 0:
            return None, "link failed:\n" + r.stdout[-6000:]
        os.replace(tmp, exe)
    return exe, ""


def build_vrt_exe(name, harness_srcs, repo_cpp=(), extra_flags=()):
    """Harness + repo sources compiled with -fsanitize=thread (every atomic becomes a __tsan_* call),
    linked without it against vrt/vrt.cpp which supplies the runtime (deterministic scheduler)."""
    return build_exe(name, harness_srcs, "vrt", repo_cpp, extra_flags,
                     extra_srcs_flags=[("vrt/vrt.cpp", ["-O1", "-g"])])


def parse_runs(text):
    """split harness output into runs: [{header:[...], lines:[...], complete:bool}]"""
    runs, cur = [], None
    for line in text.splitlines():
        if line.startswith("RUN "):
            cur = {"header": line.split()[1:], "lines": [], "complete": False}
            runs.append(cur)
        elif line.strip() == "END":
            if cur is not None:
                cur["complete"] = True
            cur = None
        elif cur is not None:
            cur["lines"].append(line)
    return runs


# ---------------------------------------------------------------------------------------
# Lean side
def lake(args, timeout=3600):
    with Flock("lake"):
        return sh(["lake"] + args, cwd=LEAN, timeout=timeout)


def theorem_names(lean_file):
    """(namespace-qualified) theorem names declared in a Properties file."""
    txt = Path(lean_file).read_text()
    txt_nc = strip_lean_comments(txt)
    ns = []
    names = []
    for line in txt_nc.splitlines():
        m = re.match(r"\s*namespace\s+(\S+)", line)
        if m:
            ns.append(m.group(1))
            continue
        m = re.match(r"\s*end\s+(\S+)", line)
        if m and ns and ns[-1].split(".")[-1] == m.group(1).split(".")[-1]:
            ns.pop()
            continue
        m = re.match(r"\s*(?:private\s+|protected\s+)?theorem\s+(\S+)", line)
        if m:
            names.append(".".join(ns + [m.group(1)]))
    return names


def strip_lean_comments(txt):
    out = []
    i, n, depth = 0, len(txt), 0
    while i < n:
        if txt.startswith("/-", i):
            depth += 1
            i += 2
        elif depth and txt.startswith("-/", i):
            depth -= 1
            i += 2
        elif depth:
            if txt[i] == "\n":
                out.append("\n")
            i += 1
        elif txt.startswith("--", i):
            while i < n and txt[i] != "\n":
                i += 1
        else:
            out.append(txt[i])
            i += 1
    return "".join(out)


def lean_imports_closure(module):
    """All Babylon.* modules transitively imported by `module` (file paths)."""
    seen, todo = {}, [module]
    while todo:
        m = todo.pop()
        if m in seen:
            continue
        p = LEAN / (m.replace(".", "/") + ".lean")
        if not p.exists():
            continue
        seen[m] = p
        for mm in re.findall(r"^\s*(?:public\s+)?import\s+(Babylon\.\S+)", p.read_text(), re.M):
            todo.append(mm)
    return seen


# ---------------------------------------------------------------------------------------
class Ctx:
    def __init__(self, prop, tier, seed):
        self.prop, self.tier, self.seed = prop, tier, seed
        self.t0 = time.time()
        self.rng = random.Random(seed)
        self.obligations = []       # names of proof obligations (theorems + generated obligations)
        self.discharged = []
        self.broken = []            # (kind, name, detail): proof obligations / correspondences that no longer check
        self.failing = []           # (key, replay_text): concrete failing inputs found on the implementation
        self.cov = {"evaluations": 0, "distinct_nontrivial": 0, "samples": [], "rule": "",
                    "trusted_base": list(BASE_TRUSTED), "distribution": {}}
        self.assumptions = []
        self.violations = 0
        self.known = 0
        self.checker_cmd = ""
        self.notes = []
        (BUILD / "replay").mkdir(parents=True, exist_ok=True)
        if "--replay" not in sys.argv:      # a replay run must not delete the file it is asked to replay
            for old in (BUILD / "replay").glob(prop + "-*.txt"):
                old.unlink()

    # ---- logging
    def log(self, *a):
        print("[%s %6.1fs]" % (self.prop, time.time() - self.t0), *a, flush=True)

    @property
    def quick(self):
        return self.tier == "quick"

    # ---- step 1: translator
    def gen(self, components):
        """Run gen/<component>.py for each component; they rewrite lean/Babylon/Gen/<C>.lean
        only when the content changes (keeps lake incremental)."""
        sys.path.insert(0, str(VERIF))
        import importlib
        for c in components:
            try:
                mod = importlib.import_module("gen." + c)
                with Flock("gen-" + c):
                    mod.generate()
            except Exception as e:  # extraction failure = the translator no longer understands the source
                self.broken.append(("translator", "gen." + c, "extraction failed: %r" % (e,)))
                self.log("translator failed for", c, repr(e))

    # ---- step 2: proofs
    def lake_build(self, targets):
        """Build Lean targets; on failure map errors to theorem names and record them as broken."""
        self.checker_cmd = "cd lean && lake build " + " ".join(targets)
        r = lake(["build"] + targets)
        if r.returncode == 0:
            return True
        out = r.stdout
        self.log("lake build failed:\n" + out[-4000:])
        broken = set()
        for m in re.finditer(r"error: (\S+?\.lean):(\d+):(\d+):?\s*(.*)", out):
            f, ln, msg = m.group(1), int(m.group(2)), m.group(4)
            p = (LEAN / f) if not os.path.isabs(f) else Path(f)
            name = self._decl_at(p, ln)
            broken.add((str(p.relative_to(LEAN)) if p.is_relative_to(LEAN) else str(p), name, msg[:200]))
        if not broken:
            broken.add(("lake", "build", out[-400:]))
        for f, name, msg in sorted(broken):
            self.broken.append(("proof", "%s:%s" % (f, name), msg))
        return False

    @staticmethod
    def _decl_at(path, line):
        try:
            lines = Path(path).read_text().splitlines()
        except Exception:
            return "?"
        for i in range(min(line, len(lines)) - 1, -1, -1):
            m = re.match(r"\s*(?:private\s+|protected\s+|@\[[^\]]*\]\s*)*(theorem|lemma|def|example|instance|abbrev|structure|inductive)\s*(\S*)", lines[i])
            if m:
                return m.group(2) or m.group(1)
        return "?"

    # ---- step 3: audit
    def audit(self, prop_module):
        """#print axioms on every theorem of the property module + forbidden-token grep over its
        whole import closure.  Every theorem is one obligation."""
        pfile = LEAN / (prop_module.replace(".", "/") + ".lean")
        names = theorem_names(pfile)
        self.obligations += names
        adir = BUILD / "audit"
        adir.mkdir(parents=True, exist_ok=True)
        afile = adir / (self.prop + ".lean")
        afile.write_text("import %s\n" % prop_module + "".join("#print axioms %s\n" % n for n in names))
        # read-only on the .olean files: run without the build lock first, retry under the lock if a
        # concurrent build was rewriting them
        r = sh(["lake", "env", "lean", str(afile)], cwd=LEAN, stderr=subprocess.STDOUT)
        if r.returncode != 0:
            with Flock("lake"):
                r = sh(["lake", "env", "lean", str(afile)], cwd=LEAN, stderr=subprocess.STDOUT)
        out = r.stdout
        ok = r.returncode == 0
        seen = {}
        for m in re.finditer(r"'([^']+)' (depends on axioms: \[([^\]]*)\]|does not depend on any axioms)", out, re.S):
            axs = set(a.strip() for a in (m.group(3) or "").replace("\n", " ").split(",") if a.strip())
            seen[m.group(1)] = axs
        for n in names:
            if n not in seen:
                self.broken.append(("audit", n, "no #print axioms output (theorem missing or does not compile)"))
            elif not seen[n] <= ALLOWED_AXIOMS:
                self.broken.append(("audit", n, "depends on disallowed axioms %s" % sorted(seen[n] - ALLOWED_AXIOMS)))
            else:
                self.discharged.append(n)
        if not ok and not any(b[0] == "audit" for b in self.broken):
            self.broken.append(("audit", prop_module, out[-300:]))
        # forbidden tokens anywhere in the import closure
        for m, p in sorted(lean_imports_closure(prop_module).items()):
            for i, line in enumerate(strip_lean_comments(p.read_text()).splitlines(), 1):
                if FORBIDDEN.search(line):
                    self.broken.append(("audit", "%s:%d" % (m, i), "forbidden token: " + line.strip()[:120]))
        self.cov["axioms"] = {n: sorted(a) for n, a in seen.items()}
        self.checker_cmd += " && lake env lean build/audit/%s.lean  (#print axioms) && forbidden-token grep" % self.prop
        return ok

    def leanchecker(self, modules):
        """thorough tier: independent re-check of compiled .olean files."""
        for m in modules:
            with Flock("lake"):
                r = sh(["lake", "env", "leanchecker", m], cwd=LEAN)
            if r.returncode != 0:
                self.broken.append(("leanchecker", m, r.stdout[-300:]))
            else:
                self.notes.append("leanchecker ok: " + m)

    # ---- drivers
    def driver(self, exe_target):
        """Build (if needed) and return the path of a Lean driver executable."""
        r = lake(["build", exe_target])
        if r.returncode != 0:
            self.broken.append(("proof", "driver " + exe_target, r.stdout[-600:]))
            self.log("driver build failed:\n" + r.stdout[-3000:])
            return None
        return LEAN / ".lake" / "build" / "bin" / exe_target

    # ---- E-SEQ
    def eseq(self, impl_exe, model_exe, cases, impl_args=(), model_args=(), timeout=600,
             compare=None, chunk=None):
        """Run op-line cases through implementation harness and Lean driver, return list of
        (case_index, line_index, op, impl_out, model_out) for the first difference of each case.
        A case is a list of op lines; both sides reset their state on the line `reset`.
        Harness crash (sanitizer abort) is reported as a difference at the last answered line."""
        if compare is None:
            compare = lambda a, b: a == b
        diffs = []
        idx = list(range(len(cases)))
        chunk = chunk or max(1, len(cases) // NPROC + 1)
        groups = [idx[i:i + chunk] for i in range(0, len(idx), chunk)]

        def one(group):
            lines = []
            for ci in group:
                lines.append("reset")
                lines += cases[ci]
            inp = "\n".join(lines) + "\n"
            ri = subprocess.run([str(impl_exe)] + list(impl_args), input=inp, capture_output=True, text=True, timeout=timeout)
            rm = subprocess.run([str(model_exe)] + list(model_args), input=inp, capture_output=True, text=True, timeout=timeout)
            io, mo = ri.stdout.splitlines(), rm.stdout.splitlines()
            res = []
            pos = 0
            for ci in group:
                n = len(cases[ci]) + 1
                for k in range(n):
                    a = io[pos + k] if pos + k < len(io) else "<no-output: rc=%s %s>" % (ri.returncode, ri.stderr[-1500:])
                    b = mo[pos + k] if pos + k < len(mo) else "<no-output: rc=%s %s>" % (rm.returncode, rm.stderr[-500:])
                    if not compare(a, b):
                        res.append((ci, k - 1, (["reset"] + cases[ci])[k], a, b))
                        break
                pos += n
                if pos > len(io) and ri.returncode != 0:
                    pass
            return res

        with concurrent.futures.ThreadPoolExecutor(max_workers=NPROC) as ex:
            for res in ex.map(one, groups):
                diffs += res
        self.cov["evaluations"] += len(cases)
        return diffs

    # ---- E-CONC
    def econc(self, exe, drv, args, seed0, nruns, chunk=None, env=None, timeout=600):
        """Run `exe *args <seed> <n>` over seeds seed0..seed0+nruns-1 (VRT harness: one deterministic
        schedule + program per seed), replay every trace in lock-step through the Lean driver
        `drv` (if given).  Returns a list of run dicts:
          seed, header, lines, verdict ('ok' | 'deadlock' | 'step-limit' | 'crash' ...),
          oracle (list of ORACLE event lines), races (list), replay ('ok N' | 'diverge ...' | None)"""
        chunk = chunk or max(1, nruns // (NPROC * 2) + 1)
        jobs = [(seed0 + i, min(chunk, nruns - i)) for i in range(0, nruns, chunk)]
        e = dict(os.environ)
        e.update(env or {})

        def one(job):
            s0, n = job
            out = []
            s = s0
            flaky = 0
            while s < s0 + n:
                r = subprocess.run([str(exe)] + list(args) + [str(s), str(s0 + n - s)], capture_output=True, text=True, timeout=timeout, env=e)
                runs = parse_runs(r.stdout)
                for k, run in enumerate(runs):
                    run["seed"] = s + k
                    run["verdict"] = "ok"
                    for l in run["lines"]:
                        if l.startswith("VERDICT"):
                            run["verdict"] = l.split()[1]
                    run["stderr"] = ""
                    out.append(run)
                if r.returncode == 0 and len(runs) >= s0 + n - s:
                    break
                # the process ended early (deadlock verdict, sanitizer/assert abort, crash): the last run is the culprit
                if not runs:
                    out.append({"seed": s, "header": [], "lines": [], "complete": False, "verdict": "crash", "stderr": r.stderr[-2000:]})
                    s += 1
                    continue
                last = runs[-1]
                repro = True
                if last["verdict"] == "ok" and (r.returncode != 0 or not last["complete"]):
                    # The process died without a VRT verdict.  A failing input must replay: re-run the
                    # culprit seed (and its successor, the crash may belong to the next run's start)
                    # alone; a crash that does not reproduce is an infrastructure flake (threads are
                    # uncontrolled for a few instructions while they start/exit), recorded, not judged.
                    culprit = s + len(runs) - 1
                    repro = flaky >= 3
                    for _ in range(0 if repro else 2):
                        rr = subprocess.run([str(exe)] + list(args) + [str(culprit), "2"], capture_output=True, text=True, timeout=timeout, env=e)
                        rruns = parse_runs(rr.stdout)
                        if rr.returncode != 0 and not any(l.startswith("VERDICT") for x in rruns for l in x["lines"]):
                            repro = True
                            break
                    if repro:
                        last["verdict"] = "crash rc=%s" % r.returncode
                        last["stderr"] = r.stderr[-2000:]
                    else:
                        flaky += 1
                        self.cov.setdefault("flaky_crashes_not_reproduced", []).append(
                            "%s seed=%d rc=%s %s" % (" ".join(args), culprit, r.returncode, r.stderr[-300:].replace("\n", " | ")))
                        if not last["complete"]:
                            out.pop()       # incomplete trace of a run that completes when replayed: run it again below
                            runs = runs[:-1]
                s += len(runs)
            if drv is not None and out:
                text = "".join("RUN %s\n%s\nEND\n" % (" ".join(run["header"]), "\n".join(run["lines"])) for run in out)
                rm = subprocess.run([str(drv)], input=text, capture_output=True, text=True, timeout=timeout)
                res = rm.stdout.splitlines()
                for k, run in enumerate(out):
                    run["replay"] = res[k] if k < len(res) else "diverge <driver produced no verdict: rc=%s %s>" % (rm.returncode, rm.stderr[-300:])
            for run in out:
                run.setdefault("replay", None)
                run["oracle"] = [l for l in run["lines"] if " ev ORACLE" in l]
                run["races"] = [l for l in run["lines"] if re.match(r"\d+ race ", l)]
            return out

        def bad(run):
            return bool(run["verdict"] != "ok" or run["oracle"] or run["races"]
                        or (run["replay"] is not None and not run["replay"].startswith("ok")))

        def checked(job):
            # An alarm must replay: the scheduler is deterministic, so running the same job again gives
            # the same traces.  A run that is bad once and clean when the identical job is repeated is
            # an infrastructure flake (real threads are outside the scheduler's control for a few
            # instructions while they start and exit; an overloaded machine widens that window); it is
            # recorded in the evidence and the repeated result is used.  Anything that shows up again
            # (in particular every seeded change tried so far) is judged as before.
            out = one(job)
            if not any(bad(r) for r in out):
                return out
            again = {r["seed"]: r for r in one(job)}
            for k, r in enumerate(out):
                r2 = again.get(r["seed"])
                if bad(r) and r2 is not None and not bad(r2):
                    self.cov.setdefault("alarms_not_reproduced", []).append(
                        "%s seed=%d verdict=%s oracle=%s replay=%s" % (" ".join(args), r["seed"], r["verdict"],
                                                                        (r["oracle"] or [""])[0][:120], (r["replay"] or "")[:120]))
                    out[k] = r2
            return out

        allruns = []
        with concurrent.futures.ThreadPoolExecutor(max_workers=NPROC) as ex:
            for res in ex.map(checked, jobs):
                allruns += res
        self.cov["evaluations"] += len(allruns)
        return allruns

    def run_lines(self, exe, lines, args=(), timeout=600):
        r = subprocess.run([str(exe)] + list(args), input="\n".join(lines) + "\n", capture_output=True, text=True, timeout=timeout)
        return r.stdout.splitlines(), r.returncode, r.stderr

    def shrink(self, case, still_fails, budget=400, seconds=20):
        """Delta-debugging over op lines (bounded by number of trials and wall time)."""
        cur = list(case)
        n = 2
        calls = 0
        t_end = time.time() + seconds
        while len(cur) >= 2 and calls < budget and time.time() < t_end:
            size = max(1, len(cur) // n)
            reduced = False
            for i in range(0, len(cur), size):
                cand = cur[:i] + cur[i + size:]
                calls += 1
                if cand and still_fails(cand):
                    cur, n, reduced = cand, max(n - 1, 2), True
                    break
                if calls >= budget or time.time() >= t_end:
                    break
            if not reduced:
                if size == 1:
                    break
                n = min(len(cur), n * 2)
        return cur

    # ---- violations
    def failing_input(self, key, replay_text):
        """A concrete input/schedule/history on which the implementation breaks the property."""
        self.failing.append((key, replay_text))

    def broke(self, kind, name, detail):
        self.broken.append((kind, name, detail))

    def _known(self):
        kf = VERIF / "known_findings.txt"
        out = []
        if kf.exists():
            for line in kf.read_text().splitlines():
                m = re.match(r"finding:\s+property=(\S+)\s+key=(\S+)\s+(.*)", line)
                if m and m.group(1) == self.prop:
                    out.append((m.group(2), m.group(3)))
        return out

    def finish(self):
        known = self._known()
        exit_code = 0
        n = 0
        reported_known = set()
        for key, text in self.failing:
            hit = [k for k in known if k[0] == key]
            if hit:
                if key not in reported_known:
                    print("KNOWN-FINDING: property=%s %s" % (self.prop, hit[0][1]), flush=True)
                    reported_known.add(key)
                self.known += 1
                continue
            n += 1
            path = BUILD / "replay" / ("%s-%d.txt" % (self.prop, n))
            path.write_text("# property %s  tier %s  seed %s\n# failing-input key: %s\n%s\n" % (self.prop, self.tier, self.seed, key, text))
            print("VIOLATION property=%s replay=%s" % (self.prop, path), flush=True)
            self.violations += 1
            exit_code = 1
            if n >= 5:
                break
        unexplained = [b for b in self.broken]
        if unexplained and self.violations == 0:
            # a proof obligation or the correspondence no longer checks and no failing input was found
            # (failing inputs that are all known findings do not explain a *new* broken obligation)
            path = BUILD / "replay" / ("%s-broken.txt" % self.prop)
            path.write_text("# property %s  tier %s  seed %s\n# no failing input found; obligations/correspondences that no longer check:\n%s\n" % (
                self.prop, self.tier, self.seed, "\n".join("%s | %s | %s" % b for b in unexplained)))
            print("VIOLATION property=%s replay=%s no-failing-input-found" % (self.prop, path), flush=True)
            self.violations += 1
            exit_code = 1
        self.write_evidence()
        self.log("done: obligations=%d discharged=%d evaluations=%d broken=%d failing=%d known=%d -> exit %d" % (
            len(self.obligations), len(self.discharged), self.cov["evaluations"], len(self.broken), len(self.failing), self.known, exit_code))
        return exit_code

    @staticmethod
    def _cap(x, depth=0):
        """keep evidence files small: long strings and long lists are truncated (with a marker)"""
        if isinstance(x, str):
            return x if len(x) <= 1500 else x[:1500] + " …[truncated %d chars]" % (len(x) - 1500)
        if isinstance(x, (list, tuple)):
            lim = 60 if depth == 0 else 40
            y = [Ctx._cap(v, depth + 1) for v in list(x)[:lim]]
            if len(x) > lim:
                y.append("…[%d more entries]" % (len(x) - lim))
            return y
        if isinstance(x, dict):
            return {k: Ctx._cap(v, depth + 1) for k, v in list(x.items())[:400]}
        return x

    def write_evidence(self):
        EVID.mkdir(exist_ok=True)
        cov = dict(self.cov)
        cov["obligations"] = len(self.obligations)
        cov["discharged"] = len([o for o in self.obligations if o in set(self.discharged)])
        cov["obligation_names"] = self.obligations
        cov["checker_cmd"] = self.checker_cmd or "n/a"
        cov["broken"] = ["%s | %s | %s" % b for b in self.broken]
        cov["notes"] = self.notes
        if not cov["samples"]:
            cov["samples"] = self.obligations[:3] or ["<none>"]
        ev = {
            "property_id": self.prop, "tier": self.tier, "seed": self.seed, "level": "proof",
            "coverage": cov, "assumptions": self.assumptions,
            "wall_s": round(time.time() - self.t0, 2), "violations": self.violations,
            "known_findings_reported": self.known,
        }
        names = cov.get("obligation_names", [])
        ev["coverage"] = self._cap(cov)
        ev["coverage"]["obligation_names"] = names[:400]
        ev["coverage"]["obligations"] = len(self.obligations)
        ev["coverage"]["discharged"] = cov["discharged"]
        tmp = EVID / (self.prop + ".json.tmp%d" % os.getpid())
        tmp.write_text(json.dumps(ev, indent=1, default=str))
        os.replace(tmp, EVID / (self.prop + ".json"))
