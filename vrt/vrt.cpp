// VRT implementation — see vrt.h.  Compiled WITHOUT -fsanitize=thread.
#include "vrt.h"

#include <dlfcn.h>
#include <errno.h>
#include <linux/futex.h>
#include <pthread.h>
#include <sched.h>
#include <stdarg.h>
#include <string.h>
#include <sys/syscall.h>
#include <time.h>
#include <unistd.h>

#include <algorithm>
#include <atomic>
#include <map>
#include <string>
#include <vector>

namespace {

// ---------------------------------------------------------------------------------------------
// raw syscalls (our own `syscall` symbol is interposed below)
long raw_syscall6(long n, long a, long b, long c, long d, long e, long f) {
  long ret;
  register long r10 __asm__("r10") = d;
  register long r8 __asm__("r8") = e;
  register long r9 __asm__("r9") = f;
  __asm__ volatile("syscall" : "=a"(ret) : "a"(n), "D"(a), "S"(b), "d"(c), "r"(r10), "r"(r8), "r"(r9) : "rcx", "r11", "memory");
  return ret;
}
void raw_futex_wait(std::atomic<int>* a, int v) {
  raw_syscall6(SYS_futex, (long)a, FUTEX_WAIT | FUTEX_PRIVATE_FLAG, v, 0, 0, 0);
}
void raw_futex_wake(std::atomic<int>* a) {
  raw_syscall6(SYS_futex, (long)a, FUTEX_WAKE | FUTEX_PRIVATE_FLAG, 1, 0, 0, 0);
}

template <typename F>
F real(const char* name) {
  void* p = dlsym(RTLD_NEXT, name);
  return reinterpret_cast<F>(p);
}

// ---------------------------------------------------------------------------------------------
constexpr int MAXT = 64;
struct VC {
  uint32_t c[MAXT];
  VC() { memset(c, 0, sizeof(c)); }
  void join(const VC& o) {
    for (int i = 0; i < MAXT; ++i) c[i] = std::max(c[i], o.c[i]);
  }
};

enum St { RUN, BLK_FUTEX, BLK_MUTEX, BLK_COND, BLK_JOIN, SLEEPING, DONE };
const char* st_name[] = {"run", "futex", "mutex", "cond", "join", "sleep", "done"};

struct Thread {
  int id = 0;
  std::atomic<int> go {0};
  St st = RUN;
  const void* wait_addr = nullptr;
  uint64_t deadline = UINT64_MAX;
  bool timed_out = false;
  bool woken = false;
  bool eintr_pending = false;   // VRT_FUTEX_EINTR: this futex wait ends with EINTR at its (shortened) deadline
  pthread_t real_handle {};
  void* (*fn)(void*) = nullptr;
  void* arg = nullptr;
  int prio = 0;
  VC vc, acq_pending, rel_fence;
  struct ViewT* views = nullptr;   // view-mode state (cur / acq / rel views)
  bool started = false;
};

struct Named {
  uintptr_t lo, hi;
  std::string name;
};
struct Payload {
  uintptr_t lo, hi;
  std::string name;
};
struct Shadow {   // per 8-byte payload word
  int wtid = -1;
  uint32_t wclk = 0;
  uint32_t rclk[MAXT];
  Shadow() { memset(rclk, 0, sizeof(rclk)); }
};
struct MutexSt {
  Thread* owner = nullptr;
  int count = 0;
  VC clock;
};

struct Rng {
  uint64_t s = 88172645463325252ull;
  void seed(uint64_t x) {
    s = x * 0x9E3779B97F4A7C15ull + 0x632BE59BD9B4E019ull;
    if (s == 0) s = 1;
    for (int i = 0; i < 4; ++i) next();
  }
  uint64_t next() {
    s ^= s << 13;
    s ^= s >> 7;
    s ^= s << 17;
    return s * 0x2545F4914F6CDD1Dull;
  }
  uint64_t below(uint64_t n) { return n ? (next() >> 11) % n : 0; }
};

bool g_on = false;
std::vector<Thread*> g_threads;
Thread* g_cur = nullptr;
uint64_t g_clock = 0;
uint64_t g_steps = 0, g_switches = 0, g_races = 0;
uint64_t g_step_limit = 3000000;
Rng g_rng;
std::string g_trace;
std::vector<Named> g_named;
std::vector<Payload> g_payload;
std::map<uintptr_t, Shadow> g_shadow;
std::map<uintptr_t, VC> g_loc_clock;     // release clock per atomic location
std::map<const void*, MutexSt> g_mutex;
VC g_sc_clock;
int g_stick = 60;                        // % chance to keep running the current thread
int g_strategy = 0;                      // 0 random, 1 pct
std::vector<uint64_t> g_change_points;
int g_low_prio = 0;
int g_cas_weak_fail = 8;                 // 1/n spurious failures of compare_exchange_weak (0 = never)
bool g_trace_all = false;
int g_futex_eintr = 0;                   // opt-in: 1/n of sleeping futex waits return -1/EINTR spuriously
bool g_payload_sched = false;            // plain accesses to vrt_payload ranges are scheduling points too
bool g_payload_trace = false;           // opt-in: `prd` / `pwr` trace lines for plain accesses to vrt_payload ranges that are named
bool g_trace_sleep = false;              // opt-in: `<tid> sleep <ns>` line for every controlled usleep/nanosleep
bool g_yield_time = false;               // opt-in: sched_yield by the only runnable thread advances the clock to the next deadline
bool g_trace_yield = false;              // opt-in: `ev yield` line for every controlled sched_yield
uint64_t g_tick_ns = 0;                   // opt-in (VRT_TICK_NS): virtual time that passes per scheduling point, so sleepers wake while others keep running
bool g_trace_clock = false;              // opt-in: `ev clock <ns>` lines and ` to=<ns>` on timed fwait lines
void (*g_clock_hook)(int, uint64_t) = nullptr;   // opt-in: called after every controlled clock_gettime (may sleep = stall injection)

thread_local Thread* t_self = nullptr;

inline bool controlled() { return g_on && t_self != nullptr; }

void tracef(const char* fmt, ...) {
  char buf[512];
  va_list ap;
  va_start(ap, fmt);
  int n = vsnprintf(buf, sizeof(buf), fmt, ap);
  va_end(ap);
  if (n > 0) g_trace.append(buf, std::min<size_t>(n, sizeof(buf) - 1));
}

bool (*g_resolver)(const void*, char*, size_t) = nullptr;

bool loc_name(const volatile void* a, char* out, size_t cap) {
  uintptr_t p = (uintptr_t)a;
  for (auto it = g_named.rbegin(); it != g_named.rend(); ++it) {
    if (p >= it->lo && p < it->hi) {
      if (p == it->lo) {
        snprintf(out, cap, "%s", it->name.c_str());
      } else {
        snprintf(out, cap, "%s+%lu", it->name.c_str(), (unsigned long)(p - it->lo));
      }
      return true;
    }
  }
  if (g_resolver && g_resolver((const void*)a, out, cap)) return true;
  if (g_trace_all) {
    snprintf(out, cap, "?");
    return true;
  }
  return false;
}

const char* mo_name(int mo) {
  static const char* n[] = {"rlx", "cns", "acq", "rel", "acqrel", "sc"};
  return (mo >= 0 && mo < 6) ? n[mo] : "?";
}

[[noreturn]] void die(const char* verdict) {
  tracef("VERDICT %s steps=%lu clock=%lu", verdict, (unsigned long)g_steps, (unsigned long)g_clock);
  for (Thread* t : g_threads) tracef(" t%d=%s", t->id, st_name[t->st]);
  tracef("\n");
  fputs(g_trace.c_str(), stdout);
  fputs("END\n", stdout);
  fflush(stdout);
  _exit(42);
}

void wait_go(Thread* t) {
  while (t->go.load(std::memory_order_acquire) == 0) raw_futex_wait(&t->go, 0);
  t->go.store(0, std::memory_order_relaxed);
}
void give(Thread* t) {
  t->go.store(1, std::memory_order_release);
  raw_futex_wake(&t->go);
}

// wake sleepers / timed waiters whose deadline passed
void expire() {
  for (Thread* t : g_threads) {
    if (t->st != RUN && t->st != DONE && t->deadline <= g_clock) {
      t->timed_out = (t->st != SLEEPING);
      t->st = RUN;
      t->deadline = UINT64_MAX;
    }
  }
}

int (*g_picker)(int, const int*, int, int) = nullptr;

Thread* pick(Thread* me, bool must_switch) {
  for (;;) {
    expire();
    std::vector<Thread*> r;
    for (Thread* t : g_threads)
      if (t->st == RUN) r.push_back(t);
    if (r.empty()) {
      uint64_t best = UINT64_MAX;
      for (Thread* t : g_threads)
        if (t->st != DONE) best = std::min(best, t->deadline);
      if (best == UINT64_MAX) die("deadlock");
      g_clock = std::max(g_clock, best);
      continue;
    }
    if (g_picker) {
      std::vector<int> ids;
      for (Thread* t : r) ids.push_back(t->id);
      int k = g_picker(me ? me->id : -1, ids.data(), (int)ids.size(), must_switch ? 1 : 0);
      if (k >= 0 && k < (int)r.size()) return r[k];
    }
    if (g_strategy == 1) {
      // PCT: highest priority runnable; priorities drop at random change points and on yields
      for (uint64_t cp : g_change_points)
        if (cp == g_steps && me && me->st == RUN) me->prio = --g_low_prio;
      Thread* best = nullptr;
      for (Thread* t : r)
        if ((!must_switch || t != me || r.size() == 1) && (!best || t->prio > best->prio)) best = t;
      return best;
    }
    bool me_ok = me && me->st == RUN;
    if (me_ok && !must_switch && (int)g_rng.below(100) < g_stick) return me;
    if (must_switch && me_ok && r.size() > 1) r.erase(std::find(r.begin(), r.end(), me));
    return r[g_rng.below(r.size())];
  }
}

// the calling thread gives other threads a chance to run; returns when it is scheduled again
void reschedule(bool must_switch) {
  Thread* me = t_self;
  if (++g_steps > g_step_limit) die("step-limit");
  g_clock += g_tick_ns;
  Thread* nx = pick(me, must_switch);
  if (nx != me) {
    ++g_switches;
    g_cur = nx;
    // read before handing over: once a finished *detached* thread has given the baton away, the next
    // vrt_begin() may already have freed its Thread object
    bool finished = me->st == DONE;
    give(nx);
    if (!finished) wait_go(me);
  }
}

void block(St st, const void* addr, uint64_t deadline) {
  Thread* me = t_self;
  me->st = st;
  me->wait_addr = addr;
  me->deadline = deadline;
  me->timed_out = false;
  reschedule(true);
}

uint64_t ts_ns(const struct timespec* ts) { return (uint64_t)ts->tv_sec * 1000000000ull + ts->tv_nsec; }

// ---------------------------------------------------------------------------------------------
// happens-before bookkeeping (vector clocks move only along the orders the code actually uses)
inline bool acq(int mo) { return mo == 1 || mo == 2 || mo == 4 || mo == 5; }
inline bool rel(int mo) { return mo == 3 || mo == 4 || mo == 5; }

void hb_load(Thread* t, const volatile void* a, int mo) {
  auto it = g_loc_clock.find((uintptr_t)a);
  if (it == g_loc_clock.end()) return;
  if (acq(mo)) t->vc.join(it->second); else t->acq_pending.join(it->second);
  if (mo == 5) { t->vc.join(g_sc_clock); }
}
void hb_store(Thread* t, const volatile void* a, int mo, bool rmw) {
  VC& l = g_loc_clock[(uintptr_t)a];
  const VC& src = rel(mo) ? t->vc : t->rel_fence;
  if (rmw) l.join(src); else l = src;
  if (mo == 5) { g_sc_clock.join(t->vc); }
  if (rel(mo)) t->vc.c[t->id]++;
}
void hb_fence(Thread* t, int mo) {
  if (acq(mo)) t->vc.join(t->acq_pending);
  if (mo == 5) { t->vc.join(g_sc_clock); g_sc_clock = t->vc; }
  if (rel(mo)) { t->rel_fence = t->vc; t->vc.c[t->id]++; }
}


// ---------------------------------------------------------------------------------------------
// VRT_MEM=view: operational release/acquire "view" memory (DESIGN 3.4).  Real memory always holds
// the latest value of every location; what changes is the value a *load* may return: any message
// of the location's history that is not older than the thread's view of that location.  Histories
// are kept per aligned 8-byte cell with whole-cell snapshots, so mixed-size accesses (a 16-bit
// store into a 32-bit futex word) compose and stay coherent.  Strengthenings (all remove
// behaviours, so every execution produced is allowed by C++20): modification order = execution
// order, no load buffering, RMWs and CASes read the latest message, a seq_cst access also acts as
// a seq_cst fence, atomics sharing a cell are coherent together.  A cell's history is dropped when
// an instrumented plain write touches it or when memory no longer matches the last snapshot.
struct View {
  std::map<uintptr_t, uint32_t> ts;
  uint32_t get(uintptr_t c) const { auto it = ts.find(c); return it == ts.end() ? 0 : it->second; }
  void join(const View& o) { for (auto& kv : o.ts) { uint32_t& x = ts[kv.first]; if (kv.second > x) x = kv.second; } }
};
struct ViewT { View cur, acq, rel; };
struct Msg { uint32_t ts; uint64_t value; View view; VC vc; };
struct Cell { std::vector<Msg> msgs; uint32_t next_ts = 1; uint64_t mask = 0; };
bool g_view = false;
int g_stale = 35;                         // % of loads that may pick a non-latest admissible message
uint64_t g_stale_reads = 0;
std::map<uintptr_t, Cell> g_cells;
View g_sc_view;
std::map<const void*, View> g_mutex_view;

inline uint64_t cell_mem(uintptr_t c) { uint64_t v; memcpy(&v, (const void*)c, 8); return v; }
inline uint64_t byte_mask(unsigned off, unsigned size) { return (size >= 8 ? ~0ull : ((1ull << (size * 8)) - 1)) << (off * 8); }
ViewT& vt(Thread* t) { if (!t->views) t->views = new ViewT; return *t->views; }

Cell& cell_sync(uintptr_t c, uint64_t m) {
  Cell& cl = g_cells[c];
  uint64_t mem = cell_mem(c);
  if (!cl.msgs.empty() && ((cl.msgs.back().value ^ mem) & cl.mask) != 0) cl.msgs.clear();   // changed behind our back
  cl.mask |= m;
  if (cl.msgs.empty()) cl.msgs.push_back(Msg {cl.next_ts++, mem, View(), VC()});
  else cl.msgs.back().value = (cl.msgs.back().value & cl.mask) | (mem & ~cl.mask);
  return cl;
}
void view_fence(Thread* t, int mo) {
  ViewT& v = vt(t);
  if (acq(mo)) v.cur.join(v.acq);
  if (mo == 5) { v.cur.join(g_sc_view); g_sc_view = v.cur; }
  if (rel(mo)) v.rel = v.cur;
}
// returns the (possibly stale) value read
uint64_t view_load(Thread* t, const volatile void* a, unsigned size, int mo) {
  uintptr_t p = (uintptr_t)a, c = p & ~7ull;
  unsigned off = p & 7;
  if (mo == 5) view_fence(t, 5);
  Cell& cl = cell_sync(c, byte_mask(off, size));
  ViewT& v = vt(t);
  uint32_t floor = v.cur.get(c);
  size_t lo = 0;
  while (lo + 1 < cl.msgs.size() && cl.msgs[lo].ts < floor) ++lo;
  size_t pick = cl.msgs.size() - 1;
  if (lo < pick && (int)g_rng.below(100) < g_stale) { pick = lo + g_rng.below(pick - lo + 1); }
  if (pick != cl.msgs.size() - 1) ++g_stale_reads;
  Msg& m = cl.msgs[pick];
  uint32_t& cur = v.cur.ts[c];
  if (m.ts > cur) cur = m.ts;
  if (acq(mo)) { v.cur.join(m.view); t->vc.join(m.vc); } else { v.acq.join(m.view); t->acq_pending.join(m.vc); }
  if (cl.msgs.size() > 64) cl.msgs.erase(cl.msgs.begin(), cl.msgs.begin() + 32);
  return (m.value >> (off * 8)) & (size >= 8 ? ~0ull : ((1ull << (size * 8)) - 1));
}
// record a write that has just been performed on real memory; `rmw`: continues the release sequence
void view_wrote(Thread* t, const volatile void* a, unsigned size, int mo, bool rmw) {
  uintptr_t p = (uintptr_t)a, c = p & ~7ull;
  Cell& cl = g_cells[c];
  cl.mask |= byte_mask(p & 7, size);
  ViewT& v = vt(t);
  Msg m;
  m.ts = cl.next_ts++;
  m.value = cell_mem(c);
  m.view = rel(mo) ? v.cur : v.rel;
  m.vc = rel(mo) ? t->vc : t->rel_fence;
  // A store narrower than the cell leaves the other bytes of the snapshot as they were: those bytes are
  // separate atomic objects (e.g. adjacent int8 control bytes) whose writers' release views a reader of
  // THEM must still acquire, so a partial-cell store carries the previous message's view like an update
  // (DESIGN 3.4 `storeLo16`).  This only adds happens-before edges (a strengthening).
  if ((rmw || size < 8) && !cl.msgs.empty()) { m.view.join(cl.msgs.back().view); m.vc.join(cl.msgs.back().vc); }
  m.view.ts[c] = m.ts;
  v.cur.ts[c] = m.ts;
  cl.msgs.push_back(m);
  if (rel(mo)) t->vc.c[t->id]++;
  if (mo == 5) view_fence(t, 5);
}
// acquire side of an RMW / CAS: reads the latest message
void view_read_latest(Thread* t, const volatile void* a, unsigned size, int mo) {
  uintptr_t p = (uintptr_t)a, c = p & ~7ull;
  if (mo == 5) view_fence(t, 5);
  Cell& cl = g_cells[c];
  if (cl.msgs.empty()) cell_sync(c, byte_mask(p & 7, size));
  ViewT& v = vt(t);
  Msg& m = cl.msgs.back();
  v.cur.ts[c] = m.ts;
  if (acq(mo)) { v.cur.join(m.view); t->vc.join(m.vc); } else { v.acq.join(m.view); t->acq_pending.join(m.vc); }
}
inline void view_plain_write(const void* addr, size_t size) {
  if (g_cells.empty()) return;
  uintptr_t p = (uintptr_t)addr;
  for (uintptr_t c = p & ~7ull; c < p + size; c += 8) {
    auto it = g_cells.find(c);
    if (it != g_cells.end()) g_cells.erase(it);
  }
}

void payload_access(const void* addr, size_t size, bool write) {
  if (g_view && write && g_on) view_plain_write(addr, size);
  if (g_payload.empty() || !controlled()) return;
  uintptr_t p = (uintptr_t)addr;
  const Payload* pl = nullptr;
  for (auto& r : g_payload)
    if (p < r.hi && p + size > r.lo) { pl = &r; break; }
  if (!pl) return;
  if (g_payload_sched) reschedule(false);
  Thread* t = t_self;
  if (g_payload_trace) {
    // the access itself follows this call with no scheduling point in between, so the memory
    // content read here is the value a load observes; pointers are printed symbolically
    char nm[160];
    if (loc_name(addr, nm, sizeof nm)) {
      if (write) {
        tracef("%d pwr %s %lu\n", t->id, nm, (unsigned long)size);
      } else {
        char val[176] = "?";
        if (size <= 8) {
          uint64_t v = 0;
          memcpy(&v, addr, size);
          char pn[160];
          if (v < (1ull << 32)) snprintf(val, sizeof val, "%llu", (unsigned long long)v);
          else if (loc_name((const void*)v, pn, sizeof pn)) snprintf(val, sizeof val, "@%s", pn);
        }
        tracef("%d prd %s %lu %s\n", t->id, nm, (unsigned long)size, val);
      }
    }
  }
  for (uintptr_t w = p & ~7ull; w < p + size; w += 8) {
    Shadow& s = g_shadow[w];
    bool race = false;
    int other = -1;
    if (s.wtid >= 0 && s.wtid != t->id && s.wclk > t->vc.c[s.wtid]) { race = true; other = s.wtid; }
    if (write) {
      for (int i = 0; i < MAXT && !race; ++i)
        if (i != t->id && s.rclk[i] > t->vc.c[i]) { race = true; other = i; }
      s.wtid = t->id;
      s.wclk = t->vc.c[t->id];   // current epoch (>= 1); a release publishes it, then starts the next epoch
      memset(s.rclk, 0, sizeof(s.rclk));
    } else {
      s.rclk[t->id] = t->vc.c[t->id];   // 0 = no read yet
    }
    if (race) {
      ++g_races;
      tracef("%d race %s %s+%lu with t%d\n", t->id, write ? "write" : "read", pl->name.c_str(), (unsigned long)(w - pl->lo), other);
    }
  }
}

// ---------------------------------------------------------------------------------------------
struct Sentinel {
  Thread* t = nullptr;
  ~Sentinel() {
    if (!t) return;
    // last thread-local destructor of this thread: babylon's own TLS destructors (thread-id
    // release, ...) have already executed their atomics under the scheduler
    Thread* me = t;
    me->vc.c[me->id]++;
    me->st = DONE;
    tracef("%d exit\n", me->id);
    for (Thread* o : g_threads)
      if (o->st == BLK_JOIN && o->wait_addr == me) { o->st = RUN; o->vc.join(me->vc); if (g_view) vt(o).cur.join(vt(me).cur); }
    reschedule(true);
    t_self = nullptr;
  }
};
thread_local Sentinel t_sentinel;

void* trampoline(void* p) {
  Thread* t = (Thread*)p;
  t_self = t;
  t_sentinel.t = t;
  wait_go(t);
  return t->fn(t->arg);
}

}  // namespace

// =============================================================================================
// public API
extern "C" {

void vrt_name(const void* addr, size_t len, const char* name) {
  g_named.push_back({(uintptr_t)addr, (uintptr_t)addr + len, name});
}
void vrt_namef(const void* addr, size_t len, const char* fmt, ...) {
  char buf[128];
  va_list ap;
  va_start(ap, fmt);
  vsnprintf(buf, sizeof(buf), fmt, ap);
  va_end(ap);
  vrt_name(addr, len, buf);
}
void vrt_unname_all() {
  g_named.clear();
  g_payload.clear();
}
void vrt_payload(const void* addr, size_t len, const char* name) {
  g_payload.push_back({(uintptr_t)addr, (uintptr_t)addr + len, name});
}
void vrt_set_resolver(bool (*fn)(const void* addr, char* out, size_t cap)) { g_resolver = fn; }
void vrt_set_picker(int (*fn)(int, const int*, int, int)) { g_picker = fn; }
uint64_t vrt_stale_reads() { return g_stale_reads; }
void vrt_payload_sched(int on) { g_payload_sched = on != 0; }
void vrt_payload_trace(int on) { g_payload_trace = on != 0; }
void vrt_event(const char* fmt, ...) {
  char buf[400];
  va_list ap;
  va_start(ap, fmt);
  vsnprintf(buf, sizeof(buf), fmt, ap);
  va_end(ap);
  tracef("%d ev %s\n", t_self ? t_self->id : 0, buf);
}

void vrt_begin(uint64_t seed) {
  for (Thread* t : g_threads) delete t;
  g_threads.clear();
  g_trace.clear();
  g_shadow.clear();
  g_loc_clock.clear();
  g_mutex.clear();
  g_sc_clock = VC();
  g_cells.clear();
  g_mutex_view.clear();
  g_sc_view = View();
  g_stale_reads = 0;
  g_clock = 1000000000ull;
  g_steps = g_switches = g_races = 0;
  g_low_prio = 0;
  g_rng.seed(seed);
  const char* e;
  if ((e = getenv("VRT_STICK"))) g_stick = atoi(e);
  if ((e = getenv("VRT_STRATEGY"))) g_strategy = !strcmp(e, "pct");
  if ((e = getenv("VRT_STEP_LIMIT"))) g_step_limit = strtoull(e, nullptr, 10);
  if ((e = getenv("VRT_CAS_WEAK_FAIL"))) g_cas_weak_fail = atoi(e);
  g_futex_eintr = (e = getenv("VRT_FUTEX_EINTR")) ? atoi(e) : 0;
  if ((e = getenv("VRT_TRACE_ALL"))) g_trace_all = atoi(e) != 0;
  if ((e = getenv("VRT_MEM"))) g_view = !strcmp(e, "view");
  if ((e = getenv("VRT_STALE"))) g_stale = atoi(e);
  g_tick_ns = (e = getenv("VRT_TICK_NS")) ? strtoull(e, nullptr, 10) : 0;
  // vary the stickiness per seed so both long runs and fine interleavings are explored
  if (!getenv("VRT_STICK")) g_stick = (int[]) {0, 30, 60, 85, 95}[g_rng.below(5)];
  g_change_points.clear();
  if (g_strategy == 1) {
    int d = 1 + (int)g_rng.below(3);
    for (int i = 0; i < d; ++i) g_change_points.push_back(1 + g_rng.below(400));
  }
  Thread* m = new Thread;
  m->id = 0;
  m->prio = 1000;
  m->vc.c[0] = 1;
  g_threads.push_back(m);
  t_self = m;
  g_cur = m;
  g_on = true;
}

void vrt_end() {
  g_on = false;
  t_self = nullptr;
}

int vrt_tid() { return controlled() ? t_self->id : -1; }
const char* vrt_trace() { return g_trace.c_str(); }
void vrt_dump(FILE* out) {
  fputs(g_trace.c_str(), out);
  fputs("END\n", out);
  fflush(out);
}
uint64_t vrt_steps() { return g_steps; }
uint64_t vrt_switches() { return g_switches; }
uint64_t vrt_now() { return g_clock; }
uint64_t vrt_races() { return g_races; }
int vrt_live() {
  int n = 0;
  for (Thread* t : g_threads)
    if (t->st != DONE) ++n;
  return n;
}
void vrt_trace_clock(int on) { g_trace_clock = on != 0; }
void vrt_trace_yield(int on) { g_trace_yield = on != 0; }
void vrt_yield_time(int on) { g_yield_time = on != 0; }
void vrt_clock_hook(void (*fn)(int, uint64_t)) { g_clock_hook = fn; }
void vrt_trace_sleep(int on) { g_trace_sleep = on != 0; }

// =============================================================================================
// TSan ABI: atomics
#define VRT_ATOMIC(N, T, U)                                                                                     \
  T __tsan_atomic##N##_load(const volatile T* a, int mo) {                                                    \
    if (!controlled()) return __atomic_load_n(a, __ATOMIC_SEQ_CST);                                           \
    reschedule(false);                                                                                        \
    T v;                                                                                                      \
    if (g_view) { v = (T)view_load(t_self, a, sizeof(T), mo); }                                               \
    else { v = __atomic_load_n(a, __ATOMIC_SEQ_CST); hb_load(t_self, a, mo); }                                \
    char nm[160];                                                                                             \
    if (loc_name(a, nm, sizeof nm)) tracef("%d ld %s %s %llu\n", t_self->id, nm, mo_name(mo), (unsigned long long)(U)v); \
    return v;                                                                                                 \
  }                                                                                                           \
  void __tsan_atomic##N##_store(volatile T* a, T v, int mo) {                                                 \
    if (!controlled()) { __atomic_store_n(a, v, __ATOMIC_SEQ_CST); return; }                                  \
    reschedule(false);                                                                                        \
    if (g_view) { cell_sync((uintptr_t)a & ~7ull, byte_mask((uintptr_t)a & 7, sizeof(T))); }                  \
    __atomic_store_n(a, v, __ATOMIC_SEQ_CST);                                                                 \
    if (g_view) view_wrote(t_self, a, sizeof(T), mo, false); else hb_store(t_self, a, mo, false);             \
    char nm[160];                                                                                             \
    if (loc_name(a, nm, sizeof nm)) tracef("%d st %s %s %llu\n", t_self->id, nm, mo_name(mo), (unsigned long long)(U)v); \
  }                                                                                                           \
  T __tsan_atomic##N##_exchange(volatile T* a, T v, int mo) {                                                 \
    if (!controlled()) return __atomic_exchange_n(a, v, __ATOMIC_SEQ_CST);                                    \
    reschedule(false);                                                                                        \
    if (g_view) { cell_sync((uintptr_t)a & ~7ull, byte_mask((uintptr_t)a & 7, sizeof(T))); view_read_latest(t_self, a, sizeof(T), mo); } \
    T old = __atomic_exchange_n(a, v, __ATOMIC_SEQ_CST);                                                      \
    if (g_view) view_wrote(t_self, a, sizeof(T), mo, true);                                                   \
    else { hb_load(t_self, a, mo); hb_store(t_self, a, mo, true); }                                           \
    char nm[160];                                                                                             \
    if (loc_name(a, nm, sizeof nm))                                                                           \
      tracef("%d xchg %s %s %llu %llu\n", t_self->id, nm, mo_name(mo), (unsigned long long)(U)old, (unsigned long long)(U)v);        \
    return old;                                                                                               \
  }                                                                                                           \
  static int vrt_cas##N(volatile T* a, T* c, T v, int mo, int fmo, bool weak) {                               \
    if (!controlled()) return __atomic_compare_exchange_n(a, c, v, false, __ATOMIC_SEQ_CST, __ATOMIC_SEQ_CST); \
    reschedule(false);                                                                                        \
    T expected = *c;                                                                                          \
    if (g_view) cell_sync((uintptr_t)a & ~7ull, byte_mask((uintptr_t)a & 7, sizeof(T)));                      \
    T cur = __atomic_load_n(a, __ATOMIC_SEQ_CST);                                                             \
    int ok;                                                                                                   \
    if (weak && cur == expected && g_cas_weak_fail > 0 && g_rng.below(g_cas_weak_fail) == 0) {                \
      ok = 0; /* spurious failure: value unchanged, expected unchanged */                                     \
    } else {                                                                                                  \
      ok = __atomic_compare_exchange_n(a, c, v, false, __ATOMIC_SEQ_CST, __ATOMIC_SEQ_CST);                   \
    }                                                                                                         \
    if (g_view) { view_read_latest(t_self, a, sizeof(T), ok ? mo : fmo); if (ok) view_wrote(t_self, a, sizeof(T), mo, true); } \
    else if (ok) { hb_load(t_self, a, mo); hb_store(t_self, a, mo, true); } else { hb_load(t_self, a, fmo); } \
    char nm[160];                                                                                             \
    if (loc_name(a, nm, sizeof nm))                                                                           \
      tracef("%d cas%s %s %s %s %llu %llu %d %llu\n", t_self->id, weak ? "w" : "", nm, mo_name(mo), mo_name(fmo), \
             (unsigned long long)(U)expected, (unsigned long long)(U)v, ok, (unsigned long long)(U)cur);                                          \
    return ok;                                                                                                \
  }                                                                                                           \
  int __tsan_atomic##N##_compare_exchange_strong(volatile T* a, T* c, T v, int mo, int fmo) {                 \
    return vrt_cas##N(a, c, v, mo, fmo, false);                                                               \
  }                                                                                                           \
  int __tsan_atomic##N##_compare_exchange_weak(volatile T* a, T* c, T v, int mo, int fmo) {                   \
    return vrt_cas##N(a, c, v, mo, fmo, true);                                                                \
  }                                                                                                           \
  T __tsan_atomic##N##_compare_exchange_val(volatile T* a, T c, T v, int mo, int fmo) {                       \
    vrt_cas##N(a, &c, v, mo, fmo, false);                                                                     \
    return c;                                                                                                 \
  }
#define VRT_RMW(N, T, U, NAME, BUILTIN)                                                                         \
  T __tsan_atomic##N##_fetch_##NAME(volatile T* a, T v, int mo) {                                             \
    if (!controlled()) return BUILTIN(a, v, __ATOMIC_SEQ_CST);                                                \
    reschedule(false);                                                                                        \
    if (g_view) { cell_sync((uintptr_t)a & ~7ull, byte_mask((uintptr_t)a & 7, sizeof(T))); view_read_latest(t_self, a, sizeof(T), mo); } \
    T old = BUILTIN(a, v, __ATOMIC_SEQ_CST);                                                                  \
    if (g_view) view_wrote(t_self, a, sizeof(T), mo, true);                                                   \
    else { hb_load(t_self, a, mo); hb_store(t_self, a, mo, true); }                                           \
    char nm[160];                                                                                             \
    if (loc_name(a, nm, sizeof nm))                                                                           \
      tracef("%d rmw " #NAME " %s %s %llu %llu\n", t_self->id, nm, mo_name(mo), (unsigned long long)(U)old, (unsigned long long)(U)v); \
    return old;                                                                                               \
  }
#define VRT_ALL(N, T, U)                    \
  VRT_ATOMIC(N, T, U)                        \
  VRT_RMW(N, T, U, add, __atomic_fetch_add)    \
  VRT_RMW(N, T, U, sub, __atomic_fetch_sub)    \
  VRT_RMW(N, T, U, and, __atomic_fetch_and)    \
  VRT_RMW(N, T, U, or, __atomic_fetch_or)      \
  VRT_RMW(N, T, U, xor, __atomic_fetch_xor)    \
  VRT_RMW(N, T, U, nand, __atomic_fetch_nand)

VRT_ALL(8, signed char, unsigned char)
VRT_ALL(16, short, unsigned short)
VRT_ALL(32, int, unsigned int)
VRT_ALL(64, long, unsigned long)

void __tsan_atomic_thread_fence(int mo) {
  if (!controlled()) { __atomic_thread_fence(__ATOMIC_SEQ_CST); return; }
  reschedule(false);
  __atomic_thread_fence(__ATOMIC_SEQ_CST);
  hb_fence(t_self, mo);
  if (g_view) view_fence(t_self, mo);
  tracef("%d fence %s\n", t_self->id, mo_name(mo));
}
void __tsan_atomic_signal_fence(int) {}

// plain accesses: only the payload race monitor looks at them
#define VRT_PLAIN(N)                                                          \
  void __tsan_read##N(void* a) { payload_access(a, N, false); }               \
  void __tsan_write##N(void* a) { payload_access(a, N, true); }               \
  void __tsan_unaligned_read##N(void* a) { payload_access(a, N, false); }     \
  void __tsan_unaligned_write##N(void* a) { payload_access(a, N, true); }     \
  void __tsan_read##N##_pc(void* a, void*) { payload_access(a, N, false); }   \
  void __tsan_write##N##_pc(void* a, void*) { payload_access(a, N, true); }
VRT_PLAIN(1)
VRT_PLAIN(2)
VRT_PLAIN(4)
VRT_PLAIN(8)
VRT_PLAIN(16)
void __tsan_read_range(void* a, unsigned long n) { payload_access(a, n, false); }
void __tsan_write_range(void* a, unsigned long n) { payload_access(a, n, true); }
void __tsan_read_range_pc(void* a, unsigned long n, void*) { payload_access(a, n, false); }
void __tsan_write_range_pc(void* a, unsigned long n, void*) { payload_access(a, n, true); }
void __tsan_init() {}
void __tsan_func_entry(void*) {}
void __tsan_func_exit() {}
void __tsan_vptr_update(void**, void*) {}
void __tsan_vptr_read(void**) {}
void __tsan_acquire(void*) {}
void __tsan_release(void*) {}
void __tsan_ignore_thread_begin() {}
void __tsan_ignore_thread_end() {}
void* __tsan_memcpy(void* d, const void* s, unsigned long n) { payload_access(s, n, false); payload_access(d, n, true); return memcpy(d, s, n); }
void* __tsan_memmove(void* d, const void* s, unsigned long n) { payload_access(s, n, false); payload_access(d, n, true); return memmove(d, s, n); }
void* __tsan_memset(void* d, int c, unsigned long n) { payload_access(d, n, true); return memset(d, c, n); }

// =============================================================================================
// threads
int pthread_create(pthread_t* th, const pthread_attr_t* attr, void* (*fn)(void*), void* arg) {
  static auto rp = real<int (*)(pthread_t*, const pthread_attr_t*, void* (*)(void*), void*)>("pthread_create");
  if (!controlled()) return rp(th, attr, fn, arg);
  if ((int)g_threads.size() >= MAXT) die("too-many-threads");
  Thread* t = new Thread;
  t->id = (int)g_threads.size();
  t->fn = fn;
  t->arg = arg;
  t->prio = (int)g_rng.below(900);
  t->vc = t_self->vc;
  t->vc.c[t->id] = 1;
  if (g_view) { vt(t).cur = vt(t_self).cur; vt(t).acq = vt(t).cur; vt(t).rel = vt(t).cur; }
  t_self->vc.c[t_self->id]++;
  g_threads.push_back(t);
  int rc = rp(th, attr, trampoline, t);
  if (rc != 0) die("pthread_create-failed");
  t->real_handle = *th;
  tracef("%d spawn %d\n", t_self->id, t->id);
  reschedule(false);
  return 0;
}

int pthread_join(pthread_t th, void** ret) {
  static auto rp = real<int (*)(pthread_t, void**)>("pthread_join");
  if (controlled()) {
    Thread* tgt = nullptr;
    for (Thread* t : g_threads)
      if (t->id != 0 && pthread_equal(t->real_handle, th)) tgt = t;
    if (tgt) {
      reschedule(false);
      if (tgt->st != DONE) block(BLK_JOIN, tgt, UINT64_MAX); else { t_self->vc.join(tgt->vc); if (g_view) vt(t_self).cur.join(vt(tgt).cur); }
      tracef("%d join %d\n", t_self->id, tgt->id);
    }
  }
  return rp(th, ret);
}

// ---- mutex / condvar emulation (std::mutex, std::condition_variable go through these)
int pthread_mutex_lock(pthread_mutex_t* m) {
  static auto rp = real<int (*)(pthread_mutex_t*)>("pthread_mutex_lock");
  if (!controlled()) return rp(m);
  reschedule(false);
  for (;;) {
    MutexSt& s = g_mutex[m];
    if (s.owner == nullptr || s.owner == t_self) {
      s.owner = t_self;
      s.count++;
      t_self->vc.join(s.clock);
      if (g_view) vt(t_self).cur.join(g_mutex_view[m]);
      char nm[160];
      if (loc_name(m, nm, sizeof nm)) tracef("%d lock %s\n", t_self->id, nm);
      return 0;
    }
    block(BLK_MUTEX, m, UINT64_MAX);
  }
}
int pthread_mutex_trylock(pthread_mutex_t* m) {
  static auto rp = real<int (*)(pthread_mutex_t*)>("pthread_mutex_trylock");
  if (!controlled()) return rp(m);
  reschedule(false);
  MutexSt& s = g_mutex[m];
  if (s.owner == nullptr) {
    s.owner = t_self;
    s.count = 1;
    t_self->vc.join(s.clock);
    return 0;
  }
  return EBUSY;
}
int pthread_mutex_unlock(pthread_mutex_t* m) {
  static auto rp = real<int (*)(pthread_mutex_t*)>("pthread_mutex_unlock");
  if (!controlled()) return rp(m);
  auto it = g_mutex.find(m);
  if (it == g_mutex.end() || it->second.owner != t_self) return rp(m);   // locked outside the section
  reschedule(false);
  MutexSt& s = it->second;
  if (--s.count == 0) {
    s.owner = nullptr;
    s.clock = t_self->vc;
    if (g_view) g_mutex_view[m] = vt(t_self).cur;
    t_self->vc.c[t_self->id]++;
    for (Thread* o : g_threads)
      if (o->st == BLK_MUTEX && o->wait_addr == m) o->st = RUN;
  }
  char nm[160];
  if (loc_name(m, nm, sizeof nm)) tracef("%d unlock %s\n", t_self->id, nm);
  return 0;
}

static int cond_wait_impl(pthread_cond_t* c, pthread_mutex_t* m, uint64_t deadline) {
  pthread_mutex_unlock(m);
  block(BLK_COND, c, deadline);
  bool to = t_self->timed_out;
  pthread_mutex_lock(m);
  return to ? ETIMEDOUT : 0;
}
int pthread_cond_wait(pthread_cond_t* c, pthread_mutex_t* m) {
  static auto rp = real<int (*)(pthread_cond_t*, pthread_mutex_t*)>("pthread_cond_wait");
  if (!controlled()) return rp(c, m);
  return cond_wait_impl(c, m, UINT64_MAX);
}
int pthread_cond_timedwait(pthread_cond_t* c, pthread_mutex_t* m, const struct timespec* ts) {
  static auto rp = real<int (*)(pthread_cond_t*, pthread_mutex_t*, const struct timespec*)>("pthread_cond_timedwait");
  if (!controlled()) return rp(c, m, ts);
  return cond_wait_impl(c, m, ts_ns(ts));
}
int pthread_cond_clockwait(pthread_cond_t* c, pthread_mutex_t* m, clockid_t clk, const struct timespec* ts) {
  static auto rp = real<int (*)(pthread_cond_t*, pthread_mutex_t*, clockid_t, const struct timespec*)>("pthread_cond_clockwait");
  if (!controlled()) return rp(c, m, clk, ts);
  return cond_wait_impl(c, m, ts_ns(ts));
}
int pthread_cond_signal(pthread_cond_t* c) {
  static auto rp = real<int (*)(pthread_cond_t*)>("pthread_cond_signal");
  if (!controlled()) return rp(c);
  reschedule(false);
  std::vector<Thread*> w;
  for (Thread* o : g_threads)
    if (o->st == BLK_COND && o->wait_addr == c) w.push_back(o);
  if (!w.empty()) {
    Thread* o = w[g_rng.below(w.size())];
    o->st = RUN;
    o->deadline = UINT64_MAX;
  }
  return 0;
}
int pthread_cond_broadcast(pthread_cond_t* c) {
  static auto rp = real<int (*)(pthread_cond_t*)>("pthread_cond_broadcast");
  if (!controlled()) return rp(c);
  reschedule(false);
  for (Thread* o : g_threads)
    if (o->st == BLK_COND && o->wait_addr == c) { o->st = RUN; o->deadline = UINT64_MAX; }
  return 0;
}

// ---- futex, yield, sleep, time
long syscall(long nr, ...) {
  va_list ap;
  va_start(ap, nr);
  long a = va_arg(ap, long), b = va_arg(ap, long), c = va_arg(ap, long), d = va_arg(ap, long), e = va_arg(ap, long),
       f = va_arg(ap, long);
  va_end(ap);
  if (nr == SYS_futex && controlled()) {
    int op = (int)b & ~(FUTEX_PRIVATE_FLAG | FUTEX_CLOCK_REALTIME);
    uint32_t* addr = (uint32_t*)a;
    char nm[160];
    bool named = loc_name(addr, nm, sizeof nm);
    if (op == FUTEX_WAIT || op == FUTEX_WAIT_BITSET) {
      reschedule(false);
      uint32_t cur = __atomic_load_n(addr, __ATOMIC_SEQ_CST);
      if (cur != (uint32_t)c) {
        if (named && g_trace_clock && d) tracef("%d fwait %s %u eagain %u to=%llu\n", t_self->id, nm, (uint32_t)c, cur, (unsigned long long)ts_ns((const struct timespec*)d));
        else
        if (named) tracef("%d fwait %s %u eagain %u\n", t_self->id, nm, (uint32_t)c, cur);
        errno = EAGAIN;
        return -1;
      }
      uint64_t dl = UINT64_MAX;
      const struct timespec* ts = (const struct timespec*)d;
      if (ts) dl = (op == FUTEX_WAIT) ? g_clock + ts_ns(ts) : ts_ns(ts);
      // opt-in (VRT_FUTEX_EINTR=<n>): one in n sleeping waits is interrupted like by a signal without SA_RESTART —
      // it returns -1/EINTR although nobody woke it and the word did not change: an untimed wait after a short
      // virtual delay, a timed wait after 1/4..3/4 of its timeout.  In the trace it looks like a spurious wake-up
      // (`fwoke loc` with no matching fwake).
      bool eintr = false;
      if (g_futex_eintr > 0 && g_rng.below(g_futex_eintr) == 0) {
        eintr = true;
        uint64_t span = ts ? (dl - g_clock) / 4 + g_rng.below((dl - g_clock) / 2 + 1) : 1 + g_rng.below(2000);
        dl = g_clock + span;
      }
      if (named && g_trace_clock && ts) tracef("%d fwait %s %u sleep to=%llu\n", t_self->id, nm, (uint32_t)c, (unsigned long long)ts_ns(ts));
      else
      if (named) tracef("%d fwait %s %u sleep\n", t_self->id, nm, (uint32_t)c);
      t_self->eintr_pending = eintr;
      block(BLK_FUTEX, addr, dl);
      eintr = t_self->eintr_pending;
      t_self->eintr_pending = false;
      if (t_self->timed_out && eintr) {
        if (named) tracef("%d fwoke %s\n", t_self->id, nm);
        errno = EINTR;
        return -1;
      }
      if (t_self->timed_out) {
        if (named) tracef("%d fwoke %s timeout\n", t_self->id, nm);
        errno = ETIMEDOUT;
        return -1;
      }
      if (named) tracef("%d fwoke %s\n", t_self->id, nm);
      return 0;
    }
    if (op == FUTEX_WAKE || op == FUTEX_WAKE_BITSET) {
      reschedule(false);
      int n = 0;
      std::vector<Thread*> w;
      for (Thread* o : g_threads)
        if (o->st == BLK_FUTEX && o->wait_addr == addr) w.push_back(o);
      // a waiter whose EINTR deadline has passed but which has not run yet is still woken by this call (the wake wins)
      for (Thread* o : g_threads)
        if (o->eintr_pending && o->st == RUN && o->timed_out && o->wait_addr == addr && n < (int)c) {
          o->timed_out = false;
          o->eintr_pending = false;
          ++n;
        }
      while (!w.empty() && n < (int)c) {
        size_t i = g_rng.below(w.size());
        w[i]->st = RUN;
        w[i]->deadline = UINT64_MAX;
        w.erase(w.begin() + i);
        ++n;
      }
      if (named) tracef("%d fwake %s %d %d\n", t_self->id, nm, (int)std::min<long>(c, 99), n);
      return n;
    }
  }
  long r = raw_syscall6(nr, a, b, c, d, e, f);
  if (r < 0 && r > -4096) {
    errno = (int)-r;
    return -1;
  }
  return r;
}

int sched_yield() {
  if (!controlled()) return (int)raw_syscall6(SYS_sched_yield, 0, 0, 0, 0, 0, 0);
  t_self->prio = --g_low_prio;
  if (g_yield_time) {
    // opt-in: the yielding thread is the only runnable one and somebody sleeps with a deadline ->
    // time passes (a yield-spin waiting for a usleep-spinning thread makes progress)
    bool others = false;
    uint64_t best = UINT64_MAX;
    for (Thread* t : g_threads) {
      if (t != t_self && t->st == RUN) others = true;
      if (t != t_self && t->st != RUN && t->st != DONE) best = std::min(best, t->deadline);
    }
    if (!others && best != UINT64_MAX) g_clock = std::max(g_clock, best);
  }
  reschedule(true);
  if (g_trace_yield) tracef("%d ev yield\n", t_self->id);
  return 0;
}

static void vsleep(uint64_t ns) {
  if (g_trace_sleep) tracef("%d sleep %llu\n", t_self->id, (unsigned long long)ns);
  t_self->prio = --g_low_prio;
  block(SLEEPING, nullptr, g_clock + std::max<uint64_t>(ns, 1));
}
int usleep(useconds_t us) {
  static auto rp = real<int (*)(useconds_t)>("usleep");
  if (!controlled()) return rp(us);
  vsleep((uint64_t)us * 1000);
  return 0;
}
int nanosleep(const struct timespec* req, struct timespec* rem) {
  static auto rp = real<int (*)(const struct timespec*, struct timespec*)>("nanosleep");
  if (!controlled()) return rp(req, rem);
  vsleep(ts_ns(req));
  return 0;
}
int clock_nanosleep(clockid_t clk, int flags, const struct timespec* req, struct timespec* rem) {
  static auto rp = real<int (*)(clockid_t, int, const struct timespec*, struct timespec*)>("clock_nanosleep");
  if (!controlled()) return rp(clk, flags, req, rem);
  uint64_t t = ts_ns(req);
  if (flags & TIMER_ABSTIME) t = t > g_clock ? t - g_clock : 0;
  vsleep(t);
  return 0;
}
int clock_gettime(clockid_t clk, struct timespec* ts) {
  if (!controlled()) {
    long r = raw_syscall6(SYS_clock_gettime, clk, (long)ts, 0, 0, 0, 0);
    return r < 0 ? -1 : 0;
  }
  g_clock += 1000;   // reading the clock takes time, so clock-polling loops make progress
  ts->tv_sec = g_clock / 1000000000ull;
  ts->tv_nsec = g_clock % 1000000000ull;
  if (g_trace_clock) tracef("%d ev clock %llu\n", t_self->id, (unsigned long long)g_clock);
  // the value handed back is already fixed; a hook that sleeps models a thread that is descheduled
  // right after reading the clock
  if (g_clock_hook) g_clock_hook(t_self->id, g_clock);
  return 0;
}

}  // extern "C"
