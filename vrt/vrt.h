// VRT — verification runtime for the concurrent correspondence checks (DESIGN.md 3.3).
//
// Harness + babylon sources are compiled with `g++ -fsanitize=thread -c`, which turns every
// std::atomic operation (with the memory order written in the source), every fence and every plain
// access into a call `__tsan_*`; the executable is linked WITHOUT -fsanitize=thread against
// vrt.cpp, which defines those symbols itself, plus pthread_create/join, pthread_mutex_*,
// pthread_cond_*, syscall(SYS_futex), sched_yield, usleep/nanosleep and clock_gettime.
// Between vrt_begin() and vrt_end() exactly one thread runs at a time; every intercepted call is
// a scheduling point whose choice comes from a seeded PRNG; time is virtual (VRT_TICK_NS=<n>, default 0:
// additionally n ns pass at every scheduling point, so a sleeper wakes although other threads keep running); "all threads
// blocked, no timed sleeper" is a deadlock verdict.  Operations on locations named with
// vrt_name() are appended to a trace (one line per action) that the Lean model replays in
// lock-step.  No source hooks in /repo are needed.
// Environment knobs: VRT_MEM=view (stale reads allowed by the release/acquire view model),
// VRT_TICK_NS=<n>, VRT_FUTEX_EINTR=<n> (one in n sleeping FUTEX_WAITs returns -1/EINTR without a
// wake-up or a change of the word: the model's spurious wake-up; traced as `fwoke` without `fwake`).
#pragma once
#include <cstddef>
#include <cstdint>
#include <cstdio>

extern "C" {
// name a memory range; accesses inside it appear in the trace as `name` or `name+off`
void vrt_name(const void* addr, size_t len, const char* name);
void vrt_namef(const void* addr, size_t len, const char* fmt, ...);
void vrt_unname_all();
// register a payload range for the happens-before race monitor (plain accesses)
void vrt_payload(const void* addr, size_t len, const char* name);
// opt-in (default off): make every plain access to a vrt_payload range a scheduling point, so
// other threads can interleave between two plain accesses (use-after-release windows)
void vrt_payload_sched(int on);
// opt-in (default off): plain accesses to vrt_payload ranges that also carry a vrt_name appear in
// the trace as `<tid> pwr <loc> <size>` / `<tid> prd <loc> <size> <value>`; a value that points into
// a named range is printed as `@<name>[+off]`, a small value in decimal, anything else as `?`
void vrt_payload_trace(int on);
// fallback name resolver consulted when no vrt_name range matches (locations created during the run)
void vrt_set_resolver(bool (*fn)(const void* addr, char* out, size_t cap));
// VRT_MEM=view (environment): loads may return stale values allowed by the release/acquire view
// model (see vrt.cpp); number of stale reads served in the last section:
uint64_t vrt_stale_reads();
// directed scheduling (default: none): at every scheduling point `fn(cur_tid, runnable_tids, n,
// must_switch)` may return the index (0..n-1) of the runnable thread to run next, or -1 to let the
// seeded strategy choose; cur_tid is the calling thread (it may be blocked, then it is not in the
// list).  Cleared by passing nullptr.  Used to build one specific interleaving (C14 version wrap).
void vrt_set_picker(int (*fn)(int cur_tid, const int* runnable_tids, int n, int must_switch));
// harness-level event attributed to the calling thread (printf style)
void vrt_event(const char* fmt, ...);
// start / stop the controlled section (call from the main thread; all threads created inside
// must be joined before vrt_end)
void vrt_begin(uint64_t seed);
void vrt_end();
// id of the calling thread inside the controlled section (main = 0), -1 outside
int vrt_tid();
// trace of the last controlled section
const char* vrt_trace();
void vrt_dump(FILE* out);
// number of scheduling points / context switches of the last section
uint64_t vrt_steps();
uint64_t vrt_switches();
// virtual clock (ns)
uint64_t vrt_now();
// number of races found by the payload monitor in the last section
uint64_t vrt_races();
// number of threads of the controlled section (including the caller) that have not finished yet;
// lets a harness wait for detached threads before vrt_end()
int vrt_live();
// opt-in (default off): trace every controlled clock_gettime as `<tid> ev clock <ns>` and append
// ` to=<ns>` (relative timeout) to the `fwait` line of a timed futex wait
void vrt_trace_clock(int on);
// opt-in (default off): trace every controlled sched_yield as `<tid> ev yield`
void vrt_trace_yield(int on);
// opt-in (default off): a sched_yield executed while no other thread is runnable advances the virtual
// clock to the earliest pending deadline, so a yield-spin that waits for a usleep-spinning thread
// makes progress instead of running into the step limit
void vrt_yield_time(int on);
// opt-in (default none): `fn(tid, ns)` is called at the end of every controlled clock_gettime, after the
// value returned to the caller has been fixed; the hook may call usleep/nanosleep to stall the
// calling thread in virtual time right after its clock read (pass nullptr to remove)
void vrt_clock_hook(void (*fn)(int, uint64_t));
// opt-in (default off): trace every controlled usleep / nanosleep as `<tid> sleep <ns>` (emitted before
// the thread gives up the baton)
void vrt_trace_sleep(int on);
}
